package main

// Independent decoders for the encoder family: encoding/json (token level, so that member order
// and duplicates are seen) and a small logfmt tokenizer + strconv.Unquote.  They project the
// payload to the abstract observation of spec/EncoderTrace.tla; they share no code with the
// library under test.

import (
	"bytes"
	"encoding/base64"
	"encoding/json"
	"fmt"
	"math"
	"strconv"
	"strings"
	"time"
	"unicode/utf8"

	"github.com/hedzr/logg/slog"
)

// ---------------------------------------------------------------- JSON

type encJV struct {
	t    byte // 'o' object, 'a' array, 's' string, 'n' number, 'b' bool, 'z' null
	keys []string
	vals []*encJV
	s    string
	b    bool
}

func encParseJSON(dec *json.Decoder) (*encJV, error) {
	tok, err := dec.Token()
	if err != nil {
		return nil, err
	}
	switch t := tok.(type) {
	case json.Delim:
		switch t {
		case '{':
			v := &encJV{t: 'o'}
			for dec.More() {
				kt, err := dec.Token()
				if err != nil {
					return nil, err
				}
				k, ok := kt.(string)
				if !ok {
					return nil, fmt.Errorf("non-string key")
				}
				x, err := encParseJSON(dec)
				if err != nil {
					return nil, err
				}
				v.keys = append(v.keys, k)
				v.vals = append(v.vals, x)
			}
			if _, err := dec.Token(); err != nil {
				return nil, err
			}
			return v, nil
		case '[':
			v := &encJV{t: 'a'}
			for dec.More() {
				x, err := encParseJSON(dec)
				if err != nil {
					return nil, err
				}
				v.vals = append(v.vals, x)
			}
			if _, err := dec.Token(); err != nil {
				return nil, err
			}
			return v, nil
		}
		return nil, fmt.Errorf("unexpected delimiter %v", t)
	case string:
		return &encJV{t: 's', s: t}, nil
	case json.Number:
		return &encJV{t: 'n', s: t.String()}, nil
	case bool:
		return &encJV{t: 'b', b: t}, nil
	case nil:
		return &encJV{t: 'z'}, nil
	}
	return nil, fmt.Errorf("unexpected token %T", tok)
}

var encPlaceholders = map[string]bool{"<nil>": true, "nil": true, "null": true, "(nil)": true, "<null>": true, "": true}

func encFloatOf(v any) (float64, bool) {
	switch z := v.(type) {
	case float32:
		return float64(z), true
	case float64:
		return z, true
	}
	return 0, false
}

func encIntText(v any) (string, bool) {
	switch z := v.(type) {
	case int:
		return strconv.FormatInt(int64(z), 10), true
	case int8:
		return strconv.FormatInt(int64(z), 10), true
	case int16:
		return strconv.FormatInt(int64(z), 10), true
	case int32:
		return strconv.FormatInt(int64(z), 10), true
	case int64:
		return strconv.FormatInt(z, 10), true
	case uint:
		return strconv.FormatUint(uint64(z), 10), true
	case uint8:
		return strconv.FormatUint(uint64(z), 10), true
	case uint16:
		return strconv.FormatUint(uint64(z), 10), true
	case uint32:
		return strconv.FormatUint(uint64(z), 10), true
	case uint64:
		return strconv.FormatUint(z, 10), true
	}
	return "", false
}

func encSameFloat(a, b float64) bool { return a == b || (math.IsNaN(a) && math.IsNaN(b)) }

// encTextEq: does the decimal / textual rendering `s` denote exactly the concrete value v of `kind`?
func encTextEq(kind string, v any, s string) bool {
	switch kind {
	case "int", "uint":
		want, _ := encIntText(v)
		return s == want
	case "float":
		f, _ := encFloatOf(v)
		g, err := strconv.ParseFloat(s, 64)
		return err == nil && encSameFloat(f, g)
	case "bool":
		return s == strconv.FormatBool(v.(bool))
	case "complex":
		var want complex128
		switch z := v.(type) {
		case complex64:
			want = complex128(z)
		case complex128:
			want = z
		}
		g, err := strconv.ParseComplex(s, 128)
		return err == nil && encSameFloat(real(g), real(want)) && encSameFloat(imag(g), imag(want))
	case "duration":
		d, err := time.ParseDuration(s)
		return err == nil && d == v.(time.Duration)
	case "time":
		for _, lay := range []string{time.RFC3339Nano, "2006-01-02 15:04:05.999999999 -0700 MST", "2006-01-02T15:04:05.999999999Z0700"} {
			if t, err := time.Parse(lay, s); err == nil {
				return t.Equal(v.(time.Time))
			}
		}
		return false
	case "nil":
		return encPlaceholders[s]
	}
	return false
}

// encMatchJSON: (representation tag, value preserved?) of a decoded JSON value against one input node
func encMatchJSON(n *encNode, kind string, conc any, text string, j *encJV) (string, bool) {
	switch kind {
	case "nil":
		if j.t == 'z' {
			return "null", true
		}
		if j.t == 's' {
			return "placeholder", encPlaceholders[j.s]
		}
	case "int", "uint", "float":
		if j.t == 'n' {
			if kind == "float" {
				return "number", encTextEq(kind, conc, j.s)
			}
			// any JSON spelling of the same integer
			want, _ := encIntText(conc)
			if j.s == want {
				return "number", true
			}
			return "number", false
		}
		if j.t == 's' {
			return "numstring", encTextEq(kind, conc, j.s)
		}
	case "bool":
		if j.t == 'b' {
			return "bool", j.b == conc.(bool)
		}
	case "complex", "time":
		if j.t == 's' {
			return "string", encTextEq(kind, conc, j.s)
		}
	case "duration":
		if j.t == 's' {
			return "string", encTextEq(kind, conc, j.s)
		}
		if j.t == 'n' {
			return "number", j.s == strconv.FormatInt(int64(conc.(time.Duration)), 10)
		}
	case "error":
		if j.t == 's' {
			return "string", j.s == text
		}
		if j.t == 'o' {
			for i, k := range j.keys {
				if (k == "message" || k == "msg" || k == "error") && j.vals[i].t == 's' {
					return "object", j.vals[i].s == text
				}
			}
			return "object", false
		}
	case "string", "stringer", "textm":
		if j.t == 's' {
			return "string", j.s == text
		}
	case "bytes":
		if j.t == 's' {
			if j.s == text {
				return "string", true
			}
			if b, err := base64.StdEncoding.DecodeString(j.s); err == nil && string(b) == text {
				return "string", true
			}
			return "string", false
		}
	case "fallback":
		switch j.t {
		case 's':
			return "string", strings.Contains(j.s, text)
		case 'o':
			return "object", true
		case 'a':
			return "array", true
		}
	default:
		if ek, ok := encSliceElem[kind]; ok && j.t == 'a' {
			if len(j.vals) != len(n.elem) {
				return "array", false
			}
			for i, e := range n.elem {
				et := ""
				if s, ok := e.(string); ok {
					et = s
				}
				if _, ok := encMatchJSON(n, ek, e, et, j.vals[i]); !ok {
					return "array", false
				}
			}
			return "array", true
		}
	}
	return encJSONRep(j), false
}

func encJSONRep(j *encJV) string {
	switch j.t {
	case 'o':
		return "object"
	case 'a':
		return "array"
	case 's':
		return "string"
	case 'n':
		return "number"
	case 'b':
		return "bool"
	}
	return "null"
}

// encKeyOf maps a decoded key back to its identity: exact concrete key, else by its "kNN" prefix
func (r *encRun) keyOf(k string) (id int, exact bool) {
	if id, ok := r.keyID[k]; ok {
		return id, true
	}
	if len(k) >= 3 && k[0] == 'k' {
		if n, err := strconv.Atoi(k[1:3]); err == nil {
			return n, false
		}
	}
	return -1, false
}

func (r *encRun) jsonMembers(keys []string, vals []*encJV, path []int) []map[string]any {
	out := []map[string]any{}
	for i, k := range keys {
		id, exact := r.keyOf(k)
		p := append(append([]int(nil), path...), id)
		cands := r.nodesAt[encPathKey(p)]
		m := map[string]any{"k": id, "kx": exact, "rep": encJSONRep(vals[i]), "vs": []int{}, "sub": []map[string]any{}}
		vs := []int{}
		isGroup := false
		for _, n := range cands {
			if n.Kind == "group" {
				isGroup = isGroup || vals[i].t == 'o'
				continue
			}
			if rep, ok := encMatchJSON(n, n.Kind, n.conc, n.text, vals[i]); ok {
				vs = append(vs, n.V)
				m["rep"] = rep
			} else if len(vs) == 0 {
				m["rep"] = rep
			}
		}
		if isGroup { // an object where a group is possible: describe its members too, the specification picks
			m["rep"] = "object"
			m["sub"] = r.jsonMembers(vals[i].keys, vals[i].vals, p)
		}
		m["vs"] = vs
		if len(vs) == 0 && !(isGroup) {
			r.unmatched = append(r.unmatched, fmt.Sprintf("%q: decoded %s %.80q against %d candidate(s)", k, encJSONRep(vals[i]), vals[i].s, len(cands)))
		}
		out = append(out, m)
	}
	return out
}

var encReserved = map[string]bool{"time": true, "logger": true, "level": true, "msg": true, "caller": true}

// encSafetyFiles: what the library's documented path hardening (slog.Safety, evaluated under the
// flags the record was formatted with) makes of the file the runtime reports for the call site.
// The hardening walks a Go map; should two of its entries apply to one path the outcome depends on
// the iteration order (C18's business) - every outcome seen in a few evaluations is accepted.
func encSafetyFiles(file string) []string {
	out := []string{slog.Safety(file)}
	for i := 0; i < 6; i++ {
		f := slog.Safety(file)
		dup := false
		for _, x := range out {
			dup = dup || x == f
		}
		if !dup {
			out = append(out, f)
		}
	}
	return out
}

// encCallerOK: (line and function are those of the call site, the file is EXACTLY the hardened file
// of the call site).
func encCallerOK(site encSite, file string, line int, fn string) (bool, bool) {
	lineOK := line == site.line
	if site.lineHi > 0 { // the call sits somewhere inside a function whose first / last line are known
		lineOK = line >= site.line && line <= site.lineHi
	}
	fileOK := false
	for _, f := range encSafetyFiles(site.file) {
		fileOK = fileOK || f == file
	}
	return lineOK && fn != "" && strings.HasSuffix(site.fn, fn[strings.LastIndex(fn, "/")+1:]), fileOK
}

func encObsJSON(r *encRun, payload []byte, site encSite) map[string]any {
	o := map[string]any{"nl": bytes.Count(payload, []byte("\n")), "endnl": bytes.HasSuffix(payload, []byte("\n")),
		"valid": false, "top": []string{}, "msgrt": false, "namert": false, "lvl": false, "callerok": false, "cfilert": false,
		"members": []map[string]any{}}
	body := bytes.TrimSuffix(payload, []byte("\n"))
	dec := json.NewDecoder(bytes.NewReader(body))
	dec.UseNumber()
	root, err := encParseJSON(dec)
	if err != nil || root.t != 'o' {
		return o
	}
	if _, err := dec.Token(); err == nil || dec.More() { // anything after the object = a second value
		return o
	}
	if !json.Valid(body) {
		return o
	}
	o["valid"] = true
	top := []string{}
	var akeys []string
	var avals []*encJV
	// a decoder keeps ONE member per name: how many names of the record's object occur more than once
	seen := map[string]int{}
	dups := 0
	for _, k := range root.keys {
		seen[k]++
		if seen[k] == 2 {
			dups++
		}
	}
	o["dups"] = dups
	// `logger` is no reserved name of C04: when the record carries a top-level attribute keyed logger, the member
	// that holds the logger's name (the first one that does) is the built-in one, every other one the attribute
	userLogger := len(r.nodesAt[encPathKey([]int{97})]) > 0
	builtinLogger := false
	for i, k := range root.keys {
		v := root.vals[i]
		isAttr := !encReserved[k]
		if k == "logger" && userLogger {
			if r.c.Name.Has && !builtinLogger && v.t == 's' && v.s == r.name {
				builtinLogger = true
			} else {
				isAttr = true
			}
		}
		if isAttr {
			if id, _ := r.keyOf(k); id >= 0 {
				top = append(top, "attr")
			} else {
				top = append(top, "unknown")
			}
			akeys = append(akeys, k)
			avals = append(avals, v)
			continue
		}
		top = append(top, k)
		switch k {
		case "msg":
			o["msgrt"] = v.t == 's' && v.s == r.msg
		case "logger":
			o["namert"] = v.t == 's' && v.s == r.name
		case "level":
			o["lvl"] = v.t == 's' && v.s == slog.Level(r.c.Sev).String()
			o["lvltext"] = v.s // raw text for the history component (removed before the trace is written)
		case "time":
			if v.t != 's' || v.s == "" {
				top[len(top)-1] = "unknown"
			}
		case "caller":
			if v.t == 'o' {
				var file, fn string
				line := -1
				for j, ck := range v.keys {
					switch ck {
					case "file":
						file = v.vals[j].s
					case "function":
						fn = v.vals[j].s
					case "line":
						line, _ = strconv.Atoi(v.vals[j].s)
					}
				}
				o["callerok"], o["cfilert"] = encCallerOK(site, file, line, fn)
			}
		}
	}
	o["top"] = top
	o["members"] = r.jsonMembers(akeys, avals, nil)
	return o
}

// ---------------------------------------------------------------- logfmt

type encTok struct {
	rep   string // "quoted", "bare", "list"
	text  string // unquoted text (quoted) / raw text (bare)
	elems []encTok
}

type encPair struct {
	key   string
	noKey bool
	tok   encTok
}

// encScanValue reads one value at s[i:]; stop bytes end a bare value.
func encScanValue(s string, i int, stops string, lenient bool) (encTok, int, bool) {
	if i < len(s) && s[i] == '"' {
		j := i + 1
		for j < len(s) && s[j] != '"' {
			if s[j] == '\\' {
				j++
			}
			j++
		}
		if j >= len(s) {
			return encTok{}, i, false
		}
		raw := s[i : j+1]
		txt, err := strconv.Unquote(raw)
		if err != nil {
			return encTok{}, i, false
		}
		return encTok{rep: "quoted", text: txt}, j + 1, true
	}
	if i < len(s) && s[i] == '[' {
		t := encTok{rep: "list"}
		j := i + 1
		if j < len(s) && s[j] == ']' {
			return t, j + 1, true
		}
		for {
			e, nj, ok := encScanValue(s, j, ",] ", lenient)
			if !ok || e.rep == "list" {
				return encTok{}, i, false
			}
			t.elems = append(t.elems, e)
			j = nj
			if j < len(s) && s[j] == ',' {
				j++
				continue
			}
			if j < len(s) && s[j] == ']' {
				return t, j + 1, true
			}
			return encTok{}, i, false
		}
	}
	j := i
	for j < len(s) && !strings.ContainsRune(stops, rune(s[j])) {
		if !lenient && (s[j] == '"' || s[j] < 0x20 || s[j] == 0x7f) {
			return encTok{}, i, false // a bare value may not carry quotes or control bytes
		}
		j++
	}
	return encTok{rep: "bare", text: s[i:j]}, j, true
}

// encScanToken reads one value the way a logfmt reader does: a double-quoted string, or a BARE value that ends
// at the next blank.  The text of a bare token that starts with '[' must read as a list [e1,...,en] as a whole
// (rep "list"); any other bare token may not carry quotes or control bytes.
func encScanToken(s string, i int) (encTok, int, bool) {
	if i < len(s) && s[i] == '"' {
		return encScanValue(s, i, " ", false)
	}
	j := i
	for j < len(s) && s[j] != ' ' {
		j++
	}
	text := s[i:j]
	if strings.HasPrefix(text, "[") {
		if t, ok := encListOf(text); ok {
			return t, j, true
		}
		return encTok{}, i, false
	}
	for k := 0; k < len(text); k++ {
		if text[k] == '"' || text[k] < 0x20 || text[k] == 0x7f {
			return encTok{}, i, false
		}
	}
	return encTok{rep: "bare", text: text}, j, true
}

// encListOf: the WHOLE text reads [e1,...,en], every element a quoted string or a bare run.
func encListOf(text string) (encTok, bool) {
	if !strings.HasPrefix(text, "[") {
		return encTok{}, false
	}
	t, n, ok := encScanValue(text, 0, " ", false)
	if !ok || n != len(text) || t.rep != "list" {
		return encTok{}, false
	}
	return t, true
}

// encParseLogfmt: space separated key=value; strict==false additionally accepts key-less values
// (reported with noKey) so that the colored attribute section can be described even when broken
// (C06 fixes no value syntax: there a list is scanned bracket to bracket).
func encParseLogfmt(s string, strict bool) ([]encPair, bool) {
	var out []encPair
	i := 0
	for i < len(s) {
		if s[i] == ' ' {
			i++
			continue
		}
		// key
		j := i
		for j < len(s) && s[j] != '=' && s[j] != ' ' && s[j] != '"' && s[j] >= 0x20 && s[j] != 0x7f {
			j++
		}
		if j < len(s) && s[j] == '=' && j > i {
			var v encTok
			var nj int
			var ok bool
			if strict {
				v, nj, ok = encScanToken(s, j+1)
			} else {
				v, nj, ok = encScanValue(s, j+1, " ", true)
			}
			if !ok || (nj < len(s) && s[nj] != ' ') {
				return out, false
			}
			out = append(out, encPair{key: s[i:j], tok: v})
			i = nj
			continue
		}
		if strict {
			return out, false
		}
		v, nj, ok := encScanValue(s, i, " ", !strict)
		if !ok || nj == i || (nj < len(s) && s[nj] != ' ') {
			return out, false
		}
		out = append(out, encPair{noKey: true, tok: v})
		i = nj
	}
	return out, true
}

// encMatchTok: (value preserved?) of a logfmt / colored token against one input node
func encMatchTok(n *encNode, kind string, conc any, text string, t encTok) bool {
	switch kind {
	case "string", "error", "stringer", "bytes", "textm":
		return t.rep != "list" && t.text == text
	case "fallback":
		return t.rep != "list" && strings.Contains(t.text, text)
	case "int", "uint", "float", "bool", "complex", "duration", "time", "nil":
		return t.rep != "list" && encTextEq(kind, conc, t.text)
	}
	if _, ok := encSliceElem[kind]; ok && t.rep == "quoted" {
		// the whole list written as ONE quoted value: its text is the list
		if lt, ok := encListOf(t.text); ok {
			t = lt
		}
	}
	if ek, ok := encSliceElem[kind]; ok && t.rep == "list" {
		if len(t.elems) != len(n.elem) {
			return false
		}
		for i, e := range n.elem {
			et := ""
			if s, ok := e.(string); ok {
				et = s
			}
			if !encMatchTok(n, ek, e, et, t.elems[i]) {
				return false
			}
		}
		return true
	}
	return false
}

func (r *encRun) tokPairs(ps []encPair) []map[string]any {
	out := []map[string]any{}
	for _, p := range ps {
		path := []int{}
		exact := !p.noKey
		if p.noKey {
			path = append(path, -1)
		} else {
			for _, seg := range strings.Split(p.key, ".") {
				id, ex := r.keyOf(seg)
				path = append(path, id)
				exact = exact && ex
			}
		}
		vs := []int{}
		for _, n := range r.nodesAt[encPathKey(path)] {
			if n.Kind != "group" && encMatchTok(n, n.Kind, n.conc, n.text, p.tok) {
				vs = append(vs, n.V)
			}
		}
		if len(vs) == 0 {
			r.unmatched = append(r.unmatched, fmt.Sprintf("%q: token %s %.80q", p.key, p.tok.rep, p.tok.text))
		}
		out = append(out, map[string]any{"path": path, "kx": exact, "rep": p.tok.rep, "vs": vs})
	}
	return out
}

func encObsLogfmt(r *encRun, payload []byte, site encSite) map[string]any {
	o := map[string]any{"nl": bytes.Count(payload, []byte("\n")), "endnl": bytes.HasSuffix(payload, []byte("\n")),
		"valid": false, "head": []string{}, "tail": []string{}, "headq": false, "msgrt": false, "namert": false,
		"lvl": false, "callerok": false, "cfilert": false, "pairs": []map[string]any{}}
	line := string(payload)
	if i := strings.IndexByte(line, '\n'); i >= 0 {
		line = line[:i] // the record proper; anything after it is judged by nl
	}
	if !utf8.ValidString(line) && false {
		return o
	}
	ps, ok := encParseLogfmt(line, true)
	if !ok {
		return o
	}
	o["valid"] = true
	head, tail := []string{}, []string{}
	i := 0
	headq := true
	for ; i < len(ps); i++ {
		k := ps[i].key
		if k != "time" && k != "logger" && k != "level" && k != "msg" {
			break
		}
		head = append(head, k)
		switch k {
		case "msg":
			o["msgrt"] = ps[i].tok.text == r.msg
			headq = headq && ps[i].tok.rep == "quoted"
		case "logger":
			o["namert"] = ps[i].tok.text == r.name
			headq = headq && ps[i].tok.rep == "quoted"
		case "level":
			o["lvl"] = ps[i].tok.text == slog.Level(r.c.Sev).String()
			o["lvltext"] = ps[i].tok.text
		}
	}
	j := len(ps)
	for j > i && strings.HasPrefix(ps[j-1].key, "caller.") {
		j--
	}
	var file, fn string
	ln := -1
	for _, p := range ps[j:] {
		tail = append(tail, p.key)
		switch p.key {
		case "caller.file":
			file = p.tok.text
		case "caller.function":
			fn = p.tok.text
		case "caller.line":
			ln, _ = strconv.Atoi(p.tok.text)
		}
	}
	o["callerok"], o["cfilert"] = encCallerOK(site, file, ln, fn)
	o["head"], o["tail"], o["headq"] = head, tail, headq
	o["pairs"] = r.tokPairs(ps[i:j])
	return o
}
