package main

import (
	"bytes"
	"context"
	"encoding/json"
	"errors"
	"fmt"
	"strings"
	"math/rand"
	"os"
	"regexp"
	"runtime"
	"runtime/debug"
	"strconv"
	"sync"
	"sync/atomic"
	"time"
	"unsafe"

	stdlog "log"
	logslog "log/slog"

	"github.com/hedzr/logg/slog"
	errorsv3 "gopkg.in/hedzr/errors.v3"
)

// Family "pool": concurrent logging (C08) and history independence (C09).
//
//   worker pool-stress <out.ndjson> <G> <N> <seed> <mode>
//       mode "trace"   : hooks record every pool/sort/write event (validated by TLC, PoolTrace)
//       mode "barrier" : as trace, and goroutines that are about to sort the same shared slice
//                        wait for each other first (forces the window overlap the model explores)
//       mode "free"    : no hooks at all (used under the Go race detector)
//   worker pool-history <script.json> <out.ndjson>   (C09)

func init() {
	register("pool-stress", poolStress)
	register("pool-history", poolHistory)
	register("pool-baseline", poolBaseline)
	register("pool-after-core", poolAfterCore)
}

type poolCall struct {
	ID      int
	G, C    int
	Logger  int
	Sev     slog.Level
	Msg     string
	Thru    bool // WriteThru with an explicit timestamp (bytes comparable exactly)
	ArgKind int
	Blank   bool // a blank Println(): no arguments at all
	Slog    bool // through a log/slog logger derived (per goroutine) from one shared WithGroup handler
	Bridge  bool // through a std log.Logger built on the logger (NewLogLogger)
	List    int  // > 0: WriteThru is handed the shared attribute list number List-1 itself (no per-call list)
}

type poolEnv struct {
	loggers []*slog.Entry
	shared  slog.Attr // one group value shared by calls and by loggers
	shared2 slog.Attr
	more    []slog.Attr // further shared groups, built in every way the API offers
	sharedV slog.Attrs  // an Attrs value shared as a plain attribute VALUE
	lists   []slog.Attrs // attribute LISTS shared between calls: handed as they are to the entry point that takes a list (WriteThru)
	lists0  []slog.Attrs // what they held when they were built
	slow    bool
	ts      time.Time
	rec     *poolRecorder
	hmu     sync.Mutex
	hgrp    map[int]*logslog.Logger    // per logger: log/slog logger on it, WithGroup("req") - shared by all goroutines
	hchild  map[[2]int]*logslog.Logger // per (goroutine, logger): With("worker", g) derived from the shared one
	bridges []*stdlog.Logger           // per logger: the std log bridge at Info severity, shared by all goroutines
}

// slogChild: the goroutine's own log/slog logger, derived on first use (concurrently with the others)
// from the ONE handler all goroutines share for that logger.
func (e *poolEnv) slogChild(g, li int) *logslog.Logger {
	e.hmu.Lock()
	grp := e.hgrp[li]
	c := e.hchild[[2]int{g, li}]
	e.hmu.Unlock()
	if c == nil {
		c = grp.With("worker", g) // derived outside the lock: goroutines derive from the shared handler at the same time
		e.hmu.Lock()
		e.hchild[[2]int{g, li}] = c
		e.hmu.Unlock()
	}
	return c
}

// slogBases puts one log/slog handler on every logger (configuration: done before any concurrent logging)
func (e *poolEnv) slogBases() {
	e.hgrp, e.hchild = map[int]*logslog.Logger{}, map[[2]int]*logslog.Logger{}
	for li, l := range e.loggers {
		h := slog.NewSlogHandler(l, &slog.HandlerOptions{NoColor: !l.ColorMode(), JSON: l.JSONMode(), Level: l.Level()})
		e.hgrp[li] = logslog.New(h).With("base", li).WithGroup("req")
		e.bridges = append(e.bridges, slog.NewLogLogger(l, slog.InfoLevel))
	}
}

type poolRecorder struct {
	mu       sync.Mutex
	payloads [][]byte
	dsts     []int // destination each payload arrived at
}

// poolDest is one destination (normal, error, per-level ...) feeding the shared recorder.
type poolDest struct {
	id  int
	rec *poolRecorder
}

func (d *poolDest) Write(p []byte) (int, error) { return d.rec.writeFrom(d.id, p) }

func (r *poolRecorder) clear() { r.payloads, r.dsts = nil, nil }

var poolSlow int32 // the recorder yields inside Write, keeping the caller's PrintCtx busy for longer

// pile-up: the first poolPile calls to arrive inside Write are held there until all of them are inside (or 3 s
// passed), so that many calls of one logger are in flight at the same moment
var poolPile, poolInside int32

func (r *poolRecorder) Write(p []byte) (int, error) { return r.writeFrom(0, p) }

func (r *poolRecorder) writeFrom(dst int, p []byte) (int, error) {
	if want := atomic.LoadInt32(&poolPile); want > 0 {
		atomic.AddInt32(&poolInside, 1)
		deadline := time.Now().Add(3 * time.Second)
		for atomic.LoadInt32(&poolInside) < want && time.Now().Before(deadline) {
			time.Sleep(200 * time.Microsecond)
		}
	}
	if atomic.LoadInt32(&poolSlow) != 0 {
		runtime.Gosched()
		if len(p)%3 == 0 {
			time.Sleep(20 * time.Microsecond)
		}
	}
	r.mu.Lock()
	r.payloads = append(r.payloads, append([]byte(nil), p...))
	r.dsts = append(r.dsts, dst)
	r.mu.Unlock()
	return len(p), nil
}

func newPoolEnv(nLoggers int) *poolEnv {
	e := &poolEnv{ts: time.Date(2024, 3, 4, 5, 6, 7, 123456000, time.UTC), rec: &poolRecorder{}}
	// deliberately unsorted members with a duplicate key: printing has to sort and de-duplicate them
	e.shared = slog.Group("shared", "zeta", 1, "alpha", 2, "mid", 3, "alpha", 4, "beta", 5)
	e.shared2 = slog.NewGroupedAttr("lg", slog.Int("y", 1), slog.Int("x", 2), slog.Group("inner", "q", 1, "p", 2))
	e.more = []slog.Attr{
		// members already in key order, with a duplicate key (nothing to move, something to drop)
		slog.NewGroupedAttr("sorteddup", slog.Int("a", 1), slog.Int("b", 2), slog.Int("b", 3), slog.Int("c", 4)),
		slog.NewGroupedAttr("sorteduniq", slog.Int("a", 1), slog.Int("b", 2), slog.Int("c", 3)),
		slog.NewGroupedAttr("unsorted", slog.Int("z", 1), slog.Int("y", 2), slog.Int("x", 3)),
		slog.NewGroupedAttrEasy("easy", "m", 1, "k", 2, "m", 3),
		slog.Group("nested", "q", 1, slog.NewGroupedAttr("in", slog.Int("b", 1), slog.Int("a", 2), slog.Int("a", 3))),
		slog.NewGroupedAttr("one", slog.Int("only", 1)),
	}
	e.sharedV = slog.Attrs{slog.Int("vb", 1), slog.Int("va", 2), slog.Int("va", 3)}
	e.lists = []slog.Attrs{
		{slog.Int("lb", 1), slog.Int("la", 2), slog.Int("lb", 3)},                      // unsorted, duplicate key
		{slog.Int("la", 1), slog.Int("lb", 2), slog.Int("lc", 3)},                      // in key order, no duplicate
		{slog.String("lz", "z"), e.shared, slog.Int("lm", 1), e.more[2], slog.Int("la", 5)}, // with shared groups as members
		{slog.Int("only", 1)},
	}
	for _, l := range e.lists {
		e.lists0 = append(e.lists0, append(slog.Attrs(nil), l...))
	}
	root := slog.New("root").Root()
	root.SetWriter(e.rec).SetErrorWriter(e.rec).SetLevel(slog.InfoLevel).SetColorMode(false)
	root.SetAttrs(slog.Int("rootattr", 1), e.shared2)
	e.loggers = append(e.loggers, root)
	for i := 1; i < nLoggers; i++ {
		parent := e.loggers[(i-1)/2]
		c := parent.New(fmt.Sprintf("c%d", i)).SetWriter(&poolDest{10 * i, e.rec}).SetErrorWriter(&poolDest{10*i + 1, e.rec})
		if i%2 == 1 { // per-level destinations for several severities on the same logger
			c.AddLevelWriter(slog.InfoLevel, &poolDest{10*i + 2, e.rec})
			c.AddLevelWriter(slog.WarnLevel, &poolDest{10*i + 3, e.rec})
			c.AddLevelWriter(slog.ErrorLevel, &poolDest{10*i + 4, e.rec})
			c.AddLevelWriter(slog.AlwaysLevel, &poolDest{10*i + 5, e.rec})
		}
		switch i % 3 {
		case 0:
			c.SetJSONMode(true)
		case 1:
			c.SetColorMode(true)
		default:
			c.SetColorMode(false)
		}
		if i%3 != 1 {
			c.SetContextKeys(poolCtxKey) // the value a call passes in its context becomes an attribute of its record
		}
		if i%2 == 1 {
			c.SetAttrs(slog.Int(fmt.Sprintf("la%d", i), i), e.shared)
		} else {
			c.SetAttrs(e.more[i%len(e.more)])
		}
		e.loggers = append(e.loggers, c)
	}
	e.slogBases()
	return e
}

func (e *poolEnv) args(c *poolCall) []any {
	switch c.ArgKind {
	case 0:
		return nil
	case 1:
		return []any{"k2", c.C, "k1", "v", "k2", c.G}
	case 2:
		return []any{e.shared, "own", c.ID}
	case 3:
		return []any{"err", errors.New("boom " + strconv.Itoa(c.ID)), e.shared}
	case 4:
		return []any{slog.Group("pg", "b", 2, "a", 1), e.shared2, "z", 1.5}
	case 6, 7, 8, 9, 10, 11:
		return []any{e.more[c.ArgKind-6], "id", c.ID}
	case 12:
		return []any{e.more[0], e.more[3], e.more[4], e.shared}
	case 13:
		return []any{slog.Any("asvalue", e.sharedV), e.more[2]}
	case 14: // more attributes than any call before it (the pooled attribute slices have to grow)
		n := 120 + c.ID%90
		a := make([]any, 0, 2*n)
		for i := 0; i < n; i++ {
			a = append(a, fmt.Sprintf("b%03d", (i*7)%n), i)
		}
		return a
	}
	return []any{"dur", time.Duration(c.ID) * time.Millisecond, "when", e.ts, "b", []byte("x")}
}

// issue is the ONE place records are issued from, so that the caller field is identical for the
// concurrent call and for its sequential re-issue.
func (e *poolEnv) issue(c *poolCall) {
	l := e.loggers[c.Logger]
	if c.Blank {
		if c.Msg == "" {
			l.Println()
		} else {
			l.Println(c.Msg)
		}
		return
	}
	if c.Bridge {
		e.bridges[c.Logger].Print(c.Msg)
		return
	}
	if c.Slog {
		lv := map[slog.Level]logslog.Level{slog.InfoLevel: logslog.LevelInfo, slog.WarnLevel: logslog.LevelWarn,
			slog.ErrorLevel: logslog.LevelError, slog.DebugLevel: logslog.LevelDebug}[c.Sev]
		e.slogChild(c.G, c.Logger).Log(context.Background(), lv, c.Msg, "id", c.ID, "kind", c.ArgKind, logslog.Group("in", "g", c.G, "c", c.C))
		return
	}
	if c.Thru && c.List > 0 {
		l.WriteThru(context.Background(), c.Sev, e.ts, 0, c.Msg, e.lists[c.List-1])
		return
	}
	if c.Thru {
		var attrs slog.Attrs
		if a := e.args(c); len(a) > 0 {
			attrs = slog.NewAttrs(a...)
		}
		l.WriteThru(context.Background(), c.Sev, e.ts, 0, c.Msg, attrs)
		return
	}
	// every call carries its own value in the context; loggers with registered context keys print it
	l.LogAttrs(context.WithValue(context.Background(), poolCtxKey, fmt.Sprintf("req%06d", c.ID)), c.Sev, c.Msg, e.args(c)...)
}

const poolCtxKey = "reqid"

var poolReTime = regexp.MustCompile(`\d{2}:\d{2}:\d{2}\.\d{6}(?:Z|[+-]\d{2}:\d{2})`)

func normTime(p []byte) []byte { return poolReTime.ReplaceAll(p, []byte("T")) }

func goid() int {
	var buf [64]byte
	n := runtime.Stack(buf[:], false)
	// "goroutine 123 ["
	s := buf[len("goroutine "):n]
	i := bytes.IndexByte(s, ' ')
	id, _ := strconv.Atoi(string(s[:i]))
	return id
}

type hookEv struct {
	Seq   int64  `json:"seq"`
	G     int    `json:"g"`
	Ev    string `json:"ev"`
	A     int    `json:"a"`     // small id of the object / slice
	Class string `json:"class"` // for sort events: "own", "shared", "private"
	N     int    `json:"n"`
}

func poolStress(args []string) int {
	if len(args) < 5 {
		fmt.Fprintln(diag, "usage: worker pool-stress <out.ndjson> <G> <N> <seed> <mode>")
		return 2
	}
	out := newTraceOut(args[0])
	defer out.close()
	G, _ := strconv.Atoi(args[1])
	N, _ := strconv.Atoi(args[2])
	seed, _ := strconv.ParseInt(args[3], 10, 64)
	mode := args[4]
	nLoggers := 1 + int(seed%8)
	pile := int32(0)
	if strings.HasPrefix(mode, "pileup") {
		// ONE logger, most of the goroutines inside its destination's Write at the same moment
		nLoggers = 1
		pile = int32(G) * 5 / 6
		mode = "trace" + strings.TrimPrefix(mode, "pileup")
	}
	env := newPoolEnv(nLoggers)
	slog.SetFlags(slog.LstdFlags | slog.LnoInterrupt)
	if strings.HasSuffix(mode, "+rare") {
		// the rarely used flags: code paths (and their lazily built state) that default flags never reach
		mode = strings.TrimSuffix(mode, "+rare")
		slog.SetFlags(slog.LstdFlags | slog.LnoInterrupt | slog.Lcallerpackagename | slog.Ldate | slog.LattrsR)
	}
	rng := rand.New(rand.NewSource(seed))
	sevs := []slog.Level{slog.InfoLevel, slog.WarnLevel, slog.ErrorLevel, slog.DebugLevel, slog.AlwaysLevel, slog.Level(77)}
	var calls []*poolCall
	perG := make([][]*poolCall, G)
	for g := 0; g < G; g++ {
		for c := 0; c < N; c++ {
			pc := &poolCall{ID: len(calls) + 1, G: g + 1, C: c + 1, Logger: rng.Intn(nLoggers), Sev: sevs[rng.Intn(len(sevs))],
				Thru: rng.Intn(2) == 0, ArgKind: rng.Intn(14)}
			if rng.Intn(25) == 0 {
				pc.ArgKind = 14
			}
			pc.Msg = fmt.Sprintf("call#%06d#", pc.ID)
			if rng.Intn(4) == 0 {
				pc.Msg += "\nsecond line\nthird"
			}
			// records longer than a fresh pooled buffer (1 KiB) and than several of them together: the
			// buffer has to grow while other goroutines are formatting in theirs
			switch rng.Intn(10) {
			case 0:
				pc.Msg += strings.Repeat(fmt.Sprintf("<%06d>", pc.ID), 140) // ~1.1 KiB
			case 1:
				pc.Msg += strings.Repeat(fmt.Sprintf("<%06d>", pc.ID), 400) // ~3 KiB
			case 2:
				if rng.Intn(3) == 0 {
					pc.Msg += strings.Repeat(fmt.Sprintf("<%06d>", pc.ID), 2500) // ~20 KiB
				}
			}
			if rng.Intn(12) == 0 { // a blank Print/Println: delivered as a single newline
				pc.Sev, pc.Msg, pc.Blank, pc.Thru = slog.AlwaysLevel, []string{"", " ", "\n"}[rng.Intn(3)], true, false
			}
			if !pc.Blank && rng.Intn(9) == 0 {
				pc.Bridge, pc.Thru, pc.Sev = true, false, slog.InfoLevel
			} else if !pc.Blank && rng.Intn(6) == 0 && (pc.Sev == slog.InfoLevel || pc.Sev == slog.WarnLevel || pc.Sev == slog.ErrorLevel || pc.Sev == slog.DebugLevel) {
				pc.Slog, pc.Thru = true, false
			}
			if pc.Thru && pc.ID%5 == 0 { // (derived from the id: the random stream of the other choices stays what it was)
				pc.List = 1 + (pc.ID/5)%len(env.lists)
			}
			calls = append(calls, pc)
			perG[g] = append(perG[g], pc)
		}
	}

	// ---- hooks
	var seq int64
	var evMu sync.Mutex
	var events []hookEv
	objID := map[uintptr]int{}
	gidOf := map[int]int{} // runtime goroutine id -> 1..G
	sharedPtrs := map[uintptr]bool{}
	var addShared func(items slog.Attrs)
	addShared = func(items slog.Attrs) {
		if len(items) == 0 {
			return
		}
		sharedPtrs[uintptr(unsafe.Pointer(unsafe.SliceData(items)))] = true
		for _, m := range items {
			if m == nil {
				continue
			}
			if sub, ok := m.Value().(slog.Attrs); ok {
				addShared(sub)
			}
		}
	}
	for _, a := range append([]slog.Attr{env.shared, env.shared2}, env.more...) {
		if items, ok := a.Value().(slog.Attrs); ok {
			addShared(items)
		}
	}
	addShared(env.sharedV)
	for _, l := range env.lists {
		sharedPtrs[uintptr(unsafe.Pointer(unsafe.SliceData(l)))] = true
	}
	if mode == "slow" || mode == "barrier" {
		atomic.StoreInt32(&poolSlow, 1)
	}
	held := map[int]uintptr{} // goroutine -> attrs slice it holds
	var barrierMu sync.Mutex
	barrier := map[uintptr]chan struct{}{}
	waiting := map[uintptr]int{}
	if mode == "free-slow" {
		atomic.StoreInt32(&poolSlow, 1)
	}
	if mode != "free" && mode != "free-slow" {
		slog.VerifHook = func(point string, a, b uintptr) {
			g := goid()
			evMu.Lock()
			gi := gidOf[g]
			id, ok := objID[a]
			if !ok {
				id = len(objID) + 1
				objID[a] = id
			}
			class := ""
			switch point {
			case "attrs.get":
				held[g] = a
			case "sort.begin", "sort.end":
				switch {
				case sharedPtrs[a]:
					class = "shared"
				case held[g] == a:
					class = "own"
				default:
					class = "private"
				}
			}
			s := atomic.AddInt64(&seq, 1)
			events = append(events, hookEv{Seq: s, G: gi, Ev: point, A: id, Class: class, N: int(b)})
			evMu.Unlock()
			if mode == "barrier" && point == "sort.begin" && class == "shared" {
				// wait (briefly) for another goroutine that is about to sort the same slice
				barrierMu.Lock()
				ch := barrier[a]
				if ch == nil {
					ch = make(chan struct{})
					barrier[a] = ch
				}
				waiting[a]++
				if waiting[a] >= 2 {
					close(ch)
					delete(barrier, a)
					waiting[a] = 0
					barrierMu.Unlock()
				} else {
					barrierMu.Unlock()
					select {
					case <-ch:
					case <-time.After(2 * time.Millisecond):
						barrierMu.Lock()
						if barrier[a] == ch {
							delete(barrier, a)
							waiting[a] = 0
						}
						barrierMu.Unlock()
					}
				}
			}
		}
	}

	// ---- concurrent phase
	atomic.StoreInt32(&poolInside, 0)
	atomic.StoreInt32(&poolPile, pile)
	var wg sync.WaitGroup
	start := make(chan struct{})
	for g := 0; g < G; g++ {
		wg.Add(1)
		go func(g int) {
			defer wg.Done()
			evMu.Lock()
			gidOf[goid()] = g + 1
			evMu.Unlock()
			<-start
			for _, c := range perG[g] {
				env.issue(c)
			}
		}(g)
	}
	close(start)
	wg.Wait()
	atomic.StoreInt32(&poolPile, 0)
	slog.VerifHook = nil
	concurrent := env.rec.payloads
	concurrentDst := env.rec.dsts
	env.rec.clear()
	// the lists the goroutines shared: a call may read them, they still hold what the program put there
	// (observed without any hook; compared member by member, by identity)
	listSame := make([]bool, len(env.lists))
	for k, l := range env.lists {
		listSame[k] = len(l) == len(env.lists0[k])
		for i := 0; listSame[k] && i < len(l); i++ {
			listSame[k] = l[i] == env.lists0[k][i]
		}
	}

	// ---- sequential reference: every call alone
	for _, e := range events {
		out.emit(e)
	}
	reCall := regexp.MustCompile(`call#(\d{6})#`)
	byID := map[int][][]byte{}
	dstByID := map[int][]int{}
	torn := 0
	blanks := 0
	atomic.StoreInt32(&poolSlow, 0)
	for pi, p := range concurrent {
		if string(p) == "\n" {
			blanks++
			continue
		}
		ms := reCall.FindAllSubmatch(p, -1)
		ids := map[string]bool{}
		for _, m := range ms {
			ids[string(m[1])] = true
		}
		if len(ids) != 1 {
			torn++
			out.emit(map[string]any{"ev": "deliver", "call": 0, "same": false, "n": len(p)})
			continue
		}
		id, _ := strconv.Atoi(string(ms[0][1]))
		byID[id] = append(byID[id], p)
		dstByID[id] = append(dstByID[id], concurrentDst[pi])
	}
	wantBlanks := 0
	for _, c := range calls {
		env.rec.clear()
		env.issue(c)
		ref := env.rec.payloads
		refDst := env.rec.dsts
		if c.Blank {
			if len(ref) == 1 && string(ref[0]) == "\n" {
				wantBlanks++
			}
			continue
		}
		out.emit(map[string]any{"ev": "call", "call": c.ID, "admitted": len(ref) > 0, "thru": c.Thru})
		for k, p := range byID[c.ID] {
			same := false
			if len(ref) == 1 && refDst[0] == dstByID[c.ID][k] { // same bytes at the same destination
				if c.Thru {
					same = bytes.Equal(p, ref[0])
				} else {
					same = bytes.Equal(normTime(p), normTime(ref[0]))
				}
			}
			rec := map[string]any{"ev": "deliver", "call": c.ID, "same": same, "n": len(p), "dst": dstByID[c.ID][k]}
			if !same {
				if len(refDst) == 1 {
					rec["want_dst"] = refDst[0]
				}
				rec["got"] = string(p)
				if len(ref) == 1 {
					rec["want"] = string(ref[0])
				}
			}
			out.emit(rec)
		}
	}
	for k := range env.lists {
		uses := 0
		for _, c := range calls {
			if c.List == k+1 {
				uses++
			}
		}
		out.emit(map[string]any{"ev": "list", "a": k + 1, "same": listSame[k], "n": uses})
	}
	out.emit(map[string]any{"ev": "blank", "got": blanks, "want": wantBlanks})
	out.emit(map[string]any{"ev": "end", "calls": len(calls), "payloads": len(concurrent), "torn": torn, "hook_events": len(events)})
	return 0
}

// ---------------------------------------------------------------------------------------------
// C09: history independence.  A script is a list of behaviours; each behaviour is a history
// (list of record class ids) followed by a probe id.  For every behaviour the probe's bytes after
// the history are compared with the probe's bytes on a fresh pool (sync.Pool emptied by two GCs).

type histScript struct {
	Behaviours []struct {
		History []int `json:"history"`
		Probe   int   `json:"probe"`
	} `json:"behaviours"`
}

type histEnv struct {
	rec     *poolRecorder
	loggers [3]*slog.Entry // logfmt, json, colored
	ts      time.Time
	group   slog.Attr
	reused  slog.Attrs
}

type readingMarshaller struct{}

// a user marshaller that reads back what it wrote (the encoder handed to it is a read/write buffer)
func (readingMarshaller) MarshalSlogObject(enc *slog.PrintCtx) error {
	enc.WriteString("peek")
	return nil
}

type panicStringer struct{}

func (panicStringer) String() string { panic("String() of a user value panics") }

func newHistEnv() *histEnv {
	e := &histEnv{rec: &poolRecorder{}, ts: time.Date(2023, 11, 12, 13, 14, 15, 987654000, time.FixedZone("X", 3600))}
	e.group = slog.Group("grp", "b", 1, "a", 2)
	for i := range e.loggers {
		l := slog.New(fmt.Sprintf("h%d", i)).Root().SetWriter(e.rec).SetErrorWriter(e.rec).SetLevel(slog.TraceLevel)
		switch i {
		case 0:
			l.SetColorMode(false)
		case 1:
			l.SetJSONMode(true)
		default:
			l.SetColorMode(true)
		}
		e.loggers[i] = l
	}
	e.loggers[2].SetAttrs(slog.Int("la", 1))
	return e
}

// record classes: format x severity class x shape.  id = fmt*1000 + sev*100 + shape
// (258 and -252 are unregistered values that differ from Error and Info by a multiple of 256)
var histSevs = []slog.Level{slog.InfoLevel, slog.ErrorLevel, slog.TraceLevel, slog.FailLevel, slog.Level(41), slog.Level(42), slog.Level(43), slog.AlwaysLevel,
	slog.Level(258), slog.Level(-252)}

func (e *histEnv) emit(id int, viaVerb bool) {
	f, sv, shape := id/1000, (id/100)%10, id%100
	l := e.loggers[f%3]
	sev := histSevs[sv%len(histSevs)]
	msg := "probe message"
	var attrs slog.Attrs
	switch shape {
	case 1:
		msg = "first line\nsecond line\n"
	case 2:
		attrs = slog.NewAttrs("k", 1, e.group, "z", "text")
	case 3:
		attrs = slog.NewAttrs("err", errors.New("an error"), "dur", time.Second)
	case 4:
		msg = ""
	case 5:
		attrs = slog.NewAttrs("t", e.ts, "nilv", nil, "f", 1.5)
	case 6:
		attrs = slog.NewAttrs(slog.Group("g1", "x", 1, slog.Group("g2", "y", 2)), "after", true)
	case 7:
		attrs = slog.NewAttrs("m", readingMarshaller{})
	case 8: // an attribute that uses a reserved field name, sorted last
		attrs = slog.NewAttrs("k", 1, "time", e.ts)
	case 9: // all reserved names as attribute keys
		attrs = slog.NewAttrs("time", e.ts, "level", "x", "msg", "y", "caller", "z", "logger", "w")
	case 10: // a record far larger than any buffer the pool starts with
		msg = strings.Repeat("0123456789abcdef", 7000)
	case 11: // an error value that carries a stack trace
		attrs = slog.NewAttrs("err", errorsv3.New("stacked error"), "n", 1)
	case 12: // a value whose own method panics half way through the record (recovered by the caller)
		attrs = slog.NewAttrs("a", 1, "user", panicStringer{}, "z", 2)
	case 13: // duplicate and unsorted keys at top level and inside a group
		attrs = slog.NewAttrs("z", 1, "a", 2, "z", 3, slog.Group("g", "y", 1, "x", 2, "y", 3), "a", 4)
	case 14: // huge attribute value
		attrs = slog.NewAttrs("big", strings.Repeat("x", 70000), "after", 1)
	case 15: // the SAME Attrs value handed in again and again, duplicate and unsorted keys
		if e.reused == nil {
			e.reused = slog.Attrs{slog.Int("z", 1), slog.Int("a", 2), slog.Int("z", 3), slog.Int("m", 4), slog.Int("a", 5)}
		}
		attrs = e.reused
	}
	if shape >= 16 && shape < 80 {
		// values formatted in several appends (complex numbers, durations, times, floats) at every position
		// around the capacity of a fresh pooled buffer (1 KiB): the message pads the record in steps of 8 bytes
		msg = "pad" + strings.Repeat("x", 560+8*(shape-16))
		attrs = slog.NewAttrs("z", complex(1.5, -1234567.890625), "z64", complex64(complex(-2.25, -0.5)), "d", 90*time.Minute+time.Nanosecond,
			"f", -1234567.125, "t", e.ts)
	}
	// the instant of a record: by default one fixed instant in its own zone; a few shapes carry
	// the same instant in another zone, or another instant
	ts := e.ts
	switch shape {
	case 3, 5:
		ts = e.ts.UTC() // same instant, other zone
	case 6:
		ts = e.ts.In(time.FixedZone("Y", -7*3600-1800))
	case 1:
		ts = e.ts.Add(90 * time.Minute)
	}
	defer func() { _ = recover() }()
	if viaVerb {
		l.LogAttrs(context.Background(), sev, msg, attrs)
		return
	}
	var pcs [1]uintptr
	runtime.Callers(1, pcs[:])
	if histLibSite != 0 {
		pcs[0] = histLibSite // environment "providers": a call site inside the library
	}
	if shape == 2 || shape == 5 || shape == 8 || shape == 14 {
		pcs[0] = 0 // a record without a call site (what the adapters pass when the source is unknown)
	}
	l.WriteThru(context.Background(), sev, ts, pcs[0], msg, attrs)
}

// histSetup: the process-level preparation shared by pool-history and pool-baseline
func histSetup() *histEnv {
	// custom levels with colours registered / not registered: 41 fg only, 42 fg+bg, 43 no colour
	_ = slog.RegisterLevel(slog.Level(41), "C41", slog.RegWithColor(92))
	_ = slog.RegisterLevel(slog.Level(42), "C42", slog.RegWithColor(93, 44))
	_ = slog.RegisterLevel(slog.Level(43), "C43")
	slog.SetFlags(slog.LstdFlags | slog.LnoInterrupt)
	histProvidersSetup() // environment "providers": an overlapping hosting provider, Lcallerpackagename
	return newHistEnv()
}

// pool-baseline <probes.json> <out.json>: the bytes of each probe in a process that has never
// formatted anything else (one process per output format, so that neither pooled objects nor
// package-level caches can carry anything over from another kind of record).
func poolBaseline(args []string) int {
	if len(args) < 2 {
		fmt.Fprintln(diag, "usage: worker pool-baseline <probes.json> <out.json>")
		return 2
	}
	var probes []int
	readJSON(args[0], &probes)
	env := histSetup()
	res := map[string][]int{}
	for _, p := range probes {
		runtime.GC()
		runtime.GC()
		env.rec.clear()
		env.emit(p, false)
		var b []byte
		if len(env.rec.payloads) == 1 {
			b = env.rec.payloads[0]
		}
		ints := make([]int, len(b))
		for i, x := range b {
			ints[i] = int(x)
		}
		res[strconv.Itoa(p)] = ints
	}
	f, err := os.Create(args[1])
	if err != nil {
		panic(err)
	}
	defer f.Close()
	if err := json.NewEncoder(f).Encode(res); err != nil {
		panic(err)
	}
	return 0
}

func poolHistory(args []string) int {
	if len(args) < 2 {
		fmt.Fprintln(diag, "usage: worker pool-history <script.json> <out.ndjson> [baselines.json]")
		return 2
	}
	var sc histScript
	readJSON(args[0], &sc)
	out := newTraceOut(args[1])
	defer out.close()
	external := map[string][]int{}
	if len(args) > 2 {
		readJSON(args[2], &external)
	}
	env := histSetup()
	envKind := histEnvKind() // are the default protected directories nested above the call site's file
	debug.SetGCPercent(-1)
	runtime.LockOSThread()
	var lastPut, lastGet uintptr
	reused := false
	slog.VerifHook = func(point string, a, b uintptr) {
		switch point {
		case "pc.get":
			lastGet = a
			reused = a == lastPut
		case "pc.put":
			lastPut = a
		}
	}
	base := map[int][]byte{}
	baseline := func(probe int) []byte {
		if p, ok := base[probe]; ok {
			return p
		}
		if ints, ok := external[strconv.Itoa(probe)]; ok { // computed in a process of its own
			b := make([]byte, len(ints))
			for i, x := range ints {
				b[i] = byte(x)
			}
			base[probe] = b
			return b
		}
		runtime.GC()
		runtime.GC() // sync.Pool is emptied after two collections: the next Get builds a fresh object
		env.rec.clear()
		env.emit(probe, false)
		var p []byte
		if len(env.rec.payloads) == 1 {
			p = env.rec.payloads[0]
		}
		base[probe] = p
		return p
	}
	for bi, b := range sc.Behaviours {
		want := baseline(b.Probe)
		runtime.GC()
		runtime.GC()
		for i, h := range b.History {
			env.emit(h, i%2 == 1) // alternate WriteThru and a real verb
		}
		env.rec.clear()
		env.emit(b.Probe, false)
		var got []byte
		if len(env.rec.payloads) == 1 {
			got = env.rec.payloads[0]
		}
		rec := map[string]any{"ev": "probe", "b": bi + 1, "history": b.History, "probe": b.Probe, "env": envKind,
			"same": bytes.Equal(got, want) && got != nil, "reused": reused && len(b.History) > 0}
		if !bytes.Equal(got, want) {
			rec["got"] = string(got)
			rec["want"] = string(want)
		}
		out.emit(rec)
	}
	_ = lastGet
	_ = os.Stdout
	return 0
}

// pool-after-core <core-script.json> <out.ndjson> <baselines.json> <probes.json>
// History independence against histories of ARBITRARY API calls: every behaviour of a LoggCore
// script (configuration calls, logger creation, flag changes, records of every kind on other
// loggers) is executed, the process-global switches are put back, and then each probe - issued on
// the probe loggers, which no script ever touches - must produce the bytes it produces in a process
// that never did anything else.
func poolAfterCore(args []string) int {
	if len(args) < 4 {
		fmt.Fprintln(diag, "usage: worker pool-after-core <core-script.json> <out.ndjson> <baselines.json> <probes.json>")
		return 2
	}
	var sc coreScript
	readJSON(args[0], &sc)
	out := newTraceOut(args[1])
	defer out.close()
	external := map[string][]int{}
	readJSON(args[2], &external)
	var probes []int
	readJSON(args[3], &probes)
	captureStdio()
	env := histSetup()
	for _, c := range sc.Customs {
		var opts []slog.RegOpt
		if c.Treat >= 0 {
			opts = append(opts, slog.RegWithTreatedAsLevel(slog.Level(c.Treat)))
		}
		_ = slog.RegisterLevel(slog.Level(c.V), c.Title, opts...)
	}
	r := &coreRun{sc: &sc, obs: map[string]bool{}, ts: time.Date(2024, 5, 6, 7, 8, 9, 123456789, time.UTC)}
	for bi, beh := range sc.Behaviours {
		r.reset()
		for _, ev := range beh {
			r.exec(ev)
		}
		// back to the global state every probe baseline was taken in
		r.reset()
		slog.SetFlags(slog.LstdFlags | slog.LnoInterrupt)
		takeAll()
		for k := 0; k < 3; k++ {
			p := probes[(bi*3+k)%len(probes)]
			env.rec.clear()
			env.emit(p, false)
			var got []byte
			if len(env.rec.payloads) == 1 {
				got = env.rec.payloads[0]
			}
			ints := external[strconv.Itoa(p)]
			want := make([]byte, len(ints))
			for i, x := range ints {
				want[i] = byte(x)
			}
			rec := map[string]any{"ev": "probe", "b": bi + 1, "history": []int{}, "probe": p, "env": histEnvKind(),
				"same": bytes.Equal(got, want) && got != nil, "reused": true}
			if !bytes.Equal(got, want) {
				rec["got"] = string(got)
				rec["want"] = string(want)
			}
			out.emit(rec)
		}
	}
	return 0
}
