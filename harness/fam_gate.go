package main

import (
	"context"
	logslog "log/slog"
	"strings"
	"time"

	"github.com/hedzr/logg/slog"
)

// Entry-point table for C01 (level gating): every public way of issuing a record.
// fixed >= 0: the entry point carries that severity; fixed == -1: severity is a parameter.

type entryPoint struct {
	name  string
	fixed int
	pkg   bool // package-level function on the default logger
	call  func(l *slog.Entry, r slog.Level, msg string)
}

var bg = context.Background()

// contexts a caller may hand in: live, already cancelled, past its deadline, nil.  Admission does
// not depend on the context.
var gateCtxs = func() []context.Context {
	c1, cancel := context.WithCancel(context.Background())
	cancel()
	c2, cancel2 := context.WithDeadline(context.Background(), time.Unix(1, 0))
	_ = cancel2
	return []context.Context{context.Background(), c1, c2, nil}
}()
var gateCtxNames = []string{"", "#cancelled", "#expired", "#nil"}

func eps() []entryPoint {
	return []entryPoint{
		{"Panic", 0, false, func(l *slog.Entry, r slog.Level, m string) { l.Panic(m) }},
		{"Fatal", 1, false, func(l *slog.Entry, r slog.Level, m string) { l.Fatal(m) }},
		{"Error", 2, false, func(l *slog.Entry, r slog.Level, m string) { l.Error(m) }},
		{"Warn", 3, false, func(l *slog.Entry, r slog.Level, m string) { l.Warn(m) }},
		{"Info", 4, false, func(l *slog.Entry, r slog.Level, m string) { l.Info(m) }},
		{"Debug", 5, false, func(l *slog.Entry, r slog.Level, m string) { l.Debug(m) }},
		{"Trace", 6, false, func(l *slog.Entry, r slog.Level, m string) { l.Trace(m) }},
		{"Print", 8, false, func(l *slog.Entry, r slog.Level, m string) { l.Print(m) }},
		{"Println", 8, false, func(l *slog.Entry, r slog.Level, m string) { l.Println(m) }},
		{"Println()", 8, false, func(l *slog.Entry, r slog.Level, m string) { l.Println() }},
		{"OK", 9, false, func(l *slog.Entry, r slog.Level, m string) { l.OK(m) }},
		{"Success", 10, false, func(l *slog.Entry, r slog.Level, m string) { l.Success(m) }},
		{"Fail", 11, false, func(l *slog.Entry, r slog.Level, m string) { l.Fail(m) }},
		{"PanicContext", 0, false, func(l *slog.Entry, r slog.Level, m string) { l.PanicContext(bg, m) }},
		{"FatalContext", 1, false, func(l *slog.Entry, r slog.Level, m string) { l.FatalContext(bg, m) }},
		{"ErrorContext", 2, false, func(l *slog.Entry, r slog.Level, m string) { l.ErrorContext(bg, m) }},
		{"WarnContext", 3, false, func(l *slog.Entry, r slog.Level, m string) { l.WarnContext(bg, m) }},
		{"InfoContext", 4, false, func(l *slog.Entry, r slog.Level, m string) { l.InfoContext(bg, m) }},
		{"DebugContext", 5, false, func(l *slog.Entry, r slog.Level, m string) { l.DebugContext(bg, m) }},
		{"TraceContext", 6, false, func(l *slog.Entry, r slog.Level, m string) { l.TraceContext(bg, m) }},
		{"PrintContext", 8, false, func(l *slog.Entry, r slog.Level, m string) { l.PrintContext(bg, m) }},
		{"PrintlnContext", 8, false, func(l *slog.Entry, r slog.Level, m string) { l.PrintlnContext(bg, m) }},
		{"OKContext", 9, false, func(l *slog.Entry, r slog.Level, m string) { l.OKContext(bg, m) }},
		{"SuccessContext", 10, false, func(l *slog.Entry, r slog.Level, m string) { l.SuccessContext(bg, m) }},
		{"FailContext", 11, false, func(l *slog.Entry, r slog.Level, m string) { l.FailContext(bg, m) }},
		{"Infof", 4, false, func(l *slog.Entry, r slog.Level, m string) { _ = l.Infof("%s", m) }},
		{"Warnf", 3, false, func(l *slog.Entry, r slog.Level, m string) { _ = l.Warnf("%s", m) }},
		{"Errorf", 2, false, func(l *slog.Entry, r slog.Level, m string) { _ = l.Errorf("%s", m) }},
		{"LogAttrs", -1, false, func(l *slog.Entry, r slog.Level, m string) { l.LogAttrs(bg, r, m) }},
		{"Logit", -1, false, func(l *slog.Entry, r slog.Level, m string) { l.Logit(bg, r, m) }},
		{"Verbose", -2, false, func(l *slog.Entry, r slog.Level, m string) { l.Verbose(m) }},
		{"VerboseContext", -2, false, func(l *slog.Entry, r slog.Level, m string) { l.VerboseContext(bg, m) }},
		// package level, routed to the default logger
		{"pkg.Panic", 0, true, func(l *slog.Entry, r slog.Level, m string) { slog.Panic(m) }},
		{"pkg.Fatal", 1, true, func(l *slog.Entry, r slog.Level, m string) { slog.Fatal(m) }},
		{"pkg.Error", 2, true, func(l *slog.Entry, r slog.Level, m string) { slog.Error(m) }},
		{"pkg.Warn", 3, true, func(l *slog.Entry, r slog.Level, m string) { slog.Warn(m) }},
		{"pkg.Info", 4, true, func(l *slog.Entry, r slog.Level, m string) { slog.Info(m) }},
		{"pkg.Debug", 5, true, func(l *slog.Entry, r slog.Level, m string) { slog.Debug(m) }},
		{"pkg.Trace", 6, true, func(l *slog.Entry, r slog.Level, m string) { slog.Trace(m) }},
		{"pkg.Print", 8, true, func(l *slog.Entry, r slog.Level, m string) { slog.Print(m) }},
		{"pkg.Println", 8, true, func(l *slog.Entry, r slog.Level, m string) { slog.Println(m) }},
		{"pkg.Println()", 8, true, func(l *slog.Entry, r slog.Level, m string) { slog.Println() }},
		{"pkg.OK", 9, true, func(l *slog.Entry, r slog.Level, m string) { slog.OK(m) }},
		{"pkg.Success", 10, true, func(l *slog.Entry, r slog.Level, m string) { slog.Success(m) }},
		{"pkg.Fail", 11, true, func(l *slog.Entry, r slog.Level, m string) { slog.Fail(m) }},
		{"pkg.PanicContext", 0, true, func(l *slog.Entry, r slog.Level, m string) { slog.PanicContext(bg, m) }},
		{"pkg.FatalContext", 1, true, func(l *slog.Entry, r slog.Level, m string) { slog.FatalContext(bg, m) }},
		{"pkg.ErrorContext", 2, true, func(l *slog.Entry, r slog.Level, m string) { slog.ErrorContext(bg, m) }},
		{"pkg.WarnContext", 3, true, func(l *slog.Entry, r slog.Level, m string) { slog.WarnContext(bg, m) }},
		{"pkg.InfoContext", 4, true, func(l *slog.Entry, r slog.Level, m string) { slog.InfoContext(bg, m) }},
		{"pkg.DebugContext", 5, true, func(l *slog.Entry, r slog.Level, m string) { slog.DebugContext(bg, m) }},
		{"pkg.TraceContext", 6, true, func(l *slog.Entry, r slog.Level, m string) { slog.TraceContext(bg, m) }},
		{"pkg.PrintContext", 8, true, func(l *slog.Entry, r slog.Level, m string) { slog.PrintContext(bg, m) }},
		{"pkg.PrintlnContext", 8, true, func(l *slog.Entry, r slog.Level, m string) { slog.PrintlnContext(bg, m) }},
		{"pkg.OKContext", 9, true, func(l *slog.Entry, r slog.Level, m string) { slog.OKContext(bg, m) }},
		{"pkg.SuccessContext", 10, true, func(l *slog.Entry, r slog.Level, m string) { slog.SuccessContext(bg, m) }},
		{"pkg.FailContext", 11, true, func(l *slog.Entry, r slog.Level, m string) { slog.FailContext(bg, m) }},
		{"pkg.Verbose", -2, true, func(l *slog.Entry, r slog.Level, m string) { slog.Verbose(m) }},
		{"pkg.VerboseContext", -2, true, func(l *slog.Entry, r slog.Level, m string) { slog.VerboseContext(bg, m) }},
	}
}

var epTable = func() []entryPoint {
	base := eps()
	res := append([]entryPoint(nil), base...)
	for ci := 1; ci < len(gateCtxs); ci++ {
		ci := ci
		for _, ep := range base {
			if !strings.Contains(ep.name, "Context") && ep.name != "LogAttrs" && ep.name != "Logit" {
				continue
			}
			ep := ep
			inner := ep.call
			res = append(res, entryPoint{ep.name + gateCtxNames[ci], ep.fixed, ep.pkg, func(l *slog.Entry, r slog.Level, m string) {
				saved := bg
				bg = gateCtxs[ci]
				defer func() { bg = saved }()
				inner(l, r, m)
			}})
		}
	}
	return res
}()

type gateObs struct {
	R   int      `json:"r"`
	Yes []string `json:"yes"` // entry points through which a record of severity R was emitted
	No  []string `json:"no"`  // entry points through which nothing was emitted
}

func emitted(f func()) (out bool, panicked any) {
	takeAll()
	defer func() {
		if p := recover(); p != nil {
			panicked = p
		}
		for _, e := range takeAll() {
			if e.K == "w" && len(e.payload) > 0 {
				out = true
			}
		}
	}()
	f()
	return
}

// gateTable issues a record through every entry point at every severity the entry point can
// carry and reports, per severity, through which entry points something reached a writer
// (Enabled/EnabledContext count as entry points whose "output" is their answer).
func (r *coreRun) gateTable(id int, l *slog.Entry, o map[string]any) {
	isDefault := defaultEntry() == l
	bySev := map[int]*gateObs{}
	get := func(sev int) *gateObs {
		g := bySev[sev]
		if g == nil {
			g = &gateObs{R: sev, Yes: []string{}, No: []string{}}
			bySev[sev] = g
		}
		return g
	}
	add := func(sev int, ep string, out bool) {
		g := get(sev)
		if out {
			g.Yes = append(g.Yes, ep)
		} else {
			g.No = append(g.No, ep)
		}
	}
	verbose := false
	for _, ep := range epTable {
		if ep.pkg && !isDefault {
			continue
		}
		switch {
		case ep.fixed >= 0:
			out, _ := emitted(func() { ep.call(l, slog.Level(ep.fixed), "gate probe") })
			add(ep.fixed, ep.name, out)
		case ep.fixed == -2:
			out, _ := emitted(func() { ep.call(l, 0, "gate probe") })
			verbose = verbose || out
		default:
			for _, sev := range r.sc.GateSevs {
				out, _ := emitted(func() { ep.call(l, slog.Level(sev), "gate probe") })
				add(sev, ep.name, out)
			}
		}
	}
	for _, sev := range r.sc.GateSevs {
		add(sev, "Enabled", l.Enabled(slog.Level(sev)))
		add(sev, "EnabledContext", l.EnabledContext(bg, slog.Level(sev)))
		add(sev, "EnabledContext#cancelled", l.EnabledContext(gateCtxs[1], slog.Level(sev)))
	}
	// Entry.Log takes a log/slog level; the four standard levels map to their namesakes.
	for _, p := range []struct {
		sl logslog.Level
		r  int
	}{{logslog.LevelDebug, 5}, {logslog.LevelInfo, 4}, {logslog.LevelWarn, 3}, {logslog.LevelError, 2}} {
		out, _ := emitted(func() { l.Log(bg, p.sl, "gate probe") })
		add(p.r, "Log", out)
	}
	var res []*gateObs
	for _, sev := range r.sc.GateSevs {
		if g := bySev[sev]; g != nil {
			res = append(res, g)
		}
	}
	o["gate"] = res
	o["verbose"] = verbose
}

// defaultEntry returns the *Entry behind the package default logger: the logger itself when
// SetDefault was given an *Entry, else the detached logger made by slog.New (its own root).
func defaultEntry() *slog.Entry {
	if e, ok := slog.Default().(*slog.Entry); ok {
		return e
	}
	return slog.Default().Root()
}
