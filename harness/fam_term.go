package main

// C12 (spec/Term.tla): Panic and Fatal write the record first and then terminate as documented.
//
//   worker term-run <plan.json> <out.ndjson>     driver: runs the batches of the plan in child
//                                                processes of ITS OWN process mode (argv[0] and
//                                                the -test.* arguments are handed on), projects
//                                                what each child left behind and writes one
//                                                observation line per cell
//   worker term-child <batch.json> <log.ndjson>  executes the cells of one batch on the library
//
// A cell that exits ends its child.  Every cell is bracketed by a write-ahead marker ("B") and an
// end marker ("E"); the recorders handed to the library write through to the same log file with
// one write(2) per record, so whatever the child wrote before it ended is seen by the driver.
// The driver decides nothing: it reports out/status/pv/nrec/rec per cell, TLC (TermTrace.tla)
// compares that with the specification.
//
// Call sites (Term.tla Sites): a cell whose `from` is not "top" is issued from inside the
// production of another record - from the Write of a wrapper around the recording writer
// (termNestWriter) or from the String / MarshalText / MarshalJSON / LogValue method of a value
// (termStringer, termTextM, termValuer); the markers and the recover sit around the nested call.
//
// Ways of starting the process (Term.tla Starts): the driver starts its children with its own
// executable name and its own -test.* arguments, so the signs of the driver are the signs of the
// child; the child compares the signs of its argv (taken when the process started) with the
// cell's `start`.
//
// "hang": a child that is alive inside a call while its log does not grow is killed after a
// time limit and the call is reported as out = "hang" (termRunBatch).

import (
	"bytes"
	"context"
	"encoding/base64"
	"encoding/json"
	"errors"
	"fmt"
	"io"
	logslog "log/slog"
	"os"
	"os/exec"
	"path/filepath"
	"regexp"
	"strconv"
	"strings"
	"sync"
	"sync/atomic"
	"time"

	"github.com/hedzr/is"
	"github.com/hedzr/logg/slog"
)

func init() {
	register("term-run", termRunMain)
	register("term-child", termChildMain)
}

type termCell struct {
	ID      int    `json:"id"`
	Ep      string `json:"ep"`
	Recv    string `json:"recv"`
	R       int    `json:"r"`
	L       int    `json:"L"`
	Ni      bool   `json:"ni"`
	Ia      bool   `json:"ia"`
	Testing bool   `json:"testing"`
	Fmt     string `json:"fmt"`
	Base    string `json:"base"`
	Inp     string `json:"inp"`
	Dst     string `json:"dst"`   // destination class (Term.tla DstCfg)
	Size    int    `json:"size"`  // 0 = short message of the input class, else its exact length in bytes
	Start   string `json:"start"` // way the process was started (Term.tla Starts)
	From    string `json:"from"`  // call site (Term.tla Sites)
}

type termCustom struct {
	V     int    `json:"v"`
	Title string `json:"title"`
	Treat int    `json:"treat"`
}

type termPlan struct {
	Seed    int          `json:"seed"`
	Par     int          `json:"par"`
	Start   string       `json:"start"`  // way this driver (and so its children) must have been started
	HangS   int          `json:"hang_s"` // seconds without progress inside a call that make a "hang"
	Customs []termCustom `json:"customs"`
	Batches [][]termCell `json:"batches"`
}

type termBatch struct {
	Seed    int          `json:"seed"`
	Customs []termCustom `json:"customs"`
	Cells   []termCell   `json:"cells"`
}

// one line of a child's log
type termLine struct {
	T       string `json:"t"` // B begin, W write, E end, X the outer call of a nested cell is over (Out: ret/panic)
	ID      int    `json:"id"`
	W       string `json:"w,omitempty"` // "o" normal, "e" error destination, "do"/"de" package defaults
	P       string `json:"p,omitempty"` // payload, base64
	N       int    `json:"n,omitempty"` // long payload: the N raw bytes follow this line (same write(2))
	raw     []byte // decoded payload (reader side)
	Out     string `json:"out,omitempty"`
	Pv      string `json:"pv,omitempty"`
	Pvs     string `json:"pvs,omitempty"`
	Testing bool   `json:"testing,omitempty"`
	St      string `json:"st,omitempty"` // E: the signs of the child's own argv at start-up (Term.tla Starts)
}

// observation of one cell, as validated by TermTrace.tla
type termObs struct {
	termCell
	Out    string `json:"out"`
	Status int    `json:"status"`
	Pv     string `json:"pv"`
	Nrec   int    `json:"nrec"`
	Rec    string `json:"rec"`
	Batch  int    `json:"batch"`
	Pos    int    `json:"pos"` // position inside its process (history length before the call)
	Note   string `json:"note,omitempty"`
	Stall  int    `json:"stall_ms,omitempty"` // out = "hang": how long the log had not grown when the child was killed
	// nested cells: how the OUTER call (severity Always / Info) ended: "ret", "panic" (recovered around it),
	// "exit" (the process ended after the nested call had returned); "none": top-level cell, or the nested
	// call itself ended the process / got stuck
	Oout string `json:"oout"`
}

// termStartOf names the signs of a go test binary an argument vector carries (Term.tla Starts).
func termStartOf(args []string) string {
	name := len(args) > 0 && strings.HasSuffix(args[0], ".test")
	arg := false
	for _, a := range args[min(1, len(args)):] {
		if strings.HasPrefix(a, "-test.") {
			arg = true
		}
	}
	switch {
	case name && arg:
		return "gotest"
	case name:
		return "nameOnly"
	case arg:
		return "argOnly"
	}
	return "prod"
}

// the signs when the process started (the child replaces os.Args later)
var termStartAtInit = termStartOf(os.Args)

// ------------------------------------------------------------------------------------------
// call sites: where the cell's call is issued from

// termSite issues the cell's call (between its markers) the first time the site is hit.
type termSite struct {
	fire  func()
	fired bool
}

func (s *termSite) hit() {
	if s.fired {
		return
	}
	s.fired = true
	s.fire()
}

// termNestWriter is a destination: the first record it is handed (the outer record) makes it
// issue the cell's call from inside Write; that record goes to `outer` (a recorder the driver
// does not count), everything else to `inner`.
type termNestWriter struct {
	site         *termSite
	inner, outer io.Writer
}

func (w *termNestWriter) Write(p []byte) (int, error) {
	if !w.site.fired {
		w.site.hit()
		return w.outer.Write(p)
	}
	return w.inner.Write(p)
}

type termStringer struct{ site *termSite }

func (v termStringer) String() string { v.site.hit(); return "stringer" }

type termTextM struct{ site *termSite }

func (v termTextM) MarshalText() ([]byte, error) { v.site.hit(); return []byte("textm"), nil }
func (v termTextM) MarshalJSON() ([]byte, error) { v.site.hit(); return []byte(`"textm"`), nil }

type termValuer struct{ site *termSite }

func (v termValuer) LogValue() logslog.Value { v.site.hit(); return logslog.StringValue("valuer") }

// termOuter builds the logger of the outer record for the sites that use ANOTHER logger and
// returns the call that produces the outer record.  Called before the cell's flags are
// installed (NewSlogHandler changes the global flags).
func termOuter(lg *termLog, c termCell, site *termSite) (func(), error) {
	ol := slog.New(fmt.Sprintf("c12-outer-%d", c.ID))
	oe := ol.Root()
	xo, xe := &termRec{lg, "xo"}, &termRec{lg, "xe"}
	oe.SetWriter(xo)
	oe.SetErrorWriter(xe)
	switch c.Fmt {
	case "json":
		oe.SetJSONMode(true)
	case "color":
		oe.SetColorMode(true)
	default:
		oe.SetColorMode(false)
	}
	oe.SetLevel(slog.InfoLevel)
	msg := fmt.Sprintf("outer record of cell %d", c.ID)
	switch c.From {
	case "writeOther":
		oe.SetWriter(&termNestWriter{site: site, inner: xo, outer: xo})
		return func() { ol.Info(msg, "n", c.ID) }, nil
	case "string":
		return func() { ol.Info(msg, "n", c.ID, "v", termStringer{site}) }, nil
	case "marshalText":
		return func() { ol.Info(msg, "n", c.ID, "v", termTextM{site}) }, nil
	case "logValue":
		h := slog.NewSlogHandler(ol, &slog.HandlerOptions{NoColor: c.Fmt != "color", JSON: c.Fmt == "json", NoSource: true, Level: slog.InfoLevel})
		sl := logslog.New(h)
		return func() { sl.Info(msg, "n", c.ID, "v", termValuer{site}) }, nil
	}
	return nil, fmt.Errorf("unknown call site %q", c.From)
}

// ------------------------------------------------------------------------------------------
// inputs: message and arguments of a cell (the spec's `inp` classes)

func termMsgHead(c termCell, seed int) string {
	switch c.Inp {
	case "kv":
		return fmt.Sprintf("c12 \"quoted\" cell %d %s s%d", c.ID, c.Ep, seed)
	case "attr":
		return fmt.Sprintf("c12 cell %d %s s%d\nsecond line %d\nthird", c.ID, c.Ep, seed, c.ID)
	}
	return fmt.Sprintf("c12 cell %d %s s%d", c.ID, c.Ep, seed)
}

// termMsg is the message of the cell.  A sized cell (Size > 0) gets the short message of its
// input class, numbered 8-byte words (so that no two stretches of the text are alike) and an end
// mark, exactly Size bytes long; from 65537 bytes on a two-byte rune straddles offset 65536.
func termMsg(c termCell, seed int) string {
	head := termMsgHead(c, seed)
	if c.Size <= 0 {
		return head
	}
	tail := fmt.Sprintf(" end-of-%d$", c.ID)
	b := make([]byte, 0, c.Size)
	b = append(b, head...)
	b = append(b, " |"...)
	for k := 0; len(b)+8+len(tail) <= c.Size; k++ {
		b = append(b, fmt.Sprintf("%07x ", k)...)
	}
	for len(b)+len(tail) < c.Size {
		b = append(b, '.')
	}
	b = append(b, tail...)
	if len(b) >= 65537 {
		b[65535], b[65536] = 0xC3, 0xA9
	}
	if len(b) != c.Size {
		panic(fmt.Sprintf("term: message of %d bytes wanted, %d built", c.Size, len(b)))
	}
	return string(b)
}

func termArgs(c termCell) []any {
	switch c.Inp {
	case "kv":
		return []any{"k1", c.ID, "k2", "v w"}
	case "attr":
		return []any{slog.Int("k1", c.ID), slog.String("k2", "v w")}
	case "huge": // more attributes than any pooled slice is sized for
		args := make([]any, 0, 2300)
		for i := 0; i < 1150; i++ {
			args = append(args, fmt.Sprintf("h%04d", i), i)
		}
		return args
	}
	return nil
}

func termBaseFlags(base string) slog.Flags {
	switch base {
	case "empty":
		return slog.Lempty
	case "all":
		return ^slog.Flags(0) &^ (slog.LnoInterrupt | slog.Linterruptalways)
	}
	return slog.LstdFlags
}

// ------------------------------------------------------------------------------------------
// child

type termLog struct {
	f   *os.File
	cur int
}

func (l *termLog) line(v termLine) {
	b, _ := json.Marshal(v)
	b = append(b, '\n')
	if _, err := l.f.Write(b); err != nil { // one write(2), no buffering
		fmt.Fprintln(os.Stderr, "term-child: log write:", err)
		os.Exit(97)
	}
}

type termRec struct {
	log  *termLog
	name string
}

func (w *termRec) Write(p []byte) (int, error) {
	if len(p) > 4096 { // header line + the raw bytes + newline, still one write(2)
		h, _ := json.Marshal(termLine{T: "W", ID: w.log.cur, W: w.name, N: len(p)})
		b := make([]byte, 0, len(h)+len(p)+2)
		b = append(append(append(b, h...), '\n'), p...)
		b = append(b, '\n')
		if _, err := w.log.f.Write(b); err != nil {
			fmt.Fprintln(os.Stderr, "term-child: log write:", err)
			os.Exit(97)
		}
		return len(p), nil
	}
	w.log.line(termLine{T: "W", ID: w.log.cur, W: w.name, P: base64.StdEncoding.EncodeToString(p)})
	return len(p), nil
}

var termVerbCalls = map[string]func(l slog.Logger, ctx context.Context, m string, a ...any){
	"Panic":          func(l slog.Logger, _ context.Context, m string, a ...any) { l.Panic(m, a...) },
	"Fatal":          func(l slog.Logger, _ context.Context, m string, a ...any) { l.Fatal(m, a...) },
	"Error":          func(l slog.Logger, _ context.Context, m string, a ...any) { l.Error(m, a...) },
	"Warn":           func(l slog.Logger, _ context.Context, m string, a ...any) { l.Warn(m, a...) },
	"Info":           func(l slog.Logger, _ context.Context, m string, a ...any) { l.Info(m, a...) },
	"Debug":          func(l slog.Logger, _ context.Context, m string, a ...any) { l.Debug(m, a...) },
	"Trace":          func(l slog.Logger, _ context.Context, m string, a ...any) { l.Trace(m, a...) },
	"Print":          func(l slog.Logger, _ context.Context, m string, a ...any) { l.Print(m, a...) },
	"Println":        func(l slog.Logger, _ context.Context, m string, a ...any) { l.Println(append([]any{m}, a...)...) },
	"OK":             func(l slog.Logger, _ context.Context, m string, a ...any) { l.OK(m, a...) },
	"Success":        func(l slog.Logger, _ context.Context, m string, a ...any) { l.Success(m, a...) },
	"Fail":           func(l slog.Logger, _ context.Context, m string, a ...any) { l.Fail(m, a...) },
	"PanicContext":   func(l slog.Logger, c context.Context, m string, a ...any) { l.PanicContext(c, m, a...) },
	"FatalContext":   func(l slog.Logger, c context.Context, m string, a ...any) { l.FatalContext(c, m, a...) },
	"ErrorContext":   func(l slog.Logger, c context.Context, m string, a ...any) { l.ErrorContext(c, m, a...) },
	"WarnContext":    func(l slog.Logger, c context.Context, m string, a ...any) { l.WarnContext(c, m, a...) },
	"InfoContext":    func(l slog.Logger, c context.Context, m string, a ...any) { l.InfoContext(c, m, a...) },
	"DebugContext":   func(l slog.Logger, c context.Context, m string, a ...any) { l.DebugContext(c, m, a...) },
	"TraceContext":   func(l slog.Logger, c context.Context, m string, a ...any) { l.TraceContext(c, m, a...) },
	"PrintContext":   func(l slog.Logger, c context.Context, m string, a ...any) { l.PrintContext(c, m, a...) },
	"PrintlnContext": func(l slog.Logger, c context.Context, m string, a ...any) { l.PrintlnContext(c, m, a...) },
	"OKContext":      func(l slog.Logger, c context.Context, m string, a ...any) { l.OKContext(c, m, a...) },
	"SuccessContext": func(l slog.Logger, c context.Context, m string, a ...any) { l.SuccessContext(c, m, a...) },
	"FailContext":    func(l slog.Logger, c context.Context, m string, a ...any) { l.FailContext(c, m, a...) },
	"Infof":          func(l slog.Logger, _ context.Context, m string, a ...any) { _ = l.Infof("%s", m) },
	"Warnf":          func(l slog.Logger, _ context.Context, m string, a ...any) { _ = l.Warnf("%s", m) },
	"Errorf":         func(l slog.Logger, _ context.Context, m string, a ...any) { _ = l.Errorf("%s", m) },
}

var termPkgCalls = map[string]func(ctx context.Context, m string, a ...any){
	"Panic":          func(_ context.Context, m string, a ...any) { slog.Panic(m, a...) },
	"Fatal":          func(_ context.Context, m string, a ...any) { slog.Fatal(m, a...) },
	"Error":          func(_ context.Context, m string, a ...any) { slog.Error(m, a...) },
	"Warn":           func(_ context.Context, m string, a ...any) { slog.Warn(m, a...) },
	"Info":           func(_ context.Context, m string, a ...any) { slog.Info(m, a...) },
	"Debug":          func(_ context.Context, m string, a ...any) { slog.Debug(m, a...) },
	"Trace":          func(_ context.Context, m string, a ...any) { slog.Trace(m, a...) },
	"Print":          func(_ context.Context, m string, a ...any) { slog.Print(m, a...) },
	"Println":        func(_ context.Context, m string, a ...any) { slog.Println(append([]any{m}, a...)...) },
	"OK":             func(_ context.Context, m string, a ...any) { slog.OK(m, a...) },
	"Success":        func(_ context.Context, m string, a ...any) { slog.Success(m, a...) },
	"Fail":           func(_ context.Context, m string, a ...any) { slog.Fail(m, a...) },
	"PanicContext":   func(c context.Context, m string, a ...any) { slog.PanicContext(c, m, a...) },
	"FatalContext":   func(c context.Context, m string, a ...any) { slog.FatalContext(c, m, a...) },
	"ErrorContext":   func(c context.Context, m string, a ...any) { slog.ErrorContext(c, m, a...) },
	"WarnContext":    func(c context.Context, m string, a ...any) { slog.WarnContext(c, m, a...) },
	"InfoContext":    func(c context.Context, m string, a ...any) { slog.InfoContext(c, m, a...) },
	"DebugContext":   func(c context.Context, m string, a ...any) { slog.DebugContext(c, m, a...) },
	"TraceContext":   func(c context.Context, m string, a ...any) { slog.TraceContext(c, m, a...) },
	"PrintContext":   func(c context.Context, m string, a ...any) { slog.PrintContext(c, m, a...) },
	"PrintlnContext": func(c context.Context, m string, a ...any) { slog.PrintlnContext(c, m, a...) },
	"OKContext":      func(c context.Context, m string, a ...any) { slog.OKContext(c, m, a...) },
	"SuccessContext": func(c context.Context, m string, a ...any) { slog.SuccessContext(c, m, a...) },
	"FailContext":    func(c context.Context, m string, a ...any) { slog.FailContext(c, m, a...) },
}

var termStdLevel = map[int]logslog.Level{5: logslog.LevelDebug, 4: logslog.LevelInfo, 3: logslog.LevelWarn, 2: logslog.LevelError}

// termInstallFlags brings the global flags to f in one of the ways the API offers, chosen by the
// cell number: SetFlags; ResetFlags + Remove/AddFlags; Remove/AddFlags relative to the current
// value; or a SaveFlagsAndMod scope that is left through its restore function before the next
// cell is prepared.  When the flags already have the value the cell needs nothing is called at
// all, so a cell may run on flags that were re-installed by leaving a scope.
var termPendingRestore func()

func termInstallFlags(id int, f slog.Flags) {
	if termPendingRestore != nil {
		termPendingRestore()
		termPendingRestore = nil
	}
	cur := slog.GetFlags()
	switch {
	case cur == f:
	case id%4 == 0:
		slog.SetFlags(f)
	case id%4 == 1:
		slog.ResetFlags()
		slog.RemoveFlags(slog.GetFlags() &^ f)
		slog.AddFlags(f)
	case id%4 == 2:
		slog.RemoveFlags(cur &^ f)
		slog.AddFlags(f &^ cur)
	default:
		termPendingRestore = slog.SaveFlagsAndMod(f&^cur, cur&^f)
	}
	if slog.GetFlags() != f { // the API did not produce what was asked for: fall back, the cell decides on f
		slog.SetFlags(f)
	}
}

type termCtxKey int

func (k termCtxKey) String() string { return "ck" + strconv.Itoa(int(k)) }

// termPrepare configures the process and a fresh logger as the cell says and returns the call,
// and for a nested cell the call that produces the outer record (which hits `site`).
func termPrepare(lg *termLog, c termCell, msg string, site *termSite) (call func(), outer func(), err error) {
	nested := c.From != "" && c.From != "top"
	if nested && c.From != "writeSame" {
		if outer, err = termOuter(lg, c, site); err != nil {
			return nil, nil, err
		}
	}
	f := termBaseFlags(c.Base)
	if c.Ni {
		f |= slog.LnoInterrupt
	}
	if c.Ia {
		f |= slog.Linterruptalways
	}
	termInstallFlags(c.ID, f)

	// package defaults are recorded as well, whatever the routing (C03 is not this property's business)
	dw := slog.GetDefaultWriter().(interface {
		SetWriter(w io.Writer)
		SetErrorWriter(w io.Writer)
		ResetLevelWriters()
	})
	dw.SetWriter(&termRec{lg, "do"})
	dw.SetErrorWriter(&termRec{lg, "de"})
	dw.ResetLevelWriters()

	setup := func(e *slog.Entry) {
		if err == nil {
			err = termDestinations(lg, c, e)
		}
		switch c.Fmt {
		case "json":
			e.SetJSONMode(true)
		case "color":
			e.SetColorMode(true)
		default:
			e.SetColorMode(false)
		}
		e.SetLevel(slog.Level(c.L))
		if c.Inp == "nilctx" { // context keys registered, and the caller hands in a nil context
			e.SetContextKeys("ck1", termCtxKey(2))
		}
	}

	root := slog.New(fmt.Sprintf("c12-%d", c.ID)) // what a user holds: the Logger returned by New
	setup(root.Root())
	var target slog.Logger = root
	targetEntry := root.Root()
	switch c.Recv {
	case "root":
	case "child":
		kid := root.New("kid")
		setup(kid)
		target, targetEntry = kid, kid
	case "pkgimp":
		slog.SetDefault(root)
		slog.SetLevel(slog.Level(c.L))
	case "pkgentry":
		slog.SetDefault(root.Root())
		slog.SetLevel(slog.Level(c.L))
	default:
		return nil, nil, fmt.Errorf("unknown receiver kind %q", c.Recv)
	}
	if err != nil {
		return nil, nil, err
	}
	pkg := c.Recv == "pkgimp" || c.Recv == "pkgentry"
	if c.From == "writeSame" {
		// the outer record is one of the SAME logger: severity Always (normal device), handed to a
		// wrapper around the recording writer of the default destination class
		if c.Dst != "rec" && c.Dst != "" {
			return nil, nil, fmt.Errorf("call site writeSame needs the default destination class, not %q", c.Dst)
		}
		targetEntry.SetWriter(&termNestWriter{site: site, inner: &termRec{lg, "o"}, outer: &termRec{lg, "xo"}})
		om := fmt.Sprintf("outer record of cell %d", c.ID)
		if pkg {
			outer = func() { slog.Print(om) }
		} else {
			outer = func() { target.Print(om) }
		}
	}
	// SetLevel(Debug/Trace) switches the process-wide debug/trace modes on; the model has them off
	is.SetDebugMode(false)
	is.SetTraceMode(false)

	ctx := context.Background()
	if c.Inp == "nilctx" {
		ctx = nil
	}
	args := termArgs(c)
	switch {
	case pkg:
		fn, ok := termPkgCalls[c.Ep]
		if !ok {
			return nil, nil, fmt.Errorf("no package-level entry point %q", c.Ep)
		}
		return func() { fn(ctx, msg, args...) }, outer, nil
	case c.Ep == "LogAttrs":
		return func() { target.LogAttrs(ctx, slog.Level(c.R), msg, args...) }, outer, nil
	case c.Ep == "Logit":
		return func() { target.Logit(ctx, slog.Level(c.R), msg, args...) }, outer, nil
	case c.Ep == "Log":
		sl, ok := termStdLevel[c.R]
		if !ok {
			return nil, nil, fmt.Errorf("Log: severity %d is not a standard log/slog level", c.R)
		}
		return func() { target.Log(ctx, sl, msg, args...) }, outer, nil
	}
	fn, ok := termVerbCalls[c.Ep]
	if !ok {
		return nil, nil, fmt.Errorf("no entry point %q", c.Ep)
	}
	return func() { fn(target, ctx, msg, args...) }, outer, nil
}

// termDestinations gives the logger the writer set of the cell's destination class (Term.tla
// DstCfg) through the public API.  Recording writers write through to the child's log; "dflt"
// leaves the logger without writers of its own (the package default writers record as well).
func termDestinations(lg *termLog, c termCell, e *slog.Entry) error {
	o, er := &termRec{lg, "o"}, &termRec{lg, "e"}
	switch c.Dst {
	case "rec", "":
		e.SetWriter(o)
		e.SetErrorWriter(er)
	case "dflt":
	case "discN":
		e.SetWriter(io.Discard)
		e.SetErrorWriter(er)
	case "discE":
		e.SetWriter(o)
		e.SetErrorWriter(io.Discard)
	case "discBoth":
		e.SetWriter(io.Discard).SetErrorWriter(io.Discard)
	case "emptied": // whatever was added is removed again: both lists end up empty
		e.SetWriter(o)
		e.SetErrorWriter(er)
		if c.ID%2 == 0 {
			o2, e2 := &termRec{lg, "o2"}, &termRec{lg, "e2"}
			e.AddWriter(o2).AddErrorWriter(e2)
			e.RemoveWriter(o2).RemoveErrorWriter(e2)
		}
		e.RemoveWriter(o)
		e.RemoveErrorWriter(er)
	case "lvlrec":
		e.SetWriter(io.Discard).SetErrorWriter(io.Discard)
		e.AddLevelWriter(slog.PanicLevel, &termRec{lg, "lp"})
		e.AddLevelWriter(slog.FatalLevel, &termRec{lg, "lf"})
	case "lvldisc":
		e.SetWriter(o)
		e.SetErrorWriter(er)
		e.AddLevelWriter(slog.PanicLevel, io.Discard)
		e.AddLevelWriter(slog.FatalLevel, io.Discard)
	case "lvlemptied":
		e.SetWriter(o)
		e.SetErrorWriter(er)
		lp, lf := &termRec{lg, "lp"}, &termRec{lg, "lf"}
		e.AddLevelWriter(slog.PanicLevel, lp)
		e.AddLevelWriter(slog.FatalLevel, lf)
		if c.ID%2 == 0 {
			e.RemoveLevelWriter(slog.PanicLevel, lp)
			e.RemoveLevelWriter(slog.FatalLevel, lf)
		} else {
			e.ResetLevelWriter(slog.PanicLevel)
			e.ResetLevelWriter(slog.FatalLevel)
		}
	case "mixed":
		e.SetWriter(io.Discard).AddWriter(o)
		e.SetErrorWriter(io.Discard).AddErrorWriter(er)
	default:
		return fmt.Errorf("unknown destination class %q", c.Dst)
	}
	return nil
}

func termChildMain(args []string) int {
	if len(args) < 2 {
		fmt.Fprintln(os.Stderr, "usage: worker term-child <batch.json> <log.ndjson>")
		return 96
	}
	var b termBatch
	readJSON(args[0], &b)
	f, err := os.OpenFile(args[1], os.O_CREATE|os.O_WRONLY|os.O_APPEND, 0o644)
	if err != nil {
		fmt.Fprintln(os.Stderr, "term-child:", err)
		return 96
	}
	lg := &termLog{f: f}
	for _, c := range b.Customs {
		if err := slog.RegisterLevel(slog.Level(c.V), c.Title, slog.RegWithTreatedAsLevel(slog.Level(c.Treat))); err != nil {
			fmt.Fprintln(os.Stderr, "term-child: register:", err)
			return 96
		}
	}
	testing := is.InTesting()
	// The process mode (go test or not) is what it was when the process started.  Programs replace
	// os.Args later (the usual way to test a command line), which must not change it: every other
	// batch runs with an argument vector that looks like the OTHER mode.
	if len(b.Cells) > 0 && b.Cells[0].ID%2 == 1 {
		if testing {
			os.Args = []string{"app", "serve", "--port", "8080"}
		} else {
			os.Args = []string{"/tmp/go-build1/b001/app.test", "-test.v", "-test.run", "^TestX$"}
		}
	}
	for _, c := range b.Cells {
		if c.Start != "" && c.Start != termStartAtInit {
			fmt.Fprintf(os.Stderr, "term-child: cell %d wants a process started as %q, this one was started as %q\n", c.ID, c.Start, termStartAtInit)
			return 96
		}
		msg := termMsg(c, b.Seed)
		lg.cur = c.ID
		site := &termSite{}
		call, outer, err := termPrepare(lg, c, msg, site)
		if err != nil {
			fmt.Fprintln(os.Stderr, "term-child:", err)
			return 96
		}
		run := func() { // the cell's call between its markers, a recover around it
			lg.line(termLine{T: "B", ID: c.ID}) // write-ahead marker
			out, pv, pvs := "ret", "", ""
			func() {
				defer func() {
					if p := recover(); p != nil {
						out = "panic"
						if s, ok := p.(string); ok && s == msg {
							pv = "msg"
						} else {
							pv = "other"
							pvs = fmt.Sprintf("%T: %.200v", p, p)
						}
					}
				}()
				call()
			}()
			lg.line(termLine{T: "E", ID: c.ID, Out: out, Pv: pv, Pvs: pvs, Testing: testing, St: termStartAtInit})
		}
		if outer == nil {
			run()
			continue
		}
		// nested: the outer record is produced here, the cell's call is issued from the site
		site.fire = run
		var op any
		func() {
			defer func() { op = recover() }()
			outer()
		}()
		if !site.fired {
			fmt.Fprintf(os.Stderr, "term-child: cell %d: call site %q was not reached by the outer record (outer call panicked: %v)\n", c.ID, c.From, op)
			return 96
		}
		if op != nil { // the outer call is one of another severity: the driver reports how it ended
			lg.line(termLine{T: "X", ID: c.ID, Out: "panic", Pvs: fmt.Sprintf("%T: %.200v", op, op)})
		} else {
			lg.line(termLine{T: "X", ID: c.ID, Out: "ret"})
		}
	}
	f.Close()
	return 0
}

// ------------------------------------------------------------------------------------------
// independent decoders: is this payload the complete record of the call?

var termSGR = regexp.MustCompile("\x1b\\[[0-9;]*m")

var termLevelName = map[int]string{0: "panic", 1: "fatal"}
var termLevelTag = map[int]string{0: "[PNC]", 1: "[FTL]"}

func termLogfmtFields(line string) (map[string]string, error) {
	res := map[string]string{}
	i := 0
	for i < len(line) {
		for i < len(line) && line[i] == ' ' {
			i++
		}
		if i >= len(line) {
			break
		}
		j := strings.IndexByte(line[i:], '=')
		if j < 0 {
			return nil, fmt.Errorf("token without '=' at %d", i)
		}
		key := line[i : i+j]
		i += j + 1
		if i < len(line) && line[i] == '"' {
			k := i + 1
			for k < len(line) && line[k] != '"' {
				if line[k] == '\\' {
					k++
				}
				k++
			}
			if k >= len(line) {
				return nil, fmt.Errorf("unterminated quoted value of %q", key)
			}
			v, err := strconv.Unquote(line[i : k+1])
			if err != nil {
				return nil, fmt.Errorf("value of %q: %v", key, err)
			}
			res[key] = v
			i = k + 1
		} else {
			k := i
			for k < len(line) && line[k] != ' ' {
				k++
			}
			res[key] = line[i:k]
			i = k
		}
	}
	return res, nil
}

// termDecode returns "complete" or "incomplete:<why>" for the payload of a Panic/Fatal record.
func termDecode(c termCell, msg string, p []byte) string {
	if len(p) == 0 || p[len(p)-1] != '\n' {
		return "incomplete:no final newline"
	}
	wantAttrs := c.Inp != "plain" && c.Inp != "nilctx" && c.Base != "empty" // Lattrs is off in the empty flag set
	id := strconv.Itoa(c.ID)
	body := string(p[:len(p)-1])
	switch c.Fmt {
	case "json":
		if !strings.HasPrefix(body, "{") {
			return "incomplete:not a JSON record"
		}
		var m map[string]any
		dec := json.NewDecoder(strings.NewReader(body))
		dec.UseNumber()
		if err := dec.Decode(&m); err != nil {
			return "incomplete:json " + err.Error()
		}
		if dec.More() {
			return "incomplete:trailing bytes after the JSON object"
		}
		if s, _ := m["msg"].(string); s != msg {
			return "incomplete:msg differs"
		}
		if s, _ := m["level"].(string); s != termLevelName[c.R] {
			return "incomplete:level differs"
		}
		if wantAttrs && c.Inp == "huge" {
			if fmt.Sprint(m["h0000"]) != "0" || fmt.Sprint(m["h1149"]) != "1149" {
				return "incomplete:attributes missing"
			}
		} else if wantAttrs {
			if fmt.Sprint(m["k1"]) != id || fmt.Sprint(m["k2"]) != "v w" {
				return "incomplete:attributes missing"
			}
		}
	case "logfmt":
		if strings.HasPrefix(body, "{") || strings.Contains(body, "\x1b[") {
			return "incomplete:not a logfmt record"
		}
		if strings.Contains(body, "\n") {
			return "incomplete:more than one line"
		}
		m, err := termLogfmtFields(body)
		if err != nil {
			return "incomplete:logfmt " + err.Error()
		}
		if m["msg"] != msg {
			return "incomplete:msg differs"
		}
		if m["level"] != termLevelName[c.R] {
			return "incomplete:level differs"
		}
		if wantAttrs && c.Inp == "huge" {
			if m["h0000"] != "0" || m["h1149"] != "1149" {
				return "incomplete:attributes missing"
			}
		} else if wantAttrs && (m["k1"] != id || m["k2"] != "v w") {
			return "incomplete:attributes missing"
		}
	case "color":
		if !strings.Contains(body, "\x1b[") {
			return "incomplete:not a colored record"
		}
		lines := strings.Split(termSGR.ReplaceAllString(body, ""), "\n")
		ml := strings.Split(msg, "\n")
		if !strings.Contains(lines[0], termLevelTag[c.R]) {
			return "incomplete:level tag missing"
		}
		if !strings.Contains(lines[0], ml[0]) {
			return "incomplete:first message line missing"
		}
		rest := lines[1:]
		for _, want := range ml[1:] {
			found := -1
			for k, l := range rest {
				if strings.TrimSpace(l) == strings.TrimSpace(want) {
					found = k
					break
				}
			}
			if found < 0 {
				return "incomplete:message line missing"
			}
			rest = rest[found+1:]
		}
		if wantAttrs && c.Inp == "huge" {
			if !(strings.Contains(lines[0], "h0000=0 ") && strings.Contains(lines[0], "h1149=1149")) {
				return "incomplete:attributes missing"
			}
		} else if wantAttrs && !(strings.Contains(lines[0], "k1="+id) && strings.Contains(lines[0], `k2="v w"`)) {
			return "incomplete:attributes missing"
		}
	default:
		return "incomplete:unknown format"
	}
	return "complete"
}

// ------------------------------------------------------------------------------------------
// driver

type termInfra struct{ msg string }

func (e *termInfra) Error() string { return e.msg }

func termRunMain(args []string) int {
	if len(args) < 2 {
		fmt.Fprintln(os.Stderr, "usage: worker term-run <plan.json> <out.ndjson>")
		return 2
	}
	var plan termPlan
	readJSON(args[0], &plan)
	if plan.Start != "" && plan.Start != termStartAtInit {
		fmt.Fprintf(os.Stderr, "term-run: the plan wants a process started as %q, this one was started as %q\n", plan.Start, termStartAtInit)
		return 3
	}
	dir := filepath.Dir(args[1])
	var testArgs []string
	for _, a := range os.Args[1:] {
		if strings.HasPrefix(a, "-test.") {
			testArgs = append(testArgs, a)
		}
	}
	par := plan.Par
	if par < 1 {
		par = 4
	}
	type job struct {
		idx   int
		cells []termCell
	}
	jobs := make(chan job)
	var mu sync.Mutex
	out := newTraceOut(args[1])
	var firstErr error
	spawns := 0
	var wg sync.WaitGroup
	for w := 0; w < par; w++ {
		wg.Add(1)
		go func() {
			defer wg.Done()
			for j := range jobs {
				obs, n, err := termRunBatch(dir, j.idx, j.cells, &plan, testArgs)
				mu.Lock()
				spawns += n
				for _, o := range obs {
					out.emit(o)
				}
				if err != nil && firstErr == nil {
					firstErr = err
				}
				mu.Unlock()
			}
		}()
	}
	for i, b := range plan.Batches {
		jobs <- job{i, b}
	}
	close(jobs)
	wg.Wait()
	out.close()
	if firstErr != nil {
		fmt.Fprintln(os.Stderr, "term-run: infrastructure:", firstErr)
		return 3
	}
	fmt.Printf("{\"cells\":%d,\"spawns\":%d,\"testing\":%v,\"start\":%q,\"hangs\":%d}\n", out.n, spawns, is.InTesting(), termStartAtInit, atomic.LoadInt32(&termHangs))
	return 0
}

// termRunBatch executes the cells in order; whenever the child ends inside a cell the rest of
// the batch continues in a new child.
func termRunBatch(dir string, idx int, cells []termCell, plan *termPlan, testArgs []string) (obs []termObs, spawns int, err error) {
	remaining := cells
	round := 0
	for len(remaining) > 0 {
		round++
		bf := filepath.Join(dir, fmt.Sprintf("b%d-%d.json", idx, round))
		lf := filepath.Join(dir, fmt.Sprintf("b%d-%d.log", idx, round))
		bb, _ := json.Marshal(termBatch{Seed: plan.Seed, Customs: plan.Customs, Cells: remaining})
		if err := os.WriteFile(bf, bb, 0o644); err != nil {
			return obs, spawns, err
		}
		os.Remove(lf)
		cmd := exec.Command(os.Args[0], append([]string{"term-child", bf, lf}, testArgs...)...)
		var stderr bytes.Buffer
		cmd.Stderr = &stderr
		cmd.Stdout = &stderr
		spawns++
		done := make(chan error, 1)
		if err := cmd.Start(); err != nil {
			return obs, spawns, err
		}
		go func() { done <- cmd.Wait() }()
		werr, hung, ierr := termAwait(cmd, done, lf, plan.HangS)
		if ierr != nil {
			return obs, spawns, &termInfra{fmt.Sprintf("batch %d: %v: %s", idx, ierr, termTail(stderr.String()))}
		}
		code := 0
		if hung != nil {
			code = -1
		} else if werr != nil {
			var ee *exec.ExitError
			if errors.As(werr, &ee) && ee.Exited() {
				code = ee.ExitCode()
			} else {
				return obs, spawns, &termInfra{fmt.Sprintf("batch %d: child ended abnormally: %v\n%s", idx, werr, termTail(stderr.String()))}
			}
		}
		if code == 96 || code == 97 {
			return obs, spawns, &termInfra{fmt.Sprintf("batch %d: child setup failed (rc=%d): %s", idx, code, termTail(stderr.String()))}
		}
		lines, rerr := termReadLog(lf)
		if rerr != nil && code == 0 {
			return obs, spawns, &termInfra{fmt.Sprintf("batch %d: %v", idx, rerr)}
		}
		began, ended, writes, outerEnd := map[int]bool{}, map[int]termLine{}, map[int][][]byte{}, map[int]termLine{}
		for _, l := range lines {
			switch l.T {
			case "B":
				began[l.ID] = true
			case "E":
				ended[l.ID] = l
			case "X":
				outerEnd[l.ID] = l
			case "W":
				p := l.raw
				if began[l.ID] && !strings.HasPrefix(l.W, "x") { // writes during setup do not belong to the call, nor does the outer record of a nested cell
					writes[l.ID] = append(writes[l.ID], p)
				}
			}
		}
		died := -1
		for k, c := range remaining {
			o := termObs{termCell: c, Batch: idx, Pos: k, Oout: "none"}
			if e, ok := ended[c.ID]; ok {
				if e.Testing != c.Testing || (c.Start != "" && e.St != c.Start) {
					return obs, spawns, &termInfra{fmt.Sprintf("cell %d: process started as %q, is.InTesting()=%v; the cell wants %q, testing=%v", c.ID, e.St, e.Testing, c.Start, c.Testing)}
				}
				o.Out, o.Pv, o.Note = e.Out, e.Pv, e.Pvs
				if c.From != "" && c.From != "top" {
					if x, ok := outerEnd[c.ID]; ok {
						o.Oout = x.Out
						if x.Out != "ret" {
							o.Note = strings.TrimSpace(o.Note + " outer call: " + x.Pvs)
						}
					} else if hung == nil { // the nested call returned, then the process ended inside the outer call
						o.Oout = "exit"
						o.Note = strings.TrimSpace(o.Note + fmt.Sprintf(" outer call: the process ended with status %d; ", code) + termTail(stderr.String()))
						died = k
					} else {
						return obs, spawns, &termInfra{fmt.Sprintf("batch %d: child got stuck in the outer call of cell %d, after the nested call had returned", idx, c.ID)}
					}
				}
			} else if began[c.ID] && hung != nil {
				if hung.cell != c.ID {
					return obs, spawns, &termInfra{fmt.Sprintf("batch %d: child was stuck in cell %d, the log says cell %d is open", idx, hung.cell, c.ID)}
				}
				o.Out, o.Stall, o.Note = "hang", int(hung.stall/time.Millisecond), hung.note
				died = k
			} else if began[c.ID] {
				o.Out, o.Status = "exit", code
				if code != 253 {
					o.Note = termTail(stderr.String())
				}
				died = k
			} else {
				return obs, spawns, &termInfra{fmt.Sprintf("batch %d: child ended (rc=%d) outside a cell, before cell %d: %s", idx, code, c.ID, termTail(stderr.String()))}
			}
			termProject(&o, writes[c.ID], plan.Seed)
			obs = append(obs, o)
			if died >= 0 {
				break
			}
		}
		if died < 0 {
			if code != 0 {
				return obs, spawns, &termInfra{fmt.Sprintf("batch %d: child finished all cells but rc=%d: %s", idx, code, termTail(stderr.String()))}
			}
			remaining = nil
		} else {
			remaining = remaining[died+1:]
		}
		os.Remove(bf)
		os.Remove(lf)
	}
	return obs, spawns, nil
}

// ------------------------------------------------------------------------------------------
// "does not terminate"

type termHang struct {
	cell  int           // the cell the child was inside
	stall time.Duration // how long its log had not grown
	note  string
}

// verdicts "hang" of this driver run so far
var termHangs int32

const (
	termPoll      = 40 * time.Millisecond
	termPollLate  = 250 * time.Millisecond  // a poll interval longer than this: the driver itself was not scheduled
	termShortHang = 1500 * time.Millisecond // limit once two children of this run have been found stuck
)

// termProcStat returns the state letter and the CPU time (clock ticks, user + system) of a process.
func termProcStat(pid int) (state string, ticks int64) {
	b, err := os.ReadFile(fmt.Sprintf("/proc/%d/stat", pid))
	if err != nil {
		return "?", 0
	}
	k := bytes.LastIndexByte(b, ')')
	f := strings.Fields(string(b[k+1:]))
	if k < 0 || len(f) < 13 {
		return "?", 0
	}
	u, _ := strconv.ParseInt(f[11], 10, 64)
	v, _ := strconv.ParseInt(f[12], 10, 64)
	return f[0], u + v
}

// termOpenCell reads a child's log: the cell that has begun and not ended (-1: none), and whether
// a record of that call (not the outer record of a nested cell) is in the log already.
func termOpenCell(lf string) (cell int, hasRec bool) {
	lines, _ := termReadLog(lf)
	cell = -1
	for _, l := range lines {
		switch l.T {
		case "B":
			cell, hasRec = l.ID, false
		case "E":
			if l.ID == cell {
				cell, hasRec = -1, false
			}
		case "W":
			if l.ID == cell && !strings.HasPrefix(l.W, "x") && len(l.raw) > 0 {
				hasRec = true
			}
		}
	}
	return
}

// termAwait waits for the child.  The child is "stuck" when it is alive inside a call (a cell has
// begun and not ended) and its log has not grown for hangS seconds - with the call's record
// already in the log; without it, twice as long.  Only time during which this driver was being
// scheduled itself counts (a poll interval that took longer than termPollLate is dropped: the
// machine is starving, the child probably too), so a busy machine makes the wait longer, not the
// verdict wrong.  After two verdicts in one run the limit for "record written, no progress" drops
// to termShortHang: the tree has the defect, the remaining cells only have to be classified.
// A child that has not begun any cell / is between two cells when ten times the limit is over is
// an infrastructure problem (ierr), never a verdict.
func termAwait(cmd *exec.Cmd, done chan error, lf string, hangS int) (werr error, hung *termHang, ierr error) {
	limit := time.Duration(hangS) * time.Second
	if limit <= 0 {
		limit = 30 * time.Second
	}
	tick := time.NewTicker(termPoll)
	defer tick.Stop()
	var stall, counted, nextLook time.Duration
	lastSize := int64(-1)
	last := time.Now()
	_, cpu0 := termProcStat(cmd.Process.Pid)
	for {
		select {
		case werr = <-done:
			return werr, nil, nil
		case now := <-tick.C:
			dt := now.Sub(last)
			last = now
			if dt > termPollLate {
				continue
			}
			counted += dt
			var size int64
			if st, err := os.Stat(lf); err == nil {
				size = st.Size()
			}
			if size != lastSize {
				lastSize, stall, nextLook = size, 0, 0
				_, cpu0 = termProcStat(cmd.Process.Pid)
				continue
			}
			stall += dt
			need := limit
			if atomic.LoadInt32(&termHangs) >= 2 {
				need = termShortHang
			}
			if stall >= need && stall >= nextLook {
				nextLook = stall + time.Second
				cell, hasRec := termOpenCell(lf)
				if cell >= 0 && (hasRec && stall >= need || stall >= 2*limit) {
					state, cpu1 := termProcStat(cmd.Process.Pid)
					cmd.Process.Kill()
					<-done
					atomic.AddInt32(&termHangs, 1)
					how := "idle"
					if cpu1-cpu0 > int64(stall/time.Second)*50 { // more than half of one CPU (100 ticks/s)
						how = "spinning"
					}
					rec := "the call's record is in the log"
					if !hasRec {
						rec = "no record of the call in the log"
					}
					return nil, &termHang{cell, stall, fmt.Sprintf("child alive inside the call, no progress for %.1f s (%s; process state %s, %d CPU ticks meanwhile, %s); killed",
						stall.Seconds(), rec, state, cpu1-cpu0, how)}, nil
				}
			}
			if counted >= 10*limit {
				cell, _ := termOpenCell(lf)
				cmd.Process.Kill()
				<-done
				if cell < 0 {
					return nil, nil, fmt.Errorf("child neither began nor finished its work within %.0f s", counted.Seconds())
				}
				return nil, nil, fmt.Errorf("child timed out after %.0f s (inside cell %d, log still growing or limit not reached)", counted.Seconds(), cell)
			}
		}
	}
}

// termProject turns the payloads written during the call into nrec / rec.
func termProject(o *termObs, payloads [][]byte, seed int) {
	n := 0
	var last []byte
	for _, p := range payloads {
		if len(p) > 0 {
			n++
			last = p
		}
	}
	o.Nrec = n
	switch {
	case o.R != 0 && o.R != 1:
		o.Rec = "skip" // which records other severities produce is decided by other properties
	case n == 0:
		o.Rec = "none"
	case n > 1:
		o.Rec = "incomplete:more than one write"
	default:
		o.Rec = termDecode(o.termCell, termMsg(o.termCell, seed), last)
		if o.Rec != "complete" && o.Note == "" {
			o.Note = fmt.Sprintf("%.300q", last)
		}
	}
}

func termReadLog(path string) ([]termLine, error) {
	b, err := os.ReadFile(path)
	if err != nil {
		return nil, err
	}
	var res []termLine
	for len(b) > 0 {
		k := bytes.IndexByte(b, '\n')
		ln := b
		if k >= 0 {
			ln, b = b[:k], b[k+1:]
		} else {
			b = nil
		}
		if len(ln) == 0 {
			continue
		}
		var l termLine
		if err := json.Unmarshal(ln, &l); err != nil {
			return res, fmt.Errorf("bad log line %.200q", ln)
		}
		if l.N > 0 { // the raw payload follows (what is there of it, if the process died in the write)
			n := l.N
			if n > len(b) {
				n = len(b)
			}
			l.raw, b = b[:n], b[n:]
			if len(b) > 0 && b[0] == '\n' {
				b = b[1:]
			}
		} else if l.P != "" {
			l.raw, _ = base64.StdEncoding.DecodeString(l.P)
		}
		res = append(res, l)
	}
	return res, nil
}

func termTail(s string) string {
	if len(s) > 600 {
		s = s[len(s)-600:]
	}
	return s
}
