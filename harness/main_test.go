//go:build verif

package main

import (
	"os"
	"testing"
)

// The worker can also be built as a REAL go test binary (go test -c [-cover]): TestMain then
// dispatches exactly like main().  A process of this kind is "under go test" for every means of
// detection (argv, package testing, coverage mode), not only for the argv convention.
func TestMain(m *testing.M) {
	if len(os.Args) > 1 {
		if fn, ok := commands[os.Args[1]]; ok {
			os.Exit(fn(os.Args[2:]))
		}
	}
	os.Exit(m.Run())
}
