package main

// C09, the dimension "process environment": the caller field of a record is the call site's file name
// after path hardening, and the default protected directories of the library ($HOME -> "~", the
// directory the process was started in -> ".") may be NESTED above that file - a program run from a
// directory below $HOME (go run / go test in ~/work/proj).  The check runs the history experiments in
// both kinds of environment; the worker reports which one it finds itself in (nothing is configured
// through the library for this: only HOME and the working directory of the process differ).

import (
	"os"
	"reflect"
	"runtime"
	"strings"

	"github.com/hedzr/logg/slog"
)

// histSiteFile is the compile-time file name of the call site every probe is issued from (this package
// is compiled from one directory, so any function of it will do).
func histSiteFile() string {
	_, f, _, _ := runtime.Caller(0)
	return f
}

func histUnder(file, dir string) bool {
	d := strings.TrimRight(dir, "/")
	return dir != "" && strings.HasPrefix(file, d+"/")
}

// The second process-global rewrite table is the one of code hosting providers ("github.com" -> "GH"),
// applied to the caller's function name of coloured records while Lcallerpackagename is set.  Its entries
// overlap as soon as the program registers a provider below a built-in one (AddCodeHostingProviders(
// "github.com/acme", "AC")).  Environment "providers" (VERIF_C09_PROVIDERS set by the check): such a
// provider is registered, the flag is on, and the probes carry a call site inside the library itself
// (a function whose name starts with github.com/hedzr/...; the worker's own functions are in package main).
var histLibSite uintptr

func histProviders() bool { return os.Getenv("VERIF_C09_PROVIDERS") != "" }

// histProvidersSetup is called by histSetup after it has set the flags.
func histProvidersSetup() {
	if !histProviders() {
		return
	}
	slog.AddCodeHostingProviders("github.com/hedzr", "HZ")
	slog.AddFlags(slog.Lcallerpackagename)
	histLibSite = reflect.ValueOf(slog.Safety).Pointer() + 1 // a return address inside slog.Safety
}

// histEnvKind: "providers" as described above; "nested" when the probes' source file lies under $HOME and under the working directory
// and these two are different directories (so one of them lies inside the other), "flat" otherwise.
func histEnvKind() string {
	if histProviders() {
		return "providers"
	}
	home, _ := os.UserHomeDir()
	cwd, _ := os.Getwd()
	f := histSiteFile()
	if home != cwd && histUnder(f, home) && histUnder(f, cwd) {
		return "nested"
	}
	return "flat"
}
