package main

// Family "timestamp" (C16): timestamps show the record's instant in the configured zone and
// layout.  Two sub-commands, both driven by what TLC computed from spec/Timestamp.tla:
//
//	tscells <in.json> <out.json>   replay of the exported decision table: per cell N sampled
//	                               instants go through WriteThru; the time field is projected out
//	                               of the record (encoding/json, logfmt token, text before '|')
//	                               and must be explained by a layout the SPEC allows, in the zone
//	                               the SPEC selects.
//	tsrun <script.json> <trace>    executes call sequences (Set/With UTCMode/TimeFormat, New with
//	                               options, flag calls) and records after every call, for every
//	                               logger and format, which (layout, zone) pairs explain the probe
//	                               records; TLC validates the recording (TimestampTrace.tla).
//
// "explained by layout y in zone z": the text equals the instant, taken to zone z, formatted
// with layout y by package time, AND parsing the text with y gives back the parts of the instant
// that the SPEC says the layout carries (LayoutInfo, exported by TLC).  Nothing here decides
// which zone or layout is right.

import (
	"bytes"
	"context"
	"encoding/json"
	"fmt"
	"math/rand"
	"os"
	"regexp"
	"sort"
	"strconv"
	"strings"
	"time"
	_ "time/tzdata" // named zones must not depend on the sandbox

	"github.com/hedzr/logg/slog"
)

func init() {
	register("tscells", tsCellsMain)
	register("tsrun", tsRunMain)
}

// The documented layout strings, written out here on purpose (not taken from the library's
// constants): a change of a constant in the library is a change of the printed layout.
var tsLayouts = map[string]string{
	"DateOnly":        "2006-01-02",
	"TimeNoNano":      "15:04:05Z07:00",
	"TimeNano":        "15:04:05.000000Z07:00",
	"DateTime":        "2006-01-0215:04:05Z07:00",
	"RFC3339Nano":     "2006-01-02T15:04:05.000000Z07:00",
	"RFC3339NanoOrig": "2006-01-02T15:04:05.999999999Z07:00", // = time.RFC3339Nano
	"RFC1123Z":        "Mon, 02 Jan 2006 15:04:05 -0700",
	"Kitchen":         "3:04PM",
	"StampMicro":      "Jan _2 15:04:05.000000",
	"SpaceNano":       "2006-01-02 15:04:05.000000000 -0700",
	"RFC1123":         "Mon, 02 Jan 2006 15:04:05 MST", // prints the ABBREVIATION of the zone the instant is expressed in
	// layouts whose literal text needs escaping inside a JSON / logfmt string
	"TabMicro":      "2006-01-02\t15:04:05.000000Z07:00",
	"QuoteHMS":      "15h04'05\"",
	"BackslashDate": "2006\\01\\02 15:04:05",
}

// what a text in a layout carries (from Timestamp!LayoutInfo, via TLC)
type tsInfo struct {
	Date string `json:"date"` // ymd, md, none
	Time string `json:"time"` // hms, hm, none
	Frac int    `json:"frac"` // digits of the sub-second part
	Zone bool   `json:"zone"` // offset printed (hours and minutes)
}

var tsInfos map[string]tsInfo
var tsIds []string // sorted layout ids

func tsSetInfos(m map[string]tsInfo) error {
	tsInfos = m
	tsIds = tsIds[:0]
	for id := range m {
		if _, ok := tsLayouts[id]; !ok {
			return fmt.Errorf("layout id %q of the specification has no layout string in the worker", id)
		}
		tsIds = append(tsIds, id)
	}
	sort.Strings(tsIds)
	// self-check of (layout string, info): a reference instant formatted with the string must
	// parse back to itself under the info, in its own zone and in UTC
	ref := time.Date(2021, 11, 7, 23, 58, 59, 123456789, time.FixedZone("XYZ", 5*3600+1800))
	for _, id := range tsIds {
		for _, tm := range []time.Time{ref, ref.UTC()} {
			if !tsParsesBack(tm.Format(tsLayouts[id]), id, tm) {
				return fmt.Errorf("layout %s: info %+v does not fit layout string %q", id, m[id], tsLayouts[id])
			}
		}
	}
	return nil
}

var tsPow10 = [...]int{1000000000, 100000000, 10000000, 1000000, 100000, 10000, 1000, 100, 10, 1}

// tsParsesBack: parsing text with layout id gives back the parts of tm (in tm's zone) that the
// layout carries.
func tsParsesBack(text, id string, tm time.Time) bool {
	inf := tsInfos[id]
	p, err := time.Parse(tsLayouts[id], text)
	if err != nil {
		// a layout that prints the zone ABBREVIATION prints a numeric offset for a zone without a name,
		// which package time itself cannot parse back under that layout: nothing to compare then (the
		// text itself is still compared with package time's rendering by tsExplains)
		if strings.Contains(tsLayouts[id], "MST") && tm.Format("MST") != "" && strings.ContainsAny(tm.Format("MST")[:1], "+-") {
			return true
		}
		return false
	}
	switch inf.Date {
	case "ymd":
		if p.Year() != tm.Year() || p.Month() != tm.Month() || p.Day() != tm.Day() {
			return false
		}
	case "md":
		if p.Month() != tm.Month() || p.Day() != tm.Day() {
			return false
		}
	}
	switch inf.Time {
	case "hms":
		if p.Hour() != tm.Hour() || p.Minute() != tm.Minute() || p.Second() != tm.Second() {
			return false
		}
	case "hm":
		if p.Hour() != tm.Hour() || p.Minute() != tm.Minute() {
			return false
		}
	}
	q := tsPow10[inf.Frac]
	if inf.Time == "hms" {
		if p.Nanosecond() != tm.Nanosecond()/q*q {
			return false
		}
	}
	if inf.Zone {
		_, off := tm.Zone()
		_, poff := p.Zone()
		if poff != off/60*60 { // the layouts print hours and minutes of the offset
			return false
		}
		// the statement read literally: the same instant, to the layout's precision
		if inf.Date == "ymd" && inf.Time == "hms" && off%60 == 0 {
			if !p.Equal(tm.Add(-time.Duration(tm.Nanosecond() % q))) {
				return false
			}
		}
	}
	return true
}

func tsExplains(text, id string, tm time.Time) bool {
	return text == tm.Format(tsLayouts[id]) && tsParsesBack(text, id, tm)
}

// ---------------------------------------------------------------- projection of the time field

var tsReSGR = regexp.MustCompile("\x1b\\[[0-9;]*m")

// tsExtract projects the time field out of one record.
func tsExtract(format string, p []byte) (string, error) {
	switch format {
	case "json":
		var m map[string]any
		if err := json.Unmarshal(p, &m); err != nil {
			return "", fmt.Errorf("record is not JSON: %v", err)
		}
		// the record's own time field is the FIRST member named "time" (an attribute may use the name too)
		dec := json.NewDecoder(bytes.NewReader(p))
		if t, err := dec.Token(); err != nil || t != json.Delim('{') {
			return "", fmt.Errorf("record is not a JSON object")
		}
		for dec.More() {
			kt, err := dec.Token()
			if err != nil {
				return "", fmt.Errorf("record is not JSON: %v", err)
			}
			var raw json.RawMessage
			if err := dec.Decode(&raw); err != nil {
				return "", fmt.Errorf("record is not JSON: %v", err)
			}
			if k, _ := kt.(string); k == "time" {
				var s string
				if err := json.Unmarshal(raw, &s); err != nil {
					return "", fmt.Errorf("first member \"time\" is not a string")
				}
				return s, nil
			}
		}
		return "", fmt.Errorf("no string field \"time\"")
	case "logfmt":
		s := strings.TrimRight(string(p), "\n")
		if strings.HasPrefix(s, "{") || strings.Contains(s, "\x1b[") {
			return "", fmt.Errorf("record is not logfmt")
		}
		for s != "" {
			eq := strings.IndexByte(s, '=')
			if eq < 0 {
				break
			}
			key := s[:eq]
			s = s[eq+1:]
			var val string
			if strings.HasPrefix(s, "\"") {
				end := 1
				for end < len(s) && s[end] != '"' {
					if s[end] == '\\' {
						end++
					}
					end++
				}
				if end >= len(s) {
					return "", fmt.Errorf("unterminated quoted value")
				}
				v, err := strconv.Unquote(s[:end+1])
				if err != nil {
					return "", fmt.Errorf("bad quoted value %s", s[:end+1])
				}
				val, s = v, s[end+1:]
			} else {
				sp := strings.IndexByte(s, ' ')
				if sp < 0 {
					sp = len(s)
				}
				val, s = s[:sp], s[sp:]
			}
			if key == "time" {
				return val, nil
			}
			s = strings.TrimLeft(s, " ")
		}
		return "", fmt.Errorf("no token time=")
	case "color":
		s := string(p)
		if !strings.Contains(s, "\x1b[") {
			return "", fmt.Errorf("record is not colored text")
		}
		s = tsReSGR.ReplaceAllString(s, "")
		bar := strings.IndexByte(s, '|')
		if bar < 0 {
			return "", fmt.Errorf("no '|' after the timestamp")
		}
		return s[:bar], nil
	}
	return "", fmt.Errorf("unknown format %q", format)
}

func tsSetFormat(l *slog.Entry, format string) {
	switch format {
	case "json":
		l.SetJSONMode(true)
	case "logfmt":
		l.SetJSONMode(false)
		l.SetColorMode(false)
	case "color":
		l.SetColorMode(true)
	}
}

// tsEmit sends one record with the explicit instant through WriteThru and returns the payload
// the destination received.
func tsEmit(l *slog.Entry, ts time.Time) ([]byte, error) {
	sink.reset()
	var attrs slog.Attrs
	if ts.Nanosecond()%3 == 2 {
		// the record also carries attributes, one of them named like the time field and holding ANOTHER
		// instant in another zone: the record's timestamp is still the record's own instant
		attrs = slog.NewAttrs("k", 1, "time", ts.Add(-37*time.Hour-13*time.Minute).In(time.FixedZone("", -9*3600-1800)))
	}
	l.WriteThru(context.Background(), slog.InfoLevel, ts, 0, "m", attrs)
	var got [][]byte
	for _, e := range sink.take() {
		if e.K == "w" {
			got = append(got, e.payload)
		}
	}
	if len(got) != 1 {
		return nil, fmt.Errorf("%d writes for one record", len(got))
	}
	return got[0], nil
}

// ---------------------------------------------------------------- flags

var tsFlagBits = map[string]slog.Flags{
	"date": slog.Ldate, "time": slog.Ltime, "micro": slog.Lmicroseconds, "local": slog.LlocalTime,
}

const tsAllBits = slog.Ldate | slog.Ltime | slog.Lmicroseconds | slog.LlocalTime

func tsBase() slog.Flags { return (slog.LstdFlags &^ tsAllBits) | slog.LnoInterrupt }

func tsBits(names []string) (f slog.Flags) {
	for _, n := range names {
		b, ok := tsFlagBits[n]
		if !ok {
			panic("unknown flag " + n)
		}
		f |= b
	}
	return
}

func tsFlagNames() []string {
	f := slog.GetFlags()
	res := []string{}
	for _, n := range []string{"date", "local", "micro", "time"} {
		if f&tsFlagBits[n] != 0 {
			res = append(res, n)
		}
	}
	return res
}

// ---------------------------------------------------------------- instants

var tsZoneNames = []string{
	"America/New_York", "Europe/Amsterdam", "Asia/Kolkata", "Asia/Kathmandu", "Australia/Lord_Howe",
	"Pacific/Kiritimati", "Pacific/Apia", "America/St_Johns", "Africa/Monrovia", "Europe/London",
	"Asia/Tokyo", "Pacific/Chatham", "America/Caracas", "Europe/Dublin", "Antarctica/Troll",
	"Pacific/Marquesas", "Asia/Tehran", "America/Sao_Paulo",
}
var tsZones []*time.Location

func tsLoadZones() error {
	for _, n := range tsZoneNames {
		loc, err := time.LoadLocation(n)
		if err != nil {
			return err
		}
		tsZones = append(tsZones, loc)
	}
	return nil
}

// an instant as it is written to replay files
type tsInstant struct {
	Sec  int64  `json:"sec"`  // Unix seconds
	Nsec int    `json:"nsec"` // nanoseconds
	Zone string `json:"zone"` // named zone, "UTC", "Local", or "" with Off
	Off  int    `json:"off"`  // offset in seconds of a fixed zone
}

func (i tsInstant) time() (time.Time, error) {
	var loc *time.Location
	switch i.Zone {
	case "":
		loc = time.FixedZone("", i.Off)
	case "UTC":
		loc = time.UTC
	case "GMT0":
		loc = time.FixedZone("GMT", 0) // offset zero, yet not UTC
	case "Local":
		loc = time.Local
	default:
		var err error
		if loc, err = time.LoadLocation(i.Zone); err != nil {
			return time.Time{}, err
		}
	}
	return time.Unix(i.Sec, int64(i.Nsec)).In(loc), nil
}

func tsDescribe(tm time.Time, loc tsInstant) tsInstant {
	loc.Sec, loc.Nsec = tm.Unix(), tm.Nanosecond()
	return loc
}

func tsSampleZone(rng *rand.Rand) (*time.Location, tsInstant) {
	switch x := rng.Intn(100); {
	case x < 35: // whole-minute fixed offset within +-14 h
		off := (rng.Intn(28*60+1) - 14*60) * 60
		return time.FixedZone("", off), tsInstant{Off: off}
	case x < 45: // fixed offset with seconds
		off := (rng.Intn(28*60+1)-14*60)*60 + rng.Intn(59) + 1
		return time.FixedZone("", off), tsInstant{Off: off}
	case x < 85:
		k := rng.Intn(len(tsZones))
		return tsZones[k], tsInstant{Zone: tsZoneNames[k]}
	case x < 89:
		return time.FixedZone("GMT", 0), tsInstant{Zone: "GMT0"}
	case x < 92:
		return time.UTC, tsInstant{Zone: "UTC"}
	case x < 96:
		return time.Local, tsInstant{Zone: "Local"}
	}
	return time.FixedZone("", 0), tsInstant{}
}

var tsEdgeYears = []int{1, 2, 999, 1000, 1582, 1883, 1899, 1900, 1937, 1969, 1970, 2000, 2037, 2038, 9998, 9999}

func tsSampleNanos(rng *rand.Rand) int {
	switch x := rng.Intn(100); {
	case x < 40:
		return rng.Intn(1000000000)
	case x < 52:
		return 0
	case x < 62:
		return rng.Intn(1000000) * 1000
	case x < 70:
		return rng.Intn(1000) * 1000000
	case x < 78:
		return 999999999
	case x < 83:
		return 1
	case x < 90:
		return rng.Intn(1000000)*1000 + 1 + rng.Intn(999)
	}
	return 999999000 + rng.Intn(1000)
}

// tsSampleInstant: any year 1..9999 (also when taken to UTC), any nanosecond, fixed or named zone
func tsSampleInstant(rng *rand.Rand) (time.Time, tsInstant) {
	for {
		loc, d := tsSampleZone(rng)
		if x := rng.Intn(100); x < 4 {
			// edge instants: the zero value of time.Time (what "no time given" looks like elsewhere - here it
			// is an instant like any other), the Unix epoch, the last representable second of year 9999
			var tm time.Time
			switch x {
			case 0, 1:
				tm = time.Time{}.In(loc)
			case 2:
				tm = time.Unix(0, 0).In(loc)
			default:
				tm = time.Date(9999, 12, 31, 23, 59, 59, 999999999, time.UTC).In(loc)
			}
			if y := tm.Year(); y >= 1 && y <= 9999 {
				if y := tm.UTC().Year(); y >= 1 && y <= 9999 {
					return tm, tsDescribe(tm, d)
				}
			}
			continue
		}
		var year int
		switch x := rng.Intn(100); {
		case x < 40:
			year = 1 + rng.Intn(9999)
		case x < 60:
			year = 1850 + rng.Intn(250)
		case x < 72:
			year = tsEdgeYears[rng.Intn(len(tsEdgeYears))]
		default:
			year = 1970 + rng.Intn(70)
		}
		hour := rng.Intn(24)
		if rng.Intn(4) == 0 {
			hour = []int{0, 23, 11, 12}[rng.Intn(4)]
		}
		tm := time.Date(year, time.Month(1+rng.Intn(12)), 1+rng.Intn(31), hour, rng.Intn(60), rng.Intn(60), tsSampleNanos(rng), loc)
		if y := tm.Year(); y < 1 || y > 9999 {
			continue
		}
		if y := tm.UTC().Year(); y < 1 || y > 9999 {
			continue
		}
		return tm, tsDescribe(tm, d)
	}
}

// tsProbeInstant: an instant whose text differs between its own zone and UTC under every
// layout (other date, other hour and minute, non-zero offset) and whose sub-second part has nine
// significant digits.
func tsProbeInstant(rng *rand.Rand) time.Time {
	offMin := 61 + rng.Intn(13*60-61)
	if offMin%60 == 0 {
		offMin += 17
	}
	within := rng.Intn(offMin * 60) // seconds
	ns := rng.Intn(100000000)*10 + 1 + rng.Intn(9)
	if ns < 100000000 {
		ns += 100000000
	}
	year := 1000 + rng.Intn(8000)
	month := time.Month(1 + rng.Intn(12))
	day := 2 + rng.Intn(26)
	if rng.Intn(2) == 0 { // east of Greenwich, just after local midnight: UTC is the day before
		loc := time.FixedZone("", offMin*60)
		return time.Date(year, month, day, 0, 0, within, ns, loc)
	}
	loc := time.FixedZone("", -offMin*60) // west, just before local midnight: UTC is the day after
	return time.Date(year, month, day, 23, 59, 59-within, ns, loc)
}

// ---------------------------------------------------------------- tscells

type tsCell struct {
	ID      int      `json:"id"`
	Utc     int      `json:"utc"`
	Lay     string   `json:"lay"`
	Flags   []string `json:"flags"`
	Fmt     string   `json:"fmt"`
	Zone    string   `json:"zone"`    // expected by the SPEC: UTC / Own
	Layouts []string `json:"layouts"` // allowed by the SPEC
	// replay: explicit instants instead of sampled ones
	Instants []tsInstant `json:"instants,omitempty"`
}

type tsCellsIn struct {
	Seed  int64             `json:"seed"`
	N     int               `json:"n"`
	Infos map[string]tsInfo `json:"infos"`
	Cells []tsCell          `json:"cells"`
}

type tsFailure struct {
	Kind    string    `json:"kind"` // extract, zone, layout, text
	Instant tsInstant `json:"instant"`
	Shown   string    `json:"shown"` // the instant in RFC3339Nano, own zone
	Text    string    `json:"text"`
	Want    []string  `json:"want"` // what the allowed layouts give in the expected zone
	Note    string    `json:"note"`
	How     string    `json:"how"`
}

type tsCellOut struct {
	ID       int         `json:"id"`
	N        int         `json:"n"`
	Fail     int         `json:"fail"`
	Discr    int         `json:"discr"`  // samples whose text differs between the two zones
	Unique   int         `json:"unique"` // samples explained by no (layout, zone) pair outside the expected ones
	Years    [2]int      `json:"years"`
	How      string      `json:"how"`
	Failures []tsFailure `json:"failures"`
	Sample   *tsFailure  `json:"sample,omitempty"`
}

// tsConfigure builds a logger whose zone mode and layout are the cell's, by one of several
// equivalent call sequences, and sets the process flags.
func tsConfigure(c *tsCell, rng *rand.Rand) (*slog.Entry, string) {
	how := []string{}
	bits := tsBits(c.Flags)
	if rng.Intn(2) == 0 {
		slog.SetFlags(tsBase() | bits)
		how = append(how, "SetFlags")
	} else {
		slog.SetFlags(tsBase() | (tsAllBits &^ bits))
		slog.AddFlags(bits)
		slog.RemoveFlags(tsAllBits &^ bits)
		how = append(how, "Add/RemoveFlags")
	}
	var layArgs []string
	if c.Lay != "" {
		if c.Lay == "RFC3339NanoOrig" {
			switch rng.Intn(3) {
			case 0:
				layArgs = nil
			case 1:
				layArgs = []string{""}
			default:
				layArgs = []string{tsLayouts[c.Lay]}
			}
		} else {
			layArgs = [][]string{{tsLayouts[c.Lay]}, {"", tsLayouts[c.Lay]}, {tsLayouts["Kitchen"], tsLayouts[c.Lay]}}[rng.Intn(3)]
		}
	}
	var utcArgs []bool
	switch c.Utc {
	case 1:
		utcArgs = [][]bool{{false}, {true, false}}[rng.Intn(2)]
	case 2:
		utcArgs = [][]bool{nil, {true}, {false, true}}[rng.Intn(3)]
	}
	var l *slog.Entry
	switch rng.Intn(3) {
	case 0: // setters on a detached logger
		l = slog.New("c").Root()
		if c.Utc != 0 {
			l.SetUTCMode(utcArgs...)
		}
		if c.Lay != "" {
			l.SetTimeFormat(layArgs...)
		}
		how = append(how, "New+Set")
	case 1: // options of New
		args := []any{"c"}
		if c.Lay != "" {
			args = append(args, slog.WithTimeFormat(layArgs...))
		}
		if c.Utc != 0 {
			args = append(args, slog.WithUTCMode(utcArgs...))
		}
		l = slog.New(args...).Root()
		how = append(how, "New(opts)")
	default:
		// a child of a parent configured the other way round.  Whether a child starts from its
		// parent's settings is not stated, so this route is only taken when the cell fixes both
		// settings explicitly on the child.
		if c.Utc == 0 || c.Lay == "" {
			l = slog.New("c").Root()
			if c.Utc != 0 {
				l.SetUTCMode(utcArgs...)
			}
			if c.Lay != "" {
				l.SetTimeFormat(layArgs...)
			}
			how = append(how, "New+Set")
			break
		}
		p := slog.New("p").Root()
		p.SetUTCMode(c.Utc != 2)
		p.SetTimeFormat(tsLayouts["StampMicro"])
		switch rng.Intn(3) {
		case 0:
			l = p.WithUTCMode(utcArgs...)
			l.SetTimeFormat(layArgs...)
			how = append(how, "parent.WithUTCMode+SetTimeFormat")
		case 1:
			l = p.WithTimeFormat(layArgs...)
			l.SetUTCMode(utcArgs...)
			how = append(how, "parent.WithTimeFormat+SetUTCMode")
		default:
			l = p.New("k", slog.WithUTCMode(utcArgs...), slog.WithTimeFormat(layArgs...))
			how = append(how, "parent.New(opts)")
		}
	}
	tsSetFormat(l, c.Fmt)
	return l, strings.Join(how, ",")
}

func tsOther(tm time.Time, zone string) (exp, other time.Time) {
	if zone == "UTC" {
		return tm.UTC(), tm
	}
	return tm, tm.UTC()
}

func tsCheckCell(c *tsCell, n int, rng *rand.Rand) (out tsCellOut) {
	out.ID = c.ID
	out.Years = [2]int{10000, 0}
	out.Failures = []tsFailure{}
	l, how := tsConfigure(c, rng)
	out.How = how
	count := n
	if len(c.Instants) > 0 {
		count = len(c.Instants)
	}
	for k := 0; k < count; k++ {
		var tm time.Time
		var d tsInstant
		if len(c.Instants) > 0 {
			d = c.Instants[k]
			var err error
			if tm, err = d.time(); err != nil {
				panic(err)
			}
		} else {
			tm, d = tsSampleInstant(rng)
		}
		out.N++
		if y := tm.Year(); y < out.Years[0] {
			out.Years[0] = y
		}
		if y := tm.Year(); y > out.Years[1] {
			out.Years[1] = y
		}
		exp, other := tsOther(tm, c.Zone)
		fail := func(kind, text, note string) {
			out.Fail++
			if len(out.Failures) < 3 {
				f := tsFailure{Kind: kind, Instant: d, Shown: tm.Format(time.RFC3339Nano), Text: text, Note: note, How: how}
				for _, id := range c.Layouts {
					f.Want = append(f.Want, id+": "+exp.Format(tsLayouts[id]))
				}
				out.Failures = append(out.Failures, f)
			}
		}
		p, err := tsEmit(l, tm)
		if err != nil {
			fail("extract", "", err.Error())
			continue
		}
		text, err := tsExtract(c.Fmt, p)
		if err != nil {
			fail("extract", string(p), err.Error())
			continue
		}
		ok := false
		for _, id := range c.Layouts {
			if tsExplains(text, id, exp) {
				ok = true
				break
			}
		}
		if !ok {
			kind, note := "text", "no known layout explains the text in either zone"
			for _, id := range c.Layouts {
				if tsExplains(text, id, other) {
					kind, note = "zone", "the text is the instant in the other zone (layout "+id+")"
				}
			}
			if kind == "text" {
				for _, id := range tsIds {
					if tsExplains(text, id, exp) {
						kind, note = "layout", "the text is in layout "+id
					} else if tsExplains(text, id, other) {
						kind, note = "layout", "the text is in layout "+id+" and in the other zone"
					}
				}
			}
			fail(kind, text, note)
			continue
		}
		// how sharp was this sample
		discr := true
		for _, id := range c.Layouts {
			if exp.Format(tsLayouts[id]) == other.Format(tsLayouts[id]) {
				discr = false
			}
		}
		if discr {
			out.Discr++
		}
		uniq := true
		for _, id := range tsIds {
			allowed := false
			for _, a := range c.Layouts {
				if a == id {
					allowed = true
				}
			}
			if (!allowed && text == exp.Format(tsLayouts[id])) || text == other.Format(tsLayouts[id]) {
				uniq = false
				break
			}
		}
		if uniq {
			out.Unique++
		}
		if out.Sample == nil && discr && uniq {
			out.Sample = &tsFailure{Kind: "ok", Instant: d, Shown: tm.Format(time.RFC3339Nano), Text: text, How: how}
		}
	}
	return
}

func tsCellsMain(args []string) int {
	if len(args) < 2 {
		fmt.Fprintln(os.Stderr, "usage: worker tscells <in.json> <out.json>")
		return 2
	}
	var in tsCellsIn
	readJSON(args[0], &in)
	if err := tsLoadZones(); err != nil {
		fmt.Fprintln(os.Stderr, "zones:", err)
		return 2
	}
	if err := tsSetInfos(in.Infos); err != nil {
		fmt.Fprintln(os.Stderr, err)
		return 2
	}
	redirectDefaults()
	res := make([]tsCellOut, 0, len(in.Cells))
	for k := range in.Cells {
		c := &in.Cells[k]
		rng := rand.New(rand.NewSource(in.Seed*1000003 + int64(c.ID)))
		res = append(res, tsCheckCell(c, in.N, rng))
	}
	b, err := json.Marshal(map[string]any{"cells": res})
	if err != nil {
		panic(err)
	}
	if err := os.WriteFile(args[1], b, 0o644); err != nil {
		panic(err)
	}
	return 0
}

// ---------------------------------------------------------------- tsrun

type tsEvent struct {
	Op string `json:"op"`
	L  int    `json:"l"`
	A  int    `json:"a"`
	F  string `json:"f"`
	B  int    `json:"b"`
}

type tsOpt struct {
	K string `json:"k"` // UTC / TF
	A int    `json:"a"`
}

type tsScript struct {
	Seed       int64             `json:"seed"`
	Probes     int               `json:"probes"` // seeded probe instants per (logger, format), besides the fixed one
	Infos      map[string]tsInfo `json:"infos"`
	BoolLists  [][]bool          `json:"bool_lists"`
	LayLists   [][]string        `json:"lay_lists"` // layout ids, "" = empty string argument
	OptLists   [][]tsOpt         `json:"opt_lists"`
	FlagSets   [][]string        `json:"flag_sets"`
	Behaviours [][]tsEvent       `json:"behaviours"`
}

type tsRun struct {
	sc      *tsScript
	loggers []*slog.Entry
	ids     map[*slog.Entry]int
	probes  []time.Time
	restore []func()
}

func (r *tsRun) reset() {
	slog.SetFlags(slog.LstdFlags | slog.LnoInterrupt)
	redirectDefaults()
	root := slog.New("root").Root()
	r.loggers = []*slog.Entry{nil, root}
	r.ids = map[*slog.Entry]int{root: 1}
	r.restore = nil
}

func (r *tsRun) idOf(e *slog.Entry) int {
	if e == nil {
		return 0
	}
	if id, ok := r.ids[e]; ok {
		return id
	}
	r.loggers = append(r.loggers, e)
	r.ids[e] = len(r.loggers) - 1
	return len(r.loggers) - 1
}

func (r *tsRun) layArgs(a int) []string {
	res := []string{}
	for _, id := range r.sc.LayLists[a-1] {
		if id == "" {
			res = append(res, "")
		} else {
			res = append(res, tsLayouts[id])
		}
	}
	return res
}

func (r *tsRun) exec(ev tsEvent) (rec map[string]any) {
	if n := len(r.loggers) - 1; ev.L > n {
		ev.L = (ev.L-1)%n + 1
	}
	rec = map[string]any{"op": ev.Op, "l": ev.L, "a": ev.A, "f": ev.F, "b": ev.B}
	defer func() {
		if p := recover(); p != nil {
			rec["panic"] = fmt.Sprint(p)
			rec["ret"] = -1
			rec["n"] = len(r.loggers) - 1
			rec["flags"] = tsFlagNames()
			rec["obs"] = []any{}
		}
	}()
	var l *slog.Entry
	if ev.L > 0 {
		l = r.loggers[ev.L]
	}
	ret := 0
	switch ev.Op {
	case "SetUTC":
		ret = r.idOf(l.SetUTCMode(r.sc.BoolLists[ev.A-1]...))
	case "WithUTC":
		ret = r.idOf(l.WithUTCMode(r.sc.BoolLists[ev.A-1]...))
	case "SetTF":
		ret = r.idOf(l.SetTimeFormat(r.layArgs(ev.A)...))
	case "WithTF":
		ret = r.idOf(l.WithTimeFormat(r.layArgs(ev.A)...))
	case "New":
		var args []any
		for _, o := range r.sc.OptLists[ev.A-1] {
			if o.K == "UTC" {
				args = append(args, slog.WithUTCMode(r.sc.BoolLists[o.A-1]...))
			} else {
				args = append(args, slog.WithTimeFormat(r.layArgs(o.A)...))
			}
		}
		ret = r.idOf(l.New(args...))
	case "AddFlag":
		slog.AddFlags(tsFlagBits[ev.F])
	case "RemoveFlag":
		slog.RemoveFlags(tsFlagBits[ev.F])
	case "SetFlags":
		slog.SetFlags(tsBase() | tsBits(r.sc.FlagSets[ev.A-1]))
	case "ResetFlags":
		slog.ResetFlags()
	case "SaveMod":
		if ev.B == 0 {
			r.restore = append(r.restore, slog.SaveFlagsAndMod(tsBits(r.sc.FlagSets[ev.A-1])))
		} else {
			r.restore = append(r.restore, slog.SaveFlagsAndMod(tsBits(r.sc.FlagSets[ev.A-1]), tsBits(r.sc.FlagSets[ev.B-1])))
		}
	case "Restore":
		r.restore[ev.A-1]()
	default:
		panic("unknown op " + ev.Op)
	}
	rec["ret"] = ret
	rec["n"] = len(r.loggers) - 1
	rec["flags"] = tsFlagNames()
	obs := []map[string][][]string{}
	for id := 1; id < len(r.loggers); id++ {
		o := map[string][][]string{}
		for _, format := range []string{"json", "logfmt", "color"} {
			tsSetFormat(r.loggers[id], format)
			per := [][]string{}
			for _, tm := range r.probes {
				per = append(per, tsFits(r.loggers[id], format, tm))
			}
			o[format] = per
		}
		obs = append(obs, o)
	}
	rec["obs"] = obs
	return rec
}

// tsFits: all "<layout id>@<zone>" pairs that explain the time field of one probe record
func tsFits(l *slog.Entry, format string, tm time.Time) []string {
	fits := []string{}
	p, err := tsEmit(l, tm)
	if err != nil {
		return fits
	}
	text, err := tsExtract(format, p)
	if err != nil {
		return fits
	}
	utc := tm.UTC()
	for _, id := range tsIds {
		if tsExplains(text, id, tm) {
			fits = append(fits, id+"@Own")
		}
		if tsExplains(text, id, utc) {
			fits = append(fits, id+"@UTC")
		}
	}
	return fits
}

func tsRunMain(args []string) int {
	if len(args) < 2 {
		fmt.Fprintln(os.Stderr, "usage: worker tsrun <script.json> <trace.ndjson>")
		return 2
	}
	var sc tsScript
	readJSON(args[0], &sc)
	if err := tsSetInfos(sc.Infos); err != nil {
		fmt.Fprintln(os.Stderr, err)
		return 2
	}
	out := newTraceOut(args[1])
	defer out.close()
	r := &tsRun{sc: &sc}
	rng := rand.New(rand.NewSource(sc.Seed*7919 + 5))
	// the fixed probe: 2024-03-01 02:15:07.123456789 +05:30 = 2024-02-29 20:45:07 UTC
	r.probes = []time.Time{time.Date(2024, 3, 1, 2, 15, 7, 123456789, time.FixedZone("", 5*3600+1800))}
	for k := 0; k < sc.Probes; k++ {
		r.probes = append(r.probes, tsProbeInstant(rng))
	}
	pr := []string{}
	for _, tm := range r.probes {
		pr = append(pr, tm.Format(time.RFC3339Nano))
	}
	for _, beh := range sc.Behaviours {
		r.reset()
		out.emit(map[string]any{"op": "Reset", "probes": pr})
		for _, ev := range beh {
			out.emit(r.exec(ev))
		}
	}
	return 0
}
