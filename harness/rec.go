package main

import (
	"bufio"
	"bytes"
	"runtime/debug"
	"syscall"
	"encoding/json"
	"errors"
	"io"
	"os"
	"sync"

	"github.com/hedzr/logg/slog"
)

// Recording writers.  Every writer reports to one global, mutex-protected sink so that the order
// of events across writers is the order in which the library produced them (a sequence number
// taken under the lock, never wall-clock time).

type wev struct {
	W       int    `json:"w"`           // writer id (-1 STDOUT, -2 STDERR pseudo writers)
	K       string `json:"k"`           // "w" Write, "s" SetLevel notification, "c" Close
	R       int    `json:"r,omitempty"` // severity told by SetLevel
	Fail    bool   `json:"fail,omitempty"`
	payload []byte
}

type sinkT struct {
	mu     sync.Mutex
	evs    []wev
	failFn func(w int, attempt int) bool // fault injection: should this Write attempt fail?
	nWrite int
}

var sink = &sinkT{}

func (s *sinkT) reset() {
	s.mu.Lock()
	s.evs = s.evs[:0]
	s.nWrite = 0
	s.mu.Unlock()
}

func (s *sinkT) take() []wev {
	s.mu.Lock()
	out := append([]wev(nil), s.evs...)
	s.evs = s.evs[:0]
	s.nWrite = 0
	s.mu.Unlock()
	return out
}

var errInjected = errors.New("injected write failure")

func (s *sinkT) write(w int, p []byte) (int, error) {
	s.mu.Lock()
	defer s.mu.Unlock()
	s.nWrite++
	fail := s.failFn != nil && s.failFn(w, s.nWrite)
	s.evs = append(s.evs, wev{W: w, K: "w", Fail: fail, payload: append([]byte(nil), p...)})
	if fail {
		return 0, errInjected
	}
	return len(p), nil
}

func (s *sinkT) note(w int, k string, r int) {
	s.mu.Lock()
	s.evs = append(s.evs, wev{W: w, K: k, R: r})
	s.mu.Unlock()
}

// three kinds of destination a user can hand to the library
type plainW struct{ id int }                  // only io.Writer
type closerW struct{ id int }                 // io.Writer + io.Closer (a slog.LogWriter)
type levelW struct{ id int }                  // LogWriter that asks to be told the severity
type plainLevelW struct{ id int }             // plain io.Writer that asks to be told the severity

func (w *plainW) Write(p []byte) (int, error)      { return sink.write(w.id, p) }
func (w *closerW) Write(p []byte) (int, error)     { return sink.write(w.id, p) }
func (w *closerW) Close() error                    { sink.note(w.id, "c", 0); return nil }
func (w *levelW) Write(p []byte) (int, error)      { return sink.write(w.id, p) }
func (w *levelW) Close() error                     { sink.note(w.id, "c", 0); return nil }
func (w *levelW) SetLevel(l slog.Level)            { sink.note(w.id, "s", int(l)) }
func (w *plainLevelW) Write(p []byte) (int, error) { return sink.write(w.id, p) }
func (w *plainLevelW) SetLevel(l slog.Level)       { sink.note(w.id, "s", int(l)) }

var writerPool = map[int]io.Writer{}

// writer id -> kind: 1 plain, 2 LogWriter, 3 LevelSettable LogWriter, 4 plain+LevelSettable, then repeating
func writerKind(id int) string {
	switch (id - 1) % 4 {
	case 0:
		return "plain"
	case 1:
		return "lw"
	case 2:
		return "ls"
	}
	return "pls"
}

func wantsLevel(id int) bool { k := writerKind(id); return id > 0 && (k == "ls" || k == "pls") }

func getWriter(id int) io.Writer {
	if w, ok := writerPool[id]; ok {
		return w
	}
	var w io.Writer
	if id < 0 {
		w = &closerW{id}
	} else {
		switch writerKind(id) {
		case "plain":
			w = &plainW{id}
		case "lw":
			w = &closerW{id}
		case "ls":
			w = &levelW{id}
		default:
			w = &plainLevelW{id}
		}
	}
	writerPool[id] = w
	return w
}

const (
	STDOUT = -1
	STDERR = -2
)

// redirectDefaults points the package-level default writers (stdout/stderr) at the pseudo
// recorders STDOUT/STDERR.  Only exported API is used: GetDefaultWriter returns the package's
// writer object whose exported methods are reachable through an interface assertion.
func redirectDefaults() {
	dw := slog.GetDefaultWriter().(interface {
		SetWriter(w io.Writer)
		SetErrorWriter(w io.Writer)
		ResetLevelWriters()
	})
	dw.SetWriter(getWriter(STDOUT))
	dw.SetErrorWriter(getWriter(STDERR))
	dw.ResetLevelWriters()
}

// ---- real stdout / stderr of the process

// captureStdio re-points file descriptors 1 and 2 of this process at two append-only files in
// the working directory, so that whatever the library writes to the real stdout/stderr (the
// package default destinations) is observed.  The original stderr is kept for diagnostics and
// crash output.
type stdioCapture struct {
	files [2]*os.File // readers
	off   [2]int64
}

var stdio *stdioCapture
var diag = os.Stderr

func captureStdio() {
	if stdio != nil {
		return
	}
	saved, err := syscall.Dup(2)
	if err != nil {
		panic(err)
	}
	diag = os.NewFile(uintptr(saved), "diag")
	_ = debug.SetCrashOutput(diag, debug.CrashOptions{})
	c := &stdioCapture{}
	for i, name := range []string{"captured.stdout", "captured.stderr"} {
		f, err := os.OpenFile(name, os.O_CREATE|os.O_TRUNC|os.O_WRONLY|os.O_APPEND, 0o644)
		if err != nil {
			panic(err)
		}
		if err := syscall.Dup2(int(f.Fd()), i+1); err != nil {
			panic(err)
		}
		f.Close()
		rd, err := os.Open(name)
		if err != nil {
			panic(err)
		}
		c.files[i] = rd
	}
	stdio = c
}

// drain returns what was written to stdout (i=0) / stderr (i=1) since the last call.
func (c *stdioCapture) drain(i int) []byte {
	st, err := c.files[i].Stat()
	if err != nil || st.Size() <= c.off[i] {
		return nil
	}
	buf := make([]byte, st.Size()-c.off[i])
	n, _ := c.files[i].ReadAt(buf, c.off[i])
	c.off[i] += int64(n)
	return buf[:n]
}

// takeAll returns the recorder events plus one "w" event per record line that reached the real
// stdout (-1) / stderr (-2) since the last call (order across the two kinds is not preserved).
func takeAll() []wev {
	evs := sink.take()
	if stdio == nil {
		return evs
	}
	for i, id := range []int{STDOUT, STDERR} {
		data := stdio.drain(i)
		for len(data) > 0 {
			j := bytes.IndexByte(data, '\n')
			if j < 0 {
				j = len(data) - 1
			}
			evs = append(evs, wev{W: id, K: "w", payload: data[:j+1]})
			data = data[j+1:]
		}
	}
	return evs
}

// ---- ndjson output

type traceOut struct {
	f  *os.File
	bw *bufio.Writer
	n  int
}

func newTraceOut(path string) *traceOut {
	f, err := os.Create(path)
	if err != nil {
		panic(err)
	}
	return &traceOut{f: f, bw: bufio.NewWriterSize(f, 1<<20)}
}

func (t *traceOut) emit(v any) {
	b, err := json.Marshal(v)
	if err != nil {
		panic(err)
	}
	t.bw.Write(b)
	t.bw.WriteByte('\n')
	t.n++
}

func (t *traceOut) close() { t.bw.Flush(); t.f.Close() }

func readJSON(path string, v any) {
	b, err := os.ReadFile(path)
	if err != nil {
		panic(err)
	}
	if err := json.Unmarshal(b, v); err != nil {
		panic(err)
	}
}
