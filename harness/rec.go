package main

import (
	"bufio"
	"context"
	"fmt"
	"io/fs"
	"runtime/debug"
	"syscall"
	"encoding/json"
	"errors"
	"io"
	"os"
	"sync"

	"github.com/hedzr/logg/slog"
)

// Recording writers.  Every writer reports to one global, mutex-protected sink so that the order
// of events across writers is the order in which the library produced them (a sequence number
// taken under the lock, never wall-clock time).

type wev struct {
	W       int    `json:"w"`           // writer id (-1 STDOUT, -2 STDERR pseudo writers)
	K       string `json:"k"`           // "w" Write, "s" SetLevel notification, "c" Close
	R       int    `json:"r,omitempty"` // severity told by SetLevel
	Fail    bool   `json:"fail,omitempty"`
	payload []byte
}

type sinkT struct {
	mu     sync.Mutex
	evs    []wev
	failFn func(w int, attempt int) bool // fault injection: should this Write attempt fail?
	failP  func(w int, p []byte) bool    // fault injection deciding on the payload as well
	nWrite int
	nFail   int  // records with injected failures so far (rotates the error value)
	nFailRec int // failures injected since the last take/reset (= within one record)
	partial bool // failing writes report that half of the payload was written
}

var sink = &sinkT{}

func (s *sinkT) reset() {
	s.mu.Lock()
	s.evs = s.evs[:0]
	s.nWrite = 0
	s.endRecord()
	s.mu.Unlock()
}

// endRecord: the error value rotates from record to record; within one record two consecutive
// failing attempts return (distinct instances of) the same kind of error, the next two the next kind
func (s *sinkT) endRecord() {
	if s.nFailRec > 0 {
		s.nFail++
	}
	s.nFailRec = 0
}

func (s *sinkT) take() []wev {
	s.mu.Lock()
	out := append([]wev(nil), s.evs...)
	s.evs = s.evs[:0]
	s.nWrite = 0
	s.endRecord()
	s.mu.Unlock()
	return out
}

var errInjected = errors.New("injected write failure")

// the error values a failing destination returns, in rotation: a plain error, the error a closed
// file gives (identity os.ErrClosed inside a *fs.PathError), io.ErrShortWrite, a cancelled context
// injectedList is an error of slice kind used by value (like go/scanner.ErrorList): not comparable
type injectedList []string

func (e injectedList) Error() string { return "injected: " + fmt.Sprint([]string(e)) }

var injectedErrors = []error{
	errInjected,
	injectedList{"disk full", "retry later"},
	&fs.PathError{Op: "write", Path: "/var/log/app.log", Err: os.ErrClosed},
	io.ErrShortWrite,
	context.Canceled,
	fmt.Errorf("wrapped: %w", os.ErrClosed),
	// transient conditions (a non-blocking pipe that is full, an interrupted call, a deadline): still a failed attempt
	&fs.PathError{Op: "write", Path: "/dev/stdout", Err: syscall.EAGAIN},
	syscall.EINTR,
	os.ErrDeadlineExceeded,
}

func (s *sinkT) write(w int, p []byte) (int, error) {
	s.mu.Lock()
	defer s.mu.Unlock()
	s.nWrite++
	fail := (s.failFn != nil && s.failFn(w, s.nWrite)) || (s.failP != nil && s.failP(w, p))
	s.evs = append(s.evs, wev{W: w, K: "w", Fail: fail, payload: append([]byte(nil), p...)})
	if fail {
		err := injectedErrors[(s.nFail+s.nFailRec/2)%len(injectedErrors)]
		if l, ok := err.(injectedList); ok {
			err = append(injectedList(nil), l...) // a fresh value of the same kind
		}
		s.nFailRec++
		if s.partial && len(p) > 3 {
			return len(p) / 2, err // the destination took part of the record before it failed
		}
		return 0, err
	}
	return len(p), nil
}

func (s *sinkT) note(w int, k string, r int) {
	s.mu.Lock()
	s.evs = append(s.evs, wev{W: w, K: k, R: r})
	s.mu.Unlock()
}

// three kinds of destination a user can hand to the library
type plainW struct{ id int }                  // only io.Writer
type closerW struct{ id int }                 // io.Writer + io.Closer (a slog.LogWriter)
type levelW struct{ id int }                  // LogWriter that asks to be told the severity
type plainLevelW struct{ id int }             // plain io.Writer that asks to be told the severity
type uncmpW struct {                           // a writer used BY VALUE whose type cannot be compared with ==
	id  int
	pad []byte
}

func (w *plainW) Write(p []byte) (int, error)      { return sink.write(w.id, p) }
func (w *closerW) Write(p []byte) (int, error)     { return sink.write(w.id, p) }
func (w *closerW) Close() error                    { sink.note(w.id, "c", 0); return nil }
func (w *levelW) Write(p []byte) (int, error)      { return sink.write(w.id, p) }
func (w *levelW) Close() error                     { sink.note(w.id, "c", 0); return nil }
func (w *levelW) SetLevel(l slog.Level)            { sink.note(w.id, "s", int(l)) }
func (w *plainLevelW) Write(p []byte) (int, error) { return sink.write(w.id, p) }
func (w *plainLevelW) SetLevel(l slog.Level)       { sink.note(w.id, "s", int(l)) }
func (w uncmpW) Write(p []byte) (int, error)       { return sink.write(w.id, p) }

var writerPool = map[int]io.Writer{}

// writer ids from fileWriterBase on are real *os.File destinations (what an application's log file
// or a pipe is): one end of a SOCK_SEQPACKET socket pair, so that every write(2) is seen as one event
const fileWriterBase = 41

// writer ids 37..40 are values of a struct type holding a slice: not comparable (spec: Uncomparable)
const uncmpWriterBase = 37

// writer ids from fwWriterBase on are the library's own file destinations: slog.NewFileWriter(path) on a
// scratch file whose exported File field is then re-pointed at one end of a SOCK_SEQPACKET pair (what a
// rotating application does with a reopened file), so that every write(2) is seen as one event
const fwWriterBase = 45

// writer ids from nlwWriterBase on are destinations the application wrapped itself with the public
// slog.NewLogWriter before handing them over: odd ids wrap a writer that asks to be told the severity
// (it still has to be told), even ids a plain one
const nlwWriterBase = 49

// writer ids from regWriterBase on are *os.File values on REGULAR disk files in the working directory (an
// application's log file); what arrived is read back from the file, all new bytes as one event (use them
// where one record is written between two observations)
const regWriterBase = 53

type regState struct {
	f   *os.File
	off int64
}

var regFiles = map[int]*regState{}
var regIds []int
var regGen int

func newRegWriter(id int) io.Writer {
	regGen++
	f, err := os.Create(fmt.Sprintf("reg-%d-%d-%d.log", os.Getpid(), id, regGen))
	if err != nil {
		panic(err)
	}
	regFiles[id] = &regState{f: f}
	regIds = append(regIds, id)
	return f
}

var fwGen int

func newFwWriter(id int) io.Writer {
	fwGen++
	path := fmt.Sprintf("fw-%d-%d-%d.log", os.Getpid(), id, fwGen)
	fw := slog.NewFileWriter(path)
	fw.File.Close()
	os.Remove(path)
	fw.File = newFileWriter(id)
	return fw
}

// resetFileWriters forgets every file destination (a closed file stays closed): the next use of the id
// makes a fresh one
func resetFileWriters() {
	for _, id := range fileIds {
		if f, ok := writerPool[id].(*os.File); ok {
			f.Close()
		} else if c, ok := writerPool[id].(io.Closer); ok {
			c.Close()
		}
		if f := fileOf[id]; f != nil {
			f.Close()
		}
		delete(fileOf, id)
		syscall.Close(fileSocks[id])
		delete(writerPool, id)
		delete(fileSocks, id)
	}
	fileIds = nil
	for _, id := range regIds {
		regFiles[id].f.Close()
		os.Remove(regFiles[id].f.Name())
		delete(writerPool, id)
		delete(regFiles, id)
	}
	regIds = nil
}

var fileSocks = map[int]int{} // writer id -> reading end
var fileOf = map[int]*os.File{} // writer id -> writing end
var fileIds []int

func newFileWriter(id int) *os.File {
	fds, err := syscall.Socketpair(syscall.AF_UNIX, syscall.SOCK_SEQPACKET, 0)
	if err != nil {
		panic(err)
	}
	_ = syscall.SetsockoptInt(fds[0], syscall.SOL_SOCKET, syscall.SO_SNDBUF, 8<<20)
	_ = syscall.SetsockoptInt(fds[1], syscall.SOL_SOCKET, syscall.SO_RCVBUF, 8<<20)
	if err := syscall.SetNonblock(fds[1], true); err != nil {
		panic(err)
	}
	fileSocks[id] = fds[1]
	fileIds = append(fileIds, id)
	f := os.NewFile(uintptr(fds[0]), fmt.Sprintf("logfile-%d", id))
	fileOf[id] = f
	return f
}

// writer id -> kind: 1 plain, 2 LogWriter, 3 LevelSettable LogWriter, 4 plain+LevelSettable, then repeating
func writerKind(id int) string {
	if id >= regWriterBase {
		return "reg"
	}
	if id >= nlwWriterBase {
		return "nlw"
	}
	if id >= fwWriterBase {
		return "fw"
	}
	if id >= fileWriterBase {
		return "file"
	}
	if id >= uncmpWriterBase {
		return "ucw"
	}
	switch (id - 1) % 4 {
	case 0:
		return "plain"
	case 1:
		return "lw"
	case 2:
		return "ls"
	}
	return "pls"
}

func wantsLevel(id int) bool {
	k := writerKind(id)
	return id > 0 && (k == "ls" || k == "pls" || (k == "nlw" && id%2 == 1))
}

func getWriter(id int) io.Writer {
	if id == 0 {
		return nil // a nil writer: every writer operation has to ignore it
	}
	if w, ok := writerPool[id]; ok {
		return w
	}
	var w io.Writer
	if id < 0 {
		w = &closerW{id}
	} else {
		switch writerKind(id) {
		case "reg":
			w = newRegWriter(id)
		case "nlw":
			if id%2 == 1 {
				w = slog.NewLogWriter(&plainLevelW{id})
			} else {
				w = slog.NewLogWriter(&plainW{id})
			}
		case "fw":
			w = newFwWriter(id)
		case "file":
			w = newFileWriter(id)
		case "ucw":
			w = uncmpW{id: id, pad: []byte{0}}
		case "plain":
			w = &plainW{id}
		case "lw":
			w = &closerW{id}
		case "ls":
			w = &levelW{id}
		default:
			w = &plainLevelW{id}
		}
	}
	writerPool[id] = w
	return w
}

const (
	STDOUT = -1
	STDERR = -2
)

// redirectDefaults points the package-level default writers (stdout/stderr) at the pseudo
// recorders STDOUT/STDERR.  Only exported API is used: GetDefaultWriter returns the package's
// writer object whose exported methods are reachable through an interface assertion.
func redirectDefaults() {
	dw := slog.GetDefaultWriter().(interface {
		SetWriter(w io.Writer)
		SetErrorWriter(w io.Writer)
		ResetLevelWriters()
	})
	dw.SetWriter(getWriter(STDOUT))
	dw.SetErrorWriter(getWriter(STDERR))
	dw.ResetLevelWriters()
}

// ---- real stdout / stderr of the process

// captureStdio re-points file descriptors 1 and 2 of this process at two SOCK_SEQPACKET socket
// pairs, so that whatever the library writes to the real stdout/stderr (the package default
// destinations) is observed with its write boundaries: one packet per write(2) call.  The
// original stderr is kept for diagnostics and crash output.
type stdioCapture struct {
	rd  [2]int // reading ends
	buf []byte
}

var fileBuf []byte
var stdio *stdioCapture
var diag = os.Stderr

func captureStdio() {
	if stdio != nil {
		return
	}
	saved, err := syscall.Dup(2)
	if err != nil {
		panic(err)
	}
	diag = os.NewFile(uintptr(saved), "diag")
	_ = debug.SetCrashOutput(diag, debug.CrashOptions{})
	c := &stdioCapture{}
	for i := 0; i < 2; i++ {
		fds, err := syscall.Socketpair(syscall.AF_UNIX, syscall.SOCK_SEQPACKET, 0)
		if err != nil {
			panic(err)
		}
		_ = syscall.SetsockoptInt(fds[0], syscall.SOL_SOCKET, syscall.SO_SNDBUF, 8<<20)
		_ = syscall.SetsockoptInt(fds[1], syscall.SOL_SOCKET, syscall.SO_RCVBUF, 8<<20)
		if err := syscall.Dup2(fds[0], i+1); err != nil {
			panic(err)
		}
		syscall.Close(fds[0])
		if err := syscall.SetNonblock(fds[1], true); err != nil {
			panic(err)
		}
		c.rd[i] = fds[1]
	}
	stdio = c
}

// drain returns the packets (= write calls) that reached stdout (i=0) / stderr (i=1) since the last call.
func (c *stdioCapture) drain(i int) [][]byte {
	var res [][]byte
	if c.buf == nil {
		c.buf = make([]byte, 1<<20)
	}
	buf := c.buf
	for {
		n, err := syscall.Read(c.rd[i], buf)
		if err != nil || n <= 0 {
			return res
		}
		res = append(res, append([]byte(nil), buf[:n]...))
	}
}

// takeAll returns the recorder events plus one "w" event per write that reached the real
// stdout (-1) / stderr (-2) since the last call (order across the two kinds is not preserved).
func takeAll() []wev {
	evs := sink.take()
	for _, id := range fileIds {
		if fileBuf == nil {
			fileBuf = make([]byte, 1<<20)
		}
		for {
			n, err := syscall.Read(fileSocks[id], fileBuf)
			if err != nil || n <= 0 {
				break
			}
			evs = append(evs, wev{W: id, K: "w", payload: append([]byte(nil), fileBuf[:n]...)})
		}
	}
	for _, id := range regIds {
		st := regFiles[id]
		b, err := os.ReadFile(st.f.Name())
		if err == nil && int64(len(b)) > st.off {
			evs = append(evs, wev{W: id, K: "w", payload: append([]byte(nil), b[st.off:]...)})
			st.off = int64(len(b))
		}
	}
	if stdio == nil {
		return evs
	}
	for i, id := range []int{STDOUT, STDERR} {
		for _, pkt := range stdio.drain(i) {
			evs = append(evs, wev{W: id, K: "w", payload: pkt})
		}
	}
	return evs
}

// ---- ndjson output

type traceOut struct {
	f  *os.File
	bw *bufio.Writer
	n  int
}

func newTraceOut(path string) *traceOut {
	f, err := os.Create(path)
	if err != nil {
		panic(err)
	}
	return &traceOut{f: f, bw: bufio.NewWriterSize(f, 1<<20)}
}

func (t *traceOut) emit(v any) {
	b, err := json.Marshal(v)
	if err != nil {
		panic(err)
	}
	t.bw.Write(b)
	t.bw.WriteByte('\n')
	t.n++
}

func (t *traceOut) close() { t.bw.Flush(); t.f.Close() }

func readJSON(path string, v any) {
	b, err := os.ReadFile(path)
	if err != nil {
		panic(err)
	}
	if err := json.Unmarshal(b, v); err != nil {
		panic(err)
	}
}
