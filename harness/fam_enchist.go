package main

// Family "encoder", history component (C04 JSON, C05 logfmt, C06 colored console over HISTORIES).
//
//	worker enchist <script.json> <trace.ndjson> <details.ndjson>
//
// The script is a list of behaviours of spec/EncoderHist.tla (edge cover of TLC's graph plus
// seeded random deeper histories).  All behaviours of a script run in THIS one process, one
// after the other; "Reset" puts the process-wide settings back, creates fresh loggers and maps
// the abstract custom severities to fresh numbers - whatever else the library remembers from
// earlier behaviours (pooled formatters, pooled attribute slices, caches) stays, and must not
// matter.  Events use the public API only: setters / New / With... in the order the form says,
// the logging methods (Info.., XxxContext, LogAttrs), RegisterLevel, SetLevelOutputWidth,
// runtime.GC.  DESTINATIONS: every logger writes to the io.Writers its slot is wired to (event Wire,
// DestForms of the specification): passive ones, and destinations that LOG - inside Write, before
// they look at their argument, they emit a record through a logger of the script (an auditing /
// rotating writer) and only then copy what they were handed.  One Emit therefore yields several
// deliveries (EncoderHist!Deliveries): the trace line describes the first destination's copy of
// the record, its "sub" every other one.  After a configuration event the public getters are recorded; for every record
// the payload is projected by the independent decoders of fam_encoder_dec.go /
// fam_encoder_color.go exactly as in the per-record check.  Nothing here decides pass/fail:
// the trace is validated by TLC against spec/EncoderHistTrace.tla.

import (
	"context"
	"fmt"
	"math/rand"
	"os"
	"runtime"
	"strconv"
	"strings"
	"time"
	"unicode/utf8"

	"github.com/hedzr/is"
	"github.com/hedzr/is/term/color"
	"github.com/hedzr/logg/slog"
)

func init() { register("enchist", enchMain) }

type enchCall struct {
	Op  string `json:"op"`  // "json" | "color"
	Arg string `json:"arg"` // "def" | "on" | "off"
}

type enchForm struct {
	How   string     `json:"how"` // set | new | newset | child | childset | with
	P     int        `json:"p"`
	Calls []enchCall `json:"calls"`
}

type enchClass struct {
	Sev    int        `json:"sev"`
	Msg    []string   `json:"msg"`
	Sizes  []int      `json:"sizes"` // parallel to Msg: > 0 = exactly that many bytes of plain text
	Args   []*encNode `json:"args"`
	Caller bool       `json:"caller"`
	CFile  string     `json:"cfile"` // class of the call site's file name; "plain" / "": enchDo, else a //line site of fam_encoder_sites.go
	Cls    string     `json:"cls"`
	Via    string     `json:"via"` // method | ctx | logattrs
}

// one destination of a destination form (DestForms[w][k] of the specification)
type enchDestSpec struct {
	Log bool `json:"log"` // logs a record of class R through the logger of slot L before it reads its argument
	L   int  `json:"l"`
	R   int  `json:"r"`
}

// enchDest is an io.Writer a logger of slot `slot` is wired to (its k-th destination).
type enchDest struct {
	s      *enchState
	slot   int
	k      int // 1-based
	spec   enchDestSpec
	active bool // inside its own Write: it does not log again
	stray  int  // Write calls outside any emission of its slot
}

// enchFrame is one record being logged: what each destination of its logger found in its argument.
type enchFrame struct {
	slot   int
	depth  int
	salt   int
	ei     int
	chunks [][][]byte // per destination (index k-1): the arguments of its Write calls, copied when it read them
}

func (d *enchDest) Write(p []byte) (int, error) {
	s := d.s
	var fr *enchFrame
	if n := len(s.frames); n > 0 && s.frames[n-1].slot == d.slot {
		fr = s.frames[n-1]
	}
	if fr == nil {
		d.stray++
		return len(p), nil
	}
	if d.spec.Log && !d.active {
		// report first, consume the argument afterwards: p is ours until we return
		d.active = true
		func() {
			defer func() { d.active = false }()
			ents, dets := s.emitRecord(fr.ei, d.spec.L, d.spec.R, fr.salt*8+d.k+5000000*(fr.depth+1), fr.depth+1)
			s.sub = append(s.sub, ents...)
			s.subDet = append(s.subDet, dets...)
		}()
	}
	fr.chunks[d.k-1] = append(fr.chunks[d.k-1], append([]byte(nil), p...))
	return len(p), nil
}

type enchSlot struct {
	Mode  string     `json:"mode"`
	Named bool       `json:"named"`
	Own   []*encNode `json:"own"`
}

type enchEvent struct {
	Op    string   `json:"op"`
	L     int      `json:"l,omitempty"`
	F     int      `json:"f,omitempty"`
	R     int      `json:"r,omitempty"`
	N     int      `json:"n,omitempty"`
	C     int      `json:"c,omitempty"`
	W     int      `json:"w,omitempty"`
	M     int      `json:"m,omitempty"`
	G     string   `json:"g,omitempty"`
	K     string   `json:"k,omitempty"`
	V     string   `json:"v,omitempty"`
	Modes []string `json:"modes,omitempty"` // op "Init" (first event of a behaviour): the loggers Reset creates
	Named []bool   `json:"named,omitempty"`
	FG    string   `json:"fg,omitempty"` // op "SetColors": class of the foreground ("none" | "fg") ...
	BG    string   `json:"bg,omitempty"` // ... and of the background ("none" | "bg" | "attr")
	S     int      `json:"s,omitempty"`  // salt of an Emit: seeds the concretisation, so that a record keeps its bytes when the history around it is shrunk
}

type enchScript struct {
	Seed       int              `json:"seed"`
	Base       int              `json:"base"` // offset of the behaviour numbers (fresh custom severities)
	Slots      []enchSlot       `json:"slots"`
	Forms      []enchForm       `json:"forms"`
	Classes    []enchClass      `json:"classes"`
	DestForms  [][]enchDestSpec `json:"destforms"` // DestForms[w-1]: the destinations of form w (form 1: one passive destination)
	Behaviours [][]enchEvent    `json:"behaviours"`
}

type enchReg struct {
	title string
	tags  [6]string
	has   bool
}

// one live logger slot
type enchLive struct {
	l        *slog.Entry
	base     *encRun    // keys / nodes of the own attributes
	ownNodes []*encNode // the abstract own attributes with their concrete values
	own      slog.Attrs // concrete own attributes (copied for every logger created for the slot)
}

type enchState struct {
	sc      *enchScript
	b       int // behaviour number (incl. Base)
	live    []*enchLive
	reg     map[int]*enchReg // abstract custom severity -> registration of this behaviour
	width   int
	counter int
	colored map[int]bool // built-in severities whose colours a SetColors event changed (put back by reset)
	out     *traceOut
	det     *traceOut
	flags   slog.Flags
	origLvl slog.Level

	destForm []int            // slot -> destination form in force (1-based)
	dests    [][]*enchDest    // slot -> its destinations
	frames   []*enchFrame     // records being logged, innermost last
	sub      []map[string]any // deliveries of the current Emit other than the first destination's copy of the record
	subDet   []map[string]any
}

var enchPassive = []enchDestSpec{{}}

func (s *enchState) destSpecs(w int) []enchDestSpec {
	if w >= 1 && w <= len(s.sc.DestForms) && len(s.sc.DestForms[w-1]) > 0 {
		return s.sc.DestForms[w-1]
	}
	return enchPassive
}

// setDests makes the destination objects of form w for a slot (not yet attached to a logger)
func (s *enchState) setDests(slot, w int) {
	s.destForm[slot-1] = w
	var ds []*enchDest
	for i, sp := range s.destSpecs(w) {
		ds = append(ds, &enchDest{s: s, slot: slot, k: i + 1, spec: sp})
	}
	s.dests[slot-1] = ds
}

// attach points the logger at the destinations of its slot, in order, for both devices
func (s *enchState) attach(slot int, l *slog.Entry) {
	ds := s.dests[slot-1]
	l.SetWriter(ds[0])
	l.SetErrorWriter(ds[0])
	for _, d := range ds[1:] {
		l.AddWriter(d)
		l.AddErrorWriter(d)
	}
}

func (s *enchState) concrete(sev int) int {
	if sev < 100 {
		return sev
	}
	return 1000 + s.b*16 + (sev - 100)
}

func enchLetters(n int) string {
	var sb strings.Builder
	for i := 0; i < 4; i++ {
		sb.WriteByte(byte('A' + n%26))
		n /= 26
	}
	return sb.String()
}

func enchGetterMode(l *slog.Entry) string {
	if l.JSONMode() {
		return "json"
	}
	if l.ColorMode() {
		return "color"
	}
	return "logfmt"
}

func enchBoolArg(a string) []bool {
	switch a {
	case "on":
		return []bool{true}
	case "off":
		return []bool{false}
	}
	return nil
}

func enchSetter(l *slog.Entry, c enchCall) {
	if c.Op == "json" {
		l.SetJSONMode(enchBoolArg(c.Arg)...)
	} else {
		l.SetColorMode(enchBoolArg(c.Arg)...)
	}
}

func enchOpt(c enchCall) slog.Opt {
	if c.Op == "json" {
		return slog.WithJSONMode(enchBoolArg(c.Arg)...)
	}
	return slog.WithColorMode(enchBoolArg(c.Arg)...)
}

// adopt wires a freshly created logger: destinations, own attributes, a level that admits every
// severity without touching the process-wide debug / trace switches (AlwaysLevel)
func (s *enchState) adopt(slot int, l *slog.Entry) {
	lv := s.live[slot-1]
	s.attach(slot, l)
	l.SetLevel(slog.AlwaysLevel)
	if len(lv.own) > 0 {
		cp := append(slog.Attrs(nil), lv.own...)
		switch slot % 3 {
		case 0:
			l.SetAttrs(cp...)
		case 1:
			l.SetAttrs1(cp)
		default:
			args := make([]any, 0, len(cp))
			for _, a := range cp {
				args = append(args, a)
			}
			l.Set(args...)
		}
	}
	lv.l = l
}

func (s *enchState) newName(slot int) string {
	s.counter++
	return fmt.Sprintf("svc%dn%d", slot, s.counter)
}

func (s *enchState) reset(b int, init *enchEvent) {
	s.b = b
	slog.SetFlags(s.flags)
	slog.SetLevelOutputWidth(3)
	slog.SetMessageMinimalWidth(36)
	slog.SetLevel(s.origLvl)
	is.SetDebugMode(false)
	is.SetTraceMode(false)
	s.width = 3
	for sev := range s.colored { // the colour table is process-wide: factory settings for the next behaviour
		encRestoreColours(sev)
	}
	s.colored = map[int]bool{}
	s.reg = map[int]*enchReg{}
	s.live = make([]*enchLive, len(s.sc.Slots))
	s.destForm = make([]int, len(s.sc.Slots))
	s.dests = make([][]*enchDest, len(s.sc.Slots))
	s.frames = nil
	for i := range s.sc.Slots {
		s.setDests(i+1, 1)
	}
	modes := make([][2]bool, len(s.sc.Slots))
	named := make([]bool, len(s.sc.Slots))
	for i, sl := range s.sc.Slots {
		slot := i + 1
		if init != nil && i < len(init.Modes) && i < len(init.Named) {
			sl.Mode, sl.Named = init.Modes[i], init.Named[i]
		}
		seed := int64(s.sc.Seed)*1000003 + int64(slot)*104729 // the same own attributes in every behaviour
		base := &encRun{c: &encCase{}, g: &encGen{r: rand.New(rand.NewSource(seed)), variant: -1}, keys: map[int]string{},
			keyID: map[string]int{}, nodesAt: map[string][]*encNode{}}
		base.g.noSpace = true // the own attributes are printed in every format, incl. colored
		lv := &enchLive{base: base}
		// the script's nodes are shared by all behaviours: concretise copies
		lv.ownNodes = enchCopyNodes(sl.Own)
		lv.own = base.build(lv.ownNodes, nil, 0)
		s.live[i] = lv
		var l *slog.Entry
		if sl.Named {
			l = slog.New(s.newName(slot)).SetWriter(encCap)
		} else {
			l = slog.New().SetWriter(encCap)
		}
		switch sl.Mode {
		case "json":
			l.SetJSONMode(true)
		case "logfmt":
			l.SetColorMode(false)
		default:
			l.SetColorMode(true)
		}
		s.adopt(slot, l)
		modes[i] = [2]bool{l.JSONMode(), l.ColorMode()}
		named[i] = l.Name() != ""
	}
	s.emitLine(map[string]any{"op": "Reset", "testing": is.InTesting(), "dbg": is.DebugMode(), "trc": is.TraceMode(),
		"width": 3, "minw": 36, "modes": modes, "named": named}, nil)
}

func enchCopyNodes(ns []*encNode) []*encNode {
	out := make([]*encNode, 0, len(ns))
	for _, n := range ns {
		c := *n
		c.Sub = enchCopyNodes(n.Sub)
		out = append(out, &c)
	}
	return out
}

func (s *enchState) emitLine(line map[string]any, det map[string]any) {
	s.out.emit(line)
	if det == nil {
		det = map[string]any{}
	}
	det["op"] = line["op"]
	s.det.emit(det)
}

func (s *enchState) configure(e enchEvent) {
	f := s.sc.Forms[e.F-1]
	slot := e.L
	lv := s.live[slot-1]
	named := s.sc.Slots[slot-1].Named
	var opts []any
	for _, c := range f.Calls {
		opts = append(opts, enchOpt(c))
	}
	switch f.How {
	case "set":
		for _, c := range f.Calls {
			enchSetter(lv.l, c)
		}
	case "new", "newset":
		var args []any
		if named {
			args = append(args, s.newName(slot))
		}
		var l *slog.Entry
		if f.How == "new" {
			l = slog.New(append(args, opts...)...).SetWriter(encCap)
		} else {
			l = slog.New(args...).SetWriter(encCap)
			for _, c := range f.Calls {
				enchSetter(l, c)
			}
		}
		s.adopt(slot, l)
	case "child", "childset", "with":
		p := s.live[f.P-1].l
		var l *slog.Entry
		switch f.How {
		case "child":
			l = p.New(append([]any{s.newName(slot)}, opts...)...)
		case "childset":
			l = p.New(s.newName(slot))
			for _, c := range f.Calls {
				enchSetter(l, c)
			}
		default:
			calls := f.Calls
			if len(calls) == 0 {
				l = p.New() // a child with a random name that inherits everything
			} else {
				if calls[0].Op == "json" {
					l = p.WithJSONMode(enchBoolArg(calls[0].Arg)...)
				} else {
					l = p.WithColorMode(enchBoolArg(calls[0].Arg)...)
				}
				for _, c := range calls[1:] {
					enchSetter(l, c)
				}
			}
		}
		s.adopt(slot, l)
	default:
		panic("form " + f.How)
	}
	l := s.live[slot-1].l
	s.emitLine(map[string]any{"op": "Configure", "l": slot, "f": e.F, "jm": l.JSONMode(), "cm": l.ColorMode(),
		"named": l.Name() != ""}, map[string]any{"string": l.String()})
}

func (s *enchState) register(e enchEvent) {
	n := s.concrete(e.C)
	r := &enchReg{title: enchLetters(n) + "ZT"}
	var opts []slog.RegOpt
	if strings.HasPrefix(e.G, "tags") {
		ch := string(rune('a' + n%26))
		for w := 1; w <= 5; w++ {
			r.tags[w] = strings.Repeat(ch, w-1) + string(rune('a'+(n/26)%26))
		}
		r.has = true
		opts = append(opts, slog.RegWithShortTags(r.tags))
	}
	switch e.G {
	case "titlecolor", "tags":
		opts = append(opts, slog.RegWithColor(color.FgLightGreen))
	case "tagsbg":
		opts = append(opts, slog.RegWithColor(color.FgBlue, color.BgDim))
	}
	err := slog.RegisterLevel(slog.Level(n), r.title, opts...)
	if err == nil {
		s.reg[e.C] = r
	}
	s.emitLine(map[string]any{"op": "Register", "c": e.C, "g": e.G, "ok": err == nil},
		map[string]any{"level": n, "title": r.title, "err": fmt.Sprint(err)})
}

func (s *enchState) doSwitch(e enchEvent) {
	lvl := slog.DebugLevel
	if e.K == "trace" {
		lvl = slog.TraceLevel
	}
	slot := e.L
	if slot < 1 || slot > len(s.live) {
		slot = 1
	}
	l := s.live[slot-1].l
	switch e.V {
	case "set":
		l.SetLevel(lvl)
		l.SetLevel(slog.AlwaysLevel)
	case "child":
		_ = l.WithLevel(lvl)
	case "new":
		_ = slog.New(s.newName(0), slog.WithLevel(lvl))
	case "pkg":
		slog.SetLevel(lvl)
	default: // "ext": the switch is flipped from outside (a command line parser)
		if e.K == "trace" {
			is.SetTraceMode(true)
		} else {
			is.SetDebugMode(true)
		}
	}
	s.emitLine(map[string]any{"op": "Switch", "k": e.K, "v": e.V, "dbg": is.DebugMode(), "trc": is.TraceMode()}, nil)
}

// fit renders a level name the way a fixed-width column shows it
func enchFit(t string, w int) string {
	r := []rune(t)
	if len(r) >= w {
		return string(r[:w])
	}
	return t + strings.Repeat(" ", w-len(r))
}

// where can the printed level tag / level name come from?  (sets: a text may match several sources)
func (s *enchState) tagSources(sevAbs, sev int, tag string) []string {
	out := []string{}
	if sevAbs < 100 {
		if s.width >= 1 && s.width <= 5 && tag == slog.Level(sev).ShortTag(s.width) {
			out = append(out, "builtin")
		}
		return out
	}
	if r := s.reg[sevAbs]; r != nil {
		if r.has && tag == r.tags[s.width] {
			out = append(out, "tags")
		}
		if strings.EqualFold(tag, enchFit(r.title, s.width)) {
			out = append(out, "title")
		}
	}
	if tag == enchFit("L#"+strconv.Itoa(sev), s.width) {
		out = append(out, "generic")
	}
	if len(out) == 0 {
		out = append(out, "other")
	}
	return out
}

func (s *enchState) nameSources(sevAbs, sev int, name string) []string {
	out := []string{}
	if sevAbs < 100 {
		if name == slog.Level(sev).String() {
			out = append(out, "builtin")
		}
		return out
	}
	if r := s.reg[sevAbs]; r != nil && strings.EqualFold(name, r.title) {
		out = append(out, "title")
	}
	if name == "L#"+strconv.Itoa(sev) {
		out = append(out, "generic")
	}
	if len(out) == 0 {
		out = append(out, "other")
	}
	return out
}

//go:noinline
func enchLine() int {
	_, _, line, _ := runtime.Caller(1)
	return line
}

// enchDo is the one function records are logged from: the caller field must name it.
//
//go:noinline
func enchDo(l *slog.Entry, via string, sev int, msg string, args []any) (lo, hi int, file, fn string) {
	lo = enchLine()
	pc, f, _, _ := runtime.Caller(0)
	file, fn = f, runtime.FuncForPC(pc).Name()
	ctx := context.Background()
	lvl := slog.Level(sev)
	if via == "logattrs" || sev >= 100 || sev < 2 || sev == 7 {
		if via == "ctx" {
			l.Logit(ctx, lvl, msg, args...)
		} else {
			l.LogAttrs(ctx, lvl, msg, args...)
		}
		hi = enchLine()
		return
	}
	if via == "ctx" {
		switch lvl {
		case slog.ErrorLevel:
			l.ErrorContext(ctx, msg, args...)
		case slog.WarnLevel:
			l.WarnContext(ctx, msg, args...)
		case slog.InfoLevel:
			l.InfoContext(ctx, msg, args...)
		case slog.DebugLevel:
			l.DebugContext(ctx, msg, args...)
		case slog.TraceLevel:
			l.TraceContext(ctx, msg, args...)
		case slog.AlwaysLevel:
			l.PrintContext(ctx, msg, args...)
		case slog.OKLevel:
			l.OKContext(ctx, msg, args...)
		case slog.SuccessLevel:
			l.SuccessContext(ctx, msg, args...)
		case slog.FailLevel:
			l.FailContext(ctx, msg, args...)
		}
		hi = enchLine()
		return
	}
	switch lvl {
	case slog.ErrorLevel:
		l.Error(msg, args...)
	case slog.WarnLevel:
		l.Warn(msg, args...)
	case slog.InfoLevel:
		l.Info(msg, args...)
	case slog.DebugLevel:
		l.Debug(msg, args...)
	case slog.TraceLevel:
		l.Trace(msg, args...)
	case slog.AlwaysLevel:
		l.Print(msg, args...)
	case slog.OKLevel:
		l.OK(msg, args...)
	case slog.SuccessLevel:
		l.Success(msg, args...)
	case slog.FailLevel:
		l.Fail(msg, args...)
	}
	hi = enchLine()
	return
}

// emit executes one Emit event: the record itself and - when destinations log - everything they emit
// from inside their Write.  One trace line: the first destination's copy of the record; "sub": the
// other deliveries in the order of EncoderHist!Deliveries.
func (s *enchState) emit(ei int, e enchEvent) {
	s.sub, s.subDet = nil, nil
	s.frames = s.frames[:0]
	ents, dets := s.emitRecord(ei, e.L, e.R, e.S, 0)
	line, det := ents[0], dets[0]
	line["op"] = "Emit"
	sub := append(s.sub, ents[1:]...)
	subDet := append(s.subDet, dets[1:]...)
	if len(sub) > 0 {
		line["sub"] = sub
		det["sub"] = subDet
	}
	s.sub, s.subDet = nil, nil
	s.emitLine(line, det)
}

// emitRecord logs one record of class r through the logger of slot `slot` (depth 0: the Emit event itself,
// > 0: from inside a destination's Write) and describes it once per destination of that logger.
func (s *enchState) emitRecord(ei, slot, rid, salt, depth int) (ents, dets []map[string]any) {
	cl := s.sc.Classes[rid-1]
	lv := s.live[slot-1]
	l := lv.l
	format := enchGetterMode(l)
	sev := s.concrete(cl.Sev)
	seed := int64(s.sc.Seed)*1000003 + int64(salt)*104729 + 13
	c := &encCase{}
	c.ID = ei
	c.Fmt = format
	c.Testing = is.InTesting()
	c.Sev = sev
	c.Caller = cl.Caller
	c.CFile = cl.CFile
	if c.CFile == "" {
		c.CFile = "plain"
	}
	c.Msg = cl.Msg
	r := &encRun{c: c, g: &encGen{r: rand.New(rand.NewSource(seed)), variant: -1}, keys: map[int]string{}, keyID: map[string]int{},
		nodesAt: map[string][]*encNode{}}
	r.g.noSpace = format == "color"
	for k, v := range lv.base.keys {
		r.keys[k] = v
	}
	for k, v := range lv.base.keyID {
		r.keyID[k] = v
	}
	for k, v := range lv.base.nodesAt {
		r.nodesAt[k] = append([]*encNode(nil), v...)
	}
	argNodes := enchCopyNodes(cl.Args)
	attrs := r.build(argNodes, nil, 0)
	// the record the decoders compare with: own attributes, then the call-site ones
	c.Attrs = append(append([]*encNode(nil), lv.ownNodes...), argNodes...)
	var sb strings.Builder
	for i, cls := range cl.Msg {
		if i < len(cl.Sizes) && cl.Sizes[i] > 0 {
			sb.WriteString(encSizedPlain(r.g.r, cl.Sizes[i]))
		} else {
			sb.WriteString(r.g.rep(cls))
		}
	}
	r.msg = sb.String()
	r.name = l.Name()
	c.Name = encName{Has: r.name != "", Cls: []string{}}

	args := make([]any, 0, 2*len(attrs))
	pairs := salt%3 == 2
	for i, a := range attrs {
		if pairs && argNodes[i].Kind != "group" {
			args = append(args, a.Key(), argNodes[i].conc)
		} else {
			args = append(args, a)
		}
	}
	if cl.Caller {
		slog.SetFlags(s.flags | slog.Lcaller)
	} else {
		slog.SetFlags(s.flags)
	}
	ndest := len(s.dests[slot-1])
	fr := &enchFrame{slot: slot, depth: depth, salt: salt, ei: ei, chunks: make([][][]byte, ndest)}
	s.frames = append(s.frames, fr)
	t0 := time.Now()
	panicked := ""
	var lo, hi int
	var file, fn string
	func() {
		defer func() {
			if e := recover(); e != nil {
				panicked = fmt.Sprint(e)
			}
		}()
		if ls := encSiteOf(c.CFile, 1+salt); c.CFile != "plain" && ls != nil {
			// the issuing statement sits behind a //line directive whose file name carries that class
			lo, file, fn = ls.do(l, cl.Via, slog.Level(sev), r.msg, args)
		} else {
			lo, hi, file, fn = enchDo(l, cl.Via, sev, r.msg, args)
		}
	}()
	t1 := time.Now()
	// the frame is done (a panic may have left inner ones behind)
	for len(s.frames) > 0 {
		top := s.frames[len(s.frames)-1]
		s.frames = s.frames[:len(s.frames)-1]
		if top == fr {
			break
		}
	}
	site := encSite{file: file, line: lo, lineHi: hi, fn: fn}
	m := r.msg
	if len(m) > 300 {
		m = m[:200] + "...[" + strconv.Itoa(len(r.msg)) + " bytes]"
	}
	for k := 1; k <= ndest; k++ {
		var payload []byte
		for _, ch := range fr.chunks[k-1] {
			payload = append(payload, ch...)
		}
		encTSOK = func(field string) bool {
			for t := t0.Add(-time.Second); !t.After(t1.Add(time.Second)); t = t.Add(time.Second) {
				if strings.Contains(field, t.Format("15:04:05")) || strings.Contains(field, t.UTC().Format("15:04:05")) {
					return true
				}
			}
			return false
		}
		r.unmatched = nil
		var obs map[string]any
		switch format {
		case "json":
			obs = encObsJSON(r, payload, site)
		case "logfmt":
			obs = encObsLogfmt(r, payload, site)
		default:
			obs = encObsColor(r, payload, site)
		}
		obs["writes"] = len(fr.chunks[k-1])
		lvltext, _ := obs["lvltext"].(string)
		tagtext, _ := obs["tagtext"].(string)
		delete(obs, "lvltext")
		delete(obs, "tagtext")
		if format == "color" {
			obs["tagsrc"] = s.tagSources(cl.Sev, sev, tagtext)
		} else {
			obs["lvlsrc"] = s.nameSources(cl.Sev, sev, lvltext)
		}
		ents = append(ents, map[string]any{"l": slot, "r": rid, "sev": cl.Sev, "msg": cl.Msg, "args": argNodes,
			"caller": cl.Caller, "cfile": c.CFile, "obs": obs, "d": depth, "k": k})
		pl := string(payload)
		if len(pl) > 1800 {
			pl = pl[:900] + " ...[" + strconv.Itoa(len(payload)) + " bytes]... " + pl[len(pl)-700:]
		}
		dets = append(dets, map[string]any{"payload": strconv.QuoteToASCII(pl), "len": len(payload), "fmt": format,
			"msg": strconv.QuoteToASCII(m), "name": r.name, "site": strconv.QuoteToASCII(file), "level": sev, "tag": tagtext, "lvl": lvltext, "panic": panicked,
			"unmatched": r.unmatched, "valid_utf8": utf8.Valid(payload), "d": depth, "k": k, "l": slot})
	}
	return
}

func enchMain(args []string) int {
	if len(args) < 3 {
		fmt.Fprintln(os.Stderr, "usage: worker enchist <script.json> <trace.ndjson> <details.ndjson>")
		return 2
	}
	var sc enchScript
	readJSON(args[0], &sc)
	// one P: which pooled object a record draws is then a function of the history alone
	runtime.GOMAXPROCS(1)
	s := &enchState{sc: &sc, out: newTraceOut(args[1]), det: newTraceOut(args[2])}
	defer s.out.close()
	defer s.det.close()
	s.flags = slog.LstdFlags&^slog.Lcaller | slog.LnoInterrupt
	s.origLvl = slog.GetLevel()
	for bi, beh := range sc.Behaviours {
		if len(beh) > 0 && beh[0].Op == "Init" {
			s.reset(sc.Base+bi, &beh[0])
			beh = beh[1:]
		} else {
			s.reset(sc.Base+bi, nil)
		}
		for ei, e := range beh {
			switch e.Op {
			case "Configure":
				s.configure(e)
			case "Emit":
				s.emit(ei, e)
			case "GC":
				for i := 0; i < e.N || i == 0; i++ {
					runtime.GC()
				}
				s.emitLine(map[string]any{"op": "GC", "n": e.N}, nil)
			case "Register":
				s.register(e)
			case "Switch":
				s.doSwitch(e)
			case "SwitchOff":
				is.SetDebugMode(false)
				is.SetTraceMode(false)
				s.emitLine(map[string]any{"op": "SwitchOff", "dbg": is.DebugMode(), "trc": is.TraceMode()}, nil)
			case "SetWidth":
				slog.SetLevelOutputWidth(e.W)
				if e.W >= 1 && e.W <= 5 {
					s.width = e.W
				}
				s.emitLine(map[string]any{"op": "SetWidth", "w": e.W}, nil)
			case "SetMinW":
				slog.SetMessageMinimalWidth(e.M)
				s.emitLine(map[string]any{"op": "SetMinW", "m": e.M}, nil)
			case "Wire":
				if e.L >= 1 && e.L <= len(s.live) {
					s.setDests(e.L, e.W)
					s.attach(e.L, s.live[e.L-1].l)
				}
				s.emitLine(map[string]any{"op": "Wire", "l": e.L, "w": e.W}, map[string]any{"dests": s.destSpecs(e.W)})
			case "SetColors":
				sev := s.concrete(e.C)
				if e.C < 100 {
					s.colored[sev] = true
				}
				// the concrete codes are a function of the event (stable under shrinking)
				rr := rand.New(rand.NewSource(int64(sc.Seed)*1000003 + int64(e.C)*7919 + int64(len(e.FG))*31 + int64(len(e.BG))*17 + int64(ei)))
				fg, bg := encSetColours(sev, encLC{Set: true, Fg: e.FG, Bg: e.BG}, rr)
				s.emitLine(map[string]any{"op": "SetColors", "c": e.C, "fg": e.FG, "bg": e.BG}, map[string]any{"level": sev, "codes": []int{fg, bg}})
			default:
				panic("unknown event " + e.Op)
			}
		}
	}
	return 0
}
