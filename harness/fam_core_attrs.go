package main

import (
	"bytes"
	"context"
	"encoding/json"
	"fmt"
	"regexp"
	"strconv"
	"strings"

	"github.com/hedzr/logg/slog"
)

// Attribute projection for C07 / C10: integer-valued attributes whose keys are "aNNN" (the byte
// order of the names is the numeric order of the ids), groups nested to any depth.  A record in
// any of the three formats is projected to its leaves in printed order:
//     [{"p": [1, 4], "v": 7}, ...]   = attribute a004 = 7 inside group a001

type leaf struct {
	P []int `json:"p"`
	V int   `json:"v"`
}

// keys 991, 992, 993 are three DIFFERENT keys cut from one string (as the segments of a dotted path would
// be): they share their first byte's address, not their length
const coreSharedKeyBase = "s123"

func attrName(id int) string {
	if id >= 991 && id <= 993 {
		return coreSharedKeyBase[:id-989]
	}
	return fmt.Sprintf("a%03d", id)
}

var coreReKeyID = regexp.MustCompile(`^a(\d{3})$`)

func keyID(name string) (int, bool) {
	if len(name) >= 2 && len(name) <= 4 && name == coreSharedKeyBase[:len(name)] {
		return 989 + len(name), true
	}
	m := coreReKeyID.FindStringSubmatch(name)
	if m == nil {
		return 0, false
	}
	id, _ := strconv.Atoi(m[1])
	return id, true
}

// leavesOf projects a payload (one record, any format).
func leavesOf(p []byte) []leaf {
	txt := coreReSGR.ReplaceAllString(string(p), "")
	if strings.HasPrefix(txt, "{") {
		return jsonLeaves([]byte(txt))
	}
	return textLeaves(txt)
}

var coreReTextAttr = regexp.MustCompile(`(?:^|[ ])((?:(?:a\d{3}|s1(?:23?)?)\.)*(?:a\d{3}|s1(?:23?)?))=(-?\d+)\b`)

func textLeaves(txt string) []leaf {
	res := []leaf{}
	if i := strings.IndexByte(txt, '\n'); i >= 0 {
		txt = txt[:i] // attributes are on the first line
	}
	for _, m := range coreReTextAttr.FindAllStringSubmatch(txt, -1) {
		var path []int
		for _, part := range strings.Split(m[1], ".") {
			id, _ := keyID(part)
			path = append(path, id)
		}
		v, _ := strconv.Atoi(m[2])
		res = append(res, leaf{path, v})
	}
	return res
}

// jsonLeaves walks the object with the token decoder so that the member order is preserved.
func jsonLeaves(p []byte) []leaf {
	res := []leaf{}
	dec := json.NewDecoder(bytes.NewReader(p))
	dec.UseNumber()
	var walk func(path []int, known bool) bool
	walk = func(path []int, known bool) bool {
		// after '{'
		for dec.More() {
			kt, err := dec.Token()
			if err != nil {
				return false
			}
			key, _ := kt.(string)
			id, ok := keyID(key)
			vt, err := dec.Token()
			if err != nil {
				return false
			}
			switch v := vt.(type) {
			case json.Delim:
				if v == '{' {
					if !walk(append(append([]int(nil), path...), id), known && ok) {
						return false
					}
				} else if v == '[' {
					depth := 1
					for depth > 0 {
						t, err := dec.Token()
						if err != nil {
							return false
						}
						if d, isD := t.(json.Delim); isD {
							if d == '[' || d == '{' {
								depth++
							} else {
								depth--
							}
						}
					}
				}
			case json.Number:
				if ok && known {
					n, _ := strconv.Atoi(string(v))
					res = append(res, leaf{append(append([]int(nil), path...), id), n})
				}
			case string:
				// numbers may be printed as strings holding the exact decimal text
				if ok && known {
					if n, err := strconv.Atoi(v); err == nil {
						res = append(res, leaf{append(append([]int(nil), path...), id), n})
					}
				}
			}
		}
		_, err := dec.Token() // '}'
		return err == nil
	}
	if t, err := dec.Token(); err != nil || t != json.Delim('{') {
		return res
	}
	walk(nil, true)
	return res
}

// attribute construction from the script's integer encoding: [k, v] with v > 0 a scalar,
// v < 0 the group number -v of the script's group table.
// Group values are built ONCE per (key, group number) and then shared: by loggers, by calls and by
// the different parent groups that hold the same sub-group - as a program does that keeps a
// prepared group around.
var coreGroupObjs = map[[2]int]slog.Attr{}

func (r *coreRun) mkAttr(k, v int) slog.Attr {
	if v >= 0 {
		return slog.Int(attrName(k), v)
	}
	if g, ok := coreGroupObjs[[2]int{k, v}]; ok {
		return g
	}
	var members []slog.Attr
	for _, m := range r.sc.Groups[-v-1] {
		members = append(members, r.mkAttr(m[0], m[1]))
	}
	g := slog.NewGroupedAttr(attrName(k), members...)
	coreGroupObjs[[2]int{k, v}] = g
	return g
}

type ctxKeyStringer int

func (k ctxKeyStringer) String() string { return attrName(50 + int(k)) }

type ctxKeyAlias int

func (k ctxKeyAlias) String() string { return attrName(50 + int(k) - 10) }

// context keys: odd ids are plain strings, even ids Stringers; both name attribute 50+id; ids from 10 on
// are distinct keys (another type) printing the name of key id-10
func mkCtxKey(a int) any {
	if a >= 10 {
		return ctxKeyAlias(a)
	}
	if a%2 == 0 {
		return ctxKeyStringer(a)
	}
	return attrName(50 + a)
}

// logM (C07): one record with context values CtxVals[ev.A] and call attributes CallArgs[ev.B].
func (r *coreRun) logM(l *slog.Entry, ev coreEvent, rec map[string]any) {
	var ctx context.Context = context.Background()
	if ev.A >= 1 && ev.A <= len(r.sc.CtxVals) {
		cv := r.sc.CtxVals[ev.A-1]
		if len(cv) == 1 && cv[0][0] == 0 {
			ctx = nil // a nil context
		} else {
			for _, kv := range cv {
				if kv[0] > 0 { // the value may be 0: present all the same
					ctx = context.WithValue(ctx, mkCtxKey(kv[0]), kv[1])
				}
			}
		}
	}
	var args []any
	if ev.B >= 1 && ev.B <= len(r.sc.CallArgs) {
		ca := r.sc.CallArgs[ev.B-1]
		for i, kv := range ca {
			// alternate the ways a call can pass an attribute
			if kv[1] >= 0 && (i+len(ca))%2 == 0 {
				args = append(args, attrName(kv[0]), kv[1])
			} else {
				args = append(args, r.mkAttr(kv[0], kv[1]))
			}
		}
	}
	takeAll()
	outcome := "ret"
	func() {
		defer func() {
			if p := recover(); p != nil {
				outcome = "panic: " + fmt.Sprint(p)
			}
		}()
		l.LogAttrs(ctx, slog.AlwaysLevel, "merge probe", args...) //nolint:staticcheck // nil ctx is part of the domain
	}()
	for _, e := range takeAll() {
		if e.K == "w" {
			rec["leaves"] = leavesOf(e.payload)
			rec["shape"] = shapeOf(e.payload)
			break
		}
	}
	rec["outcome"] = outcome
}
