package main

// "paths" (C18): executes scripts of path-hardening calls against the real library and records
// one ndjson line per call.  Configuration calls (Add/Remove/Reset of known-path and
// known-path-regexp mappings, the two privacy flags) are only executed; queries (Safety,
// SafetyFiles, and records emitted from call sites whose compile-time file name is chosen with
// //line directives) are repeated `reps` times because Go randomises the iteration order of the
// mapping table, and the DISTINCT results are recorded.  A "Chdir" event really changes the working
// directory of this process (os.Chdir) and records what os.Getwd() says afterwards; a "LoseWd" event
// takes the working directory away (the process changes into a fresh directory next to the trace file
// and removes it, so that os.Getwd fails); every behaviour starts in the directory the process was
// started in.  Nothing is judged here: the log is
// validated by TLC against spec/PathsTrace.tla.
//
// NOTE: keep siteReal above the first //line directive of this file - everything below a //line
// directive is attributed to the pseudo file named there.

import (
	"encoding/json"
	"fmt"
	"os"
	"path/filepath"
	"regexp"
	"runtime"
	"strconv"
	"strings"

	"github.com/hedzr/logg/slog"
)

// siteReal logs from the real location of this source file.
func siteReal(l slog.Logger) string { l.Info("c18"); _, f, _, _ := runtime.Caller(0); return f }

type pathsRx struct {
	Anch bool  `json:"anch"`
	Lit  []int `json:"lit"`
	Wild bool  `json:"wild"`
	Repl []int `json:"repl"`
}

type pathsEvent struct {
	Op   string   `json:"op"`
	K    []int    `json:"k,omitempty"`
	V    []int    `json:"v,omitempty"`
	D    []int    `json:"d,omitempty"` // Chdir: the directory to change to
	R    *pathsRx `json:"r,omitempty"`
	F    string   `json:"f,omitempty"`
	On   bool     `json:"on,omitempty"`
	Via  string   `json:"via,omitempty"`
	Ins  [][]int  `json:"ins,omitempty"`  // explicit byte strings, or
	Ix   []int    `json:"ix,omitempty"`   // indexes (1-based) into script.inputs
	Site []string `json:"site,omitempty"` // call-site names for via=caller-*
	Reps int      `json:"reps,omitempty"`
}

type pathsScript struct {
	Reps       int            `json:"reps"`
	Inputs     [][]int        `json:"inputs"`
	Behaviours [][]pathsEvent `json:"behaviours"`
}

func init() {
	register("paths", pathsMain)
	register("paths-sites", pathsSites)
}

func pathsB2S(b []int) string {
	x := make([]byte, len(b))
	for i, v := range b {
		x[i] = byte(v)
	}
	return string(x)
}

func pathsS2B(s string) []int {
	x := make([]int, len(s))
	for i := 0; i < len(s); i++ {
		x[i] = int(s[i])
	}
	return x
}

// the concrete regular expression an abstract regexp mapping stands for
func (r *pathsRx) expr() string {
	e := regexp.QuoteMeta(pathsB2S(r.Lit))
	if r.Anch {
		e = "^" + e
	}
	if r.Wild {
		e += "[^/]+/"
	}
	return e
}

const pathsVolumesExpr = `/Volumes/[^/]+/`

type pathsRun struct {
	sc         *pathsScript
	home, cwd  string
	scratch    string // directory of the trace file: fresh directories to lose are made here
	initFlags  slog.Flags
	lj, ll, lc slog.Logger
}

// pathsSites prints the call sites (name -> file name the compiler recorded) as JSON.
func pathsSites(args []string) int {
	l := slog.New("lgr", slog.WithJSONMode(true), slog.WithWriter(getWriter(2)), slog.WithLevel(slog.TraceLevel))
	res := map[string][]int{}
	for name, fn := range pathsCallSites {
		res[name] = pathsS2B(fn(l))
	}
	b, _ := json.Marshal(res)
	fmt.Println(string(b))
	return 0
}

func pathsMain(args []string) int {
	if len(args) < 2 {
		fmt.Fprintln(os.Stderr, "usage: worker paths <script.json> <trace.ndjson>")
		return 2
	}
	var sc pathsScript
	readJSON(args[0], &sc)
	out := newTraceOut(args[1])
	defer out.close()
	if sc.Reps <= 0 {
		sc.Reps = 64
	}
	r := &pathsRun{sc: &sc, initFlags: slog.GetFlags()}
	if abs, err := filepath.Abs(args[1]); err == nil {
		r.scratch = filepath.Dir(abs)
	}
	r.home, _ = os.UserHomeDir()
	r.cwd, _ = os.Getwd()
	w := getWriter(2) // a LogWriter recorder
	r.lj = slog.New("lgr", slog.WithJSONMode(true), slog.WithWriter(w), slog.WithLevel(slog.TraceLevel))
	r.ll = slog.New("lgr", slog.WithJSONMode(false), slog.WithColorMode(false), slog.WithWriter(w), slog.WithLevel(slog.TraceLevel))
	r.lc = slog.New("lgr", slog.WithColorMode(true), slog.WithWriter(w), slog.WithLevel(slog.TraceLevel))
	sink.reset()

	for bi, beh := range sc.Behaviours {
		op := "Init"
		if bi > 0 {
			r.reset()
			op = "Reset"
		}
		now, err := os.Getwd()
		if err != nil {
			now = "?" + err.Error()
		}
		out.emit(map[string]any{"op": op, "home": pathsS2B(r.home), "cwd": pathsS2B(now),
			"fp": slog.IsAnyBitsSet(slog.Lprivacypath), "fr": slog.IsAnyBitsSet(slog.Lprivacypathregexp)})
		for _, ev := range beh {
			out.emit(r.exec(ev))
		}
	}
	return 0
}

// reset brings the tables and flags back to their contents at process start, through the public API.
func (r *pathsRun) reset() {
	if err := os.Chdir(r.cwd); err != nil {
		panic("cannot return to the start directory: " + err.Error())
	}
	slog.SetFlags(r.initFlags)
	slog.ResetKnownPathMapping()
	slog.AddKnownPathMapping(r.home, "~")
	slog.AddKnownPathMapping(r.cwd, ".")
	slog.ResetKnownPathRegexpMapping()
	slog.AddKnownPathRegexpMapping(pathsVolumesExpr, "~")
}

func (r *pathsRun) inputs(ev pathsEvent) []string {
	var res []string
	for _, b := range ev.Ins {
		res = append(res, pathsB2S(b))
	}
	for _, x := range ev.Ix {
		res = append(res, pathsB2S(r.sc.Inputs[x-1]))
	}
	return res
}

// recIns records the queried paths: by index when the script gave indexes only (keeps the log small)
func (r *pathsRun) recIns(rec map[string]any, ev pathsEvent, ins []string) {
	if len(ev.Ins) == 0 && len(ev.Ix) > 0 {
		rec["ix"] = ev.Ix
		return
	}
	rec["ins"] = pathsStrsB(ins)
}

type pathsDistinct struct {
	seen map[string]bool
	list [][]int
}

func (d *pathsDistinct) add(s string) {
	if d.seen == nil {
		d.seen = map[string]bool{}
	}
	if !d.seen[s] {
		d.seen[s] = true
		d.list = append(d.list, pathsS2B(s))
	}
}

func (d *pathsDistinct) out() [][]int {
	if d.list == nil {
		return [][]int{}
	}
	return d.list
}

func (r *pathsRun) exec(ev pathsEvent) (rec map[string]any) {
	rec = map[string]any{"op": ev.Op}
	defer func() {
		if p := recover(); p != nil {
			rec["panic"] = fmt.Sprint(p)
		}
	}()
	reps := ev.Reps
	if reps <= 0 {
		reps = r.sc.Reps
	}
	switch ev.Op {
	case "AddMap":
		rec["k"], rec["v"] = pathsNZ(ev.K), pathsNZ(ev.V)
		slog.AddKnownPathMapping(pathsB2S(ev.K), pathsB2S(ev.V))
	case "RemoveMap":
		rec["k"] = pathsNZ(ev.K)
		slog.RemoveKnownPathMapping(pathsB2S(ev.K))
	case "ResetMap":
		slog.ResetKnownPathMapping()
	case "Chdir":
		rec["d"] = pathsNZ(ev.D)
		if err := os.Chdir(pathsB2S(ev.D)); err != nil {
			rec["harness_error"] = "chdir: " + err.Error()
		}
		wd, err := os.Getwd()
		if err != nil {
			rec["harness_error"] = "getwd: " + err.Error()
		}
		rec["wd"] = pathsS2B(wd)
	case "LoseWd":
		// the directory the process stands in is removed underneath it
		dir, err := os.MkdirTemp(r.scratch, "paths-lost-")
		if err != nil {
			rec["harness_error"] = "mkdir: " + err.Error()
		} else {
			if err := os.Chdir(dir); err != nil {
				rec["harness_error"] = "chdir: " + err.Error()
			}
			if err := os.Remove(dir); err != nil {
				rec["harness_error"] = "remove: " + err.Error()
			}
		}
		wd, err := os.Getwd()
		rec["wd"], rec["lost"] = pathsS2B(wd), err != nil
	case "AddRx":
		rec["r"] = pathsRxRec(ev.R)
		slog.AddKnownPathRegexpMapping(ev.R.expr(), pathsB2S(ev.R.Repl))
	case "RemoveRx":
		rec["r"] = pathsRxRec(ev.R)
		slog.RemoveKnownPathRegexpMapping(ev.R.expr())
	case "ResetRx":
		slog.ResetKnownPathRegexpMapping()
	case "SetFlag":
		rec["f"], rec["on"] = ev.F, ev.On
		f := slog.Lprivacypath
		if ev.F == "regexp" {
			f = slog.Lprivacypathregexp
		}
		if ev.On {
			slog.AddFlags(f)
		} else {
			slog.RemoveFlags(f)
		}
		sink.take()
	case "Q":
		rec["via"] = ev.Via
		switch ev.Via {
		case "Safety":
			ins := r.inputs(ev)
			outs := make([]pathsDistinct, len(ins))
			r.recIns(rec, ev, ins)
			for i, p := range ins {
				for n := 0; n < reps; n++ {
					outs[i].add(slog.Safety(p))
				}
			}
			rec["outs"], rec["lens"] = pathsOutsOf(outs), []int{len(ins)}
		case "SafetyFiles":
			ins := r.inputs(ev)
			outs := make([]pathsDistinct, len(ins))
			r.recIns(rec, ev, ins)
			lens := map[int]bool{}
			var lensL []int
			for n := 0; n < reps; n++ {
				res := slog.SafetyFiles(ins)
				if !lens[len(res)] {
					lens[len(res)] = true
					lensL = append(lensL, len(res))
				}
				for i := range res {
					if i < len(outs) {
						outs[i].add(res[i])
					}
				}
			}
			rec["outs"], rec["lens"] = pathsOutsOf(outs), lensL
		case "caller-json", "caller-logfmt", "caller-color":
			var ins []string
			outs := make([]pathsDistinct, len(ev.Site))
			for i, name := range ev.Site {
				fn := pathsCallSites[name]
				if fn == nil {
					panic("unknown call site " + name)
				}
				l := r.lj
				if ev.Via == "caller-logfmt" {
					l = r.ll
				} else if ev.Via == "caller-color" {
					l = r.lc
				}
				var file string
				for n := 0; n < reps; n++ {
					sink.take()
					file = fn(l)
					evs := sink.take()
					if len(evs) != 1 {
						rec["harness_error"] = fmt.Sprintf("site %s: %d writes for one record", name, len(evs))
						continue
					}
					got, err := pathsCallerFileOf(ev.Via, evs[0].payload)
					if err != nil {
						rec["harness_error"] = fmt.Sprintf("site %s: %v in %q", name, err, evs[0].payload)
						continue
					}
					outs[i].add(got)
				}
				ins = append(ins, file)
			}
			rec["ins"], rec["outs"], rec["lens"] = pathsStrsB(ins), pathsOutsOf(outs), []int{len(ins)}
		default:
			panic("unknown via " + ev.Via)
		}
	default:
		panic("unknown op " + ev.Op)
	}
	return rec
}

func pathsNZ(b []int) []int {
	if b == nil {
		return []int{}
	}
	return b
}

func pathsRxRec(r *pathsRx) map[string]any {
	return map[string]any{"anch": r.Anch, "lit": pathsNZ(r.Lit), "wild": r.Wild, "repl": pathsNZ(r.Repl)}
}

func pathsStrsB(l []string) [][]int {
	res := make([][]int, 0, len(l))
	for _, s := range l {
		res = append(res, pathsS2B(s))
	}
	return res
}

func pathsOutsOf(d []pathsDistinct) [][][]int {
	res := make([][][]int, 0, len(d))
	for i := range d {
		res = append(res, d[i].out())
	}
	return res
}

// ---- independent decoders: payload bytes -> the file member of the caller field

var rePathsSGR = regexp.MustCompile("\x1b\\[[0-9;]*m")
var rePathsColorTail = regexp.MustCompile(`^(.*):(\d+) (\S+)$`)

func pathsCallerFileOf(via string, payload []byte) (string, error) {
	switch via {
	case "caller-json":
		var m struct {
			Caller *struct {
				File *string `json:"file"`
			} `json:"caller"`
		}
		if err := json.Unmarshal(payload, &m); err != nil {
			return "", err
		}
		if m.Caller == nil || m.Caller.File == nil {
			return "", fmt.Errorf("no caller.file member")
		}
		return *m.Caller.File, nil
	case "caller-logfmt":
		s := string(payload)
		const key = " caller.file="
		p := strings.Index(s, key)
		if p < 0 {
			return "", fmt.Errorf("no caller.file key")
		}
		s = s[p+len(key):]
		if strings.HasPrefix(s, `"`) {
			q, err := strconv.QuotedPrefix(s)
			if err != nil {
				return "", err
			}
			return strconv.Unquote(q)
		}
		if e := strings.IndexByte(s, ' '); e >= 0 {
			s = s[:e]
		}
		return s, nil
	default: // colored: "... <attrs> <file>:<line> <function>" with SGR sequences
		s := strings.TrimRight(rePathsSGR.ReplaceAllString(string(payload), ""), "\r\n ")
		m := rePathsColorTail.FindStringSubmatch(s)
		if m == nil {
			return "", fmt.Errorf("no file:line function tail")
		}
		// the record is "<time>| <logger> [LVL] <msg padded> <file>:<line> <func>"; the call sites log the
		// fixed message "c18" without attributes, so the file is what follows the padded message
		head := m[1]
		const msg = " c18 "
		p := strings.Index(head, msg)
		if p < 0 {
			return "", fmt.Errorf("message not found")
		}
		return strings.TrimLeft(head[p+len(msg):], " "), nil
	}
}

var pathsCallSites = map[string]func(slog.Logger) string{
	"real": siteReal, "homeA": siteHomeA, "homeX": siteHomeX, "homeInner": siteHomeInner, "homeWork": siteHomeWork,
	"homeWorkshop": siteHomeWorkshop, "secApp": siteSecApp, "secX": siteSecX, "secInner": siteSecInner,
	"cwdIn": siteCwdIn, "cwdX": siteCwdX, "cwdUp": siteCwdUp, "other": siteOther, "vol": siteVol, "volInner": siteVolInner,
	"homeVol": siteHomeVol,
}

// Call sites with chosen compile-time file names (scenarios use HOME=/vhome/user, cwd=/usr/lib,
// user mappings under /srv and /vhome/user/work).

//line /vhome/user/proj/a.go:10
func siteHomeA(l slog.Logger) string { l.Info("c18"); _, f, _, _ := runtime.Caller(0); return f }

//line /vhome/userx/proj/b.go:10
func siteHomeX(l slog.Logger) string { l.Info("c18"); _, f, _, _ := runtime.Caller(0); return f }

//line /vhome/user/p/vhome/user/q.go:10
func siteHomeInner(l slog.Logger) string { l.Info("c18"); _, f, _, _ := runtime.Caller(0); return f }

//line /vhome/user/work/w.go:10
func siteHomeWork(l slog.Logger) string { l.Info("c18"); _, f, _, _ := runtime.Caller(0); return f }

//line /vhome/user/workshop/w.go:10
func siteHomeWorkshop(l slog.Logger) string { l.Info("c18"); _, f, _, _ := runtime.Caller(0); return f }

//line /srv/secret/app/m.go:10
func siteSecApp(l slog.Logger) string { l.Info("c18"); _, f, _, _ := runtime.Caller(0); return f }

//line /srv/secretx/m.go:10
func siteSecX(l slog.Logger) string { l.Info("c18"); _, f, _, _ := runtime.Caller(0); return f }

//line /srv/secret/k/srv/secret/m.go:10
func siteSecInner(l slog.Logger) string { l.Info("c18"); _, f, _, _ := runtime.Caller(0); return f }

//line /usr/lib/go/x.go:10
func siteCwdIn(l slog.Logger) string { l.Info("c18"); _, f, _, _ := runtime.Caller(0); return f }

//line /usr/lib64/x.go:10
func siteCwdX(l slog.Logger) string { l.Info("c18"); _, f, _, _ := runtime.Caller(0); return f }

//line /usr/x.go:10
func siteCwdUp(l slog.Logger) string { l.Info("c18"); _, f, _, _ := runtime.Caller(0); return f }

//line /opt/other/z.go:10
func siteOther(l slog.Logger) string { l.Info("c18"); _, f, _, _ := runtime.Caller(0); return f }

//line /Volumes/vWork/work/a.go:10
func siteVol(l slog.Logger) string { l.Info("c18"); _, f, _, _ := runtime.Caller(0); return f }

//line /x/Volumes/v/w/a.go:10
func siteVolInner(l slog.Logger) string { l.Info("c18"); _, f, _, _ := runtime.Caller(0); return f }

//line /vhome/user/Volumes/v/w.go:10
func siteHomeVol(l slog.Logger) string { l.Info("c18"); _, f, _, _ := runtime.Caller(0); return f }
