package main

import (
	"context"
	"encoding/json"
	"errors"
	"fmt"
	"log"
	logslog "log/slog"
	"os"
	"os/exec"
	"strconv"
	"strings"
	"sync"
	"syscall"
	"time"

	"github.com/hedzr/is"
	"github.com/hedzr/logg/slog"
)

// "adapter" (property C15): executes behaviours of spec/Adapter.tla on the real library -
// NewSlogHandler, Handler.WithAttrs/WithGroup/Enabled/Handle through a real log/slog.Logger,
// Entry.Log, NewLogLogger + log.Logger, RegisterLevel (in a child process per behaviour: the
// registry is process-wide) - on recording writers, decodes every record that reached
// a writer with decoders that do not use the library (own JSON-ish / logfmt / SGR scanners,
// encoding/json, strconv, time.Parse) and logs one line per call for spec/AdapterTrace.tla.
// Nothing is judged here: the verdicts are TLC's.

type adLeaf struct {
	P []string `json:"p"` // path of keys, groups outermost first, the leaf's key last
	K string   `json:"k"` // value kind
	V int      `json:"v"` // value id
	O []int    `json:"o"` // ordinals: position of the ancestor at each depth in its list (same length as P)
}

// adpNode is one node of an attribute tree (spec/Adapter.tla, ATTRIBUTE TREES AND LOGVALUERS):
// a leaf (kind K, value id V) or a group (G, Kids); Lv > 0 = handed over as a LogValuer whose
// LogValue() has to be asked Lv times before the value - the leaf value or the group - appears.
type adpNode struct {
	Key  string    `json:"key"`
	Lv   int       `json:"lv"`
	G    bool      `json:"g"`
	K    string    `json:"k"`
	V    int       `json:"v"`
	Kids []adpNode `json:"kids"`
}

type adShape struct {
	Tree []adpNode `json:"tree"`
}

// adpLeaves lists the leaves of a tree (kind and value id are all the decoding catalogue needs).
func adpLeaves(nodes []adpNode, out []adLeaf) []adLeaf {
	for _, n := range nodes {
		if n.G {
			out = adpLeaves(n.Kids, out)
		} else {
			out = append(out, adLeaf{K: n.K, V: n.V})
		}
	}
	return out
}

type adOpt struct {
	NoColor  bool `json:"nocolor"`
	NoSource bool `json:"nosource"`
	JSON     bool `json:"json"`
	Level    int  `json:"level"`
}

type adEvent struct {
	Op     string `json:"op"`
	L      int    `json:"L"`
	Oi     int    `json:"oi"`
	H      int    `json:"h"`
	A      int    `json:"a"`
	G      string `json:"g"`
	V      int    `json:"v"`
	Sh     int    `json:"sh"`
	Via    string `json:"via"`
	T      int    `json:"t"`
	Mi     int    `json:"mi"`
	Sev    int    `json:"sev"`
	F      string `json:"f"`
	Direct bool   `json:"direct"`
	// Nested: the outer record (V, Sh, Via, T, Mi) goes through handler H; its first attribute - the carrier Car,
	// yielding a value of kind K / id Cv - logs the inner record Q through handler H2 (0 = another handler
	// made for the same logger) whenever it is asked for its content
	H2  int       `json:"h2"`
	Car string    `json:"car"`
	K   string    `json:"k"`
	Cv  int       `json:"cv"`
	Q   *adpInner `json:"q"`
	// Register: RegisterLevel(Val, Title, options)
	Val   int      `json:"val"`
	Title string   `json:"title"`
	Treat int      `json:"treat"` // 12 = RegWithTreatedAsLevel not given
	Err   bool     `json:"err"`   // RegWithPrintToErrorDevice()
	Tags  []string `json:"tags"`  // empty, or the 6 short tags (index = length)
}

// adpInner: the record a carrier logs (as in a Handle event)
type adpInner struct {
	V   int    `json:"v"`
	Sh  int    `json:"sh"`
	Via string `json:"via"`
	T   int    `json:"t"`
	Mi  int    `json:"mi"`
}

// adpTime is one catalogue record time (spec/Adapter.tla, RECORD TIMES): the civil date and time as the
// caller expresses them (Y..Ss, N nanoseconds) in a zone Off seconds east of UTC; D (days since 0001-01-01)
// and S (second of that day) say the same to TLC and are cross-checked here.  Kind "zero" is the zero
// time.Time itself, "zero-zone" the zero time.Time moved to another zone (still IsZero()), "epoch"
// time.Unix(0, 0) in the zone.
type adpTime struct {
	Kind string `json:"kind"`
	Y    int    `json:"y"`
	Mo   int    `json:"mo"`
	Dd   int    `json:"dd"`
	Hh   int    `json:"hh"`
	Mm   int    `json:"mm"`
	Ss   int    `json:"ss"`
	N    int    `json:"n"`
	Off  int    `json:"off"`
	D    int    `json:"d"`
	S    int    `json:"s"`
}

type adScript struct {
	Seed        int         `json:"seed"`
	RecTimes    []adpTime   `json:"rec_times"`
	PkgLevel    int         `json:"pkg_level"`
	Opts        []adOpt     `json:"opts"`
	RecShapes   []adShape   `json:"rec_shapes"`
	DerivShapes []adShape   `json:"deriv_shapes"`
	HMsgs       [][]int     `json:"hmsgs"`
	BMsgs       [][]int     `json:"bmsgs"`
	Behaviours  [][]adEvent `json:"behaviours"`
	Child       bool        `json:"child"` // this process was started for one behaviour that registers levels
}

type adObsLeaf struct {
	K    string   `json:"k"`
	P    []string `json:"p"`
	M    []string `json:"m"`
	Kind string   `json:"kind"`
	V    int      `json:"v"`
}

// adpObsTime: the printed time read back - Now: inside the call window; Ok: it could be parsed; D, S, N: the
// instant in UTC (days since 0001-01-01, second of the day, nanosecond); Text: as printed
type adpObsTime struct {
	Now  bool   `json:"now"`
	Ok   bool   `json:"ok"`
	D    int    `json:"d"`
	S    int    `json:"s"`
	N    int    `json:"n"`
	Text string `json:"text"`
}

type adObsRec struct {
	W      int         `json:"w"`
	Fmt    string      `json:"fmt"`
	Sev    int         `json:"sev"`
	Msg    []int       `json:"msg"`
	T      adpObsTime  `json:"t"`
	Leaves []adObsLeaf `json:"leaves"`
}

type adRun struct {
	sc       *adScript
	logger   slog.Logger
	opt      adOpt             // the options of the behaviour's NewSlogHandler call
	handlers []logslog.Handler // index 0 unused
	bridge   *log.Logger
	cat      []adLeaf // every (kind, id) used by any shape: the decoding catalogue
	lvlNames map[string]int
	lvlTags  map[string]int
}

func init() { register("adapter", adMain) }

func adMain(args []string) int {
	if len(args) < 2 {
		fmt.Fprintln(os.Stderr, "usage: worker adapter <script.json> <trace.ndjson>")
		return 2
	}
	var sc adScript
	readJSON(args[0], &sc)
	out := &adpOut{t: newTraceOut(args[1])}
	defer out.close()
	go out.watch()
	r := &adRun{sc: &sc, lvlNames: map[string]int{}, lvlTags: map[string]int{}}
	for i := 0; i < 12; i++ {
		r.lvlNames[slog.Level(i).String()] = i
		r.lvlTags[slog.Level(i).ShortTag(3)] = i
	}
	seen := map[string]bool{}
	for _, shs := range [][]adShape{sc.RecShapes, sc.DerivShapes} {
		for _, sh := range shs {
			for _, lf := range adpLeaves(sh.Tree, nil) {
				k := fmt.Sprintf("%s/%d", lf.K, lf.V)
				if !seen[k] {
					seen[k] = true
					r.cat = append(r.cat, lf)
				}
			}
		}
	}
	// The level registry is process-wide and cannot be undone: a behaviour that registers levels
	// runs in a process of its own (a child running this same command on a one-behaviour script),
	// its trace is spliced in at its place.  "Proc" tells the monitor that a new process starts.
	kids := map[int]*adpChild{}
	if !sc.Child {
		kids = adpStartChildren(&sc, args)
	}
	saved := slog.GetFlags()
	out.emit(map[string]any{"op": "Proc"})
	for bi, beh := range sc.Behaviours {
		if k, ok := kids[bi]; ok {
			if err := <-k.done; err != nil {
				fmt.Fprintf(os.Stderr, "adapter: child process for behaviour %d failed: %v\n%s\n", bi, err, k.stderr.String())
				return 3
			}
			b, err := os.ReadFile(k.trace)
			if err != nil {
				fmt.Fprintf(os.Stderr, "adapter: child trace of behaviour %d: %v\n", bi, err)
				return 3
			}
			out.raw(b)
			os.Remove(k.trace)
			os.Remove(k.script)
			out.emit(map[string]any{"op": "Proc"}) // back in this process, which never registers anything
			continue
		}
		r.reset()
		out.emit(map[string]any{"op": "Reset"})
		for _, ev := range beh {
			out.begin(r, ev)
			rec := r.exec(ev)
			out.end(rec)
		}
	}
	slog.SetFlags(saved)
	return 0
}

// adpOut is the trace writer plus the WATCHDOG.  A call that does not come back is recorded as such (a line
// with "hang": the trace specification rejects it) and the process ends - the goroutine is lost for good.
// "Does not come back" = the call has been running for at least 30 s and during the last 30 s the whole
// process used next to no CPU time (it is blocked: a deadlock) although it could run (this watchdog itself
// was scheduled at least 10 times in those 30 s - a process that was frozen or starved has not made progress
// either, but is not blocked), or it has been running for 15 minutes whatever it does.  A slow call on a busy
// machine is neither: it uses CPU whenever it gets some.
type adpOut struct {
	mu      sync.Mutex
	t       *traceOut
	run     *adRun
	ev      adEvent
	running bool
	start   time.Time
	samples []adpSample // (time, process CPU) every 2 s while a call is running
}

type adpSample struct {
	at  time.Time
	cpu time.Duration
}

const (
	adpHangIdle    = 30 * time.Second
	adpHangIdleCPU = 500 * time.Millisecond
	adpHangHard    = 15 * time.Minute
	adpHangTicks   = 10 // of the 2-second ticks of the watchdog that fell into the last 30 s
)

// adpCPU: user + system CPU time this process has used so far
func adpCPU() time.Duration {
	var ru syscall.Rusage
	if syscall.Getrusage(syscall.RUSAGE_SELF, &ru) != nil {
		return 0
	}
	return time.Duration(ru.Utime.Nano() + ru.Stime.Nano())
}

func (o *adpOut) emit(v any)   { o.mu.Lock(); o.t.emit(v); o.mu.Unlock() }
func (o *adpOut) raw(b []byte) { o.mu.Lock(); o.t.bw.Write(b); o.mu.Unlock() }
func (o *adpOut) close()       { o.mu.Lock(); o.t.close(); o.mu.Unlock() }

func (o *adpOut) begin(r *adRun, ev adEvent) {
	o.mu.Lock()
	o.run, o.ev, o.running, o.start = r, ev, true, time.Now()
	o.samples = append(o.samples[:0], adpSample{o.start, adpCPU()})
	o.mu.Unlock()
}

func (o *adpOut) end(rec map[string]any) {
	o.mu.Lock()
	o.running = false
	o.t.emit(rec)
	o.mu.Unlock()
}

func (o *adpOut) watch() {
	tick := time.NewTicker(2 * time.Second)
	defer tick.Stop()
	for range tick.C {
		o.mu.Lock()
		if o.running {
			now, cpu := time.Now(), adpCPU()
			o.samples = append(o.samples, adpSample{now, cpu})
			wall := now.Sub(o.start)
			idle, used := false, time.Duration(0)
			// the youngest sample that is at least 30 s old: how much CPU has the process used since?
			for i := len(o.samples) - 1; i >= 0; i-- {
				if now.Sub(o.samples[i].at) >= adpHangIdle {
					used = cpu - o.samples[i].cpu
					idle = used < adpHangIdleCPU && len(o.samples)-1-i >= adpHangTicks
					o.samples = o.samples[i:]
					break
				}
			}
			if idle || wall >= adpHangHard {
				rec := adpArgs(o.ev)
				rec["hang"] = true
				rec["wall_s"] = int(wall.Seconds())
				rec["cpu_ms_last_30s"] = int(used.Milliseconds())
				rec["recs"] = o.run.takeRecs(time.Time{}, time.Time{}) // what reached a writer before it stopped
				o.t.emit(rec)
				o.t.close()
				os.Exit(0)
			}
		}
		o.mu.Unlock()
	}
}

// adpArgs: the line of a call, so far: the call and its arguments
func adpArgs(ev adEvent) map[string]any {
	rec := map[string]any{"op": ev.Op}
	switch ev.Op {
	case "NewHandler":
		rec["L"], rec["oi"] = ev.L, ev.Oi
	case "WithAttrs":
		rec["h"], rec["a"] = ev.H, ev.A
	case "WithGroup":
		rec["h"], rec["g"] = ev.H, ev.G
	case "Enabled":
		rec["h"], rec["v"] = ev.H, ev.V
	case "Handle":
		rec["h"], rec["v"], rec["sh"], rec["via"], rec["t"], rec["mi"] = ev.H, ev.V, ev.Sh, ev.Via, ev.T, ev.Mi
	case "Nested":
		rec["h"], rec["v"], rec["sh"], rec["via"], rec["t"], rec["mi"] = ev.H, ev.V, ev.Sh, ev.Via, ev.T, ev.Mi
		rec["h2"], rec["car"], rec["k"], rec["cv"], rec["q"] = ev.H2, ev.Car, ev.K, ev.Cv, ev.Q
	case "EntryLog":
		rec["v"], rec["mi"] = ev.V, ev.Mi
	case "Register":
		rec["val"], rec["treat"], rec["err"], rec["title"] = ev.Val, ev.Treat, ev.Err, ev.Title
	case "NewBridge":
		rec["L"], rec["sev"], rec["f"] = ev.L, ev.Sev, ev.F
	case "Bridge":
		rec["mi"], rec["direct"] = ev.Mi, ev.Direct
	}
	return rec
}

type adpChild struct {
	script, trace string
	stderr        strings.Builder
	done          chan error
}

func adpRegisters(beh []adEvent) bool {
	for _, ev := range beh {
		if ev.Op == "Register" {
			return true
		}
	}
	return false
}

// adpStartChildren launches (at most 8 at a time) one child process per behaviour that registers levels.
func adpStartChildren(sc *adScript, args []string) map[int]*adpChild {
	kids := map[int]*adpChild{}
	sem := make(chan struct{}, 8)
	for bi, beh := range sc.Behaviours {
		if !adpRegisters(beh) {
			continue
		}
		k := &adpChild{script: fmt.Sprintf("%s.child%d.json", args[1], bi), trace: fmt.Sprintf("%s.child%d.ndjson", args[1], bi), done: make(chan error, 1)}
		kids[bi] = k
		one := *sc
		one.Behaviours = [][]adEvent{beh}
		one.Child = true
		b, err := json.Marshal(&one)
		if err != nil {
			panic(err)
		}
		if err := os.WriteFile(k.script, b, 0o644); err != nil {
			panic(err)
		}
		go func(k *adpChild) {
			sem <- struct{}{}
			defer func() { <-sem }()
			// same binary name and the same trailing -test.* arguments: the child is in the same process mode
			cmd := exec.Command(os.Args[0], append([]string{"adapter", k.script, k.trace}, args[2:]...)...)
			cmd.Stderr = &k.stderr
			k.done <- cmd.Run()
		}(k)
	}
	return kids
}

func (r *adRun) reset() {
	slog.SetFlags(slog.LstdFlags | slog.LnoInterrupt)
	slog.SetDefault(slog.New())
	slog.SetLevel(slog.Level(r.sc.PkgLevel))
	is.SetDebugMode(false)
	is.SetTraceMode(false)
	redirectDefaults()
	r.logger = nil
	r.handlers = []logslog.Handler{nil}
	r.bridge = nil
	sink.reset()
}

// ---------------------------------------------------------------- concrete values

type adAnyT struct{ B string }

// LogValuers: adpLV (value receiver) and *adpLVp (pointer receiver) hold the log/slog value they
// resolve to after n rounds; a chain alternates between the two types.  The value may be a scalar or
// a group whose members are LogValuers again - Value.Resolve() does not look into a group.
type adpLV struct {
	v logslog.Value
	n int
}

func (l adpLV) LogValue() logslog.Value {
	if l.n > 1 {
		return logslog.AnyValue(&adpLVp{l.v, l.n - 1})
	}
	return l.v
}

type adpLVp struct {
	v logslog.Value
	n int
}

func (l *adpLVp) LogValue() logslog.Value {
	if l.n > 1 {
		return logslog.AnyValue(adpLV{l.v, l.n - 1})
	}
	return l.v
}

func adpWrap(v logslog.Value, rounds int, ptr bool) logslog.Value {
	if rounds <= 0 {
		return v
	}
	if ptr {
		return logslog.AnyValue(&adpLVp{v, rounds})
	}
	return logslog.AnyValue(adpLV{v, rounds})
}

func (r *adRun) off() int { return r.sc.Seed * 1000 }

func (r *adRun) vInt(id int) int64 {
	n := int64(id*7 + r.off())
	if id%2 == 1 {
		n = -n
	}
	return n
}

func (r *adRun) vBig(id int) int64 {
	if id%2 == 1 {
		return -(int64(1) << 62) - int64(id+r.off())
	}
	return (int64(1) << 40) + int64(id+r.off())
}
func (r *adRun) vUint(id int) uint64 { return (uint64(1) << 63) + uint64(id+r.off()) }
func (r *adRun) vFloat(id int) float64 {
	f := float64(id+r.off()) + 0.1 // not representable in float32
	if id%2 == 1 {
		f = -f
	}
	return f
}
func (r *adRun) vStr(id int) string { return fmt.Sprintf("s%d v", id+r.off()) }
func (r *adRun) vDur(id int) time.Duration {
	return time.Duration(id+r.off())*1500*time.Millisecond + time.Duration(id)
}
func (r *adRun) vTime(id int) time.Time {
	return time.Date(1990+id%30, time.Month(1+id%12), 1+id%28, id%24, 7, 9, 100000000+id+r.off(), time.FixedZone("z", (id%5-2)*3600))
}
func (r *adRun) vAny(id int) string { return fmt.Sprintf("any%dx", id+r.off()) }
func (r *adRun) vErr(id int) string { return fmt.Sprintf("err%dx", id+r.off()) }

// record times: the catalogue entry id (1-based) as a time.Time, made the way its kind says
func (r *adRun) recTime(id int) time.Time {
	tm := r.sc.RecTimes[id-1]
	zone := time.UTC
	if tm.Off != 0 {
		zone = time.FixedZone(fmt.Sprintf("q%d", tm.Off), tm.Off)
	}
	var t time.Time
	switch tm.Kind {
	case "zero":
		t = time.Time{}
	case "zero-zone":
		t = time.Time{}.In(zone)
	case "epoch":
		t = time.Unix(0, 0).In(zone)
	default:
		t = time.Date(tm.Y, time.Month(tm.Mo), tm.Dd, tm.Hh, tm.Mm, tm.Ss, tm.N, zone)
	}
	// the entry's [d, s, n, off] - what TLC computes the expected instant from - must describe this very time
	_, off := t.Zone()
	if off != tm.Off || t.Nanosecond() != tm.N || t.Unix()+adpSecsToUnix != int64(tm.D)*86400+int64(tm.S)-int64(tm.Off) ||
		(strings.HasPrefix(tm.Kind, "zero") != t.IsZero()) {
		fmt.Fprintf(os.Stderr, "adapter: record time %d (%+v) is not what its catalogue entry says: %s\n", id, tm, t.Format(time.RFC3339Nano))
		os.Exit(3)
	}
	return t
}

// seconds from 0001-01-01T00:00:00Z to the Unix epoch
const adpSecsToUnix = 62135596800

// adpReadTime reads a printed time back: the instant in UTC, and whether it lies in the call window
func adpReadTime(ts string, t0, t1 time.Time) adpObsTime {
	o := adpObsTime{Text: ts}
	tm, err := time.Parse(time.RFC3339Nano, ts)
	if err != nil {
		return o
	}
	secs := tm.Unix() + adpSecsToUnix
	if secs < 0 {
		return o
	}
	o.Ok, o.D, o.S, o.N = true, int(secs/86400), int(secs%86400), tm.Nanosecond()
	o.Now = !t0.IsZero() && !tm.Before(t0.Truncate(time.Microsecond)) && !tm.After(t1)
	return o
}

func (r *adRun) leafAttr(key string, lf adLeaf) logslog.Attr {
	switch lf.K {
	case "int":
		return logslog.Int64(key, r.vInt(lf.V))
	case "big":
		return logslog.Int64(key, r.vBig(lf.V))
	case "uint":
		return logslog.Uint64(key, r.vUint(lf.V))
	case "float":
		return logslog.Float64(key, r.vFloat(lf.V))
	case "bool":
		return logslog.Bool(key, lf.V == 1)
	case "str":
		return logslog.String(key, r.vStr(lf.V))
	case "dur":
		return logslog.Duration(key, r.vDur(lf.V))
	case "time":
		return logslog.Time(key, r.vTime(lf.V))
	case "any":
		return logslog.Any(key, adAnyT{r.vAny(lf.V)})
	case "err":
		return logslog.Any(key, errors.New(r.vErr(lf.V)))
	}
	panic("unknown kind " + lf.K)
}

// buildAttrs turns a tree into log/slog attributes: groups stay nested, equal keys stay in the
// order given, and every node with Lv > 0 is handed over as a LogValuer (asked Lv times) - a leaf, a
// group, a member of a literal group or of a group another LogValuer resolves to, at any depth.
func (r *adRun) buildAttrs(nodes []adpNode, depth int) []logslog.Attr {
	res := make([]logslog.Attr, 0, len(nodes))
	for i, n := range nodes {
		var v logslog.Value
		if n.G {
			v = logslog.GroupValue(r.buildAttrs(n.Kids, depth+1)...)
		} else {
			v = r.leafAttr(n.Key, adLeaf{K: n.K, V: n.V}).Value
		}
		res = append(res, logslog.Attr{Key: n.Key, Value: adpWrap(v, n.Lv, (i+depth+n.Lv)%2 == 1)})
	}
	return res
}

func (r *adRun) shapeAttrs(sh adShape) []logslog.Attr {
	attrs := r.buildAttrs(sh.Tree, 0)
	// an optional-attribute helper returning the empty Attr (which a handler ignores) in the middle of the
	// list: nothing is added by it and nothing after it is lost
	if len(attrs) >= 2 && len(adpLeaves(sh.Tree, nil))%3 == 1 {
		attrs = append(attrs[:1], append([]logslog.Attr{{}}, attrs[1:]...)...)
	}
	return attrs
}

func adBytes(m []int) []byte {
	b := make([]byte, len(m))
	for i, c := range m {
		b[i] = byte(c)
	}
	return b
}

func adInts(b []byte) []int {
	m := make([]int, len(b))
	for i, c := range b {
		m[i] = int(c)
	}
	return m
}

// ---------------------------------------------------------------- execution

func (r *adRun) newLogger(level int) slog.Logger {
	return slog.New().SetWriter(getWriter(1)).SetErrorWriter(getWriter(2)).SetLevel(slog.Level(level)).
		SetTimeFormat(time.RFC3339Nano).SetUTCMode(true)
}

func (r *adRun) fmtObs() string {
	g, ok := r.logger.(interface {
		JSONMode() bool
		ColorMode() bool
	})
	if !ok {
		return "?"
	}
	if g.JSONMode() {
		return "json"
	}
	if g.ColorMode() {
		return "color"
	}
	return "logfmt"
}

type adCtxKey struct{}

func (r *adRun) exec(ev adEvent) (rec map[string]any) {
	rec = adpArgs(ev)
	defer func() {
		if p := recover(); p != nil {
			rec["panic"] = fmt.Sprint(p)
			if _, ok := rec["recs"]; !ok {
				rec["recs"] = r.takeRecs(time.Time{}, time.Time{})
			}
		}
	}()
	// the context a record is logged with is not part of what decides its fate: live, carrying values,
	// already cancelled, past its deadline - chosen as a function of the event, so that a replay repeats it
	ctx := context.Background()
	switch kind := (ev.Mi + ev.Sh + ev.V + ev.H + 400) % 4; kind {
	case 1:
		ctx = context.WithValue(ctx, adCtxKey{}, "v")
		rec["ctx"] = "value"
	case 2:
		c2, cancel := context.WithCancel(ctx)
		cancel()
		ctx = c2
		rec["ctx"] = "cancelled"
	case 3:
		c2, cancel := context.WithDeadline(ctx, time.Unix(1, 0))
		defer cancel()
		ctx = c2
		rec["ctx"] = "expired"
	default:
		rec["ctx"] = "background"
	}
	switch ev.Op {
	case "NewHandler":
		rec["L"], rec["oi"] = ev.L, ev.Oi
		o := r.sc.Opts[ev.Oi-1]
		r.opt = o
		r.logger = r.newLogger(ev.L)
		h := slog.NewSlogHandler(r.logger, &slog.HandlerOptions{NoColor: o.NoColor, NoSource: o.NoSource, JSON: o.JSON, Level: slog.Level(o.Level)})
		r.handlers = append(r.handlers, h)
		rec["lvl"] = int(r.logger.Level())
		rec["fmtobs"] = r.fmtObs()
		rec["caller"] = slog.IsAnyBitsSet(slog.Lcaller)
		rec["dbg"] = is.DebugMode()
	case "WithAttrs":
		rec["h"], rec["a"] = ev.H, ev.A
		r.handlers = append(r.handlers, r.handlers[ev.H].WithAttrs(r.shapeAttrs(r.sc.DerivShapes[ev.A-1])))
	case "WithGroup":
		rec["h"], rec["g"] = ev.H, ev.G
		r.handlers = append(r.handlers, r.handlers[ev.H].WithGroup(ev.G))
	case "Enabled":
		rec["h"], rec["v"] = ev.H, ev.V
		rec["out"] = r.handlers[ev.H].Enabled(ctx, logslog.Level(ev.V))
	case "Handle":
		rec["h"], rec["v"], rec["sh"], rec["via"], rec["t"], rec["mi"] = ev.H, ev.V, ev.Sh, ev.Via, ev.T, ev.Mi
		h := r.handlers[ev.H]
		lvl := logslog.Level(ev.V)
		msg := string(adBytes(r.sc.HMsgs[ev.Mi-1]))
		attrs := r.shapeAttrs(r.sc.RecShapes[ev.Sh-1])
		en := h.Enabled(ctx, lvl)
		rec["en"] = en
		sink.reset()
		t0 := time.Now()
		if ev.Via == "logger" {
			lg := logslog.New(h)
			if ev.Sh%2 == 0 {
				lg.LogAttrs(ctx, lvl, msg, attrs...)
			} else {
				args := make([]any, len(attrs))
				for i, a := range attrs {
					args[i] = a
				}
				lg.Log(ctx, lvl, msg, args...)
			}
		} else if en { // what log/slog.Logger does, with a record that carries its own time
			rc := logslog.NewRecord(r.recTime(ev.T), lvl, msg, 0)
			rc.AddAttrs(attrs...)
			if err := h.Handle(ctx, rc); err != nil {
				rec["err"] = err.Error()
			}
		}
		rec["recs"] = r.takeRecs(t0, time.Now())
	case "Nested":
		h := r.handlers[ev.H]
		target := logslog.Handler(nil)
		if ev.H2 == 0 { // another handler on the same logger: NewSlogHandler once more, same options
			o := r.opt
			target = slog.NewSlogHandler(r.logger, &slog.HandlerOptions{NoColor: o.NoColor, NoSource: o.NoSource, JSON: o.JSON, Level: slog.Level(o.Level)})
			rec["lvl"] = int(r.logger.Level())
			rec["fmtobs"] = r.fmtObs()
			rec["caller"] = slog.IsAnyBitsSet(slog.Lcaller)
			rec["dbg"] = is.DebugMode()
		} else {
			target = r.handlers[ev.H2]
		}
		lvl := logslog.Level(ev.V)
		msg := string(adBytes(r.sc.HMsgs[ev.Mi-1]))
		r.know(adLeaf{K: ev.K, V: ev.Cv})
		nest := &adpNest{r: r, target: target, ctx: ctx, q: *ev.Q}
		attrs := append([]logslog.Attr{r.carrier(ev, nest)}, r.shapeAttrs(r.sc.RecShapes[ev.Sh-1])...)
		en := h.Enabled(ctx, lvl)
		rec["en"] = en
		rec["en2"] = target.Enabled(ctx, logslog.Level(ev.Q.V))
		sink.reset()
		t0 := time.Now()
		if ev.Via == "logger" {
			logslog.New(h).LogAttrs(ctx, lvl, msg, attrs...)
		} else if en {
			rc := logslog.NewRecord(r.recTime(ev.T), lvl, msg, 0)
			rc.AddAttrs(attrs...)
			if err := h.Handle(ctx, rc); err != nil {
				rec["err"] = err.Error()
			}
		}
		rec["calls"] = nest.calls
		rec["recs"] = r.takeRecs(t0, time.Now())
	case "EntryLog":
		rec["v"], rec["mi"] = ev.V, ev.Mi
		sink.reset()
		t0 := time.Now()
		r.logger.Log(ctx, logslog.Level(ev.V), string(adBytes(r.sc.HMsgs[ev.Mi-1])))
		rec["recs"] = r.takeRecs(t0, time.Now())
	case "Register":
		rec["val"], rec["treat"], rec["err"], rec["title"] = ev.Val, ev.Treat, ev.Err, ev.Title
		var opts []slog.RegOpt
		tag3 := ev.Title
		if len(tag3) > 3 {
			tag3 = tag3[:3]
		}
		if len(ev.Tags) == 6 {
			var tags [6]string
			copy(tags[:], ev.Tags)
			opts = append(opts, slog.RegWithShortTags(tags))
			tag3 = ev.Tags[3]
		}
		if ev.Treat != 12 {
			opts = append(opts, slog.RegWithTreatedAsLevel(slog.Level(ev.Treat)))
		}
		if ev.Err {
			opts = append(opts, slog.RegWithPrintToErrorDevice())
		}
		if err := slog.RegisterLevel(slog.Level(ev.Val), ev.Title, opts...); err != nil {
			// not this property's business (C17): the behaviour cannot be executed as written
			fmt.Fprintf(os.Stderr, "adapter: RegisterLevel(%d, %q) refused: %v\n", ev.Val, ev.Title, err)
			os.Exit(3)
		}
		// how the new level is printed, known from the registration itself (not asked from the library)
		r.lvlNames[ev.Title] = ev.Val
		r.lvlTags[tag3] = ev.Val
	case "NewBridge":
		rec["L"], rec["sev"], rec["f"] = ev.L, ev.Sev, ev.F
		r.logger = r.newLogger(ev.L)
		switch ev.F {
		case "json":
			r.logger.SetColorMode(false)
			r.logger.SetJSONMode(true)
		case "logfmt":
			r.logger.SetJSONMode(false)
			r.logger.SetColorMode(false)
		default:
			r.logger.SetJSONMode(false)
			r.logger.SetColorMode(true)
		}
		r.bridge = slog.NewLogLogger(r.logger, slog.Level(ev.Sev))
	case "Bridge":
		rec["mi"], rec["direct"] = ev.Mi, ev.Direct
		b := adBytes(r.sc.BMsgs[ev.Mi-1])
		sink.reset()
		t0 := time.Now()
		n, failed := 0, false
		if ev.Direct {
			var err error
			n, err = r.bridge.Writer().Write(b)
			failed = err != nil
		} else {
			r.bridge.Print(string(b))
		}
		rec["n"], rec["err"] = n, failed
		rec["recs"] = r.takeRecs(t0, time.Now())
	default:
		panic("unknown op " + ev.Op)
	}
	return rec
}

// adpNest is one nested call: every time the carrier is asked for its content it logs the inner record q
// through the target handler first - while the outer record is being handled.
type adpNest struct {
	r      *adRun
	target logslog.Handler
	ctx    context.Context
	q      adpInner
	calls  int
}

func (n *adpNest) fire() {
	n.calls++
	if n.calls > 20 { // (never seen) asked over and over: enough inner records to tell
		return
	}
	lvl := logslog.Level(n.q.V)
	msg := string(adBytes(n.r.sc.HMsgs[n.q.Mi-1]))
	attrs := n.r.shapeAttrs(n.r.sc.RecShapes[n.q.Sh-1])
	if n.q.Via == "logger" {
		logslog.New(n.target).LogAttrs(n.ctx, lvl, msg, attrs...)
	} else if n.target.Enabled(n.ctx, lvl) {
		rc := logslog.NewRecord(n.r.recTime(n.q.T), lvl, msg, 0)
		rc.AddAttrs(attrs...)
		_ = n.target.Handle(n.ctx, rc)
	}
}

type adpCarValuer struct {
	n *adpNest
	v logslog.Value
}

func (c adpCarValuer) LogValue() logslog.Value { c.n.fire(); return c.v }

// B is exported: however the underlying logger prints a value of kind Any, the text is in it
type adpCarStringer struct {
	B string
	n *adpNest
}

func (c adpCarStringer) String() string { c.n.fire(); return c.B }

type adpCarError struct {
	B string
	n *adpNest
}

func (c *adpCarError) Error() string { c.n.fire(); return c.B }

// carrier builds the first attribute of a nested call's outer record (Adapter!CarrierLeaves).
func (r *adRun) carrier(ev adEvent, n *adpNest) logslog.Attr {
	switch ev.Car {
	case "valuer":
		return logslog.Any("nq", adpCarValuer{n, r.leafAttr("nq", adLeaf{K: ev.K, V: ev.Cv}).Value})
	case "valuer-group":
		return logslog.Any("zzq", adpCarValuer{n, logslog.GroupValue(r.leafAttr("id", adLeaf{K: ev.K, V: ev.Cv}))})
	case "stringer":
		return logslog.Any("nq", adpCarStringer{r.vAny(ev.Cv), n})
	case "error":
		return logslog.Any("nq", &adpCarError{r.vErr(ev.Cv), n})
	}
	panic("unknown carrier " + ev.Car)
}

func (r *adRun) takeRecs(t0, t1 time.Time) []adObsRec {
	res := []adObsRec{}
	for _, e := range sink.take() {
		if e.K != "w" {
			continue
		}
		res = append(res, r.decode(e.W, e.payload, t0, t1))
	}
	return res
}

// ---------------------------------------------------------------- decoding

type adTok struct {
	key    string   // "" = no key printed
	path   []string // enclosing groups known from nesting
	marks  []string // bare group markers printed before the token
	text   string   // decoded text of the value
	quoted bool
}

func (r *adRun) decode(w int, p []byte, t0, t1 time.Time) adObsRec {
	o := adObsRec{W: w, Sev: -1, Msg: []int{}, Leaves: []adObsLeaf{}}
	s := string(p)
	var toks []adTok
	var ts, lvl string
	switch {
	case strings.HasPrefix(s, "{"):
		o.Fmt = "json"
		all := adScanJSON(s)
		for _, t := range all {
			if len(t.path) == 0 {
				switch t.key {
				case "time":
					ts = t.text
					continue
				case "level":
					lvl = t.text
					continue
				case "msg":
					o.Msg = adInts([]byte(t.text))
					continue
				case "logger", "caller":
					continue
				}
			}
			if len(t.path) > 0 && t.path[0] == "caller" {
				continue
			}
			toks = append(toks, t)
		}
		if v, ok := r.lvlNames[lvl]; ok {
			o.Sev = v
		}
	case strings.Contains(s, "\x1b["):
		o.Fmt = "color"
		ts, lvl, toks = r.scanColor(s, &o)
		if v, ok := r.lvlTags[lvl]; ok {
			o.Sev = v
		}
	default:
		o.Fmt = "logfmt"
		line := s
		if i := strings.IndexByte(line, '\n'); i >= 0 {
			line = line[:i]
		}
		for _, t := range adScanLogfmt(line) {
			switch t.key {
			case "time":
				ts = t.text
				continue
			case "level":
				lvl = t.text
				continue
			case "msg":
				o.Msg = adInts([]byte(t.text))
				continue
			case "logger":
				continue
			}
			if len(t.path) > 0 && t.path[0] == "caller" {
				continue
			}
			toks = append(toks, t)
		}
		if v, ok := r.lvlNames[lvl]; ok {
			o.Sev = v
		}
	}
	// time: the instant printed, and whether it lies inside the call window
	o.T = adpReadTime(ts, t0, t1)
	for _, t := range toks {
		kind, v := r.identify(t)
		p := t.path
		if p == nil {
			p = []string{}
		}
		m := t.marks
		if m == nil {
			m = []string{}
		}
		o.Leaves = append(o.Leaves, adObsLeaf{K: t.key, P: p, M: m, Kind: kind, V: v})
	}
	return o
}

// know adds a value to the decoding catalogue.
func (r *adRun) know(lf adLeaf) {
	for _, c := range r.cat {
		if c.K == lf.K && c.V == lf.V {
			return
		}
	}
	r.cat = append(r.cat, adLeaf{K: lf.K, V: lf.V})
}

// identify says which catalogue value a printed token denotes.
func (r *adRun) identify(t adTok) (string, int) {
	for _, c := range r.cat {
		ok := false
		switch c.K {
		case "int":
			ok = t.text == strconv.FormatInt(r.vInt(c.V), 10)
		case "big":
			ok = t.text == strconv.FormatInt(r.vBig(c.V), 10)
		case "uint":
			ok = t.text == strconv.FormatUint(r.vUint(c.V), 10)
		case "float":
			if f, err := strconv.ParseFloat(t.text, 64); err == nil {
				ok = f == r.vFloat(c.V)
			}
		case "bool":
			ok = !t.quoted && ((c.V == 1 && t.text == "true") || (c.V == 0 && t.text == "false"))
		case "str":
			ok = t.text == r.vStr(c.V)
		case "dur":
			if d, err := time.ParseDuration(t.text); err == nil {
				ok = d == r.vDur(c.V)
			} else {
				ok = t.text == strconv.FormatInt(int64(r.vDur(c.V)), 10)
			}
		case "time":
			if tm, err := time.Parse(time.RFC3339Nano, t.text); err == nil {
				ok = tm.Equal(r.vTime(c.V))
			}
		case "any":
			ok = strings.Contains(t.text, r.vAny(c.V))
		case "err":
			ok = strings.Contains(t.text, r.vErr(c.V))
		}
		if ok {
			return c.K, c.V
		}
	}
	return "", -1
}

func adUnquote(q string) string {
	var s string
	if err := json.Unmarshal([]byte(q), &s); err == nil {
		return s
	}
	if s, err := strconv.Unquote(q); err == nil {
		return s
	}
	if len(q) >= 2 {
		return q[1 : len(q)-1]
	}
	return q
}

// adQuotedEnd returns the index just after the closing quote of the string starting at s[i]=='"'.
func adQuotedEnd(s string, i int) int {
	j := i + 1
	for j < len(s) {
		if s[j] == '\\' {
			j += 2
			continue
		}
		if s[j] == '"' {
			return j + 1
		}
		j++
	}
	return len(s)
}

func adSplitDotted(key string) (path []string, last string) {
	parts := strings.Split(key, ".")
	return parts[:len(parts)-1], parts[len(parts)-1]
}

// adScanJSON reads a JSON object leniently: besides valid JSON it accepts a key that is followed
// by no value at all (`"g":,` - how the library prints a group today); such a key is recorded as a
// group marker for the tokens after it.  Nested objects yield their members (with path) and one
// token for the object itself (raw text), so object-valued attributes can be recognised.
func adScanJSON(s string) []adTok {
	var toks []adTok
	var marks []string
	var obj func(i int, path []string) int
	skip := func(i int) int {
		for i < len(s) && (s[i] == ' ' || s[i] == '\n' || s[i] == '\t' || s[i] == '\r') {
			i++
		}
		return i
	}
	obj = func(i int, path []string) int { // s[i] == '{'
		i++
		for i < len(s) {
			i = skip(i)
			if i >= len(s) {
				return i
			}
			if s[i] == '}' {
				return i + 1
			}
			if s[i] == ',' {
				i++
				continue
			}
			if s[i] != '"' {
				// not a key: give up on this object
				for i < len(s) && s[i] != '}' {
					i++
				}
				return i + 1
			}
			ke := adQuotedEnd(s, i)
			key := adUnquote(s[i:ke])
			i = skip(ke)
			if i < len(s) && s[i] == ':' {
				i = skip(i + 1)
			}
			kp, kl := adSplitDotted(key)
			tp := append(append([]string{}, path...), kp...)
			mk := append([]string{}, marks...)
			switch {
			case i >= len(s) || s[i] == ',' || s[i] == '}':
				marks = append(marks, key)
			case s[i] == '"':
				e := adQuotedEnd(s, i)
				toks = append(toks, adTok{key: kl, path: tp, marks: mk, text: adUnquote(s[i:e]), quoted: true})
				i = e
			case s[i] == '{':
				e := obj(i, append(append([]string{}, tp...), kl))
				if e > len(s) {
					e = len(s)
				}
				toks = append(toks, adTok{key: kl, path: tp, marks: mk, text: s[i:e]})
				i = e
			case s[i] == '[':
				depth, e := 0, i
				for e < len(s) {
					if s[e] == '"' {
						e = adQuotedEnd(s, e)
						continue
					}
					if s[e] == '[' {
						depth++
					} else if s[e] == ']' {
						depth--
						if depth == 0 {
							e++
							break
						}
					}
					e++
				}
				toks = append(toks, adTok{key: kl, path: tp, marks: mk, text: s[i:e]})
				i = e
			default:
				e := i
				for e < len(s) && s[e] != ',' && s[e] != '}' {
					e++
				}
				toks = append(toks, adTok{key: kl, path: tp, marks: mk, text: strings.TrimSpace(s[i:e])})
				i = e
			}
		}
		return i
	}
	if i := strings.IndexByte(s, '{'); i >= 0 {
		obj(i, nil)
	}
	return toks
}

// adScanLogfmt splits one logfmt line into key=value / bare-value tokens.
func adScanLogfmt(line string) []adTok {
	var toks []adTok
	i := 0
	for i < len(line) {
		if line[i] == ' ' {
			i++
			continue
		}
		if line[i] == '"' { // a bare quoted value (its key was not printed)
			e := adQuotedEnd(line, i)
			toks = append(toks, adTok{text: adUnquote(line[i:e]), quoted: true})
			i = e
			continue
		}
		j := i
		for j < len(line) && line[j] != ' ' && line[j] != '=' && line[j] != '"' {
			j++
		}
		if j < len(line) && line[j] == '=' {
			key := line[i:j]
			j++
			kp, kl := adSplitDotted(key)
			if j < len(line) && line[j] == '"' {
				e := adQuotedEnd(line, j)
				toks = append(toks, adTok{key: kl, path: kp, text: adUnquote(line[j:e]), quoted: true})
				i = e
				continue
			}
			e := j
			for e < len(line) && line[e] != ' ' {
				e++
			}
			toks = append(toks, adTok{key: kl, path: kp, text: line[j:e]})
			i = e
			continue
		}
		for j < len(line) && line[j] != ' ' {
			j++
		}
		toks = append(toks, adTok{text: line[i:j]})
		i = j
	}
	return toks
}

func adStripSGR(s string) string {
	var b strings.Builder
	for i := 0; i < len(s); {
		if s[i] == 0x1b && i+1 < len(s) && s[i+1] == '[' {
			j := i + 2
			for j < len(s) && !(s[j] >= 0x40 && s[j] <= 0x7e) {
				j++
			}
			i = j + 1
			continue
		}
		b.WriteByte(s[i])
		i++
	}
	return b.String()
}

// scanColor reads a colored-console record:  <time>| [logger ]<[TAG]> <message, padded> <attrs> [caller]
// The message's first line is the SGR-delimited run after the tag.
func (r *adRun) scanColor(s string, o *adObsRec) (ts, tag string, toks []adTok) {
	first := s
	if i := strings.IndexByte(first, '\n'); i >= 0 {
		first = first[:i]
	}
	plain := adStripSGR(first)
	if i := strings.Index(plain, "| "); i >= 0 {
		ts = plain[:i]
	}
	// the tag: first [...] after the time
	bar := strings.Index(first, "| ")
	if bar < 0 {
		return
	}
	lb := strings.IndexByte(first[bar:], '[')
	for lb >= 0 { // skip the '[' of escape sequences
		if bar+lb > 0 && first[bar+lb-1] == 0x1b {
			n := strings.IndexByte(first[bar+lb+1:], '[')
			if n < 0 {
				lb = -1
			} else {
				lb = lb + 1 + n
			}
			continue
		}
		break
	}
	if lb < 0 {
		return
	}
	lb += bar
	rb := strings.IndexByte(first[lb:], ']')
	if rb < 0 {
		return
	}
	rb += lb
	tag = first[lb+1 : rb]
	// message: skip escape sequences and the single separating blank, read up to the next ESC
	i := rb + 1
	skipSGR := func(stopAtReset bool) {
		for i+1 < len(first) && first[i] == 0x1b && first[i+1] == '[' {
			if stopAtReset && strings.HasPrefix(first[i:], "\x1b[0m") {
				return
			}
			j := i + 2
			for j < len(first) && !(first[j] >= 0x40 && first[j] <= 0x7e) {
				j++
			}
			i = j + 1
		}
	}
	skipSGR(false)
	if i < len(first) && first[i] == ' ' {
		i++
	}
	skipSGR(true) // an empty message is followed by the reset at once
	e := i
	for e < len(first) && first[e] != 0x1b {
		e++
	}
	o.Msg = adInts([]byte(strings.TrimRight(first[i:e], " ")))
	toks = adScanLogfmt(adStripSGR(first[e:]))
	return
}
