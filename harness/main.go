package main

import (
	"fmt"
	"os"
)

// family registry: each fam_*.go registers its sub-commands in init().
var commands = map[string]func(args []string) int{}

func register(name string, fn func(args []string) int) { commands[name] = fn }

func main() {
	if len(os.Args) < 2 {
		fmt.Fprintln(diag, "usage: worker <command> [args...]")
		os.Exit(2)
	}
	// A "-test.x" style argument may follow (used to put the library in testing mode);
	// it is ignored here.
	fn, ok := commands[os.Args[1]]
	if !ok {
		fmt.Fprintf(os.Stderr, "worker: unknown command %q\n", os.Args[1])
		os.Exit(2)
	}
	os.Exit(fn(os.Args[2:]))
}
