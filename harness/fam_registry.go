package main

import (
	"bufio"
	"bytes"
	"context"
	"encoding/json"
	"fmt"
	"os"
	"os/exec"
	"regexp"
	"runtime"
	"sort"
	"strings"
	"time"
	"unicode/utf8"

	"github.com/hedzr/is"
	"github.com/hedzr/is/term/color"
	"github.com/hedzr/logg/slog"
)

// Family "registry" (property C17): RegisterLevel histories and the public level API.
//
//	worker registry <script.json> <outdir>      parent: runs every behaviour of the script in a
//	                                            fresh child process (the registry cannot be
//	                                            un-registered), interns the observations and writes
//	                                            the depth-first trace tree for spec/RegistryTrace.tla
//	worker registry-child                       child: reads one job from stdin, executes the
//	                                            calls, prints one observation line per step
//
// The worker only executes calls and projects what the public API returns; what is right or
// wrong is decided by TLC from the specification.

const (
	regERR   = -9999 // the call returned an error
	regPANIC = -9998 // the call panicked
)

type regCall struct {
	V     int      `json:"v"`
	T     []int    `json:"t"`     // title, code points
	Tags  [][]int  `json:"tags"`  // empty (no RegWithShortTags) or 6 names (index = length)
	Treat int      `json:"treat"` // -1: no RegWithTreatedAsLevel
	Err   [][]bool `json:"err"`   // one entry per RegWithPrintToErrorDevice option, in order
	Clr   int      `json:"clr"`   // 0 none, 1 RegWithColor(fg), 2 RegWithColor(fg, bg)
}

type regBehaviour struct {
	Calls   []regCall `json:"calls"`
	Observe []int     `json:"observe"` // values observed besides AllLevels()
	Probes  int       `json:"probes"`  // index into probe_sets
}

type regScript struct {
	GateLevels []int           `json:"gate_levels"`
	ProbeSets  [][][]int       `json:"probe_sets"` // strings given to ParseLevel after every step
	Behaviours []regBehaviour  `json:"behaviours"`
	Par        int             `json:"par"`
}

type regJob struct {
	GateLevels []int     `json:"gate_levels"`
	Observe    []int     `json:"observe"`
	Probes     [][]int   `json:"probes"`
	Calls      []regCall `json:"calls"`
}

type regGate struct {
	L   int  `json:"L"`
	En  bool `json:"en"`
	Out int  `json:"out"` // 1 emitted, 0 nothing emitted, -1 not probed (built-in severities)
}

type regLv struct {
	L     int       `json:"l"`
	Str   []int     `json:"str"`
	Pstr  int       `json:"pstr"`
	Txtok bool      `json:"txtok"`
	Txt   []int     `json:"txt"`
	Utxt  int       `json:"utxt"`
	Jsok  bool      `json:"jsok"`
	Js    []int     `json:"js"`
	Ujs   int       `json:"ujs"`
	Ejs   int       `json:"ejs"`
	Jdec  []int     `json:"jdec"`
	Tag   [][]int   `json:"tag"`
	Gate  []regGate `json:"gate"`
	Dest  string    `json:"dest"`
	Sgr   string    `json:"sgr"` // colour escape sequences of a colour-mode record at this level
}

type regProbe struct {
	S []int `json:"s"`
	R int   `json:"r"`
}

// one step as printed by the child
type regStep struct {
	Ret   string     `json:"ret"` // "", "ok", "err", "panic"
	All   []int      `json:"all"`
	Lv    []regLv    `json:"lv"`
	Pr    []regProbe `json:"pr"`
	Nest  []regNest  `json:"nest"`  // the same questions asked from inside the library's own writing
	Calls int        `json:"calls"` // library calls made for this observation
}

// regNestLv: the name / text / JSON round trips of one level, made in a nested context (same
// member names as the lookup part of regLv)
type regNestLv struct {
	L     int   `json:"l"`
	Str   []int `json:"str"`
	Pstr  int   `json:"pstr"`
	Txtok bool  `json:"txtok"`
	Txt   []int `json:"txt"`
	Utxt  int   `json:"utxt"`
	Jsok  bool  `json:"jsok"`
	Js    []int `json:"js"`
	Ujs   int   `json:"ujs"`
	Ejs   int   `json:"ejs"`
	Jdec  []int `json:"jdec"`
}

// regNest: what the level API answered while the library itself was in the middle of writing a
// record.  Ctx names the place the questions were asked from:
//
//	"warn"     inside the destination's Write of the default logger, while ParseLevel reports an
//	           unknown name through it
//	"warn-go"  the same moment, asked by another goroutine (Write waits for it)
//	"rec"      inside the destination's Write of an ordinary record
//	"val"      inside the String method of a value being formatted for an ordinary record
//
// Ran is false when the library never came to that place (nothing is claimed then).
type regNest struct {
	Ctx string      `json:"ctx"`
	Ran bool        `json:"ran"`
	Lv  []regNestLv `json:"lv"`
	Pr  []regProbe  `json:"pr"`
}

func init() {
	register("registry", registryMain)
	register("registry-child", registryChild)
}

// ---- text projection

// cps projects a Go string to code points; a byte that is not part of a well-formed UTF-8
// sequence is projected to -1 (it is not a character).
func cps(s string) []int {
	out := make([]int, 0, len(s))
	for len(s) > 0 {
		r, n := utf8.DecodeRuneInString(s)
		if r == utf8.RuneError && n <= 1 {
			out = append(out, -1)
			s = s[1:]
			continue
		}
		out = append(out, int(r))
		s = s[n:]
	}
	return out
}

func str(cp []int) string {
	var sb strings.Builder
	for _, c := range cp {
		sb.WriteRune(rune(c))
	}
	return sb.String()
}

// ---- child

type regChild struct {
	job     regJob
	gate    []*slog.Entry
	router  *slog.Entry
	painter *slog.Entry
	ncalls  int
	probeSt []string
	nestW   *regNestWriter
	nestDef *slog.Entry // stands in as the package default logger while ParseLevel reports
	nestRec *slog.Entry // an ordinary logger writing to the nested destination
	nestVal *slog.Entry // an ordinary logger writing to a recorder (the value asks the questions)
}

func registryChild(args []string) int {
	var job regJob
	if err := json.NewDecoder(bufio.NewReaderSize(os.Stdin, 1<<20)).Decode(&job); err != nil {
		fmt.Fprintln(os.Stderr, "registry-child: bad job:", err)
		return 2
	}
	c := &regChild{job: job}
	// one P: the library's sync.Pool then hands back the same scratch object every time, which
	// keeps what a record inherits from the previous one (colours) reproducible
	runtime.GOMAXPROCS(1)
	// keep the package default logger quiet: ParseLevel reports failures through it
	slog.SetFlags(slog.LstdFlags | slog.LnoInterrupt)
	redirectDefaults()
	slog.SetLevel(slog.OffLevel)
	for _, L := range job.GateLevels {
		l := slog.New(fmt.Sprintf("g%d", L)).SetLevel(slog.Level(L)).SetWriter(getWriter(1)).SetErrorWriter(getWriter(2))
		c.gate = append(c.gate, l)
	}
	c.router = slog.New("router").SetLevel(slog.AlwaysLevel).SetWriter(getWriter(1)).SetErrorWriter(getWriter(2))
	c.painter = slog.New("painter").SetLevel(slog.AlwaysLevel).SetColorMode(true).SetWriter(getWriter(1)).SetErrorWriter(getWriter(2))
	c.nestW = &regNestWriter{c: c}
	c.nestDef = slog.New("regdefault").SetLevel(slog.WarnLevel).SetWriter(c.nestW).SetErrorWriter(c.nestW)
	c.nestRec = slog.New("regnested").SetLevel(slog.AlwaysLevel).SetWriter(c.nestW).SetErrorWriter(c.nestW)
	c.nestVal = slog.New("regvalue").SetLevel(slog.AlwaysLevel).SetWriter(getWriter(1)).SetErrorWriter(getWriter(2))
	is.SetDebugMode(false) // SetLevel(Debug/Trace) switches these on as a side effect
	is.SetTraceMode(false)
	for _, p := range job.Probes {
		c.probeSt = append(c.probeSt, str(p))
	}

	out := bufio.NewWriterSize(os.Stdout, 1<<20)
	defer out.Flush()
	enc := json.NewEncoder(out)
	emit := func(st regStep) {
		if err := enc.Encode(st); err != nil {
			panic(err)
		}
	}
	st := c.observe()
	emit(st)
	for _, call := range job.Calls {
		ret := c.register(call)
		st = c.observe()
		st.Ret = ret
		emit(st)
	}
	return 0
}

func (c *regChild) register(call regCall) (ret string) {
	defer func() {
		if p := recover(); p != nil {
			ret = "panic"
		}
	}()
	var opts []slog.RegOpt
	// the order in which options are given is part of the call: tags, colour, treated-as, then
	// the error-device options in script order
	if len(call.Tags) == slog.MaxLengthShortTag {
		var tags [slog.MaxLengthShortTag]string
		for i := range tags {
			tags[i] = str(call.Tags[i])
		}
		opts = append(opts, slog.RegWithShortTags(tags))
	}
	switch call.Clr {
	case 1:
		opts = append(opts, slog.RegWithColor(color.FgGreen))
	case 2:
		opts = append(opts, slog.RegWithColor(color.FgRed, color.BgBoldOrBright))
	}
	if call.Treat >= 0 {
		opts = append(opts, slog.RegWithTreatedAsLevel(slog.Level(call.Treat)))
	}
	for _, b := range call.Err {
		opts = append(opts, slog.RegWithPrintToErrorDevice(b...))
	}
	c.ncalls++
	if err := slog.RegisterLevel(slog.Level(call.V), str(call.T), opts...); err != nil {
		return "err"
	}
	return "ok"
}

func (c *regChild) parse(s string) (res int) {
	defer func() {
		if p := recover(); p != nil {
			res = regPANIC
		}
	}()
	c.ncalls++
	l, err := slog.ParseLevel(s)
	if err != nil {
		return regERR
	}
	return int(l)
}

func guardInt(f func() int) (res int) {
	defer func() {
		if p := recover(); p != nil {
			res = regPANIC
		}
	}()
	return f()
}

func guardStr(f func() string) (res []int) {
	defer func() {
		if p := recover(); p != nil {
			res = []int{regPANIC}
		}
	}()
	return cps(f())
}

func isBuiltin(l int) bool { return l >= 0 && l < int(slog.MaxLevel) }

func (c *regChild) observe() regStep {
	start := c.ncalls
	st := regStep{All: []int{}, Lv: []regLv{}, Pr: []regProbe{}}
	seen := map[int]bool{}
	var levels []int
	c.ncalls++
	for _, l := range slog.AllLevels() {
		st.All = append(st.All, int(l))
		if !seen[int(l)] {
			seen[int(l)] = true
			levels = append(levels, int(l))
		}
	}
	for _, l := range c.job.Observe {
		if !seen[l] {
			seen[l] = true
			levels = append(levels, l)
		}
	}
	sort.Ints(levels)
	for _, l := range levels {
		st.Lv = append(st.Lv, c.observeLevel(slog.Level(l)))
	}
	// ParseLevel of every probe string
	done := map[string]bool{}
	for _, s := range c.probeSt {
		if !done[s] {
			done[s] = true
			st.Pr = append(st.Pr, regProbe{cps(s), c.parse(s)})
		}
	}
	sink.reset()
	st.Nest = c.observeNested(levels)
	sink.reset()
	st.Calls = c.ncalls - start
	return st
}

// ---- the same questions, asked from inside the library's own writing

// regNestWriter is a destination that, the first time it is written to after being armed, asks the
// level API the round-trip questions for every level (a destination that resolves the severity names
// it finds in a line does this).  A Write that arrives while it is asking (ParseLevel of an unknown
// probe string reports through the default logger again) is swallowed.
type regNestWriter struct {
	c     *regChild
	armed *regNest
	lv    []int
	busy  bool
	viaGo bool
}

func (w *regNestWriter) Write(p []byte) (int, error) {
	if w.busy || w.armed == nil {
		return len(p), nil
	}
	w.busy = true
	n := w.armed
	w.armed = nil
	if w.viaGo {
		done := make(chan struct{})
		go func() { defer close(done); w.c.nestedLookups(n, w.lv) }()
		<-done
	} else {
		w.c.nestedLookups(n, w.lv)
	}
	w.busy = false
	return len(p), nil
}

// regNestValue asks the questions from its String method
type regNestValue struct{ w *regNestWriter }

func (v regNestValue) String() string {
	w := v.w
	if !w.busy && w.armed != nil {
		w.busy = true
		n := w.armed
		w.armed = nil
		w.c.nestedLookups(n, w.lv)
		w.busy = false
	}
	return "value"
}

func (c *regChild) nestedLookups(n *regNest, levels []int) {
	n.Ran = true
	for _, l := range levels {
		n.Lv = append(n.Lv, c.roundTrips(slog.Level(l)))
	}
	done := map[string]bool{}
	for _, s := range c.probeSt {
		if !done[s] {
			done[s] = true
			n.Pr = append(n.Pr, regProbe{cps(s), c.parse(s)})
		}
	}
}

const regUnknownName = "c17-no-such-level"

func (c *regChild) observeNested(levels []int) []regNest {
	w := c.nestW
	w.lv = levels
	arm := func(ctx string, viaGo bool) *regNest {
		n := &regNest{Ctx: ctx, Lv: []regNestLv{}, Pr: []regProbe{}}
		w.armed, w.viaGo, w.busy = n, viaGo, false
		return n
	}
	var res []regNest
	// ParseLevel reports an unknown name through the package default logger
	for _, viaGo := range []bool{false, true} {
		ctx := "warn"
		if viaGo {
			ctx = "warn-go"
		}
		n := arm(ctx, viaGo)
		saved := slog.Default()
		slog.SetDefault(c.nestDef)
		c.parse(regUnknownName)
		slog.SetDefault(saved)
		w.armed = nil
		res = append(res, *n)
	}
	// an ordinary record
	n := arm("rec", false)
	guardInt(func() int { c.nestRec.Info("nested probe", "k", 1); return 0 })
	w.armed = nil
	res = append(res, *n)
	// a value that is formatted for an ordinary record
	n = arm("val", false)
	guardInt(func() int { c.nestVal.Info("value probe", "v", regNestValue{w}); return 0 })
	w.armed = nil
	res = append(res, *n)
	return res
}

// roundTrips: name, text form and JSON form of one level and their ways back
func (c *regChild) roundTrips(l slog.Level) regNestLv {
	o := regNestLv{L: int(l), Txt: []int{}, Js: []int{}, Jdec: []int{}}
	var name string
	o.Str = guardStr(func() string { name = l.String(); return name })
	c.ncalls++
	o.Pstr = c.parse(name)
	o.Utxt = regERR
	func() {
		defer func() {
			if p := recover(); p != nil {
				o.Txtok, o.Utxt = false, regPANIC
			}
		}()
		b, err := l.MarshalText()
		if err != nil {
			return
		}
		o.Txtok, o.Txt = true, cps(string(b))
		l2 := slog.Level(regPANIC)
		if err := (&l2).UnmarshalText(b); err == nil {
			o.Utxt = int(l2)
		}
	}()
	o.Ujs, o.Ejs = regERR, regERR
	func() {
		defer func() {
			if p := recover(); p != nil {
				o.Jsok, o.Ujs = false, regPANIC
			}
		}()
		b, err := l.MarshalJSON()
		if err != nil {
			return
		}
		o.Jsok, o.Js = true, cps(string(b))
		var dec string
		if json.Unmarshal(b, &dec) == nil {
			o.Jdec = cps(dec)
		}
		l2 := slog.Level(regPANIC)
		if err := (&l2).UnmarshalJSON(b); err == nil {
			o.Ujs = int(l2)
		}
	}()
	func() {
		defer func() {
			if p := recover(); p != nil {
				o.Ejs = regPANIC
			}
		}()
		b, err := json.Marshal(l)
		if err != nil {
			return
		}
		l2 := slog.Level(regPANIC)
		if err := json.Unmarshal(b, &l2); err == nil {
			o.Ejs = int(l2)
		}
	}()
	c.ncalls += 6
	return o
}

// regMarshalOthers marshals two other levels (names of other lengths) in both forms: a result handed out
// earlier belongs to the caller and must not change under it.
func regMarshalOthers(l slog.Level) {
	defer func() { _ = recover() }()
	for _, x := range []slog.Level{slog.WarnLevel, slog.OKLevel, slog.PanicLevel} {
		if x != l {
			_, _ = x.MarshalJSON()
			_, _ = x.MarshalText()
		}
	}
}

func (c *regChild) observeLevel(l slog.Level) regLv {
	o := regLv{L: int(l), Txt: []int{}, Js: []int{}, Jdec: []int{}, Tag: [][]int{}, Gate: []regGate{}, Dest: "none"}
	// String and its way back
	var name string
	o.Str = guardStr(func() string { name = l.String(); return name })
	c.ncalls++
	o.Pstr = c.parse(name)
	// text form and its way back
	o.Utxt = regERR
	func() {
		defer func() {
			if p := recover(); p != nil {
				o.Txtok, o.Utxt = false, regPANIC
			}
		}()
		b, err := l.MarshalText()
		if err != nil {
			return
		}
		regMarshalOthers(l) // the caller keeps b while other levels are marshalled
		o.Txtok, o.Txt = true, cps(string(b))
		l2 := slog.Level(regPANIC)
		if err := (&l2).UnmarshalText(b); err == nil {
			o.Utxt = int(l2)
		}
	}()
	c.ncalls += 2
	// JSON form and its way back: through the methods, and through encoding/json
	o.Ujs, o.Ejs = regERR, regERR
	func() {
		defer func() {
			if p := recover(); p != nil {
				o.Jsok, o.Ujs = false, regPANIC
			}
		}()
		b, err := l.MarshalJSON()
		if err != nil {
			return
		}
		regMarshalOthers(l) // the caller keeps b while other levels are marshalled
		o.Jsok, o.Js = true, cps(string(b))
		var dec string // independent decoder: what does this JSON text denote
		if json.Unmarshal(b, &dec) == nil {
			o.Jdec = cps(dec)
		}
		l2 := slog.Level(regPANIC)
		if err := (&l2).UnmarshalJSON(b); err == nil {
			o.Ujs = int(l2)
		}
	}()
	func() {
		defer func() {
			if p := recover(); p != nil {
				o.Ejs = regPANIC
			}
		}()
		b, err := json.Marshal(l)
		if err != nil {
			return
		}
		l2 := slog.Level(regPANIC)
		if err := json.Unmarshal(b, &l2); err == nil {
			o.Ejs = int(l2)
		}
	}()
	c.ncalls += 4
	for n := 1; n < slog.MaxLengthShortTag; n++ {
		n := n
		o.Tag = append(o.Tag, guardStr(func() string { return l.ShortTag(n) }))
		c.ncalls++
	}
	// gating: the Enabled answer of a logger at each level, and (custom values only - a Panic or
	// Fatal record must not be issued here) whether a record at this severity comes out
	for k, g := range c.gate {
		ob := regGate{L: c.job.GateLevels[k], Out: -1}
		ob.En = guardInt(func() int {
			if g.Enabled(l) {
				return 1
			}
			return 0
		}) == 1
		c.ncalls++
		if !isBuiltin(int(l)) {
			sink.reset()
			ob.Out = guardInt(func() int { g.LogAttrs(context.Background(), l, "gate probe"); return 0 })
			for _, e := range sink.take() {
				if e.K == "w" && len(e.payload) > 0 && ob.Out == 0 {
					ob.Out = 1
				}
			}
			c.ncalls++
		}
		o.Gate = append(o.Gate, ob)
	}
	// routing on a logger that admits everything
	if !isBuiltin(int(l)) {
		sink.reset()
		guardInt(func() int { c.router.LogAttrs(context.Background(), l, "route probe"); return 0 })
		normal, errw := false, false
		for _, e := range sink.take() {
			if e.K == "w" && e.W == 1 {
				normal = true
			}
			if e.K == "w" && e.W == 2 {
				errw = true
			}
		}
		switch {
		case normal && errw:
			o.Dest = "both"
		case normal:
			o.Dest = "normal"
		case errw:
			o.Dest = "err"
		}
		c.ncalls++
	} else {
		o.Dest = "n/a"
	}
	// the colour table is one of the registry's tables: render a colour-mode record (print only,
	// explicit timestamp, no gating) and keep its escape sequences.  An Info record first, so that
	// a level without colours of its own inherits the same thing every time.
	o.Sgr = "none"
	guardInt(func() int {
		c.painter.WriteThru(context.Background(), slog.InfoLevel, regTS, 0, "c", nil)
		sink.reset()
		c.painter.WriteThru(context.Background(), l, regTS, 0, "c", nil)
		var sb strings.Builder
		for _, e := range sink.take() {
			if e.K == "w" {
				for _, m := range regSGR.FindAll(e.payload, -1) {
					sb.WriteString("E")
					sb.Write(m[1:])
				}
			}
		}
		o.Sgr = sb.String()
		return 0
	})
	c.ncalls++
	return o
}

var regSGR = regexp.MustCompile("\\x1b\\[[0-9;]*m")
var regTS = time.Date(2024, 5, 6, 7, 8, 9, 0, time.UTC)

// ---- parent

type regNode struct {
	line     map[string]any
	children []*regNode
	index    map[string]*regNode
}

type interner struct {
	ids   map[string]int
	items []json.RawMessage
}

func (in *interner) id(v any) int {
	b, err := json.Marshal(v)
	if err != nil {
		panic(err)
	}
	k := string(b)
	if id, ok := in.ids[k]; ok {
		return id
	}
	in.items = append(in.items, b)
	in.ids[k] = len(in.items) // 1-based: TLA+ sequence index
	return len(in.items)
}

func (in *interner) write(path string) {
	f, err := os.Create(path)
	if err != nil {
		panic(err)
	}
	w := bufio.NewWriterSize(f, 1<<20)
	for _, it := range in.items {
		w.Write(it)
		w.WriteByte('\n')
	}
	w.Flush()
	f.Close()
}

func registryMain(args []string) int {
	var pos []string
	var testArgs []string
	for _, a := range args {
		if strings.HasPrefix(a, "-test.") {
			testArgs = append(testArgs, a)
		} else {
			pos = append(pos, a)
		}
	}
	if len(pos) < 2 {
		fmt.Fprintln(os.Stderr, "usage: worker registry <script.json> <outdir>")
		return 2
	}
	var sc regScript
	readJSON(pos[0], &sc)
	outdir := pos[1]
	if sc.Par <= 0 {
		sc.Par = 8
	}
	type result struct {
		steps []regStep
		err   error
	}
	// the children run side by side; their recordings are merged in behaviour order as soon as they are there
	// and dropped at once (a thorough run held 40 GB of raw recordings when they were kept until the end)
	results := make([]result, len(sc.Behaviours))
	ready := make([]chan struct{}, len(sc.Behaviours))
	for bi := range ready {
		ready[bi] = make(chan struct{})
	}
	jobs := make(chan int)
	window := make(chan struct{}, 4*sc.Par+64) // children may run ahead of the merge by this many behaviours
	for w := 0; w < sc.Par; w++ {
		go func() {
			for bi := range jobs {
				b := sc.Behaviours[bi]
				steps, err := runRegChild(regJob{sc.GateLevels, b.Observe, sc.ProbeSets[b.Probes], b.Calls}, testArgs)
				results[bi] = result{steps, err}
				close(ready[bi])
			}
		}()
	}
	go func() {
		for bi := range sc.Behaviours {
			window <- struct{}{}
			jobs <- bi
		}
		close(jobs)
	}()

	lvIn := &interner{ids: map[string]int{}}
	prIn := &interner{ids: map[string]int{}}
	root := &regNode{index: map[string]*regNode{}}
	totalCalls, dead := 0, 0
	nestRan := map[string]int{}
	for bi := range results {
		<-ready[bi]
		<-window
		r := results[bi]
		results[bi] = result{}
		if r.err != nil {
			// a child that died is an infrastructure problem for this property (nothing in C17
			// says "never crashes"): report and let the orchestrator decide
			fmt.Fprintf(os.Stderr, "registry: behaviour %d: child failed: %v\n", bi, r.err)
			dead++
			continue
		}
		node := root
		for d, st := range r.steps {
			ids := make([]int, 0, len(st.Lv))
			// lvp: the round-trip part of each outside observation, interned in the shape of the nested
			// ones - equal ids <=> the nested answers are the outside answers
			lvp := make([]int, 0, len(st.Lv))
			for _, lv := range st.Lv {
				ids = append(ids, lvIn.id(lv))
				lvp = append(lvp, lvIn.id(regNestLv{lv.L, lv.Str, lv.Pstr, lv.Txtok, lv.Txt, lv.Utxt, lv.Jsok, lv.Js, lv.Ujs, lv.Ejs, lv.Jdec}))
			}
			line := map[string]any{"d": d, "all": st.All, "lv": ids, "pr": prIn.id(map[string]any{"tab": st.Pr})}
			nest := make([]map[string]any, 0, len(st.Nest))
			for _, n := range st.Nest {
				nids := make([]int, 0, len(n.Lv))
				for _, lv := range n.Lv {
					nids = append(nids, lvIn.id(lv))
				}
				if n.Pr == nil {
					n.Pr = []regProbe{}
				}
				nest = append(nest, map[string]any{"ctx": n.Ctx, "ran": n.Ran, "lv": nids, "pr": prIn.id(map[string]any{"tab": n.Pr})})
				if n.Ran {
					nestRan[n.Ctx]++
				}
			}
			line["nest"], line["lvp"] = nest, lvp
			if d > 0 {
				call := sc.Behaviours[bi].Calls[d-1]
				tags := call.Tags
				if tags == nil {
					tags = [][]int{}
				}
				errs := call.Err
				if errs == nil {
					errs = [][]bool{}
				}
				for k := range errs {
					if errs[k] == nil {
						errs[k] = []bool{}
					}
				}
				line["v"], line["t"], line["tags"], line["treat"], line["err"], line["clr"], line["ret"] =
					call.V, call.T, tags, call.Treat, errs, call.Clr, st.Ret
			}
			kb, _ := json.Marshal(line)
			k := string(kb)
			child, ok := node.index[k]
			if !ok {
				child = &regNode{line: line, index: map[string]*regNode{}}
				node.index[k] = child
				node.children = append(node.children, child)
				totalCalls += st.Calls
			}
			node = child
		}
	}
	if err := os.MkdirAll(outdir, 0o755); err != nil {
		panic(err)
	}
	tr := newTraceOut(outdir + "/trace.ndjson")
	var walk func(n *regNode)
	walk = func(n *regNode) {
		for _, c := range n.children {
			tr.emit(c.line)
			walk(c)
		}
	}
	walk(root)
	tr.close()
	lvIn.write(outdir + "/lv.ndjson")
	prIn.write(outdir + "/pr.ndjson")
	sum := map[string]any{"behaviours": len(sc.Behaviours), "dead": dead, "lines": tr.n,
		"lv_defs": len(lvIn.items), "pr_defs": len(prIn.items), "library_calls": totalCalls, "nest_ran": nestRan}
	b, _ := json.Marshal(sum)
	os.WriteFile(outdir+"/summary.json", b, 0o644)
	return 0
}

func runRegChild(job regJob, testArgs []string) ([]regStep, error) {
	in, err := json.Marshal(job)
	if err != nil {
		return nil, err
	}
	cmd := exec.Command(os.Args[0], append([]string{"registry-child"}, testArgs...)...)
	cmd.Stdin = bytes.NewReader(in)
	var stdout, stderr bytes.Buffer
	cmd.Stdout, cmd.Stderr = &stdout, &stderr
	if err := cmd.Run(); err != nil {
		return nil, fmt.Errorf("%v: %s", err, tail(stderr.String(), 800))
	}
	var steps []regStep
	dec := json.NewDecoder(&stdout)
	for dec.More() {
		var st regStep
		if err := dec.Decode(&st); err != nil {
			return nil, fmt.Errorf("bad child output: %v", err)
		}
		steps = append(steps, st)
	}
	if len(steps) != len(job.Calls)+1 {
		return nil, fmt.Errorf("child printed %d steps for %d calls: %s", len(steps), len(job.Calls), tail(stderr.String(), 800))
	}
	return steps, nil
}

func tail(s string, n int) string {
	if len(s) > n {
		return s[len(s)-n:]
	}
	return s
}
