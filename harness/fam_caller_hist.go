package main

// C14, history component - "c14 hist <behaviours.ndjson> <trace.ndjson> [<detail.ndjson>]".
//
// A behaviour is a history of logger configuration (spec/CallerHist.tla): WithSkip / SetSkip on
// any live logger, the package-level slog.WithSkip / slog.SetSkip, New / With... children,
// SetDefault, other configuration calls.  Loggers are HANDLES numbered in the order the program
// obtained them (1: detached root installed as default, 2: second detached root, then one per
// With/New call).  After the initial state and after EVERY step the worker issues records through
// EVERY live handle - several entry points of different families, through real wrapper chains
// (fam_caller_sites.go) deep enough for every skip count in use - and records which frame of the
// real call stack each record's caller member names (c14Issue, the projection of the table
// component).  Nothing is judged here: CallerHistTrace.tla validates the recording.
//
// Identity is reported, not judged: `alias` is the first earlier handle with the same *slog.Entry
// behind it (0: a new object).

import (
	"bufio"
	"encoding/json"
	"fmt"
	"log"
	logslog "log/slog"
	"os"
	"strings"
	"time"

	"github.com/hedzr/logg/slog"
)

type clr14Step struct {
	Op  string `json:"op"`
	L   int    `json:"l"`
	N   int    `json:"n"`
	How string `json:"how"`
}

type clr14Behaviour struct {
	B     int         `json:"b"`
	Fmt   string      `json:"fmt"`   // json / logfmt / color: format of the two roots
	Names int         `json:"names"` // 0: distinct root names, 1: both roots share a name, 2: unnamed roots
	Plan  int         `json:"plan"`  // seed of the emission plan
	K     int         `json:"k"`     // entry points per live logger after every step
	DMin  int         `json:"dmin"`  // least wrapper depth (>= every skip count in use)
	Exact bool        `json:"exact"` // true: l is a handle; false: l selects a handle modulo the live ones
	Steps []clr14Step `json:"steps"`
}

type clr14Obs struct {
	L   int    `json:"l"`
	Ep  string `json:"ep"`
	F   string `json:"f"`
	Inl bool   `json:"inl"`
	D   int    `json:"d"`
	K   string `json:"k"`
	I   int    `json:"i"`
}

type clr14Line struct {
	B     int        `json:"b"`
	S     int        `json:"s"` // 0: the initial state, j: after step j
	Op    string     `json:"op"`
	L     int        `json:"l"`
	N     int        `json:"n"`
	How   string     `json:"how"`
	Alias int        `json:"alias"`
	Obs   []clr14Obs `json:"obs"`
	HErr  string     `json:"herr"`
}

type clr14ObsDetail struct {
	B       int        `json:"b"`
	S       int        `json:"s"`
	Obs     clr14Obs   `json:"obs"`
	SkipGet int        `json:"skipget"` // what the logger's own Skip() says (information only)
	Name    string     `json:"name"`
	Caller  *c14Caller `json:"caller"`
	GotFunc string     `json:"gotfunc"`
	User    []c14Frame `json:"user"`
	Record  string     `json:"record"`
}

type clr14Handle struct {
	id  int
	lg  slog.Logger
	ent *slog.Entry // identity of the object behind the handle
	sl  *logslog.Logger
	std *log.Logger
}

// entry points per family that a logger at level Info admits and that do not end the process
var clr14Fams = []string{"verb", "ctx", "attrs", "printf", "adapter", "bridge", "pkgverb", "pkgctx"}

var clr14Eps = map[string][]string{
	"verb":    {"Info", "Warn", "Error", "Print", "Println", "OK", "Success", "Fail"},
	"ctx":     {"InfoContext", "WarnContext", "ErrorContext", "PrintContext", "PrintlnContext", "OKContext", "SuccessContext", "FailContext"},
	"attrs":   {"LogAttrs", "Logit", "Log"},
	"printf":  {"Infof", "Warnf", "Errorf"},
	"adapter": {"logslog.Info", "logslog.Warn", "logslog.Error", "logslog.InfoContext", "logslog.WarnContext", "logslog.ErrorContext", "logslog.Log", "logslog.LogAttrs"},
	"bridge":  {"stdlog.Print", "stdlog.Printf", "stdlog.Println", "stdlog.Output", "stdlog.Panic", "stdlog.Panicf", "stdlog.Panicln"},
	"pkgverb": {"slog.Info", "slog.Warn", "slog.Error", "slog.Print", "slog.Println", "slog.OK", "slog.Success", "slog.Fail"},
	"pkgctx":  {"slog.InfoContext", "slog.WarnContext", "slog.ErrorContext", "slog.PrintContext", "slog.PrintlnContext", "slog.OKContext", "slog.SuccessContext", "slog.FailContext"},
}

var clr14Withs = []string{"WithAttrs", "WithAttrs1", "With", "WithLevel", "WithJSONMode", "WithColorMode", "WithUTCMode",
	"WithTimeFormat", "WithWriter", "WithContextKeys", "NewAnon", "NewKV"}

var clr14Touches = []string{"SetLevel", "SetFormat", "SetAttrs", "Set", "SetUTCMode", "SetTimeFormat", "SetContextKeys",
	"SetWriter", "Rebuild", "SkipGet", "Walk"}

func clr14Mix(a ...int) uint64 {
	x := uint64(0x9e3779b97f4a7c15)
	for _, v := range a {
		x ^= uint64(v) + 0x9e3779b97f4a7c15 + (x << 6) + (x >> 2)
		x ^= x >> 30
		x *= 0xbf58476d1ce4e5b9
		x ^= x >> 27
		x *= 0x94d049bb133111eb
		x ^= x >> 31
	}
	return x
}

type clr14Run struct {
	b       *clr14Behaviour
	hs      []*clr14Handle
	def     int
	newCnt  map[*slog.Entry]int // named children made so far, per parent object
	detail  *traceOut
	started time.Time
}

func clr14Hist(args []string) int {
	for len(args) > 0 && strings.HasPrefix(args[len(args)-1], "-test.") { // appended by the orchestrator
		args = args[:len(args)-1]
	}
	if len(args) < 2 {
		fmt.Fprintln(os.Stderr, "usage: worker c14 hist <behaviours.ndjson> <trace.ndjson> [<detail.ndjson>]")
		return 2
	}
	in, err := os.Open(args[0])
	if err != nil {
		fmt.Fprintln(os.Stderr, err)
		return 2
	}
	defer in.Close()
	trace := newTraceOut(args[1])
	defer trace.close()
	var detail *traceOut
	if len(args) >= 3 {
		detail = newTraceOut(args[2])
		defer detail.close()
	}
	sc := bufio.NewScanner(in)
	sc.Buffer(make([]byte, 1<<24), 1<<24)
	for sc.Scan() {
		line := strings.TrimSpace(sc.Text())
		if line == "" {
			continue
		}
		var b clr14Behaviour
		if err := json.Unmarshal([]byte(line), &b); err != nil {
			fmt.Fprintln(os.Stderr, "bad behaviour:", err)
			return 2
		}
		r := &clr14Run{b: &b, newCnt: map[*slog.Entry]int{}, detail: detail}
		r.run(trace)
	}
	if err := sc.Err(); err != nil {
		fmt.Fprintln(os.Stderr, err)
		return 2
	}
	slog.SetDefault(slog.New())
	return 0
}

func (r *clr14Run) setFormat(e *slog.Entry) {
	switch r.b.Fmt {
	case "json":
		e.SetJSONMode(true)
	case "logfmt":
		e.SetColorMode(false)
	default:
		e.SetColorMode(true)
	}
}

// front ends over a handle: built when the handle is obtained, i.e. BEFORE later SetSkip calls -
// the attribution must follow the logger's current count (the touch "Rebuild" builds them anew)
func (r *clr14Run) fronts(h *clr14Handle) {
	hd := slog.NewSlogHandler(h.lg, &slog.HandlerOptions{NoColor: r.b.Fmt != "color", JSON: r.b.Fmt == "json"})
	h.sl = logslog.New(hd)
	h.std = slog.NewLogLogger(h.lg, slog.InfoLevel)
}

func (r *clr14Run) add(lg slog.Logger, ent *slog.Entry) (h *clr14Handle, alias int) {
	for _, o := range r.hs {
		if o.ent == ent {
			alias = o.id
			break
		}
	}
	h = &clr14Handle{id: len(r.hs) + 1, lg: lg, ent: ent}
	r.hs = append(r.hs, h)
	r.fronts(h)
	return
}

func (r *clr14Run) run(trace *traceOut) {
	b := r.b
	if b.K < 1 {
		b.K = 1
	}
	// -- process-global settings (as in the table component) and the two roots
	slog.SetFlags(slog.LstdFlags | slog.LnoInterrupt)
	c14Defaults()
	c14Serial++
	var n1, n2 []any
	switch b.Names {
	case 0:
		n1, n2 = []any{fmt.Sprintf("ra%d", c14Serial)}, []any{fmt.Sprintf("rb%d", c14Serial)}
	case 1:
		n1, n2 = []any{"app"}, []any{"app"}
	}
	for _, nm := range [][]any{n1, n2} {
		root := slog.New(nm...)
		r.setFormat(root.SetLevel(slog.InfoLevel))
		r.add(root, root.Root())
	}
	slog.SetDefault(r.hs[0].lg)
	r.def = 1
	defer slog.SetDefault(slog.New())

	ln := clr14Line{B: b.B, S: 0, Op: "Init"}
	r.observe(&ln)
	trace.emit(ln)
	if ln.HErr != "" {
		return
	}
	for j, st := range b.Steps {
		ln = clr14Line{B: b.B, S: j + 1, Op: st.Op, N: st.N, How: st.How}
		r.apply(&st, j+1, &ln)
		if ln.HErr == "" {
			r.observe(&ln)
		}
		trace.emit(ln)
		if ln.HErr != "" {
			return
		}
	}
}

func (r *clr14Run) apply(st *clr14Step, s int, ln *clr14Line) {
	live := len(r.hs)
	l := st.L
	if !r.b.Exact {
		if l < 0 {
			l = -l
		}
		l = l%live + 1
	}
	if st.Op == "PkgWithSkip" || st.Op == "PkgSetSkip" {
		l = r.def
	}
	if l < 1 || l > live {
		ln.HErr = fmt.Sprintf("step %d names handle %d, %d exist", s, st.L, live)
		return
	}
	ln.L = l
	h := r.hs[l-1]
	pick := func(list []string) string { return list[clr14Mix(r.b.Plan, s, 77)%uint64(len(list))] }
	switch st.Op {
	case "WithSkip":
		k := h.lg.WithSkip(st.N)
		_, ln.Alias = r.add(k, k)
	case "PkgWithSkip":
		k := slog.WithSkip(st.N)
		_, ln.Alias = r.add(k, k)
	case "SetSkip":
		h.lg.SetSkip(st.N)
	case "PkgSetSkip":
		slog.SetSkip(st.N)
	case "SetDefault":
		slog.SetDefault(h.lg)
		r.def = l
	case "Derive":
		how := st.How
		if how == "With" {
			how = pick(clr14Withs)
		}
		var k *slog.Entry
		switch how {
		case "New":
			// named child; the name is unique under this parent OBJECT only ("k0" exists under many parents)
			k = h.lg.New(fmt.Sprintf("k%d", r.newCnt[h.ent]))
			r.newCnt[h.ent]++
		case "NewKV":
			k = h.lg.New(fmt.Sprintf("k%d", r.newCnt[h.ent]), "origin", "hist")
			r.newCnt[h.ent]++
		case "NewAnon":
			k = h.lg.New()
		case "WithAttrs":
			k = h.lg.WithAttrs(slog.String("wa", "v"))
		case "WithAttrs1":
			k = h.lg.WithAttrs1(slog.Attrs{slog.Int("w1", 1)})
		case "With":
			k = h.lg.With("wk", "wv")
		case "WithLevel":
			k = h.lg.WithLevel(slog.InfoLevel)
		case "WithJSONMode":
			k = h.lg.WithJSONMode(r.b.Fmt == "json")
			r.setFormat(k)
		case "WithColorMode":
			k = h.lg.WithColorMode(r.b.Fmt == "color")
			r.setFormat(k)
		case "WithUTCMode":
			k = h.lg.WithUTCMode(true)
		case "WithTimeFormat":
			k = h.lg.WithTimeFormat(time.RFC3339)
		case "WithWriter":
			// (a logger with own destinations gets both: where records of which severity go is C03)
			k = h.lg.WithWriter(c14rec)
			k.SetErrorWriter(c14rec)
		case "WithContextKeys":
			k = h.lg.WithContextKeys("rid")
		default:
			ln.HErr = "unknown derivation " + how
			return
		}
		ln.How = how
		_, ln.Alias = r.add(k, k)
	case "Touch":
		how := st.How
		if how == "cfg" {
			how = pick(clr14Touches)
		}
		switch how {
		case "SetLevel":
			h.lg.SetLevel(slog.InfoLevel)
		case "SetFormat":
			r.setFormat(h.ent)
		case "SetAttrs":
			h.lg.SetAttrs(slog.String("sa", "v"))
		case "Set":
			h.lg.Set("sk", "sv")
		case "SetUTCMode":
			h.lg.SetUTCMode(s%2 == 0)
		case "SetTimeFormat":
			h.lg.SetTimeFormat(time.RFC3339Nano)
		case "SetContextKeys":
			h.lg.SetContextKeys("rid")
		case "SetWriter":
			h.lg.SetWriter(c14rec).SetErrorWriter(c14rec)
		case "Rebuild":
			r.fronts(h)
		case "SkipGet":
			_ = h.lg.Skip()
		case "Walk":
			h.lg.Root().Each(func(*slog.Entry, int) {})
			_ = h.lg.Parent()
		default:
			ln.HErr = "unknown touch " + how
			return
		}
		ln.How = how
	default:
		ln.HErr = "unknown op " + st.Op
	}
}

// observe issues records through every live handle and appends what they were attributed to.
func (r *clr14Run) observe(ln *clr14Line) {
	b := r.b
	for _, h := range r.hs {
		isDef := h.id == r.def
		nf := 6 // families of clr14Fams available to this handle: the package-level ones need the default logger
		x := clr14Mix(b.Plan, ln.S, h.id)
		start := int(x % uint64(nf))
		for j := 0; j < b.K; j++ {
			y := clr14Mix(b.Plan, ln.S, h.id, j+1)
			fam := clr14Fams[(start+j)%nf]
			if isDef && j == 0 {
				fam = clr14Fams[6+int(y>>8)%2]
			}
			eps := clr14Eps[fam]
			c := c14Cell{Ep: eps[int(y>>16)%len(eps)], Fam: fam, Fmt: b.Fmt, Inl: (y>>40)%2 == 0}
			if c.Inl {
				c.Depth = b.DMin
				if span := c14InlDepth - b.DMin + 1; span > 1 {
					c.Depth += int(y>>44) % span
				}
			} else {
				c.Depth = b.DMin + int(y>>44)%3
			}
			c14L, c14SL, c14Std = h.lg, h.sl, h.std
			var d c14Detail
			c14Issue(&c, &d, false)
			if d.HErr == "" && d.Got.K == "norecord" {
				d.HErr = "no record was emitted"
			}
			o := clr14Obs{L: h.id, Ep: c.Ep, F: fam, Inl: c.Inl, D: c.Depth, K: d.Got.K, I: d.Got.I}
			ln.Obs = append(ln.Obs, o)
			if d.HErr != "" && ln.HErr == "" {
				ln.HErr = fmt.Sprintf("handle %d, %s, depth %d, inl %v: %s", h.id, c.Ep, c.Depth, c.Inl, d.HErr)
			}
			if r.detail != nil {
				r.detail.emit(clr14ObsDetail{B: b.B, S: ln.S, Obs: o, SkipGet: h.lg.Skip(), Name: h.lg.Name(), Caller: d.Caller,
					GotFunc: d.GotFunc, User: append([]c14Frame(nil), d.User...), Record: d.Record})
			}
		}
	}
	c14L, c14SL, c14Std = nil, nil, nil
}
