package main

// C14 - caller attribution.  "c14 run <cells.ndjson> <trace.ndjson> <detail.ndjson>" issues every
// cell of the table exported by spec/Caller.tla on the real library and records which frame of
// the REAL call stack the record's `caller` member names.  "c14 list" prints the entry points
// and chain depths this binary can execute.  "c14 hist ..." (fam_caller_hist.go) executes histories
// of logger configuration and observes every live logger after every step.
//
// Oracle for "which frame is it": the destination writer captures the complete call stack
// (runtime.Callers + CallersFrames, which expands inlined calls into logical frames) while the
// library is writing the record.  The user frames of that stack are the functions of the
// wrapper chain (c14s*/c14w*/c14drive, see fam_caller_sites.go); user frame 0 is the function
// holding the issuing statement, frame j its j-th wrapper.  The decoded caller
// (file, line, function) is looked up in that stack - no frame counting on this side.
//
// Decoding is independent of the library: encoding/json for JSON records, an own logfmt
// tokenizer + strconv.Unquote for logfmt, an SGR stripper for the coloured console line.

import (
	"bufio"
	"context"
	"encoding/json"
	"fmt"
	"io"
	"log"
	logslog "log/slog"
	"os"
	"os/exec"
	"path/filepath"
	"reflect"
	"regexp"
	"runtime"
	"sort"
	"strconv"
	"strings"
	"sync"
	"time"

	"github.com/hedzr/logg/slog"
)

func init() { register("c14", c14Main) }

// ---- what the site functions use (package-level, so that the sites stay tiny and inlinable)

var (
	c14L    slog.Logger     // logger under test, behind the interface as users hold it
	c14Ctx  context.Context = context.Background()
	c14SL   *logslog.Logger // log/slog front end over NewSlogHandler(logger under test)
	c14Std  *log.Logger     // std log front end from NewLogLogger(logger under test)
	c14Args = []any{"m"}
	c14Next func() // innermost function of the //go:noinline chain (a c14sN_* site)

	// what the c14sA_* sites pass with the record (cells with ua = rec-*): an attribute keyed `caller`
	c14KV      []any          // logg entry points
	c14SLKV    []any          // log/slog Logger.Info
	c14SLAttrs []logslog.Attr // log/slog Logger.LogAttrs

	// incremented on the line after every call of the //go:noinline chain, so that the call is not
	// the last statement of its function (a return address mistaken for the call site would then
	// show as the following line)
	c14After int
)

// c14LineSite is a wrapper chain whose functions sit behind //line directives naming `file`
// (generated: fam_caller_lines.go).
type c14LineSite struct {
	id    string // name of the chain in the cells (LineSites of spec/Caller.tla)
	cls   string // character class the file name carries
	file  string // the file name as written in the directives
	k     int
	chain [c14LineDepth + 1]func() // chain[j]: the j-th //go:noinline wrapper (chain[1] calls c14Next)
	sites map[string]func()        // entry point -> issuing function
}

func c14LineSiteOf(id string) *c14LineSite {
	for _, s := range c14LineSites {
		if s.id == id {
			return s
		}
	}
	return nil
}

type c14site struct {
	inl  [c14InlDepth + 1]func() // inl[d]: top of the static, inlinable chain with d wrappers
	no   func()                  // the //go:noinline site
	at   func()                  // the //go:noinline site whose call carries attributes (nil: the entry point takes none)
	pan  bool                    // the entry point panics after the record was written (package log's Panic*)
	term bool                    // the entry point ends the process after the record was written (package log's Fatal*)
}

// ---- front ends and routes (dimension `route`, FrontOf of spec/Caller.tla)

// c14MW is a log/slog handler that wraps another one (middleware): one more Handle frame between
// log/slog and the adapter.
type c14MW struct{ logslog.Handler }

func (m c14MW) Handle(ctx context.Context, r logslog.Record) error {
	return m.Handler.Handle(ctx, r)
}
func (m c14MW) WithAttrs(a []logslog.Attr) logslog.Handler { return c14MW{m.Handler.WithAttrs(a)} }
func (m c14MW) WithGroup(n string) logslog.Handler        { return c14MW{m.Handler.WithGroup(n)} }

// c14HelperSL is the wrapper of log/slog's documentation ("Wrapping output methods"): it builds the
// Record with the PC of ITS caller and hands it to the handler (entry point logslog.Handle).
func c14HelperSL(msg string) {
	var pcs [1]uintptr
	runtime.Callers(2, pcs[:]) // skip [Callers, c14HelperSL]
	r := logslog.NewRecord(time.Now(), logslog.LevelInfo, msg, pcs[0])
	_ = c14SL.Handler().Handle(c14Ctx, r)
}

func c14RouteDepth(route string) (int, bool) {
	switch route {
	case "", "direct":
		return 0, true
	case "mw1":
		return 1, true
	case "mw2":
		return 2, true
	}
	return 0, false
}

// ---- attributes of the program that are named like the built-in member (dimension `ua` of spec/Caller.tla)

const (
	c14UAPlain = "billing-service" // caller=<name of the calling service>
	c14UAFile  = "client.py"       // caller{file, line, function} relayed from a client
	c14UALine  = 7
	c14UAFunc  = "rpc.Call"
)

// entry points that have ua cells (UAEPNames of the specification)
var c14UAEps = []string{"Info", "InfoContext", "LogAttrs", "Infof", "slog.Warn", "logslog.Info", "logslog.LogAttrs", "stdlog.Print"}

func c14UAAttr(group bool) slog.Attr {
	if group {
		return slog.NewGroupedAttr("caller", slog.String("file", c14UAFile), slog.Int("line", c14UALine), slog.String("function", c14UAFunc))
	}
	return slog.String("caller", c14UAPlain)
}

func c14UASLAttr(group bool) logslog.Attr {
	if group {
		return logslog.Group("caller", logslog.String("file", c14UAFile), logslog.Int("line", c14UALine), logslog.String("function", c14UAFunc))
	}
	return logslog.String("caller", c14UAPlain)
}

// what the last-wins decoders found under the name of the caller field (set by c14Decode):
// JSON: the value of the last member `caller`; logfmt: the last caller.file
var c14CallerRaw any

// c14IsUA: the decoded caller field is the program's attribute, not the built-in member.
func c14IsUA(raw any) bool {
	switch v := raw.(type) {
	case string:
		return v == c14UAPlain || v == c14UAFile
	case map[string]any:
		f, _ := v["file"].(string)
		return f == c14UAFile
	}
	return false
}

// ---- the //go:noinline wrapper chain (shared by all entry points; the site is c14Next)

const c14NoDepth = 8

//go:noinline
func c14wN1() {
	c14Next()
	c14After++
}

//go:noinline
func c14wN2() {
	c14wN1()
	c14After++
}

//go:noinline
func c14wN3() {
	c14wN2()
	c14After++
}

//go:noinline
func c14wN4() {
	c14wN3()
	c14After++
}

//go:noinline
func c14wN5() {
	c14wN4()
	c14After++
}

//go:noinline
func c14wN6() {
	c14wN5()
	c14After++
}

//go:noinline
func c14wN7() {
	c14wN6()
	c14After++
}

//go:noinline
func c14wN8() {
	c14wN7()
	c14After++
}

var c14NoChain = [c14NoDepth + 1]func(){nil, c14wN1, c14wN2, c14wN3, c14wN4, c14wN5, c14wN6, c14wN7, c14wN8}

// the frame above the outermost wrapper
//
//go:noinline
func c14drive(top func()) {
	defer func() { // package log's Panic* functions panic after the record was written; anything else is not expected
		if r := recover(); r != nil && !c14Panics {
			panic(r)
		}
	}()
	top()
	c14After++
}

var c14Panics bool // the entry point of the cell being issued panics by contract

// ---- recording destination

type c14Frame struct {
	File    string `json:"file"`
	Line    int    `json:"line"`
	Func    string `json:"func"`
	Inlined bool   `json:"inlined"`
}

type c14Rec struct {
	writes  int
	payload []byte
	stack   []c14Frame
	onWrite func() // called at the end of every Write (cells whose entry point never returns)
}

func (r *c14Rec) reset() { r.writes = 0; r.payload = nil; r.stack = nil }

func (r *c14Rec) Write(p []byte) (int, error) {
	r.writes++
	r.payload = append([]byte(nil), p...)
	var pcs [96]uintptr
	n := runtime.Callers(1, pcs[:])
	fr := runtime.CallersFrames(pcs[:n])
	r.stack = r.stack[:0]
	for {
		f, more := fr.Next()
		r.stack = append(r.stack, c14Frame{File: f.File, Line: f.Line, Func: f.Function, Inlined: f.Func == nil})
		if !more {
			break
		}
	}
	if r.onWrite != nil {
		r.onWrite()
	}
	return len(p), nil
}

func (r *c14Rec) Close() error { return nil }

var c14rec = &c14Rec{}

// ---- cells

type c14Got struct {
	K string `json:"k"`
	I int    `json:"i"`
}

type c14Cell struct {
	ID    int    `json:"id"`
	Ep    string `json:"ep"`
	Fam   string `json:"fam"`
	Fmt   string `json:"fmt"`
	Kind  string `json:"kind"`
	Inl   bool   `json:"inl"`
	Via   string `json:"via"`
	Skip  int    `json:"skip"`
	Other int    `json:"other"`
	Depth int    `json:"depth"`
	Site  string `json:"site"` // "go" / "": ordinary source file; else the id of a //line chain
	UA    string `json:"ua"`   // "none" / "": no attribute keyed `caller`; else <rec|log|hdl>-<plain|group>
	Route string `json:"route"` // "direct" / "": the handler sits directly under log/slog; mw<k>: behind k middleware handlers
}

func (c *c14Cell) ua() (where string, group bool) {
	if c.UA == "" || c.UA == "none" {
		return "", false
	}
	p := strings.SplitN(c.UA, "-", 2)
	return p[0], len(p) == 2 && p[1] == "group"
}

func (c *c14Cell) line() *c14LineSite {
	if c.Site == "" || c.Site == "go" {
		return nil
	}
	return c14LineSiteOf(c.Site)
}

type c14TraceLine struct {
	c14Cell
	Got c14Got `json:"got"`
}

type c14Caller struct {
	File string `json:"file"`
	Line int    `json:"line"`
	Func string `json:"func"`
}

type c14Detail struct {
	ID       int        `json:"id"`
	Shape    string     `json:"shape"`              // format of the record as decoded: json / logfmt / color / none
	Writes   int        `json:"writes"`             // Write calls the cell caused
	Caller   *c14Caller `json:"caller"`             // decoded caller member (nil: none)
	Got      c14Got     `json:"got"`                //
	GotFunc  string     `json:"gotfunc"`            // function of the stack frame the caller member names ("" if none)
	User     []c14Frame `json:"user"`               // user frames of the real stack, innermost first
	Record   string     `json:"record"`             //
	HErr     string     `json:"herr"`               // harness-side problem (not a statement about the library)
	UASeen   bool       `json:"uaseen,omitempty"`   // the program's attribute keyed `caller` is somewhere in the record
	SiteFile string     `json:"sitefile,omitempty"` // file name of the //line chain (quoted)
}

func c14Main(args []string) int {
	if len(args) >= 1 && args[0] == "list" {
		names := make([]string, 0, len(c14Sites))
		for k := range c14Sites {
			names = append(names, k)
		}
		sort.Strings(names)
		var lineSites []map[string]any
		var lineEps []string
		for _, ls := range c14LineSites {
			// what the runtime reports for the first issuing function of the chain (binding check)
			lineSites = append(lineSites, map[string]any{"id": ls.id, "cls": ls.cls, "file": strconv.QuoteToASCII(ls.file),
				"runtime": strconv.QuoteToASCII(c14FuncFile(ls.sites["Info"]))})
			if lineEps == nil {
				for ep := range ls.sites {
					lineEps = append(lineEps, ep)
				}
				sort.Strings(lineEps)
			}
		}
		var uaRec []string
		for k, st := range c14Sites {
			if st.at != nil {
				uaRec = append(uaRec, k)
			}
		}
		sort.Strings(uaRec)
		var termEps []string
		for k, st := range c14Sites {
			if st.term {
				termEps = append(termEps, k)
			}
		}
		sort.Strings(termEps)
		b, _ := json.Marshal(map[string]any{"eps": names, "inl_depth": c14InlDepth, "no_depth": c14NoDepth,
			"ua_eps": c14UAEps, "ua_rec_eps": uaRec, "term_eps": termEps,
			"line_sites": lineSites, "line_eps": lineEps, "line_depth": c14LineDepth,
			"hist_withs": clr14Withs, "hist_touches": clr14Touches, "hist_fams": clr14Fams, "hist_eps": clr14Eps})
		fmt.Println(string(b))
		return 0
	}
	if len(args) >= 1 && args[0] == "hist" {
		return clr14Hist(args[1:])
	}
	if len(args) >= 2 && args[0] == "one" {
		return c14One(args[1])
	}
	if len(args) < 4 || args[0] != "run" {
		fmt.Fprintln(os.Stderr, "usage: worker c14 run <cells.ndjson> <trace.ndjson> <detail.ndjson> | worker c14 hist <behaviours.ndjson> <trace.ndjson> [<detail.ndjson>] | worker c14 list")
		return 2
	}
	in, err := os.Open(args[1])
	if err != nil {
		fmt.Fprintln(os.Stderr, err)
		return 2
	}
	defer in.Close()
	trace := newTraceOut(args[2])
	defer trace.close()
	detail := newTraceOut(args[3])
	defer detail.close()

	sc := bufio.NewScanner(in)
	sc.Buffer(make([]byte, 1<<20), 1<<20)
	var cells []*c14Cell
	for sc.Scan() {
		line := strings.TrimSpace(sc.Text())
		if line == "" {
			continue
		}
		c := &c14Cell{}
		if err := json.Unmarshal([]byte(line), c); err != nil {
			fmt.Fprintln(os.Stderr, "bad cell:", err)
			return 2
		}
		if c.UA == "" {
			c.UA = "none"
		}
		if c.Route == "" {
			c.Route = "direct"
		}
		cells = append(cells, c)
	}
	if err := sc.Err(); err != nil {
		fmt.Fprintln(os.Stderr, err)
		return 2
	}
	// cells whose entry point ends the process (package log's Fatal*): each in a process of its own, started
	// here (a few at a time) and collected when the cell's turn comes
	term := map[int]chan c14Detail{}
	sem := make(chan struct{}, 6)
	for _, c := range cells {
		if st := c14Sites[c.Ep]; st != nil && st.term {
			ch := make(chan c14Detail, 1)
			term[c.ID] = ch
			go func(c *c14Cell) {
				sem <- struct{}{}
				ch <- c14Child(c)
				<-sem
			}(c)
		}
	}
	for _, c := range cells {
		var d c14Detail
		if ch := term[c.ID]; ch != nil {
			d = <-ch
		} else {
			d = c14Run(c)
		}
		trace.emit(c14TraceLine{c14Cell: *c, Got: d.Got})
		detail.emit(d)
	}
	return 0
}

// ---- cells in a process of their own

const c14OneMark = "@@c14one "

var c14OneOnce sync.Once

// c14One (child): runs one cell; the result is printed from inside the destination's Write, because
// the entry point does not return (log.Fatal* calls os.Exit after the record was written).
func c14One(cellJSON string) int {
	c := &c14Cell{}
	if err := json.Unmarshal([]byte(cellJSON), c); err != nil {
		fmt.Fprintln(os.Stderr, "bad cell:", err)
		return 2
	}
	d := c14Run(c)
	c14OnePrint(&d) // (only reached when the entry point returned)
	return 0
}

func c14OnePrint(d *c14Detail) {
	c14OneOnce.Do(func() {
		b, _ := json.Marshal(d)
		os.Stdout.WriteString(c14OneMark + string(b) + "\n")
		_ = os.Stdout.Sync()
	})
}

// c14Child (parent): runs the cell in a child process and reads its result.
func c14Child(c *c14Cell) (d c14Detail) {
	d.ID = c.ID
	d.Got = c14Got{K: "none", I: -1}
	b, _ := json.Marshal(c)
	argv := []string{"c14", "one", string(b)}
	for _, a := range os.Args[1:] {
		if strings.HasPrefix(a, "-test.") {
			argv = append(argv, a)
		}
	}
	cmd := exec.Command(os.Args[0], argv...)
	cmd.Args[0] = os.Args[0]
	var stderr strings.Builder
	cmd.Stderr = &stderr
	out, err := cmd.Output()
	for _, ln := range strings.Split(string(out), "\n") {
		if strings.HasPrefix(ln, c14OneMark) {
			var got c14Detail
			if e := json.Unmarshal([]byte(ln[len(c14OneMark):]), &got); e != nil {
				d.HErr = "child process: unreadable result: " + e.Error()
				return
			}
			got.ID = c.ID
			return got
		}
	}
	code := -1
	if ee, ok := err.(*exec.ExitError); ok {
		code = ee.ExitCode()
	} else if err == nil {
		code = 0
	}
	if code == 1 { // package log ended the process and the destination never saw a Write
		d.Shape = "none"
		d.Got = c14Got{K: "norecord", I: -1}
		return
	}
	tail := stderr.String()
	if len(tail) > 600 {
		tail = tail[len(tail)-600:]
	}
	d.HErr = fmt.Sprintf("child process ended without a result (exit %d): %s", code, tail)
	return
}

// c14FuncFile: the file the symbol table has for the body of f (the line after its entry).
func c14FuncFile(f func()) string {
	if f == nil {
		return ""
	}
	fn := runtime.FuncForPC(reflect.ValueOf(f).Pointer())
	if fn == nil {
		return ""
	}
	// walk a few bytes into the function: the prologue belongs to the func line, the body to the directive
	for off := uintptr(0); off < 256; off++ {
		file, _ := fn.FileLine(fn.Entry() + off)
		if !strings.HasSuffix(file, ".go") || !strings.Contains(file, "fam_caller_lines") {
			return file
		}
	}
	file, _ := fn.FileLine(fn.Entry())
	return file
}

// c14SafetyFiles: the documented path hardening of a frame's file (every outcome of a few
// evaluations - the hardening walks a Go map).
func c14SafetyFiles(file string) []string {
	out := []string{slog.Safety(file)}
	for i := 0; i < 6; i++ {
		f := slog.Safety(file)
		dup := false
		for _, x := range out {
			dup = dup || x == f
		}
		if !dup {
			out = append(out, f)
		}
	}
	return out
}

// c14ColorCallerOf: the coloured line ends in " file:line func"; a file name may hold blanks,
// quotes, anything - so the frames of the real stack are the candidates: the first one whose
// rendering (file after the documented hardening) is the end of the line.
func c14ColorCallerOf(p []byte, stack []c14Frame) *c14Caller {
	raw := strings.TrimRight(string(p), "\r\n")
	stripped := c14SGR.ReplaceAllString(raw, "")
	for _, f := range stack {
		for _, file := range c14SafetyFiles(f.File) {
			want := " " + file + ":" + strconv.Itoa(f.Line) + " " + c14Short(f.Func)
			if strings.HasSuffix(stripped, want) || strings.HasSuffix(stripped, c14SGR.ReplaceAllString(want, "")) {
				return &c14Caller{File: file, Line: f.Line, Func: c14Short(f.Func)}
			}
		}
	}
	return nil
}

// c14Defaults points the package-level default destinations at the recorder (children and
// loggers without an own writer use them).
func c14Defaults() {
	dw := slog.GetDefaultWriter().(interface {
		SetWriter(w io.Writer)
		SetErrorWriter(w io.Writer)
		ResetLevelWriters()
	})
	dw.SetWriter(c14rec)
	dw.SetErrorWriter(c14rec)
	dw.ResetLevelWriters()
}

var c14Serial int

// c14Run builds the logger the cell describes, issues the record through the wrapper chain and
// projects the outcome.
func c14Run(c *c14Cell) (d c14Detail) {
	d.ID = c.ID
	d.Got = c14Got{K: "none", I: -1}
	if _, ok := c14Sites[c.Ep]; !ok {
		d.HErr = "entry point unknown to the worker"
		return
	}
	if (c.Inl && c.Depth > c14InlDepth) || (!c.Inl && c.Depth > c14NoDepth) || c.Depth < 0 {
		d.HErr = "wrapper depth not available in the worker"
		return
	}
	mwDepth, ok := c14RouteDepth(c.Route)
	if !ok || (mwDepth > 0 && c.Fam != "adapter") {
		d.HErr = "route not available in the worker"
		return
	}

	// -- process-global settings (documented defaults; Panic/Fatal must not end the process)
	slog.SetFlags(slog.LstdFlags | slog.LnoInterrupt)
	c14Defaults()
	c14Serial++

	// the std-log bridge compares its severity with the logger's level; Info/Info emits whichever
	// way that comparison is written.  Everything else runs with all severities enabled.
	level := slog.TraceLevel
	if c.Fam == "bridge" {
		level = slog.InfoLevel
	}

	setFormat := func(e *slog.Entry) {
		switch c.Fmt {
		case "json":
			e.SetJSONMode(true)
		case "logfmt":
			e.SetJSONMode(false)
			e.SetColorMode(false)
		default:
			e.SetColorMode(true)
		}
	}

	// -- base logger of the requested kind
	root := slog.New(fmt.Sprintf("c14r%d", c14Serial)) // detached root: *logimp behind slog.Logger
	setFormat(root.SetLevel(level))
	var base slog.Logger = root
	if c.Kind == "child" || c.Kind == "defchild" {
		// the parent already carries a skip count of its own when the child is made (a wrapper type
		// around the parent logger): a child starts with none, whatever its parent has
		root.SetSkip(1 + c14Serial%3)
		kid := root.New("kid")
		setFormat(kid.SetLevel(level))
		base = kid
	}
	isDef := c.Kind == "defroot" || c.Kind == "defchild"
	if isDef {
		slog.SetDefault(base)
	}
	defer slog.SetDefault(slog.New()) // leave no logger of this cell behind as the default

	// -- give it the skip count the way the cell says
	target := base
	setSkip := func(n int) {
		if isDef {
			slog.SetSkip(n) // package-level form: acts on the default logger
		} else {
			base.SetSkip(n)
		}
	}
	withSkip := func(n int) slog.Logger {
		if isDef {
			return slog.WithSkip(n) // child of the default logger
		}
		return base.WithSkip(n)
	}
	// the log/slog handler / std-log bridge is built on the logger either after the skip count was
	// given (the usual order) or - every other cell - BEFORE the last SetSkip: the attribution must
	// follow the logger's current skip count either way
	built := false
	uaWhere, uaGroup := c.ua()
	if uaWhere == "log" { // the logger itself carries the attribute (a WithSkip child inherits it)
		if c14Serial%2 == 0 {
			root.SetAttrs(c14UAAttr(uaGroup))
		} else {
			root.Set(c14UAAttr(uaGroup))
		}
	}
	buildFront := func(t slog.Logger) {
		c14SL, c14Std = nil, nil
		switch c.Fam {
		case "adapter":
			h := slog.NewSlogHandler(t, &slog.HandlerOptions{NoColor: c.Fmt != "color", JSON: c.Fmt == "json"})
			for k := 0; k < mwDepth; k++ { // the adapter behind other handlers
				h = c14MW{h}
			}
			c14SL = logslog.New(h)
			if uaWhere == "hdl" { // Logger.With -> Handler.WithAttrs
				c14SL = c14SL.With(c14UASLAttr(uaGroup))
			}
			if c.Ep == "logslog.std.Print" { // log/slog's own std-log front end on the handler
				c14Std = logslog.NewLogLogger(c14SL.Handler(), logslog.LevelInfo)
			}
		case "bridge":
			c14Std = slog.NewLogLogger(t, slog.InfoLevel)
			if strings.HasPrefix(c.Ep, "log.") { // package log itself writes into the bridge
				log.SetOutput(c14Std.Writer())
			}
		}
		built = true
	}
	if c.Fam == "bridge" && strings.HasPrefix(c.Ep, "log.") {
		defer func(w io.Writer, f int) { log.SetOutput(w); log.SetFlags(f) }(log.Writer(), log.Flags())
		if c14Serial%3 == 0 { // package log then looks for file:line itself (its own runtime.Caller) - nothing the bridge sees
			log.SetFlags(log.LstdFlags | log.Lshortfile)
		}
	}
	early := c14Serial%2 == 1 && (c.Fam == "adapter" || c.Fam == "bridge")
	frontTarget := func() slog.Logger {
		if isDef {
			return slog.Default()
		}
		return base
	}
	switch c.Via {
	case "none":
	case "Set":
		if early {
			buildFront(frontTarget())
		}
		setSkip(c.Skip)
	case "With":
		target = withSkip(c.Skip)
	case "SetSet":
		setSkip(c.Other)
		if early {
			buildFront(frontTarget())
		}
		setSkip(c.Skip)
	case "WithOver":
		setSkip(c.Other)
		target = withSkip(c.Skip)
	default:
		d.HErr = "unknown via"
		return
	}
	if uaWhere == "log" && target != base { // a WithSkip child does not print its parent's attributes: it carries its own
		if e, ok := target.(interface {
			SetAttrs(attrs ...slog.Attr) *slog.Entry
		}); ok {
			e.SetAttrs(c14UAAttr(uaGroup))
		}
	}
	if isDef {
		if target != base {
			slog.SetDefault(target) // package-level functions log through the default logger
		}
		target = slog.Default()
	}

	// -- front ends
	c14L = target
	if !built {
		buildFront(target)
	}
	c14KV, c14SLKV, c14SLAttrs = nil, nil, nil
	if uaWhere == "rec" {
		if !uaGroup && c14Serial%2 == 0 {
			c14KV, c14SLKV = []any{"caller", c14UAPlain}, []any{"caller", c14UAPlain} // key, value pairs
		} else {
			c14KV, c14SLKV = []any{c14UAAttr(uaGroup)}, []any{c14UASLAttr(uaGroup)}
		}
		c14SLAttrs = []logslog.Attr{c14UASLAttr(uaGroup)}
	}

	c14Issue(c, &d, true)
	return
}

// c14Issue issues one record through the entry point c.Ep with the front ends currently installed
// in c14L / c14SL / c14Std, through a chain of c.Depth wrappers (inlinable or //go:noinline), and
// projects the outcome into d: which frame of the real call stack the caller member names.
// checkFmt: the record must be in the format the cell names (the history component lets loggers
// keep whatever format their derivation gave them).
func c14Issue(c *c14Cell, d *c14Detail, checkFmt bool) {
	site, ok := c14Sites[c.Ep]
	if !ok {
		d.HErr = "entry point unknown to the worker"
		return
	}
	if (c.Inl && c.Depth > c14InlDepth) || (!c.Inl && c.Depth > c14NoDepth) || c.Depth < 0 {
		d.HErr = "wrapper depth not available in the worker"
		return
	}
	d.Got = c14Got{K: "none", I: -1}
	ls := c.line()
	if c.Site != "" && c.Site != "go" && (ls == nil || ls.sites[c.Ep] == nil || c.Inl || c.Depth > c14LineDepth) {
		d.HErr = "//line chain not available in the worker"
		return
	}

	// -- the chain
	var top func()
	if ls != nil { // every frame of the chain sits behind a //line directive
		d.SiteFile = strconv.QuoteToASCII(ls.file)
		c14Next = ls.sites[c.Ep]
		top = c14Next
		if c.Depth > 0 {
			top = ls.chain[c.Depth]
		}
	} else if c.Inl {
		top = site.inl[c.Depth]
	} else if uaWhere, _ := c.ua(); uaWhere == "rec" {
		if site.at == nil {
			d.HErr = "entry point has no issuing function that passes attributes"
			return
		}
		c14Next = site.at
		top = site.at
		if c.Depth > 0 {
			top = c14NoChain[c.Depth]
		}
	} else {
		c14Next = site.no
		top = site.no
		if c.Depth > 0 {
			top = c14NoChain[c.Depth]
		}
	}

	c14rec.reset()
	c14Panics = site.pan
	if site.term { // the call does not return: the outcome is projected and printed from inside the destination's Write
		c14rec.onWrite = func() {
			c14Project(c, d, ls, checkFmt)
			c14OnePrint(d)
		}
	}
	c14drive(top)
	c14Panics = false
	c14rec.onWrite = nil
	c14Project(c, d, ls, checkFmt)
}

// c14Project: which frame of the real call stack (captured by the destination) the caller member of the
// record names.
func c14Project(c *c14Cell, d *c14Detail, ls *c14LineSite, checkFmt bool) {
	d.Got = c14Got{K: "none", I: -1}
	d.Writes = c14rec.writes
	d.Record = string(c14rec.payload)
	if c14rec.writes == 0 {
		d.Shape = "none"
		d.Got = c14Got{K: "norecord", I: -1}
		return
	}
	d.User = d.User[:0]
	for _, f := range c14rec.stack {
		if c14IsUser(f.Func) {
			d.User = append(d.User, f)
		}
	}
	if herr := c14CheckChain(c, d.User); herr != "" {
		d.HErr = herr
		return
	}
	d.Shape, d.Caller = c14Decode(c14rec.payload)
	if ls != nil && d.Shape == "color" {
		if cl := c14ColorCallerOf(c14rec.payload, c14rec.stack); cl != nil {
			d.Caller = cl
		}
	}
	if checkFmt && d.Shape != c.Fmt {
		d.HErr = "record is not in the format of the cell"
		return
	}
	if uaWhere, _ := c.ua(); uaWhere != "" {
		d.UASeen = strings.Contains(d.Record, c14UAPlain) || strings.Contains(d.Record, c14UAFile)
		if d.Shape != "color" && c14IsUA(c14CallerRaw) { // the last member of that name is the program's attribute
			d.Got = c14Got{K: "attr", I: -1}
			return
		}
	}
	if d.Caller == nil {
		d.Got = c14Got{K: "missing", I: -1}
		return
	}
	same := func(f c14Frame) bool {
		fn := f.Func
		if d.Shape == "color" { // the console line prints the function without its import path
			fn = c14Short(fn)
		}
		if ls != nil { // the file EXACTLY as the documented hardening leaves what the runtime reports
			ok := false
			for _, file := range c14SafetyFiles(f.File) {
				ok = ok || file == d.Caller.File
			}
			return ok && f.Line == d.Caller.Line && fn == d.Caller.Func
		}
		return filepath.Base(f.File) == filepath.Base(d.Caller.File) && f.Line == d.Caller.Line && fn == d.Caller.Func
	}
	for j, f := range d.User {
		if same(f) {
			d.Got = c14Got{K: "user", I: j}
			d.GotFunc = f.Func
			return
		}
	}
	for _, f := range c14rec.stack {
		if same(f) {
			d.Got = c14Got{K: "lib", I: -1}
			d.GotFunc = f.Func
			return
		}
	}
}

func c14IsUser(fn string) bool {
	return strings.HasPrefix(fn, "main.c14s") || strings.HasPrefix(fn, "main.c14w") || fn == "main.c14drive"
}

func c14Short(fn string) string {
	if p := strings.LastIndex(fn, "/"); p >= 0 {
		return fn[p+1:]
	}
	return fn
}

// c14CheckChain verifies that the real stack has the shape the cell asked for: site, d wrappers,
// driver - otherwise the cell was not executed as specified (a harness problem).
func c14CheckChain(c *c14Cell, user []c14Frame) string {
	if len(user) != c.Depth+2 {
		return fmt.Sprintf("real stack has %d user frames, cell wants %d", len(user), c.Depth+2)
	}
	id := c14Ident(c.Ep)
	ls := c.line()
	for j, f := range user {
		var want string
		switch {
		case j == c.Depth+1:
			want = "main.c14drive"
		case ls != nil && j == 0:
			want = fmt.Sprintf("main.c14sL%d_%s", ls.k, id)
		case ls != nil:
			want = fmt.Sprintf("main.c14wL%d_%d", ls.k, j)
		case j == 0 && c.Inl:
			want = "main.c14sI_" + id
		case j == 0 && strings.HasPrefix(c.UA, "rec-"):
			want = "main.c14sA_" + id
		case j == 0:
			want = "main.c14sN_" + id
		case c.Inl:
			want = fmt.Sprintf("main.c14w%dI_%s", j, id)
		default:
			want = fmt.Sprintf("main.c14wN%d", j)
		}
		if f.Func != want {
			return fmt.Sprintf("user frame %d is %s, cell wants %s", j, f.Func, want)
		}
	}
	return ""
}

func c14Ident(ep string) string {
	switch {
	case strings.HasPrefix(ep, "slog."):
		return "Pkg_" + ep[5:]
	case strings.HasPrefix(ep, "logslog.std."):
		return "SlStd_" + ep[12:]
	case strings.HasPrefix(ep, "logslog."):
		return "Sl_" + ep[8:]
	case strings.HasPrefix(ep, "log."):
		return "Log_" + ep[4:]
	case strings.HasPrefix(ep, "stdlog."):
		return "Std_" + ep[7:]
	}
	return ep
}

// ---- decoders

var c14SGR = regexp.MustCompile("\x1b\\[[0-9;]*m")

func c14Decode(p []byte) (shape string, cl *c14Caller) {
	c14CallerRaw = nil
	s := strings.TrimRight(string(p), "\r\n")
	switch {
	case strings.HasPrefix(s, "{"):
		shape = "json"
		var m map[string]any
		if err := json.Unmarshal([]byte(s), &m); err != nil {
			return
		}
		c14CallerRaw = m["caller"]
		cm, ok := m["caller"].(map[string]any)
		if !ok {
			return
		}
		file, ok1 := cm["file"].(string)
		line, ok2 := cm["line"].(float64)
		fn, ok3 := cm["function"].(string)
		if ok1 && ok2 && ok3 {
			cl = &c14Caller{File: file, Line: int(line), Func: fn}
		}
	case strings.Contains(s, "\x1b["):
		shape = "color"
		f := strings.Fields(c14SGR.ReplaceAllString(s, ""))
		if len(f) < 2 {
			return
		}
		fl := f[len(f)-2]
		p := strings.LastIndex(fl, ":")
		if p < 0 {
			return
		}
		n, err := strconv.Atoi(fl[p+1:])
		if err != nil {
			return
		}
		cl = &c14Caller{File: fl[:p], Line: n, Func: f[len(f)-1]}
	default:
		shape = "logfmt"
		kv := c14Logfmt(s)
		file, ok1 := kv["caller.file"]
		if ok1 {
			c14CallerRaw = file
		}
		line, ok2 := kv["caller.line"]
		fn, ok3 := kv["caller.function"]
		n, err := strconv.Atoi(line)
		if ok1 && ok2 && ok3 && err == nil {
			cl = &c14Caller{File: file, Line: n, Func: fn}
		}
	}
	return
}

// c14Logfmt splits `k=v k="quoted \" v" ...` into a map (later keys win).
func c14Logfmt(s string) map[string]string {
	out := map[string]string{}
	i := 0
	for i < len(s) {
		for i < len(s) && s[i] == ' ' {
			i++
		}
		st := i
		for i < len(s) && s[i] != '=' && s[i] != ' ' {
			i++
		}
		key := s[st:i]
		if i >= len(s) || s[i] != '=' {
			continue
		}
		i++
		if i < len(s) && s[i] == '"' {
			st = i
			i++
			for i < len(s) {
				if s[i] == '\\' {
					i += 2
					continue
				}
				if s[i] == '"' {
					i++
					break
				}
				i++
			}
			if i > len(s) {
				i = len(s)
			}
			if v, err := strconv.Unquote(s[st:i]); err == nil {
				out[key] = v
			} else {
				out[key] = s[st:i]
			}
			continue
		}
		st = i
		for i < len(s) && s[i] != ' ' {
			i++
		}
		out[key] = s[st:i]
	}
	return out
}
