package main

// Colored console projection (C06): an SGR scanner that turns the payload into the stream of
// integers spec/Encoder.tla's terminal-state machine consumes (SGR parameters, -1 = line break),
// the text with the SGR sequences removed, and a layout parser for that text.

import (
	"math/rand"
	"regexp"
	"strconv"
	"strings"
	"time"
	"unicode/utf8"

	"github.com/hedzr/is/term/color"
	"github.com/hedzr/logg/slog"
)

// ---- level colour configuration (record field lc / event SetColors of the specifications)

var encFgCodes = []int{31, 32, 33, 34, 35, 36, 37, 90, 91, 92, 94, 96, 97}
var encBgCodes = []int{40, 41, 42, 43, 44, 45, 46, 47, 100, 101, 104, 107}
var encAttrCodes = []int{1, 2, 3, 4, 5, 7, 9} // bold, dim, italic, underline, blink, inverse, strikeout

// encFactoryColours: what the library starts with (slog/level.go mLevelColors, the registrations of
// encMain).  Used ONLY to put the process-wide table back after a record / between behaviours; no
// expectation is computed from it.
var encFactoryColours = map[int][2]int{0: {91, -1}, 1: {91, -1}, 2: {31, -1}, 3: {33, -1}, 4: {36, -1}, 5: {35, -1},
	6: {33, 2}, 7: {30, 2}, 8: {37, 5}, 9: {96, 5}, 10: {32, 5}, 11: {31, 1}, 17: {34, 2}, 18: {92, -1}}

// encSetColours calls slog.SetLevelColors with concrete codes of the classes lc names.
func encSetColours(sev int, lc encLC, r *rand.Rand) (fg, bg int) {
	fg, bg = -1, -1
	if lc.Fg == "fg" {
		fg = encFgCodes[r.Intn(len(encFgCodes))]
	}
	switch lc.Bg {
	case "bg":
		bg = encBgCodes[r.Intn(len(encBgCodes))]
	case "attr":
		bg = encAttrCodes[r.Intn(len(encAttrCodes))]
	}
	slog.SetLevelColors(slog.Level(sev), color.Color(fg), color.Color(bg))
	return
}

func encRestoreColours(sev int) {
	if f, ok := encFactoryColours[sev]; ok {
		slog.SetLevelColors(slog.Level(sev), color.Color(f[0]), color.Color(f[1]))
	}
}

func encIntIn(s []int, x int) bool {
	for _, y := range s {
		if y == x {
			return true
		}
	}
	return false
}

// encScanSGR: stream of SGR parameters / line breaks, stripped text, number of raw control
// characters that are not part of an SGR sequence (ESC, C0 other than LF, DEL, C1 in either encoding).
func encScanSGR(p []byte) (stream []int, text []byte, rawctl int) {
	stream = []int{}
	for i := 0; i < len(p); {
		b := p[i]
		if b == 0x1b && i+1 < len(p) && p[i+1] == '[' {
			j := i + 2
			for j < len(p) && (p[j] >= '0' && p[j] <= '9' || p[j] == ';') {
				j++
			}
			if j < len(p) && p[j] != 'm' {
				// ESC [ <parameter / intermediate bytes> m with a malformed parameter list (ESC [ - 1 m):
				// an escape sequence a terminal ignores - token -2 (Ign), no text, no state change
				k := j
				for k < len(p) && p[k] >= 0x20 && p[k] <= 0x3f {
					k++
				}
				if k < len(p) && p[k] == 'm' {
					stream = append(stream, -2)
					i = k + 1
					continue
				}
			}
			if j < len(p) && p[j] == 'm' {
				params := strings.Split(string(p[i+2:j]), ";")
				for k := 0; k < len(params); k++ {
					n, _ := strconv.Atoi(params[k]) // "" = 0
					// extended colours 38;5;n / 38;2;r;g;b (and 48;...): collapse to "a colour is on"
					if (n == 38 || n == 48) && k+1 < len(params) {
						skip := 2
						if params[k+1] == "2" {
							skip = 4
						}
						k += skip
						n = n - 1 // 37 / 47
					}
					stream = append(stream, n)
				}
				i = j + 1
				continue
			}
		}
		if b == '\n' {
			stream = append(stream, -1)
			text = append(text, b)
			i++
			continue
		}
		// a control character a terminal acts upon: C0, DEL, and the C1 range - as code points U+0080..U+009F or
		// as single bytes 0x80..0x9f outside any UTF-8 sequence (0x9b / U+009B is CSI, the short form of ESC [)
		ctl, w := encControlAt(string(p[i:min(i+4, len(p))]), 0)
		if ctl {
			rawctl++
		}
		text = append(text, p[i:i+w]...)
		i += w
	}
	return
}

// encTSOK: is this the timestamp field of the record?  The per-record check logs with a fixed
// instant; the history component (real entry points, time.Now) swaps in a window test.
var encTSOK = encTSFixed

func encTSFixed(field string) bool { return strings.Contains(field, encTS.UTC().Format("15:04:05")) }

// encTSWindow: the record was issued by a logging call between t0 and t1 (wall clock of the library).
func encTSWindow(t0, t1 time.Time) func(string) bool {
	return func(field string) bool {
		for t := t0.Add(-time.Second); !t.After(t1.Add(time.Second)); t = t.Add(time.Second) {
			if strings.Contains(field, t.Format("15:04:05")) || strings.Contains(field, t.UTC().Format("15:04:05")) {
				return true
			}
		}
		return false
	}
}

var encCallerRe = regexp.MustCompile(`^(.*) ([^=\s]*):(\d+) (\S+)$`)
var encCallerTailRe = regexp.MustCompile(`^(.*):(\d+) (\S+)$`)

// encColorCaller finds the caller at the end of the first line: " file:line func".  C06 fixes no
// quoting for it, so the file is looked for as the hardened file name of the call site itself or as
// its Go-quoted form (whatever characters it has - blanks, quotes, '='); only when neither is there
// the generic shape " <no blanks>:<digits> <func>" is taken (and the file then compared as found).
func encColorCaller(cur string, site encSite) (found bool, rest, file string, line int, fn string) {
	if m := encCallerTailRe.FindStringSubmatch(cur); m != nil {
		for _, f := range encSafetyFiles(site.file) {
			for _, shown := range []string{f, strconv.Quote(f)} {
				if m[1] == shown || strings.HasSuffix(m[1], " "+shown) {
					ln, _ := strconv.Atoi(m[2])
					return true, strings.TrimSuffix(strings.TrimSuffix(m[1], shown), " "), f, ln, m[3]
				}
			}
		}
	}
	if mm := encCallerRe.FindStringSubmatch(" " + cur); mm != nil {
		ln, _ := strconv.Atoi(mm[3])
		return true, strings.TrimPrefix(mm[1], " "), mm[2], ln, mm[4]
	}
	return false, cur, "", 0, ""
}

func encObsColor(r *encRun, payload []byte, site encSite) map[string]any {
	stream, text, rawctl := encScanSGR(payload)
	// a value that carries an escape sequence and comes out verbatim is a raw escape even when it
	// happens to be a well-formed SGR sequence
	var walk func(ns []*encNode)
	walk = func(ns []*encNode) {
		for _, n := range ns {
			if n.Kind == "group" {
				walk(n.Sub)
			} else if strings.Contains(n.text, "\x1b[38;5;201m") && strings.Contains(string(payload), "\x1b[38;5;201m") {
				rawctl++
			}
		}
	}
	walk(r.c.Attrs)
	o := map[string]any{"stream": stream, "rawctl": rawctl, "parsed": false, "ts": false, "hasname": false, "namert": false,
		"tagw": 0, "tagok": false, "firstrt": false, "lenb": 0, "lenr": 0, "padb": -1, "padr": -1,
		"pairs": []map[string]any{}, "hascaller": false, "callerok": false, "cfilert": false, "nrest": 0, "restrt": false, "indent": false,
		"endnl": strings.HasSuffix(string(text), "\n")}
	s := string(text)
	if !strings.HasSuffix(s, "\n") {
		return o
	}
	lines := strings.Split(strings.TrimSuffix(s, "\n"), "\n")
	first := lines[0]
	rest := lines[1:]

	// message as the caller gave it: first line / remaining lines (trailing line breaks dropped)
	m := strings.TrimRight(r.msg, "\n")
	mFirst, mRest := m, ""
	hasRest := false
	if i := strings.IndexByte(m, '\n'); i >= 0 {
		mFirst, mRest, hasRest = m[:i], m[i+1:], true
	}

	// 1. timestamp
	sp := strings.IndexByte(first, ' ')
	if sp <= 0 {
		return o
	}
	o["ts"] = encTSOK(first[:sp])
	cur := first[sp+1:]
	// 2. optional logger name, 3. [TAG]
	if !strings.HasPrefix(cur, "[") {
		i := strings.Index(cur, " [")
		if i < 0 {
			return o
		}
		o["hasname"] = true
		o["namert"] = cur[:i] == r.name
		cur = cur[i+1:]
	}
	j := strings.Index(cur, "] ")
	if j < 0 {
		return o
	}
	tag := cur[1:j]
	o["tagw"] = utf8.RuneCountInString(tag)
	o["tagtext"] = tag // raw text for the history component (removed before the trace is written)
	o["tagok"] = utf8.ValidString(tag) && !strings.ContainsAny(tag, "[]")
	cur = cur[j+2:]
	o["parsed"] = true
	// 4. first line of the message and its padding
	o["lenb"], o["lenr"] = len(mFirst), utf8.RuneCountInString(mFirst)
	switch {
	case strings.HasPrefix(cur, mFirst):
		o["firstrt"] = true
		cur = cur[len(mFirst):]
	case strings.HasPrefix(cur, strings.TrimLeft(mFirst, " ")): // keep going, so that the rest is still described
		cur = cur[len(strings.TrimLeft(mFirst, " ")):]
	}
	pad := 0
	for pad < len(cur) && cur[pad] == ' ' {
		pad++
	}
	cur = cur[pad:]
	if cur != "" {
		pad-- // the separator in front of what follows
	}
	o["padb"], o["padr"] = len(mFirst)+pad, utf8.RuneCountInString(mFirst)+pad
	// 5. caller at the end: " file:line func"
	if found, rest, file, ln, fn := encColorCaller(cur, site); found {
		o["hascaller"] = true
		o["callerok"], o["cfilert"] = encCallerOK(site, file, ln, fn)
		cur = rest
	}
	// 6. attributes
	if ps, ok := encParseLogfmt(cur, false); ok {
		o["pairs"] = r.tokPairs(ps)
	} else {
		o["pairs"] = []map[string]any{{"path": []int{-2}, "kx": false, "rep": "bare", "vs": []int{}}}
	}
	// 7. remaining message lines, each indented by four spaces
	o["nrest"] = len(rest)
	indent := true
	texts := make([]string, 0, len(rest))
	for _, l := range rest {
		if strings.HasPrefix(l, "    ") {
			texts = append(texts, l[4:])
		} else {
			if l != "" {
				indent = false
			}
			texts = append(texts, l)
		}
	}
	o["indent"] = indent
	got := strings.TrimRight(strings.Join(texts, "\n"), "\n")
	if hasRest {
		o["restrt"] = got == mRest
	} else {
		o["restrt"] = got == ""
	}
	return o
}
