package main

import (
	"context"
	"encoding/json"
	"errors"
	"fmt"
	"io"
	"os"
	"os/exec"
	"regexp"
	"sort"
	"strconv"
	"strings"
	"syscall"
	"time"

	logslog "log/slog"

	"github.com/hedzr/is"
	"github.com/hedzr/logg/slog"
)

// "core": executes scripts of LoggCore events (Set/With/New/NewDetached/PkgSetLevel/SetDefault)
// against the real library and records, after every call, what the public API shows for
// every live logger.  The log is validated by TLC against spec/LoggCoreTrace.tla.

type coreEvent struct {
	Op string `json:"op"`
	L  int    `json:"l"`
	K  string `json:"k"`
	A  int    `json:"a"`
	B  int    `json:"b"`
	// LogA only
	Mc   string   `json:"mc,omitempty"`
	Args []string `json:"args,omitempty"`
}

type coreOpt struct {
	K string `json:"k"`
	A int    `json:"a"`
	B int    `json:"b"`
}

type customLevel struct {
	V     int    `json:"v"`
	Title string `json:"title"`
	Treat int    `json:"treat"` // -1: none
	Err   bool   `json:"err"`
}

type coreScript struct {
	Seed       int64         `json:"seed"`
	InitLevel  int           `json:"init_level"`
	Obs        []string      `json:"obs"`
	ProbeSevs  []int         `json:"probe_sevs"`
	GateSevs   []int         `json:"gate_sevs"`
	Names      []string      `json:"names"`
	BoolLists  [][]bool      `json:"bool_lists"`
	Layouts    []string      `json:"layouts"`
	OptLists   [][]coreOpt   `json:"opt_lists"`
	Customs    []customLevel `json:"customs"`
	FailSets   [][][]int     `json:"fail_sets"` // each: list of [phase, writer, occurrence]
	Groups     [][][]int     `json:"groups"`    // group table: members as [key, value]
	CtxVals    [][][]int     `json:"ctx_vals"`  // context contents: [context key, value]
	CallArgs   [][][]int     `json:"call_args"` // call-site attribute lists: [key, value]
	FlagSets   [][]string    `json:"flag_sets"` // flag sets (names) used by the flag calls
	TsLayouts  []string      `json:"ts_layouts"` // candidate layouts for the timestamp observation
	RegCalls   []coreRegCall `json:"reg_calls"`  // RegisterLevel calls of the Register action
	HandlerOpts []coreHandlerOpt `json:"handler_opts"` // options of the MkHandler action
	ProcPer    bool          `json:"proc_per"`   // one fresh process per behaviour (the level registry cannot be reset)
	BulkN      int           `json:"bulk_n"`     // children per BulkKids batch (1100 unless the script says otherwise)
	Behaviours [][]coreEvent `json:"behaviours"`
}

// coreRegCall is one RegisterLevel call: value, treated-as level (-1: none), error device,
// and whether the title is that of a built-in level (the call must then be refused).
type coreRegCall struct {
	V     int  `json:"v"`
	T     int  `json:"t"`
	E     bool `json:"e"`
	Clash bool `json:"clash"`
}

type coreHandlerOpt struct {
	NoColor  bool `json:"nocolor"`
	NoSource bool `json:"nosource"`
	JSON     bool `json:"json"`
	Level    int  `json:"level"`
}

type coreRun struct {
	handlers []logslog.Handler // log/slog handlers made by MkHandler, in order
	bulk     map[*slog.Entry]bool // children made by BulkKids
	restoreF []func() // restore functions returned by SaveFlagsAndMod, in order
	restoreL []func() // restore functions returned by SaveLevelAndSet
	sc      *coreScript
	loggers []*slog.Entry // index 0 unused
	ids     map[*slog.Entry]int
	obs     map[string]bool
	ts      time.Time
}

func init() { register("core", coreMain) }

func coreMain(args []string) int {
	if len(args) < 2 {
		fmt.Fprintln(os.Stderr, "usage: worker core <script.json> <trace.ndjson>")
		return 2
	}
	var sc coreScript
	readJSON(args[0], &sc)
	only := -1
	for i, a := range args {
		if a == "--only" && i+1 < len(args) {
			only, _ = strconv.Atoi(args[i+1])
		}
	}
	if sc.ProcPer && only < 0 {
		// the level registry is process-wide and cannot be reset: every behaviour gets a process of
		// its own (same binary, same name - the child is in the same process mode as this one)
		for i := range sc.Behaviours {
			cargs := []string{"core", args[0], fmt.Sprintf("%s.%d", args[1], i), "--only", strconv.Itoa(i)}
			for _, a := range os.Args[1:] {
				if strings.HasPrefix(a, "-test.") {
					cargs = append(cargs, a)
				}
			}
			cmd := exec.Command(os.Args[0], cargs...)
			cmd.Stderr = os.Stderr
			if err := cmd.Run(); err != nil {
				fmt.Fprintf(os.Stderr, "core: behaviour %d: child failed: %v\n", i, err)
				return 2
			}
		}
		out := newTraceOut(args[1])
		defer out.close()
		for i := range sc.Behaviours {
			pth := fmt.Sprintf("%s.%d", args[1], i)
			b, err := os.ReadFile(pth)
			if err != nil {
				fmt.Fprintln(os.Stderr, "core:", err)
				return 2
			}
			out.bw.Write(b)
			os.Remove(pth)
		}
		return 0
	}
	if only >= 0 {
		sc.Behaviours = sc.Behaviours[only : only+1]
	}
	out := newTraceOut(args[1])
	defer out.close()
	captureStdio()

	for _, c := range sc.Customs {
		var opts []slog.RegOpt
		if c.Treat >= 0 {
			opts = append(opts, slog.RegWithTreatedAsLevel(slog.Level(c.Treat)))
		}
		if c.Err {
			opts = append(opts, slog.RegWithPrintToErrorDevice(true))
		}
		if err := slog.RegisterLevel(slog.Level(c.V), c.Title, opts...); err != nil {
			fmt.Fprintln(os.Stderr, "register:", err)
			return 2
		}
	}
	r := &coreRun{sc: &sc, obs: map[string]bool{}, ts: time.Date(2024, 5, 6, 7, 8, 9, 123456789, time.UTC)}
	for _, o := range sc.Obs {
		r.obs[o] = true
	}
	for _, beh := range sc.Behaviours {
		r.reset()
		out.emit(map[string]any{"op": "Reset"})
		for _, ev := range beh {
			done := make(chan struct{})
			go func(ev coreEvent) {
				// a call that does not come back is recorded as such (the model rejects the line) and the process
				// ends.  "Does not come back" = 30 s of wall time during which the process used next to no CPU
				// (blocked: a deadlock), or 15 minutes whatever it does; a slow call on a busy machine is neither
				start, cpu0 := time.Now(), coreCPU()
				tick := time.NewTicker(5 * time.Second)
				defer tick.Stop()
				for {
					select {
					case <-done:
						return
					case <-tick.C:
						wall := time.Since(start)
						if (wall >= 30*time.Second && coreCPU()-cpu0 < 500*time.Millisecond) || wall >= 15*time.Minute {
							out.emit(map[string]any{"op": ev.Op, "l": ev.L, "k": ev.K, "a": ev.A, "b": ev.B, "ret": -1,
								"outcome": fmt.Sprintf("hang: the call (or an observation after it) did not return within %d s (process CPU time used meanwhile: %d ms)", int(wall.Seconds()), (coreCPU()-cpu0).Milliseconds())})
							out.close()
							os.Exit(0)
						}
					}
				}
			}(ev)
			rec := r.exec(ev)
			close(done)
			out.emit(rec)
		}
	}
	return 0
}

// reset brings the process-global state back to what the model calls InitState.
func (r *coreRun) reset() {
	slog.SetFlags(slog.LstdFlags | slog.LnoInterrupt)
	slog.SetDefault(slog.New())
	slog.SetLevel(slog.Level(r.sc.InitLevel))
	is.SetDebugMode(false)
	is.SetTraceMode(false)
	is.SetVerboseMode(false)
	takeAll()
	d := defaultEntry()
	r.loggers = []*slog.Entry{nil, d}
	r.ids = map[*slog.Entry]int{d: 1}
	r.restoreF, r.restoreL = nil, nil
	r.handlers = nil
	r.bulk = map[*slog.Entry]bool{}
	resetFileWriters()
	sink.reset()
}

// coreNamedWriter is the value an application passes to name a destination in a remove call: the writer
// itself, and os.Stdout / os.Stderr for the default destinations (ids -1 / -2)
func coreNamedWriter(id int) io.Writer {
	switch id {
	case STDOUT:
		return os.Stdout
	case STDERR:
		return os.Stderr
	}
	return getWriter(id)
}

func (r *coreRun) idOf(e *slog.Entry) int {
	if e == nil {
		return 0
	}
	if id, ok := r.ids[e]; ok {
		return id
	}
	r.loggers = append(r.loggers, e)
	id := len(r.loggers) - 1
	r.ids[e] = id
	return id
}

func (r *coreRun) opts(idx int) (res []any) {
	for _, o := range r.sc.OptLists[idx-1] {
		if o.K == "KV" {
			// a bare key, value pair among the arguments of New: New(name, "k", v, ...)
			res = append(res, attrName(o.A), o.B)
			continue
		}
		res = append(res, r.opt(o))
	}
	return
}

// sharedAttrs returns ONE Attrs value per (key, value), with spare capacity, handed to every logger
// that asks for it - as a program that builds a common attribute set once would do.
var coreSharedAttrs = map[[2]int]slog.Attrs{}

func (r *coreRun) sharedAttrs(a, b int) slog.Attrs {
	k := [2]int{a, b}
	if v, ok := coreSharedAttrs[k]; ok {
		return v
	}
	var v slog.Attrs
	if (a+b)%2 == 1 {
		// built the documented way, SetAttrs1(NewAttrs(...)): such a list starts with empty (nil) slots, which
		// end up BETWEEN the attributes once two lists are appended
		v = slog.NewAttrs(r.mkAttr(a, b))
	} else {
		v = make(slog.Attrs, 0, 8)
		v = append(v, r.mkAttr(a, b))
	}
	coreSharedAttrs[k] = v
	return v
}

func (r *coreRun) manyAttrs(n, first int) []slog.Attr {
	res := make([]slog.Attr, 0, n)
	for i := 0; i < n; i++ {
		res = append(res, slog.Int(attrName(first+i), i+1))
	}
	return res
}

func (r *coreRun) bools(a int) []bool { return r.sc.BoolLists[a-1] }

func (r *coreRun) layouts(a int) []string {
	if r.sc.Layouts[a-1] == "" {
		return nil
	}
	return []string{r.sc.Layouts[a-1]}
}

func (r *coreRun) opt(o coreOpt) slog.Opt {
	switch o.K {
	case "JSONMode":
		return slog.WithJSONMode(r.bools(o.A)...)
	case "ColorMode":
		return slog.WithColorMode(r.bools(o.A)...)
	case "UTCMode":
		return slog.WithUTCMode(r.bools(o.A)...)
	case "TimeFormat":
		return slog.WithTimeFormat(r.layouts(o.A)...)
	case "Level":
		return slog.WithLevel(slog.Level(o.A))
	case "Attrs":
		return slog.WithAttrs(r.mkAttr(o.A, o.B))
	case "Attrs1":
		return slog.WithAttrs1(r.sharedAttrs(o.A, o.B))
	case "SetKV":
		return slog.With(attrName(o.A), o.B)
	case "AttrsN":
		return slog.WithAttrs(r.manyAttrs(o.A, o.B)...)
	case "Attrs0":
		switch o.A % 3 {
		case 0:
			return slog.WithAttrs()
		case 1:
			return slog.With()
		}
		return slog.WithAttrs1(nil)
	case "Writer":
		return slog.WithWriter(getWriter(o.A))
	case "AddWriter":
		return slog.AddWriter(getWriter(o.A))
	case "ErrorWriter":
		return slog.WithErrorWriter(getWriter(o.A))
	case "AddErrorWriter":
		return slog.AddErrorWriter(getWriter(o.A))
	case "AddLevelWriter":
		return slog.AddLevelWriter(slog.Level(o.B), getWriter(o.A))
	case "RemoveLevelWriter":
		return slog.RemoveLevelWriter(slog.Level(o.B), getWriter(o.A))
	case "ResetLevelWriter":
		return slog.ResetLevelWriter(slog.Level(o.B))
	case "ResetLevelWriters":
		return slog.ResetLevelWriters()
	case "ResetWriters":
		return slog.ResetWriters()
	}
	panic("unknown option kind " + o.K)
}

func (r *coreRun) set(l *slog.Entry, k string, a, b int) *slog.Entry {
	switch k {
	case "JSONMode":
		return l.SetJSONMode(r.bools(a)...)
	case "ColorMode":
		return l.SetColorMode(r.bools(a)...)
	case "UTCMode":
		return l.SetUTCMode(r.bools(a)...)
	case "TimeFormat":
		return l.SetTimeFormat(r.layouts(a)...)
	case "Level":
		return l.SetLevel(slog.Level(a))
	case "Attrs":
		return l.SetAttrs(r.mkAttr(a, b))
	case "Attrs1":
		return l.SetAttrs1(r.sharedAttrs(a, b))
	case "SetKV":
		return l.Set(attrName(a), b)
	case "AttrsN":
		return l.SetAttrs(r.manyAttrs(a, b)...)
	case "Attrs0":
		switch a % 4 {
		case 0:
			return l.SetAttrs()
		case 1:
			return l.Set()
		case 2:
			return l.SetAttrs1(nil)
		}
		return l.SetContextKeys()
	case "Skip":
		l.SetSkip(a)
		return l
	case "CtxKeys":
		return l.SetContextKeys(mkCtxKey(a))
	case "CtxReset":
		return l.ResetContextKeys()
	case "Writer":
		return l.SetWriter(getWriter(a))
	case "AddWriter":
		return l.AddWriter(getWriter(a))
	case "RemoveWriter":
		return l.RemoveWriter(coreNamedWriter(a))
	case "ErrorWriter":
		return l.SetErrorWriter(getWriter(a))
	case "AddErrorWriter":
		return l.AddErrorWriter(getWriter(a))
	case "RemoveErrorWriter":
		return l.RemoveErrorWriter(coreNamedWriter(a))
	case "AddLevelWriter":
		return l.AddLevelWriter(slog.Level(b), getWriter(a))
	case "RemoveLevelWriter":
		return l.RemoveLevelWriter(slog.Level(b), getWriter(a))
	case "ResetLevelWriter":
		return l.ResetLevelWriter(slog.Level(b))
	case "ResetLevelWriters":
		return l.ResetLevelWriters()
	case "ResetWriters":
		return l.ResetWriters()
	}
	panic("unknown setter kind " + k)
}

func (r *coreRun) with(l *slog.Entry, k string, a, b int) *slog.Entry {
	switch k {
	case "JSONMode":
		return l.WithJSONMode(r.bools(a)...)
	case "ColorMode":
		return l.WithColorMode(r.bools(a)...)
	case "UTCMode":
		return l.WithUTCMode(r.bools(a)...)
	case "TimeFormat":
		return l.WithTimeFormat(r.layouts(a)...)
	case "Level":
		return l.WithLevel(slog.Level(a))
	case "Attrs":
		return l.WithAttrs(r.mkAttr(a, b))
	case "Attrs1":
		return l.WithAttrs1(r.sharedAttrs(a, b))
	case "SetKV":
		return l.With(attrName(a), b)
	case "AttrsN":
		return l.WithAttrs(r.manyAttrs(a, b)...)
	case "Attrs0":
		switch a % 4 {
		case 0:
			return l.WithAttrs()
		case 1:
			return l.With()
		case 2:
			return l.WithAttrs1(slog.Attrs{})
		}
		return l.WithContextKeys()
	case "Skip":
		return l.WithSkip(a)
	case "CtxKeys":
		return l.WithContextKeys(mkCtxKey(a))
	case "Writer":
		return l.WithWriter(getWriter(a))
	case "ErrorWriter":
		return l.WithErrorWriter(getWriter(a))
	}
	panic("unknown with kind " + k)
}

func (r *coreRun) exec(ev coreEvent) (rec map[string]any) {
	// random scripts only know an upper bound of the number of loggers: fold the receiver
	// into the loggers that exist, and record the receiver actually used
	if n := len(r.loggers) - 1; ev.L > n && ev.Op != "HEmit" {
		ev.L = (ev.L-1)%n + 1
	}
	if ev.Op == "HEmit" && len(r.handlers) > 0 {
		ev.L = (ev.L-1)%len(r.handlers) + 1 // ev.L is a handler here
	}
	if n := len(r.loggers) - 1; (ev.Op == "LogNest" || ev.Op == "EachNew") && ev.A > n {
		ev.A = (ev.A-1)%n + 1 // ev.A is a logger here
	}
	rec = map[string]any{"op": ev.Op, "l": ev.L, "k": ev.K, "a": ev.A, "b": ev.B}
	defer func() {
		if p := recover(); p != nil {
			rec["panic"] = fmt.Sprint(p)
			rec["ret"] = -1
		}
	}()
	var l *slog.Entry
	if ev.L > 0 && ev.L < len(r.loggers) {
		l = r.loggers[ev.L]
	}
	ret := 0
	okReg, isReg := false, false
	var closedW []int
	switch ev.Op {
	case "Set":
		ret = r.idOf(r.set(l, ev.K, ev.A, ev.B))
	case "With":
		ret = r.idOf(r.with(l, ev.K, ev.A, ev.B))
	case "New":
		var args []any
		if ev.K != "" {
			args = append(args, ev.K)
		}
		args = append(args, r.opts(ev.A)...)
		ret = r.idOf(l.New(args...))
	case "NewDetached":
		var args []any
		if ev.K != "" {
			args = append(args, ev.K)
		}
		args = append(args, r.opts(ev.A)...)
		ret = r.idOf(slog.New(args...).Root())
	case "PkgSetLevel":
		slog.SetLevel(slog.Level(ev.A))
	case "SetDefault":
		slog.SetDefault(l)
	case "DbgMode":
		is.SetDebugMode(ev.A == 1)
	case "VrbMode":
		is.SetVerboseMode(ev.A == 1)
	case "BulkKids":
		// a long-running process: 1100 (or bulk_n) anonymous children of l, made in every way a child can be derived
		bulkN := r.sc.BulkN
		if bulkN == 0 {
			bulkN = 1100
		}
		for i := 0; i < bulkN; i++ {
			var c *slog.Entry
			switch i % 3 {
			case 0:
				c = l.New()
			case 1:
				c = l.WithAttrs(slog.Int("bulk", i))
			default:
				c = l.With("bulk", i)
			}
			r.bulk[c] = true
		}
	case "Burn":
		// 70 000 loggers derived from a root nobody looks at (names and counters of the process move on)
		root := slog.New("burn").Root()
		for i := 0; i < 70000; i++ {
			root.New()
		}
	case "Lookup":
		// the direct child of l's parent that bears l's name is l (a logger without parent is left alone)
		if p := l.Parent(); p != nil {
			ret = r.idOf(p.New(l.Name()))
		} else {
			ret = ev.L
		}
	case "LogNest":
		r.logNest(l, ev, rec)
	case "EachNew":
		target := r.loggers[(ev.A-1)%(len(r.loggers)-1)+1]
		// a child is created while the tree is being walked: from the callback of the first logger BELOW l if
		// there is one (the walk is then inside l's subtree), else from l's own callback
		below := 0
		l.Each(func(x *slog.Entry, depth int) {
			if depth > 0 {
				below++
			}
		})
		made := false
		l.Each(func(x *slog.Entry, depth int) {
			if !made && (depth > 0 || below == 0) {
				made = true
				ret = r.idOf(target.New())
			}
		})
	case "CloseW":
		closed := []int{}
		if w := l.GetWriterBy(slog.Level(ev.A)); w != nil {
			takeAll()
			_ = w.Close()
			for _, e := range takeAll() {
				if e.K == "c" {
					closed = append(closed, e.W)
				}
			}
		}
		closedW = closed
	case "MkHandler":
		o := r.sc.HandlerOpts[ev.A-1]
		r.handlers = append(r.handlers, slog.NewSlogHandler(l, &slog.HandlerOptions{NoColor: o.NoColor, NoSource: o.NoSource, JSON: o.JSON, Level: slog.Level(o.Level)}))
	case "HEmit":
		h := r.handlers[(ev.L-1)%len(r.handlers)]
		lv := map[int]logslog.Level{2: logslog.LevelError, 3: logslog.LevelWarn, 4: logslog.LevelInfo, 5: logslog.LevelDebug}[ev.A]
		logslog.New(h).Log(context.Background(), lv, "handler record", "k", 1)
		takeAll()
	case "Register":
		c := r.sc.RegCalls[ev.A-1]
		title := fmt.Sprintf("CUSTOM%d", c.V)
		if c.V < 0 {
			title = fmt.Sprintf("CUSTOMNEG%d", -c.V)
		}
		if c.Clash {
			title = slog.WarnLevel.String()
		}
		var opts []slog.RegOpt
		if c.T >= 0 {
			opts = append(opts, slog.RegWithTreatedAsLevel(slog.Level(c.T)))
		}
		if c.E {
			opts = append(opts, slog.RegWithPrintToErrorDevice(true))
		}
		okReg = slog.RegisterLevel(slog.Level(c.V), title, opts...) == nil
		isReg = true
	case "PkgSkip":
		if ev.K == "SetSkip" {
			slog.SetSkip(ev.A)
		} else {
			ret = r.idOf(slog.WithSkip(ev.A))
		}
	case "Flags":
		r.flagsOp(ev)
	case "PkgLevel":
		switch ev.K {
		case "ResetLevel":
			slog.ResetLevel()
		case "Reset":
			slog.Reset()
		case "SaveLevelAndSet":
			r.restoreL = append(r.restoreL, slog.SaveLevelAndSet(slog.Level(ev.A)))
		case "RestoreLevel":
			r.restoreL[ev.A-1]()
		default:
			panic("unknown PkgLevel kind " + ev.K)
		}
	case "LogF":
		r.logF(l, ev, rec)
	case "LogA":
		r.logA(l, ev, rec)
	case "LogM":
		r.logM(l, ev, rec)
	case "SetAttrsR":
		if ev.A == 1 {
			slog.AddFlags(slog.LattrsR)
		} else {
			slog.RemoveFlags(slog.LattrsR)
		}
	default:
		panic("unknown op " + ev.Op)
	}
	rec["ret"] = ret
	if isReg {
		rec["ok"] = okReg
	}
	if closedW != nil {
		rec["closed"] = closedW
	}
	rec["dbg"] = is.DebugMode()
	rec["deflvl"] = int(slog.GetLevel())
	rec["attrsR"] = slog.IsAnyBitsSet(slog.LattrsR)
	if len(r.sc.FlagSets) > 0 {
		rec["flags"] = flagNames(slog.GetFlags())
		bits := []map[string]any{}
		for i := range r.sc.FlagSets {
			m := r.flagMask(i + 1)
			bits = append(bits, map[string]any{"fs": i + 1, "any": slog.IsAnyBitsSet(m), "all": slog.IsAllBitsSet(m)})
		}
		rec["bits"] = bits
	}
	r.observe(rec)
	return rec
}

// coreNestVal is a value whose String method, called while the outer record is being formatted, issues a
// record of its own through another (or the same) logger.
type coreNestVal struct {
	l  *slog.Entry
	tm time.Time
}

func (v coreNestVal) String() string {
	v.l.WriteThru(context.Background(), slog.InfoLevel, v.tm, 0, "nested inner record", slog.NewAttrs("k", 2))
	return "nested-ok"
}

// tsFitsOf: the <layout, zone> pairs that explain the time field of a record with the fixed instant tm
func (r *coreRun) tsFitsOf(p []byte, tm time.Time) [][]string {
	fits := [][]string{}
	text, err := tsExtract(strings.TrimSuffix(strings.TrimSuffix(shapeOf(p), "-invalid"), "-invalid"), p)
	if err != nil {
		return fits
	}
	for _, lay := range r.sc.TsLayouts {
		if text == tm.Format(lay) {
			fits = append(fits, []string{lay, "Own"})
		}
		if text == tm.UTC().Format(lay) {
			fits = append(fits, []string{lay, "UTC"})
		}
	}
	return fits
}

// logNest (re-entrancy): an outer record of logger l carrying a time-named attribute and a value that logs
// through logger ev.A from inside its String method.
func (r *coreRun) logNest(l *slog.Entry, ev coreEvent, rec map[string]any) {
	m := r.loggers[(ev.A-1)%(len(r.loggers)-1)+1]
	tmO := time.Date(2024, 3, 1, 2, 15, 7, 123456789, time.FixedZone("", 5*3600+1800))
	tmI := time.Date(2031, 7, 9, 23, 44, 5, 987654321, time.FixedZone("", -(3*3600 + 1800)))
	takeAll()
	outcome := "ret"
	func() {
		defer func() {
			if p := recover(); p != nil {
				outcome = "panic: " + fmt.Sprint(p)
			}
		}()
		l.WriteThru(context.Background(), slog.InfoLevel, tmO, 0, "nested outer record",
			slog.NewAttrs("k", 1, "time", tmO.Add(-50*time.Hour), "zz", coreNestVal{m, tmI}, "zzz", 3))
	}()
	outer, inner := []map[string]any{}, []map[string]any{}
	for _, e := range takeAll() {
		if e.K != "w" {
			continue
		}
		s := string(e.payload)
		isInner := strings.Contains(s, "nested inner record")
		isOuter := strings.Contains(s, "nested outer record")
		tm := tmO
		if isInner {
			tm = tmI
		}
		o := map[string]any{"w": e.W, "shape": shapeOf(e.payload), "fits": r.tsFitsOf(e.payload, tm),
			"whole": isInner != isOuter && strings.HasSuffix(s, "\n") && (isInner || strings.Contains(s, "nested-ok"))}
		if isInner && !isOuter {
			inner = append(inner, o)
		} else {
			outer = append(outer, o) // a payload mixing both counts as a (broken) outer record
		}
	}
	rec["nest"] = map[string]any{"outer": outer, "inner": inner}
	rec["outcome"] = outcome
}

// coreCPU: user + system CPU time this process has used so far
func coreCPU() time.Duration {
	var ru syscall.Rusage
	if syscall.Getrusage(syscall.RUSAGE_SELF, &ru) != nil {
		return 0
	}
	return time.Duration(ru.Utime.Nano() + ru.Stime.Nano())
}

var coreReSGR = regexp.MustCompile("\x1b\\[[0-9;]*m")
var coreReSkipName = regexp.MustCompile(`^c/.*\[(-?\d+)\]$`)

func (r *coreRun) normName(nm string) string {
	if nm == "" {
		return ""
	}
	for _, n := range r.sc.Names {
		if n == nm {
			return nm
		}
	}
	if m := coreReSkipName.FindStringSubmatch(nm); m != nil {
		return "c/[" + m[1] + "]"
	}
	return "?"
}

func shapeOf(p []byte) string {
	s := string(p)
	switch {
	case strings.HasPrefix(s, "{"):
		// a JSON record is ONE valid JSON object
		if !json.Valid([]byte(strings.TrimRight(s, "\n"))) {
			return "json-invalid"
		}
		return "json"
	case strings.Contains(s, "\x1b["):
		return "color"
	}
	// a logfmt record is a sequence of key=value tokens (values bare or quoted)
	// (in go-test / debug mode an error attribute is followed by extra lines describing the error: the
	// record itself is the first line)
	first := s
	if i := strings.IndexByte(s, '\n'); i >= 0 {
		first = s[:i]
	}
	if !coreReLogfmt.MatchString(first) {
		return "logfmt-invalid"
	}
	return "logfmt"
}

var coreReLogfmt = regexp.MustCompile(`^(?:[^\s="]+=(?:"(?:[^"\\]|\\.)*"|[^\s"]*)(?:\s+|$))*$`)

// observe records what the public API shows for every logger created so far.  New loggers
// discovered while observing (through Parent/Root/Each) get fresh ids, which the model will
// reject - a logger the creation history does not explain is a violation of C10.
func (r *coreRun) observe(rec map[string]any) {
	var obs []map[string]any
	for id := 1; id < len(r.loggers); id++ {
		l := r.loggers[id]
		o := map[string]any{}
		if r.obs["cfg"] {
			o["json"] = l.JSONMode()
			o["color"] = l.ColorMode()
			o["level"] = int(l.Level())
			o["skip"] = l.Skip()
		}
		if r.obs["tree"] {
			o["name"] = r.normName(l.Name())
			o["parent"] = r.idOf(l.Parent())
			o["root"] = r.idOf(l.Root())
			type pair struct{ id, depth int }
			var each []pair
			bulkAt := map[int]int{}
			l.Each(func(x *slog.Entry, depth int) {
				if r.bulk[x] {
					bulkAt[depth]++
					return
				}
				each = append(each, pair{r.idOf(x), depth})
			})
			eb := [][]int{}
			for d, n := range bulkAt {
				eb = append(eb, []int{d, n})
			}
			sort.Slice(eb, func(i, j int) bool { return eb[i][0] < eb[j][0] })
			o["eachbulk"] = eb
			sort.Slice(each, func(i, j int) bool {
				if each[i].id != each[j].id {
					return each[i].id < each[j].id
				}
				return each[i].depth < each[j].depth
			})
			ee := make([][]int, 0, len(each))
			for _, p := range each {
				ee = append(ee, []int{p.id, p.depth})
			}
			o["each"] = ee
			subs := []map[string]any{}
			for _, nm := range r.sc.Names {
				subs = append(subs, map[string]any{"name": nm, "got": r.idOf(l.Sublogger(nm))})
			}
			o["sub"] = subs
			// DumpSubloggers: "  "*depth + "- name" per logger
			depths := []int{}
			for _, ln := range strings.Split(strings.TrimRight(l.DumpSubloggers(), "\n"), "\n") {
				ind := 0
				for ind < len(ln) && ln[ind] == ' ' {
					ind++
				}
				depths = append(depths, ind/2)
			}
			if len(bulkAt) == 0 { // (with children made in bulk below it the listing is long and not compared)
				o["dump"] = depths
			}
		}
		if r.obs["shape"] || r.obs["dest"] || r.obs["shapes"] {
			dests := []map[string]any{}
			shapes := []string{}
			for _, sev := range r.sc.ProbeSevs {
				sink.reset()
				l.WriteThru(context.Background(), slog.Level(sev), r.ts, 0, "probe", nil)
				evs := takeAll()
				if r.obs["shape"] && sev == int(slog.InfoLevel) {
					for _, e := range evs {
						if e.K == "w" {
							o["shape"] = shapeOf(e.payload)
							break
						}
					}
				}
				if r.obs["shapes"] {
					for _, e := range evs {
						if e.K == "w" {
							shapes = append(shapes, shapeOf(e.payload))
							break
						}
					}
				}
				if r.obs["dest"] {
					if evs == nil {
						evs = []wev{}
					}
					dests = append(dests, map[string]any{"r": sev, "evs": evs})
					if sev == int(slog.AlwaysLevel) {
						// a blank Print is routed and announced like any other Always record
						sink.reset()
						l.WriteThru(context.Background(), slog.AlwaysLevel, r.ts, 0, "", nil)
						evs2 := takeAll()
						if evs2 == nil {
							evs2 = []wev{}
						}
						dests = append(dests, map[string]any{"r": sev, "evs": evs2})
					}
				}
			}
			if r.obs["shapes"] {
				// ... and a record carrying an error-valued attribute has the logger's shape too
				sink.reset()
				l.WriteThru(context.Background(), slog.InfoLevel, r.ts, 0, "probe", slog.NewAttrs("err", errors.New("boom"), "k", 1))
				for _, e := range takeAll() {
					if e.K == "w" {
						shapes = append(shapes, shapeOf(e.payload))
						break
					}
				}
				// ... and whatever is written for a record one of whose values panics while being formatted
				// (nothing, if the panic simply reaches the caller) has the logger's shape as well
				sink.reset()
				func() {
					defer func() { _ = recover() }()
					l.WriteThru(context.Background(), slog.InfoLevel, r.ts, 0, "probe", slog.NewAttrs("a", 1, "user", panicStringer{}, "z", 2))
				}()
				for _, e := range takeAll() {
					if e.K == "w" {
						shapes = append(shapes, shapeOf(e.payload))
					}
				}
				o["shapes"] = shapes
			}
			if r.obs["dest"] {
				o["dest"] = dests
				// the writer lists themselves, as GetWriterBy / GetWriter hand them out
				getw := []map[string]any{}
				for _, sev := range r.sc.ProbeSevs {
					takeAll()
					if w := l.GetWriterBy(slog.Level(sev)); w != nil {
						_, _ = w.Write([]byte("direct write\n"))
					}
					evs := takeAll()
					if evs == nil {
						evs = []wev{}
					}
					getw = append(getw, map[string]any{"r": sev, "evs": evs})
				}
				o["getw"] = getw
				takeAll()
				if w := l.GetWriter(); w != nil {
					_, _ = w.Write([]byte("direct write\n"))
				}
				evs0 := takeAll()
				if evs0 == nil {
					evs0 = []wev{}
				}
				o["getw0"] = evs0
			}
		}
		if r.obs["ts"] {
			// which <layout, zone> pairs explain the time field of a probe record with a fixed instant
			// in a +05:30 zone (2024-03-01 02:15:07.123456789 +05:30 = 2024-02-29 20:45:07 UTC)
			tm := time.Date(2024, 3, 1, 2, 15, 7, 123456789, time.FixedZone("", 5*3600+1800))
			sink.reset()
			l.WriteThru(context.Background(), slog.InfoLevel, tm, 0, "ts probe", nil)
			tso := map[string]any{"got": false, "fits": [][]string{}}
			for _, e := range takeAll() {
				if e.K != "w" {
					continue
				}
				fits := [][]string{}
				text, err := tsExtract(shapeOf(e.payload), e.payload)
				if err == nil {
					for _, lay := range r.sc.TsLayouts {
						if text == tm.Format(lay) {
							fits = append(fits, []string{lay, "Own"})
						}
						if text == tm.UTC().Format(lay) {
							fits = append(fits, []string{lay, "UTC"})
						}
					}
				}
				tso = map[string]any{"got": true, "fits": fits, "text": text}
				break
			}
			o["ts"] = tso
		}
		if r.obs["attrs"] {
			// the logger's own attributes as they are printed (sorted, last value of a key wins):
			// an Always-severity record through a real verb (WriteThru does not collect them)
			sink.reset()
			l.LogAttrs(bg, slog.AlwaysLevel, "attr probe")
			for _, e := range takeAll() {
				if e.K == "w" {
					o["attrs"] = leavesOf(e.payload)
					break
				}
			}
		}
		if r.obs["gate"] {
			r.gateTable(id, l, o)
		}
		obs = append(obs, o)
	}
	rec["obs"] = obs
	rec["n"] = len(r.loggers) - 1
}

var _ io.Writer = (*plainW)(nil)

const diagMarker = "slog print log failed"

// logF issues one record of severity ev.A while the recording writers fail exactly the attempts
// named by fault assignment ev.B: [phase, writer, occurrence] with phase 1 = the record itself,
// 2 = the diagnostic warning about a failed write.  Reported: every Write attempt seen.
func (r *coreRun) logF(l *slog.Entry, ev coreEvent, rec map[string]any) {
	fails := map[[3]int]bool{}
	if ev.B >= 1 && ev.B <= len(r.sc.FailSets) {
		for _, f := range r.sc.FailSets[ev.B-1] {
			fails[[3]int{f[0], f[1], f[2]}] = true
		}
	}
	occ := map[[2]int]int{}
	attempts := 0
	phaseOf := func(p []byte) int {
		if strings.Contains(string(p), diagMarker) {
			return 2
		}
		return 1
	}
	takeAll()
	sink.partial = ev.B%2 == 0 // every other fault assignment: partial writes
	sink.failP = func(w int, p []byte) bool {
		attempts++
		ph := phaseOf(p)
		occ[[2]int{ph, w}]++
		if attempts > 60 { // a runaway cascade is cut here and shows up as surplus attempts
			return false
		}
		return fails[[3]int{ph, w, occ[[2]int{ph, w}]}]
	}
	outcome := "ret"
	func() {
		defer func() {
			if p := recover(); p != nil {
				outcome = "panic: " + fmt.Sprint(p)
			}
		}()
		msg := "fault probe"
		if ev.K == "big" {
			msg += " " + strings.Repeat("0123456789abcdef", 6400)
		}
		l.Logit(bg, slog.Level(ev.A), msg, "k01", 1)
	}()
	sink.failP = nil
	sink.partial = false
	evs := []map[string]any{}
	all := takeAll()
	// every attempt of one phase carries the same, complete payload
	longest := map[int][]byte{}
	for _, e := range all {
		if e.K == "w" {
			ph := phaseOf(e.payload)
			if len(e.payload) > len(longest[ph]) {
				longest[ph] = e.payload
			}
		}
	}
	for _, e := range all {
		if e.K == "w" {
			ph := phaseOf(e.payload)
			whole := len(e.payload) > 0 && e.payload[len(e.payload)-1] == '\n' && string(e.payload) == string(longest[ph])
			evs = append(evs, map[string]any{"w": e.W, "ph": ph, "fail": e.Fail, "whole": whole})
		}
	}
	rec["evs"] = evs
	rec["outcome"] = outcome
}

var coreFlagBits = []struct {
	name string
	bit  slog.Flags
}{
	{"date", slog.Ldate}, {"time", slog.Ltime}, {"micro", slog.Lmicroseconds}, {"localTime", slog.LlocalTime},
	{"attrs", slog.Lattrs}, {"attrsR", slog.LattrsR}, {"lineno", slog.Llineno}, {"caller", slog.Lcaller},
	{"callerpkg", slog.Lcallerpackagename}, {"privacypath", slog.Lprivacypath}, {"privacyrx", slog.Lprivacypathregexp},
	{"smartjson", slog.LsmartJSONMode}, {"noInterrupt", slog.LnoInterrupt}, {"interruptAlways", slog.Linterruptalways},
}

func flagNames(f slog.Flags) []string {
	res := []string{}
	for _, fb := range coreFlagBits {
		if f&fb.bit != 0 {
			res = append(res, fb.name)
			f &^= fb.bit
		}
	}
	if f != 0 {
		res = append(res, fmt.Sprintf("unknown:%#x", int64(f)))
	}
	return res
}

func (r *coreRun) flagMask(idx int) (m slog.Flags) {
	for _, n := range r.sc.FlagSets[idx-1] {
		for _, fb := range coreFlagBits {
			if fb.name == n {
				m |= fb.bit
			}
		}
	}
	return
}

// single-flag arguments of a mask, the way AddFlags(a, b, c) / RemoveFlags(a, b, c) can be called
func splitFlags(m slog.Flags) (res []slog.Flags) {
	for _, fb := range coreFlagBits {
		if m&fb.bit != 0 {
			res = append(res, fb.bit)
		}
	}
	return
}

func (r *coreRun) flagsOp(ev coreEvent) {
	switch ev.K {
	case "SetFlags":
		slog.SetFlags(r.flagMask(ev.A))
	case "AddFlags":
		if ev.A%2 == 0 {
			slog.AddFlags(r.flagMask(ev.A)) // one combined mask ...
		} else {
			slog.AddFlags(splitFlags(r.flagMask(ev.A))...) // ... or one argument per flag
		}
	case "RemoveFlags":
		if ev.A%2 == 0 {
			slog.RemoveFlags(r.flagMask(ev.A))
		} else {
			slog.RemoveFlags(splitFlags(r.flagMask(ev.A))...)
		}
	case "ResetFlags":
		slog.ResetFlags()
	case "SaveFlagsAndMod":
		r.restoreF = append(r.restoreF, slog.SaveFlagsAndMod(r.flagMask(ev.A), splitFlags(r.flagMask(ev.B))...))
	case "RestoreFlags":
		r.restoreF[ev.A-1]()
	default:
		panic("unknown Flags kind " + ev.K)
	}
}
