module verif/harness

go 1.23.0

require (
	github.com/hedzr/is v0.7.13
	github.com/hedzr/logg v0.0.0
	gopkg.in/hedzr/errors.v3 v3.3.5
)

require (
	golang.org/x/net v0.39.0 // indirect
	golang.org/x/sys v0.32.0 // indirect
	golang.org/x/term v0.31.0 // indirect
)

replace github.com/hedzr/logg => /repo
