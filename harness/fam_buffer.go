package main

// "buffer" (C19): drives the read/write interface of slog.PrintCtx and, with the very same
// calls, the reference bytes.Buffer.  Every call is logged with its arguments and the projected
// results (one ndjson line per call, one file per implementation); the logs are validated by TLC
// against spec/BufferTrace.tla.  The Go code only executes calls and projects observations
// (error identity class, panic class, returned bytes, Len/String/Bytes); expected outcomes come
// from the specification.  A lock-step comparison of the two implementations runs alongside as
// a cross-check and is written to a third file.
//
// Ownership of byte slices.  The caller side of the contract is played as well: the runner keeps
// (bufPool, at most `hold` entries, oldest forgotten first) the very slices / strings the calls
// hand out - never a copy of them - and the slices it passed to Write / WriteString, logs their
// current contents after every step ("hv") and stores through them ("Poke", "Fill", and the
// immediate overwrite of a Write argument, "scr").  Which of them must still be intact is decided
// by the specification (`held` in spec/Buffer.tla): copies (ReadBytes, ReadString, String, Read,
// Write arguments) for ever, aliases (Bytes, Next) until the next modifying call - at that moment
// the runner drops them, exactly as the model does, so that nothing bytes.Buffer leaves undefined
// is ever looked at.
//
// Records.  The encoder a user marshaller is handed is a pooled object: behaviours constructed
// with how = "marshal" run inside a marshaller the library calls while it formats a record, and the
// op "Recycle" ends that record and logs the next one through the same logger - the ops that follow
// are executed on the encoder the library hands to the marshaller of the new record (as a rule the
// very object of the previous record; the log says so: "same").  What the library has written of the
// new record at that point (the `b` of the Recycle line) is computed from the record (bufRecFrame),
// not read from the encoder; the reference bytes.Buffer is re-made from it.

import (
	"bytes"
	"encoding/json"
	"errors"
	"fmt"
	"io"
	"math"
	"math/rand"
	"os"
	"runtime"
	"strconv"
	"strings"
	"unsafe"

	"github.com/hedzr/logg/slog"
)

func init() { register("buffer", bufferMain) }

// the listed interface (plus Cap/Available, used only to aim sizes at the thresholds)
type bufAPI interface {
	Write(p []byte) (int, error)
	WriteString(s string) (int, error)
	WriteByte(c byte) error
	WriteRune(r rune) (int, error)
	Read(p []byte) (int, error)
	ReadByte() (byte, error)
	ReadRune() (rune, int, error)
	UnreadByte() error
	UnreadRune() error
	Next(n int) []byte
	ReadBytes(delim byte) ([]byte, error)
	ReadString(delim byte) (string, error)
	ReadFrom(r io.Reader) (int64, error)
	WriteTo(w io.Writer) (int64, error)
	Truncate(n int)
	Grow(n int)
	Reset()
	Len() int
	Bytes() []byte
	String() string
	Cap() int
	Available() int
}

var (
	_ bufAPI = (*slog.PrintCtx)(nil)
	_ bufAPI = (*bytes.Buffer)(nil)
)

const bufHuge = 1 << 30 // logged stand-in for counts close to MaxInt (TLC integers are 32 bit)

type bufOp struct {
	Op     string `json:"op"`
	N      int    `json:"n,omitempty"`
	B      []int  `json:"b,omitempty"`
	PB     []int  `json:"pb,omitempty"`     // ReadFrom: planned payload when it differs from what was delivered
	Fin    string `json:"fin,omitempty"`    // WriteTo: writer mode (ok/short/err/over)
	PFin   string `json:"pfin,omitempty"`   // ReadFrom: reader ending (eof/eofdata/err/errdata/neg)
	Chunks []int  `json:"chunks,omitempty"` // ReadFrom: sizes of the pieces the reader hands out
	Kind   string `json:"kind,omitempty"`   // Grow from the model graph: fit/nofit/neg/huge (resolved against Available())
	How    string `json:"how,omitempty"`    // New: zero/bytes/string/cap/marshal
	Cap    int    `json:"cap,omitempty"`    // New(how=cap): capacity of the slice handed over
	WA     int    `json:"wa,omitempty"`     // WriteTo: how many bytes the writer accepts (short/err)
	Fixed  bool   `json:"fixed,omitempty"`  // replayed from a recording: take the arguments as they are
	Keep   bool   `json:"keep,omitempty"`   // the caller keeps the slice / string the call hands out (Write: its argument)
	H      int    `json:"h,omitempty"`      // Poke / Fill: which kept slice (1 = oldest)
	J      int    `json:"j,omitempty"`      // Poke: slice[J-1] = N
	Hold   int    `json:"hold,omitempty"`   // New: how many results the caller keeps
	// collaborators with a plan per call (ReadFrom: one entry per Read call; WriteTo: one per Write call)
	Calls []bufCall `json:"calls,omitempty"`
	Obs   string    `json:"obs,omitempty"` // per call: "full" forces Len/String/Bytes to be logged after this call
	Pat   []int     `json:"pat,omitempty"` // [n, salt]: B is the n byte filler bufPattern(n, salt) (large payloads)
}

// bufCall: what a scripted collaborator does in one of its Read / Write calls.
type bufCall struct {
	C     []int   `json:"c,omitempty"`     // reader: the bytes it stores into p (clipped to len(p))
	Fin   string  `json:"fin,omitempty"`   // reader: more / eof / err / neg;  writer: ok / short / err / over / zero
	WA    int     `json:"wa,omitempty"`    // writer: how many bytes it accepts (short / err)
	Order string  `json:"order,omitempty"` // reader: "pre" = store, then call back; "post" = call back, then store
	Nest  []bufOp `json:"nest,omitempty"`  // calls of the SAME buffer made from inside this Read / Write
}

type bufBehaviour struct {
	New bufOp   `json:"new"`
	Obs string  `json:"obs"` // "every": Len/String/Bytes after each call; "sparse": only now and then
	Ops []bufOp `json:"ops"`
}

type bufRandom struct {
	Seed    int64  `json:"seed"`
	Traces  int    `json:"traces"`
	MinLen  int    `json:"min_len"`
	MaxLen  int    `json:"max_len"`
	Profile string `json:"profile"` // small / big
}

type bufScript struct {
	Behaviours []bufBehaviour `json:"behaviours"`
	Random     []bufRandom    `json:"random"`
	Seed       int64          `json:"seed"` // resolves the adaptive choices of scripted behaviours
}

// bufPattern: the filler of scripted large payloads (checks/c19.py pattern())
func bufPattern(n, salt int) []int {
	b := make([]int, n)
	for i := range b {
		b[i] = 97 + (i*7+i/23+salt)%26
	}
	return b
}

func toInts(b []byte) []int {
	r := make([]int, len(b))
	for i, c := range b {
		r[i] = int(c)
	}
	return r
}

func toBytes(a []int) []byte {
	r := make([]byte, len(a))
	for i, c := range a {
		r[i] = byte(c)
	}
	return r
}

// ---------------------------------------------------------------- collaborators

var bufInjected = errors.New("injected collaborator failure")

var bufRng = rand.New(rand.NewSource(1)) // resolves the adaptive sizes of nested calls (seeded by the script)

// scriptedReader hands out the planned pieces and then ends as planned.
type scriptedReader struct {
	chunks    [][]byte
	fin       string
	delivered []byte
	done      bool
	after     int
	minp      int
	calls     int
	pl        []int
}

func (r *scriptedReader) Read(p []byte) (int, error) {
	if r.done {
		r.after++
		return 0, io.EOF
	}
	r.calls++
	if r.calls == 1 || len(p) < r.minp {
		r.minp = len(p)
	}
	if len(r.pl) < 48 {
		r.pl = append(r.pl, len(p))
	}
	if len(r.chunks) > 0 {
		c := r.chunks[0]
		n := copy(p, c)
		if n < len(c) {
			r.chunks[0] = c[n:]
		} else {
			r.chunks = r.chunks[1:]
		}
		r.delivered = append(r.delivered, p[:n]...)
		for i := n; i < len(p) && i < n+96; i++ {
			p[i] = 0xEE // io.Reader: "it may use all of p as scratch space during the call"
		}
		if len(r.chunks) == 0 {
			switch r.fin {
			case "eofdata":
				r.done = true
				return n, io.EOF
			case "errdata":
				r.done = true
				return n, bufInjected
			}
		}
		return n, nil
	}
	r.done = true
	switch r.fin {
	case "err", "errdata":
		return 0, bufInjected
	case "neg":
		return -1, nil
	}
	return 0, io.EOF
}

func (r *scriptedReader) class() string {
	switch r.fin {
	case "err", "errdata":
		return "err"
	case "neg":
		return "neg"
	}
	return "eof"
}

type scriptedWriter struct {
	fin    string
	accept int
	lens   []int
	calls  int
	seen   []byte
	n      int
	err    error
}

func (w *scriptedWriter) Write(p []byte) (int, error) {
	w.calls++
	w.lens = append(w.lens, len(p))
	if w.calls == 1 {
		w.seen = append([]byte(nil), p...)
	}
	n := len(p)
	var err error
	switch w.fin {
	case "short":
		if w.accept < n {
			n = w.accept
		}
	case "err":
		if w.accept < n {
			n = w.accept
		}
		err = bufInjected
	case "over":
		n = len(p) + 1
	}
	if w.calls == 1 {
		w.n, w.err = n, err
	}
	return n, err
}

// ---- collaborators with a plan per call, which may call back into the buffer they serve

// bufNestRun executes the planned calls of the buffer x from inside a collaborator and renders them
// as a JSON array of event objects.  Adaptive sizes ("kind") are resolved against x on the first
// execution and then fixed, so that the second implementation is driven with the same arguments.
func bufNestRun(x bufAPI, nest []bufOp, rng *rand.Rand) []byte {
	out := []byte{'['}
	for k := range nest {
		op := &nest[k]
		bufNestResolve(x, op, rng)
		var e evw
		e.begin()
		capBefore := x.Cap()
		res := bufExec(x, op, &e, nil)
		if op.Op != "Grow" {
			e.num("avail", res.avail)
		}
		e.num("cap", capBefore)
		e.num("cap2", x.Cap())
		res.extra = nil
		res.write(&e)
		if res.pan != "" { // (write() stops after pan)
			e.str("err", "")
		}
		e.num("len", bufSafeLen(x))
		e.b = append(e.b, '}')
		if k > 0 {
			out = append(out, ',')
		}
		out = append(out, e.b...)
	}
	return append(out, ']')
}

func bufNestResolve(x bufAPI, op *bufOp, rng *rand.Rand) {
	if op.Kind == "" {
		return
	}
	a, l := x.Available(), x.Len()
	fill := bufFill
	if (a > bufNestMax || x.Cap() > 4*bufNestMax) && op.Kind != "exact" && (op.Op == "Write" || op.Op == "WriteString" || op.Op == "Grow") {
		op.Kind = "fit" // (a pooled PrintCtx keeps its storage: sizes relative to it must stay bounded)
	}
	switch op.Op {
	case "Write", "WriteString":
		switch op.Kind {
		case "exact": // from a recorded plan: the filler of exactly N bytes
			op.B, op.N = fill(op.N), 0
		case "fit":
			op.B = fill(min(a, 1+rng.Intn(4)))
		case "fill":
			op.B = fill(min(a, 3000))
		case "nofit":
			op.B = fill(a + 1 + rng.Intn(3))
		default: // nofitbig: well beyond the spare capacity
			op.B = fill(a + 70 + rng.Intn(600))
		}
	case "Grow":
		switch op.Kind {
		case "fit":
			op.N = rng.Intn(min(a, 3) + 1)
		case "nofit":
			op.N = a + 1 + rng.Intn(3)
		default:
			op.N = a + 2*x.Cap() + 65
		}
	case "Truncate", "Next", "Read":
		switch op.Kind {
		case "half":
			op.N = l / 2
		case "lenm1":
			op.N = max(l-1, 0)
		case "one":
			op.N = min(l, 1)
		default: // len
			op.N = l
		}
	}
	op.Kind = ""
}

// planReader: one planned entry per Read call; after the plan (if it has no final answer) io.EOF.
type planReader struct {
	x      bufAPI
	plan   []bufCall
	rng    *rand.Rand
	calls  int
	after  int
	done   bool
	minp   int
	log    []byte // JSON array of the calls received
	digest []byte // implementation independent part of the log (lock-step cross-check)
}

func bufPlanned(plan []bufCall) int {
	for i, c := range plan {
		if c.Fin != "more" && c.Fin != "" {
			return i + 1
		}
	}
	return len(plan) + 1
}

func (r *planReader) Read(p []byte) (int, error) {
	if r.done {
		r.after++
		return 0, io.EOF
	}
	if r.calls == 0 || len(p) < r.minp {
		r.minp = len(p)
	}
	var call bufCall
	if r.calls < len(r.plan) {
		call = r.plan[r.calls]
	} else {
		call = bufCall{Fin: "eof"}
	}
	r.calls++
	if call.Fin == "" {
		call.Fin = "more"
	}
	if call.Order == "" {
		call.Order = "post"
	}
	var e evw
	e.begin()
	e.num("pl", len(p))
	e.num("off", r.x.Cap()-r.x.Available()-r.x.Len())
	c := toBytes(call.C)
	if len(c) > len(p) {
		c = c[:len(p)]
	}
	var nest []byte
	n := 0
	if call.Order == "pre" {
		n = copy(p, c)
		nest = bufNestRun(r.x, call.Nest, r.rng)
	} else {
		nest = bufNestRun(r.x, call.Nest, r.rng)
		n = copy(p, c)
	}
	if len(call.Nest) == 0 && call.Fin != "neg" {
		for i := n; i < len(p) && i < n+96; i++ {
			p[i] = 0xEE // scratch space (a reader that does not call back; behind the new end of the contents)
		}
	}
	e.bytes("c", c)
	e.str("fin", call.Fin)
	e.str("order", call.Order)
	e.key("nest")
	e.b = append(e.b, nest...)
	e.b = append(e.b, '}')
	if r.calls > 1 {
		r.log = append(r.log, ',')
	}
	r.log = append(r.log, e.b...)
	r.digest = append(r.digest, bufDigest(nest)...)
	switch call.Fin {
	case "eof":
		r.done = true
		return n, io.EOF
	case "err":
		r.done = true
		return n, bufInjected
	case "neg":
		r.done = true
		return -1, nil
	}
	return n, nil
}

const bufNestMax = 6000

// bufFill: the payload of a nested write whose size was chosen inside the collaborator
func bufFill(n int) []int {
	b := make([]int, n)
	for i := range b {
		b[i] = 'A' + (i*7+n)%26
	}
	return b
}

// bufPlanJSON renders a plan as executed (sizes resolved) for replays; long fillers by their length
func bufPlanJSON(calls []bufCall) string {
	cp := make([]bufCall, len(calls))
	for i, c := range calls {
		cp[i] = c
		cp[i].Nest = append([]bufOp(nil), c.Nest...)
		for k := range cp[i].Nest {
			if o := &cp[i].Nest[k]; len(o.B) > 64 && (o.Op == "Write" || o.Op == "WriteString") {
				f := bufFill(len(o.B))
				same := true
				for j := range f {
					same = same && f[j] == o.B[j]
				}
				if same {
					o.Kind, o.N, o.B = "exact", len(o.B), nil
				}
			}
		}
	}
	b, _ := json.Marshal(cp)
	return string(b)
}

// bufDigest drops the capacity observations (avail, cap, cap2) from a rendered nest: what is left
// must be the same for PrintCtx and bytes.Buffer.
func bufDigest(nest []byte) []byte {
	s := string(nest)
	for _, k := range []string{"\"avail\":", "\"cap\":", "\"cap2\":"} {
		for {
			i := strings.Index(s, k)
			if i < 0 {
				break
			}
			j := i + len(k)
			for j < len(s) && (s[j] == '-' || (s[j] >= '0' && s[j] <= '9')) {
				j++
			}
			s = s[:i] + s[j:]
		}
	}
	return []byte(s)
}

// planWriter: one planned entry per Write call; calls beyond the plan accept everything.
type planWriter struct {
	x     bufAPI
	plan  []bufCall
	rng   *rand.Rand
	lens  []int
	seen  []byte
	n     int
	err   error
	nest  []byte // nested calls of the first Write
}

func (w *planWriter) Write(p []byte) (int, error) {
	k := len(w.lens)
	w.lens = append(w.lens, len(p))
	if k == 0 {
		w.seen = append([]byte(nil), p...)
	}
	call := bufCall{Fin: "ok"}
	if k < len(w.plan) {
		call = w.plan[k]
	}
	nest := bufNestRun(w.x, call.Nest, w.rng)
	n := len(p)
	var err error
	switch call.Fin {
	case "short":
		n = min(n, call.WA)
	case "err":
		n = min(n, call.WA)
		err = bufInjected
	case "over":
		n = len(p) + 1
	case "zero":
		n = 0
	}
	if k == 0 {
		w.n, w.err, w.nest = n, err, nest
	}
	return n, err
}

// ---------------------------------------------------------------- projection of results

type bufResult struct {
	pan    string
	err    string
	rn, rm int
	hasN   bool
	hasM   bool
	rb     []byte
	hasB   bool
	// what the caller could keep: the returned slice / string itself, or the argument it passed
	tag string // own / str / bytes / next
	raw []byte
	str string
	arg bool // raw is the argument of Write / WriteString
	// collaborator side
	extra func(e *evw)
	col   string // what the collaborator received / saw from inside (compared in lock-step)
	avail int    // Available() before the call
}

// ---------------------------------------------------------------- the caller's kept slices

type bufHandle struct {
	tag string
	b   []byte // the slice itself, never a copy
	s   string // tag "str": the string itself
}

func (h *bufHandle) value() []byte {
	if h.tag == "str" {
		return []byte(h.s)
	}
	return h.b
}

func (h *bufHandle) alias() bool { return h.tag == "bytes" || h.tag == "next" }

type bufPool struct {
	hs  []*bufHandle
	cap int
}

// the calls that do not modify the buffer; every other call ends the window of every alias
func bufModifies(op string) bool {
	switch op {
	case "Len", "Bytes", "String", "NilString", "Poke", "Fill":
		return false
	}
	return true
}

func (p *bufPool) endWindows() {
	k := 0
	for _, h := range p.hs {
		if !h.alias() {
			p.hs[k] = h
			k++
		}
	}
	for i := k; i < len(p.hs); i++ {
		p.hs[i] = nil
	}
	p.hs = p.hs[:k]
}

func (p *bufPool) push(h *bufHandle) {
	if p.cap <= 0 {
		return
	}
	if len(p.hs) >= p.cap {
		copy(p.hs, p.hs[1:])
		p.hs = p.hs[:len(p.hs)-1]
	}
	p.hs = append(p.hs, h)
}

func (p *bufPool) total() int {
	n := 0
	for _, h := range p.hs {
		n += len(h.b) + len(h.s)
	}
	return n
}

func (p *bufPool) get(k int) *bufHandle {
	if k < 1 || k > len(p.hs) {
		return nil
	}
	return p.hs[k-1]
}

const bufKeepMax = 64 // longer results are not kept (log volume)

// bufScribble overwrites a slice the caller owns, and appends into whatever spare capacity it has
func bufScribble(b []byte) {
	for i := range b {
		b[i] = ^b[i]
	}
	_ = append(b[:len(b):cap(b)], 0x5A)
}

func (a *bufResult) same(b *bufResult) bool {
	if a.pan != b.pan || a.col != b.col {
		return false
	}
	if a.pan != "" {
		return true
	}
	return a.err == b.err && a.rn == b.rn && a.rm == b.rm && bytes.Equal(a.rb, b.rb)
}

// normalise replaces the package prefix of the implementation by PFX.
func normalise(s string) string {
	for _, p := range []string{"logg/slog.PrintCtx", "bytes.Buffer"} {
		if strings.HasPrefix(s, p) {
			return "PFX" + s[len(p):]
		}
	}
	return "other: " + s
}

func errClass(e error) string {
	switch {
	case e == nil:
		return "nil"
	case e == io.EOF:
		return "EOF"
	case e == io.ErrShortWrite:
		return "ErrShortWrite"
	case e == bufInjected:
		return "injected"
	}
	return normalise(e.Error())
}

func panicClass(v any) string {
	switch x := v.(type) {
	case runtime.Error:
		return "runtime"
	case error:
		if x == slog.ErrTooLarge || x == bytes.ErrTooLarge {
			return "ErrTooLarge"
		}
		return normalise(x.Error())
	case string:
		return normalise(x)
	}
	return fmt.Sprintf("other: %v", v)
}

// ---------------------------------------------------------------- ndjson writer (hand rolled: keeps empty arrays)

type evw struct{ b []byte }

func (e *evw) begin() { e.b = append(e.b[:0], '{') }
func (e *evw) key(k string) {
	e.sep()
	e.b = append(e.b, '"')
	e.b = append(e.b, k...)
	e.b = append(e.b, '"', ':')
}
func (e *evw) sep() {
	if len(e.b) > 1 {
		e.b = append(e.b, ',')
	}
}
func (e *evw) str(k, v string) {
	e.key(k)
	q, _ := json.Marshal(v)
	e.b = append(e.b, q...)
}
func (e *evw) num(k string, v int) { e.key(k); e.b = strconv.AppendInt(e.b, int64(v), 10) }
func (e *evw) boolean(k string, v bool) {
	e.key(k)
	e.b = strconv.AppendBool(e.b, v)
}
func (e *evw) bytes(k string, v []byte) {
	e.key(k)
	e.b = append(e.b, '[')
	for i, c := range v {
		if i > 0 {
			e.b = append(e.b, ',')
		}
		e.b = strconv.AppendInt(e.b, int64(c), 10)
	}
	e.b = append(e.b, ']')
}
func (e *evw) ints(k string, v []int) {
	e.key(k)
	e.b = append(e.b, '[')
	for i, c := range v {
		if i > 0 {
			e.b = append(e.b, ',')
		}
		e.b = strconv.AppendInt(e.b, int64(c), 10)
	}
	e.b = append(e.b, ']')
}
func (e *evw) pool(k string, p *bufPool) {
	e.key(k)
	e.b = append(e.b, '[')
	for n, h := range p.hs {
		if n > 0 {
			e.b = append(e.b, ',')
		}
		e.b = append(e.b, '[')
		for i, c := range h.value() {
			if i > 0 {
				e.b = append(e.b, ',')
			}
			e.b = strconv.AppendInt(e.b, int64(c), 10)
		}
		e.b = append(e.b, ']')
	}
	e.b = append(e.b, ']')
}
func (e *evw) end(out *traceOut) {
	e.b = append(e.b, '}', '\n')
	out.bw.Write(e.b)
	out.n++
}

// ---------------------------------------------------------------- executing one call

func clipCount(n int) int {
	if n >= bufHuge {
		return bufHuge + (math.MaxInt - n) // MaxInt-k is logged as Huge+k
	}
	return n
}

func unclipCount(n int) int {
	if n >= bufHuge {
		return math.MaxInt - (n - bufHuge)
	}
	return n
}

// run executes op on x and returns the projected result.  The op's arguments are written into e.
func bufExec(x bufAPI, op *bufOp, e *evw, pool *bufPool) (res *bufResult) {
	res = &bufResult{}
	if len(op.Pat) == 2 {
		op.B, op.Pat = bufPattern(op.Pat[0], op.Pat[1]), nil
	}
	res.avail = x.Available()
	e.str("op", op.Op)
	e.num("n", op.N)
	defer func() {
		if v := recover(); v != nil {
			res.pan = panicClass(v)
		}
	}()
	switch op.Op {
	case "Write":
		p := toBytes(op.B)
		e.bytes("b", p)
		res.tag, res.raw, res.arg = "own", p, true
		n, err := x.Write(p)
		res.rn, res.hasN, res.err = n, true, errClass(err)
	case "WriteString":
		p := toBytes(op.B)
		e.bytes("b", p)
		// The string shares p's bytes.  It is dead once WriteString has returned, so that the
		// caller may reuse p afterwards - unless the callee kept the string.
		var str string
		if len(p) > 0 {
			str = unsafe.String(unsafe.SliceData(p), len(p))
		}
		res.tag, res.raw, res.arg = "own", p, true
		n, err := x.WriteString(str)
		res.rn, res.hasN, res.err = n, true, errClass(err)
	case "WriteByte":
		res.err = errClass(x.WriteByte(byte(op.N)))
	case "WriteRune":
		n, err := x.WriteRune(rune(op.N))
		res.rn, res.hasN, res.err = n, true, errClass(err)
	case "Read":
		p := make([]byte, op.N)
		n, err := x.Read(p)
		res.rn, res.hasN, res.err = n, true, errClass(err)
		res.hasB = true
		if n >= 0 && n <= len(p) {
			res.rb = append([]byte(nil), p[:n]...)
			res.tag, res.raw = "own", p[:n]
		}
	case "Next":
		res.hasB = true // present in the log only when the call returns
		b := x.Next(op.N)
		res.rb = append([]byte(nil), b...)
		res.err = "nil"
		res.tag, res.raw = "next", b
	case "ReadByte":
		c, err := x.ReadByte()
		res.rn, res.hasN, res.err = int(c), true, errClass(err)
	case "ReadRune":
		r, size, err := x.ReadRune()
		res.rn, res.rm, res.hasN, res.hasM, res.err = int(r), size, true, true, errClass(err)
	case "UnreadByte":
		res.err = errClass(x.UnreadByte())
	case "UnreadRune":
		res.err = errClass(x.UnreadRune())
	case "ReadBytes":
		b, err := x.ReadBytes(byte(op.N))
		res.rb, res.hasB, res.err = append([]byte(nil), b...), true, errClass(err)
		res.tag, res.raw = "own", b
	case "ReadString":
		s, err := x.ReadString(byte(op.N))
		res.rb, res.hasB, res.err = []byte(s), true, errClass(err)
		res.tag, res.str = "str", s
	case "Truncate":
		res.err = "nil"
		x.Truncate(op.N)
	case "Reset":
		res.err = "nil"
		x.Reset()
	case "Grow":
		e.num("avail", x.Available())
		res.err = "nil"
		x.Grow(unclipCount(op.N))
	case "ReadFrom":
		if op.Calls != nil {
			rd := &planReader{x: x, plan: op.Calls, rng: bufRng}
			res.extra = func(e *evw) {
				e.key("calls")
				e.b = append(e.b, '[')
				e.b = append(e.b, rd.log...)
				e.b = append(e.b, ']')
				e.num("planned", bufPlanned(op.Calls))
				e.str("plan", bufPlanJSON(op.Calls))
				e.boolean("done", rd.done)
				e.num("after", rd.after)
				e.num("minp", rd.minp)
				res.col = fmt.Sprintf("calls=%d after=%d %s", rd.calls, rd.after, rd.digest)
			}
			n, err := x.ReadFrom(rd)
			res.rn, res.hasN, res.err = int(n), true, errClass(err)
			break
		}
		payload := toBytes(op.B)
		if op.PB != nil {
			payload = toBytes(op.PB)
		}
		rd := &scriptedReader{fin: op.PFin}
		rest := payload
		for _, c := range op.Chunks {
			if c > len(rest) {
				c = len(rest)
			}
			rd.chunks = append(rd.chunks, rest[:c])
			rest = rest[c:]
		}
		if len(rest) > 0 {
			rd.chunks = append(rd.chunks, rest)
		}
		res.extra = func(e *evw) {
			e.bytes("b", rd.delivered)
			if !bytes.Equal(rd.delivered, payload) {
				e.bytes("pb", payload)
			}
			e.str("fin", rd.class())
			e.str("pfin", op.PFin)
			e.ints("chunks", op.Chunks)
			e.boolean("done", rd.done)
			e.num("after", rd.after)
			e.num("minp", rd.minp)
			e.ints("pl", rd.pl)
		}
		n, err := x.ReadFrom(rd)
		res.rn, res.hasN, res.err = int(n), true, errClass(err)
	case "WriteTo":
		if op.Calls != nil {
			w := &planWriter{x: x, plan: op.Calls, rng: bufRng}
			res.extra = func(e *evw) {
				e.str("plan", bufPlanJSON(op.Calls))
				e.boolean("called", len(w.lens) > 0)
				e.ints("wl", w.lens)
				e.bytes("wb", w.seen)
				e.num("wn", w.n)
				e.str("werr", errClass(w.err))
				e.key("nest")
				if w.nest == nil {
					w.nest = []byte("[]")
				}
				e.b = append(e.b, w.nest...)
				res.col = fmt.Sprintf("wl=%v %s", w.lens, bufDigest(w.nest))
			}
			n, err := x.WriteTo(w)
			res.rn, res.hasN, res.err = int(n), true, errClass(err)
			break
		}
		w := &scriptedWriter{fin: op.Fin, accept: op.WA}
		res.extra = func(e *evw) {
			e.str("fin", op.Fin)
			e.num("wa", op.WA)
			e.boolean("called", w.calls > 0)
			e.num("wcalls", w.calls)
			e.ints("wl", w.lens)
			e.bytes("wb", w.seen)
			res.col = fmt.Sprintf("wl=%v", w.lens)
			e.num("wn", w.n)
			e.str("werr", errClass(w.err))
		}
		n, err := x.WriteTo(w)
		res.rn, res.hasN, res.err = int(n), true, errClass(err)
	case "Len":
		res.rn, res.hasN, res.err = x.Len(), true, "nil"
	case "Bytes":
		b := x.Bytes()
		res.rb, res.hasB, res.err = append([]byte(nil), b...), true, "nil"
		res.tag, res.raw = "bytes", b
	case "String":
		s := x.String()
		res.rb, res.hasB, res.err = []byte(s), true, "nil"
		res.tag, res.str = "str", s
	case "Poke": // not a call of the buffer: the caller stores through a slice it kept
		h := pool.get(op.H)
		j := op.J
		if j == -1 && h != nil { // from the model graph: the last byte of the slice
			j = len(h.b)
		}
		e.num("h", op.H)
		e.num("j", j)
		res.err = "nil"
		if h == nil || h.tag == "str" || j < 1 || j > len(h.b) {
			panic("worker: Poke outside the kept slice")
		}
		h.b[j-1] = byte(op.N)
	case "Fill":
		e.num("h", op.H)
		res.err = "nil"
		h := pool.get(op.H)
		if h == nil || h.tag != "own" {
			panic("worker: Fill of a slice the caller does not own")
		}
		bufScribble(h.b)
	case "NilString": // String() on a nil receiver (documented for bytes.Buffer); does not touch x
		var str string
		switch x.(type) {
		case *slog.PrintCtx:
			str = (*slog.PrintCtx)(nil).String()
		default:
			str = (*bytes.Buffer)(nil).String()
		}
		res.rb, res.hasB, res.err = []byte(str), true, "nil"
	default:
		panic(fmt.Sprintf("worker: unknown buffer op %q", op.Op))
	}
	return res
}

func (r *bufResult) write(e *evw) {
	if r.extra != nil {
		r.extra(e)
	}
	e.str("pan", r.pan)
	if r.pan != "" {
		return
	}
	e.str("err", r.err)
	if r.hasN {
		e.num("rn", r.rn)
	}
	if r.hasM {
		e.num("rm", r.rm)
	}
	if r.hasB {
		e.bytes("rb", r.rb)
	}
}

// ---------------------------------------------------------------- subjects

type marshalProbe struct{ fn func(pc *slog.PrintCtx) }

func (m marshalProbe) MarshalSlogObject(enc *slog.PrintCtx) error {
	m.fn(enc)
	return nil
}

// withSubjects constructs a PrintCtx and the corresponding bytes.Buffer and calls fn with them
// and the initial contents.
func withSubjects(nw *bufOp, fn func(pc, bb bufAPI, init []byte)) {
	content := toBytes(nw.B)
	switch nw.How {
	case "zero":
		fn(&slog.PrintCtx{}, new(bytes.Buffer), nil)
	case "string":
		fn(slog.NewPrintCtxString(string(content)), bytes.NewBufferString(string(content)), content)
	case "cap":
		c := nw.Cap
		if c < len(content) {
			c = len(content)
		}
		fn(slog.NewPrintCtx(append(make([]byte, 0, c), content...)), bytes.NewBuffer(append(make([]byte, 0, c), content...)), content)
	case "marshal":
		// the encoder the library hands to a user marshaller while a record is being formatted
		called := false
		probe := marshalProbe{func(pc *slog.PrintCtx) {
			if called {
				return
			}
			called = true
			init := append([]byte(nil), pc.Bytes()...)
			bb := bytes.NewBuffer(append(make([]byte, 0, pc.Cap()), init...))
			fn(pc, bb, init)
			pc.Reset() // hand back a sane encoder so that the library can finish the record
		}}
		lg := slog.New("c19").WithWriter(io.Discard)
		msg := "probe " + string(content)
		if lg.Info(msg, "obj", probe); !called {
			if lg.Warn(msg, "obj", probe); !called {
				panic("worker: the library did not call the marshaller")
			}
		}
	default: // "bytes"
		fn(slog.NewPrintCtx(append([]byte(nil), content...)), bytes.NewBuffer(append([]byte(nil), content...)), content)
	}
}

// ---------------------------------------------------------------- the runner

type bufRunner struct {
	outPC, outBB, outLock *traceOut
	rng                   *rand.Rand
	trace                 int
	seed                  int64
	e                     evw
	pools                 [2]*bufPool // what the caller keeps of PrintCtx's / bytes.Buffer's results
}

// A corrupted buffer may panic in String/Bytes/Len themselves; that is an observation like any
// other (bytes.Buffer never does), so it is recorded - as length -1 / empty contents - instead of
// killing the worker.
func bufSafeLen(x bufAPI) (n int) {
	defer func() {
		if recover() != nil {
			n = -1
		}
	}()
	return x.Len()
}

func bufSafeContents(x bufAPI) (s, b []byte, ok bool) {
	defer func() {
		if recover() != nil {
			s, b, ok = nil, nil, false
		}
	}()
	return []byte(x.String()), append([]byte(nil), x.Bytes()...), true
}

func (r *bufRunner) observe(x bufAPI, e *evw, full bool, pool *bufPool) {
	e.num("len", bufSafeLen(x))
	if full || pool.total() <= 160 {
		e.pool("hv", pool)
	}
	if full {
		s, b, ok := bufSafeContents(x)
		if !ok {
			e.num("len", -1)
		}
		e.bytes("s", s)
		e.bytes("bs", b)
	}
}

// step executes one op on both implementations and logs it
func (r *bufRunner) step(pc, bb bufAPI, op *bufOp, obs string, last bool, idx int) {
	if op.Op == "Grow" && op.Kind != "" {
		a := pc.Available()
		if a > 1<<17 && (op.Kind == "nofit" || op.Kind == "nofitbig") {
			op.Kind = "fit" // (a pooled PrintCtx keeps its storage from behaviour to behaviour: do not double it for ever)
		}
		switch op.Kind {
		case "fit":
			op.N = r.rng.Intn(min(a, 3) + 1)
		case "nofit":
			op.N = a + 1 + r.rng.Intn(3)
		case "nofitbig":
			op.N = a + 65 + r.rng.Intn(3)
		case "neg":
			op.N = -1 - r.rng.Intn(3)
		default:
			op.N = bufHuge + r.rng.Intn(2)
		}
		op.Kind = ""
	}
	if op.Op == "Grow" && !op.Fixed && op.N >= 0 && op.N < bufHuge {
		// If the two implementations have different spare capacity, aim between them: the only
		// way a capacity difference can show through the listed calls (lock-step cross-check).
		if ap, ab := pc.Available(), bb.Available(); ap != ab && r.rng.Intn(2) == 0 {
			op.N = min(ap, ab) + 1
		}
	}
	if op.Kind != "" && (op.Op == "Next" || op.Op == "Read" || op.Op == "Truncate") {
		bufNestResolve(pc, op, r.rng) // sizes relative to Len(): half / lenm1 / one / len
	}
	var results [2]*bufResult
	sampled := r.rng.Intn(12) == 0
	for k, x := range []bufAPI{pc, bb} {
		out := r.outPC
		if k == 1 {
			out = r.outBB
		}
		e := &r.e
		pool := r.pools[k]
		e.begin()
		res := bufExec(x, op, e, pool)
		// the caller's side: a modifying call ends the window of every alias it kept; then the new
		// result (or the argument) is kept, or - the argument of a write - overwritten at once
		if bufModifies(op.Op) {
			pool.endWindows()
		}
		if op.Op != "Poke" && op.Op != "Fill" {
			kept := false
			if op.Keep && res.pan == "" && res.tag != "" {
				if n := len(res.raw) + len(res.str); n > 0 && n <= bufKeepMax {
					pool.push(&bufHandle{tag: res.tag, b: res.raw, s: res.str})
					kept = true
				}
			}
			e.boolean("keep", kept)
			if res.arg {
				if !kept {
					bufScribble(res.raw)
				}
				e.boolean("scr", !kept)
			}
		}
		res.write(e)
		switch obs {
		case "every":
			// (long contents: now and then, more often right after the argument of a write was overwritten)
			r.observe(x, e, bufSafeLen(x) <= 96 || last || sampled || op.Obs == "full" || (op.Calls != nil && bufSafeLen(x) <= 4096) || (res.arg && (bufSafeLen(x) <= 300 || idx%3 == 0)), pool)
		default:
			if last || idx%16 == 15 || op.Obs == "full" {
				r.observe(x, e, true, pool)
			}
		}
		e.end(out)
		results[k] = res
	}
	// lock-step cross-check
	same := results[0].same(results[1]) && bufSafeLen(pc) == bufSafeLen(bb) && r.samePools()
	if same && (bufSafeLen(pc) <= 256 || last || idx%8 == 0) {
		ps, pb, ok1 := bufSafeContents(pc)
		bs, bbb, ok2 := bufSafeContents(bb)
		same = ok1 && ok2 && bytes.Equal(ps, bs) && bytes.Equal(pb, bbb)
	}
	if !same {
		e := &r.e
		e.begin()
		e.num("trace", r.trace)
		e.num("step", idx)
		e.str("op", op.Op)
		e.num("n", op.N)
		e.str("pc_pan", results[0].pan)
		e.str("bb_pan", results[1].pan)
		e.str("pc_err", results[0].err)
		e.str("bb_err", results[1].err)
		e.num("pc_rn", results[0].rn)
		e.num("bb_rn", results[1].rn)
		e.num("pc_rm", results[0].rm)
		e.num("bb_rm", results[1].rm)
		e.bytes("pc_rb", clipBytes(results[0].rb))
		e.bytes("bb_rb", clipBytes(results[1].rb))
		e.num("pc_len", bufSafeLen(pc))
		e.num("bb_len", bufSafeLen(bb))
		ps, _, _ := bufSafeContents(pc)
		bs, _, _ := bufSafeContents(bb)
		e.bytes("pc_s", clipBytes(ps))
		e.bytes("bb_s", clipBytes(bs))
		e.pool("pc_hv", r.pools[0])
		e.pool("bb_hv", r.pools[1])
		e.end(r.outLock)
	}
}

// samePools: the slices the caller kept of either implementation hold the same bytes
func (r *bufRunner) samePools() bool {
	a, b := r.pools[0], r.pools[1]
	if len(a.hs) != len(b.hs) {
		return false
	}
	for i := range a.hs {
		if a.hs[i].tag != b.hs[i].tag || !bytes.Equal(a.hs[i].value(), b.hs[i].value()) {
			return false
		}
	}
	return true
}

func clipBytes(b []byte) []byte {
	if len(b) > 64 {
		return b[:64]
	}
	return b
}

func (r *bufRunner) begin(nw *bufOp, init []byte) {
	r.trace++
	bufRng = rand.New(rand.NewSource(r.seed*1000003 + int64(r.trace))) // nested sizes: a function of the trace alone
	r.pools = [2]*bufPool{{cap: nw.Hold}, {cap: nw.Hold}}
	for _, out := range []*traceOut{r.outPC, r.outBB} {
		e := &r.e
		e.begin()
		e.str("op", "New")
		e.num("n", 0)
		e.bytes("b", init)
		e.str("how", nw.How)
		e.num("cap", nw.Cap)
		e.num("hold", nw.Hold)
		e.bytes("nb", toBytes(nw.B))
		e.end(out)
	}
}

func (r *bufRunner) runBehaviour(b *bufBehaviour) {
	if b.New.How == "marshal" && bufHasRecycle(b.Ops) {
		r.runRecords(b)
		return
	}
	withSubjects(&b.New, func(pc, bb bufAPI, init []byte) {
		r.begin(&b.New, init)
		for i := range b.Ops {
			op := b.Ops[i]
			r.step(pc, bb, &op, b.Obs, i == len(b.Ops)-1, i)
		}
	})
}

func bufferMain(args []string) int {
	if len(args) < 2 {
		fmt.Fprintln(os.Stderr, "usage: worker buffer <script.json> <out-prefix>")
		return 2
	}
	var sc bufScript
	readJSON(args[0], &sc)
	r := &bufRunner{outPC: newTraceOut(args[1] + ".pc.ndjson"), outBB: newTraceOut(args[1] + ".bb.ndjson"),
		outLock: newTraceOut(args[1] + ".lock.ndjson"), rng: rand.New(rand.NewSource(sc.Seed))}
	r.seed = sc.Seed
	bufRecFrame() // (while every pooled encoder is still fresh)
	defer r.outPC.close()
	defer r.outBB.close()
	defer r.outLock.close()
	for i := range sc.Behaviours {
		r.runBehaviour(&sc.Behaviours[i])
	}
	for _, rd := range sc.Random {
		g := &bufGen{rng: rand.New(rand.NewSource(rd.Seed)), profile: rd.Profile}
		for t := 0; t < rd.Traces; t++ {
			r.runRandom(g, &rd)
		}
	}
	return 0
}

// ---------------------------------------------------------------- seeded random driver

type bufGen struct {
	rng      *rand.Rand
	profile  string
	pokedNxt bool // the last step stored into the result of Next
}

var bufTokens = [][]byte{
	{'a'}, {'b'}, {'c'}, {'\n'}, {' '}, {0}, {0x7f},
	{0xc3, 0xa9}, {0xe2, 0x82, 0xac}, {0xf0, 0x9f, 0x98, 0x80}, {0xef, 0xbf, 0xbd}, // é € 😀 U+FFFD
	{0xa9}, {0x80}, {0xbf}, {0xc3}, {0xe2, 0x82}, {0xf0, 0x9f, 0x98}, {0xff}, {0xc0, 0x80}, {0xed, 0xa0, 0x80}, // broken / overlong / surrogate
	{0xf4, 0x90, 0x80, 0x80}, {0xf4, 0x8f, 0xbf, 0xbf}, {0xe0, 0x9f, 0xbf}, {0xe0, 0xa0, 0x80}, {0xc2, 0x80}, {0xdf, 0xbf},
	{0xf0, 0x90, 0x80, 0x80}, {0xf0, 0x8f, 0xbf, 0xbf}, {0xed, 0x9f, 0xbf}, {0xc1, 0xbf}, {0xf5, 0x80, 0x80, 0x80},
}

var bufRunes = []int{0x61, 0x0a, 0, 0x7f, 0x80, 0xe9, 0x7ff, 0x800, 0x20ac, 0xd7ff, 0xd800, 0xdfff, 0xe000, 0xfffd, 0xffff,
	0x10000, 0x1f600, 0x10ffff, 0x110000, -1, -128, math.MaxInt32, math.MinInt32}

var bufBoundaries = []int{63, 64, 65, 127, 128, 129, 511, 512, 513, 1023, 1024, 1025, 1100, 2047, 2048, 2049}

func (g *bufGen) payload(n int) []byte {
	p := make([]byte, 0, n)
	for len(p) < n {
		t := bufTokens[g.rng.Intn(len(bufTokens))]
		if g.rng.Intn(3) == 0 {
			t = bufTokens[g.rng.Intn(7)] // more plain ASCII and delimiters
		}
		if len(p)+len(t) > n {
			t = t[:n-len(p)] // a truncated sequence at the end is welcome
		}
		p = append(p, t...)
	}
	return p
}

func (g *bufGen) size(x bufAPI) int {
	L, C, A := x.Len(), x.Cap(), x.Available()
	rng := g.rng
	pick := func(xs ...int) int {
		v := xs[rng.Intn(len(xs))]
		if v < 0 {
			v = 0
		}
		if v > 2600 {
			v = 2600
		}
		return v
	}
	if g.profile == "small" || g.profile == "re" {
		switch k := rng.Intn(100); {
		case k < 12:
			return 0
		case k < 38:
			return 1
		case k < 56:
			return 2
		case k < 70:
			return 3
		case k < 80:
			return 4
		case k < 88:
			return 5 + rng.Intn(5)
		case k < 94:
			return pick(L-1, L, L+1)
		default:
			return pick(A-1, A, A+1, C/2-L, C/2-L+1)
		}
	}
	switch k := rng.Intn(100); {
	case k < 22:
		return rng.Intn(5)
	case k < 40:
		return bufBoundaries[rng.Intn(len(bufBoundaries))]
	case k < 75:
		return pick(A-1, A, A+1, C/2-L-1, C/2-L, C/2-L+1, L-1, L, L+1, C-L, C-L+1, C, C+1, 2*C-L, 512-L, 512+A)
	default:
		return 5 + rng.Intn(300)
	}
}

func (g *bufGen) delim(x bufAPI) int {
	switch k := g.rng.Intn(10); {
	case k < 5:
		return '\n'
	case k < 7:
		return 'a'
	case k < 9:
		if b := x.Bytes(); len(b) > 0 {
			return int(b[g.rng.Intn(min(len(b), 40))])
		}
		return 0xa9
	}
	return 0x7e
}

func (g *bufGen) writeOp(x bufAPI) bufOp {
	rng := g.rng
	switch k := rng.Intn(100); {
	case k < 34:
		return bufOp{Op: "Write", B: toInts(g.payload(g.size(x)))}
	case k < 60:
		return bufOp{Op: "WriteString", B: toInts(g.payload(g.size(x)))}
	case k < 74:
		t := bufTokens[rng.Intn(len(bufTokens))]
		return bufOp{Op: "WriteByte", N: int(t[rng.Intn(len(t))])}
	case k < 90:
		return bufOp{Op: "WriteRune", N: bufRunes[rng.Intn(len(bufRunes))]}
	}
	return g.readFromOp(x)
}

func (g *bufGen) readFromOp(x bufAPI) bufOp {
	rng := g.rng
	p := g.payload(g.size(x))
	op := bufOp{Op: "ReadFrom", B: toInts(p)}
	rest := len(p)
	for rest > 0 && len(op.Chunks) < 6 {
		var c int
		switch rng.Intn(6) {
		case 0:
			c = 0
		case 1:
			c = 1 + rng.Intn(3)
		case 2:
			c = 512
		case 3:
			c = 513
		default:
			c = 1 + rng.Intn(rest)
		}
		if c > rest {
			c = rest
		}
		op.Chunks = append(op.Chunks, c)
		rest -= c
	}
	if op.Chunks == nil {
		op.Chunks = []int{}
	}
	switch k := rng.Intn(100); {
	case k < 45:
		op.PFin = "eof"
	case k < 60:
		op.PFin = "eofdata"
	case k < 75:
		op.PFin = "err"
	case k < 88:
		op.PFin = "errdata"
	default:
		op.PFin = "neg"
	}
	return op
}

func (g *bufGen) readOp(x bufAPI) bufOp {
	rng := g.rng
	L := max(x.Len(), 0) // (a broken subject may report a negative length: the arguments stay legal)
	switch k := rng.Intn(100); {
	case k < 18:
		return bufOp{Op: "Read", N: g.size(x)}
	case k < 34:
		n := g.size(x)
		if rng.Intn(25) == 0 {
			n = -1 - rng.Intn(3)
		}
		return bufOp{Op: "Next", N: n}
	case k < 48:
		return bufOp{Op: "ReadByte"}
	case k < 66:
		return bufOp{Op: "ReadRune"}
	case k < 78:
		return bufOp{Op: "ReadBytes", N: g.delim(x)}
	case k < 90:
		return bufOp{Op: "ReadString", N: g.delim(x)}
	}
	op := bufOp{Op: "WriteTo"}
	switch k := rng.Intn(100); {
	case k < 45:
		op.Fin = "ok"
	case k < 65:
		op.Fin = "short"
	case k < 88:
		op.Fin = "err"
	default:
		op.Fin = "over"
	}
	switch rng.Intn(4) {
	case 0:
		op.WA = 0
	case 1:
		op.WA = L
	case 2:
		op.WA = max(L-1, 0)
	default:
		op.WA = rng.Intn(L + 2)
	}
	return op
}

func (g *bufGen) otherOp(x bufAPI) bufOp {
	rng := g.rng
	L := max(x.Len(), 0)
	switch k := rng.Intn(100); {
	case k < 16:
		return bufOp{Op: "UnreadByte"}
	case k < 30:
		return bufOp{Op: "UnreadRune"}
	case k < 50:
		var n int
		switch j := rng.Intn(20); {
		case j < 2:
			n = 0
		case j < 5:
			n = L
		case j < 7:
			n = L + 1 + rng.Intn(2)
		case j < 8:
			n = -1 - rng.Intn(2)
		default:
			n = rng.Intn(L + 1)
		}
		return bufOp{Op: "Truncate", N: n}
	case k < 72:
		n := g.size(x)
		switch j := rng.Intn(25); {
		case j < 2:
			n = -1 - rng.Intn(3)
		case j < 3:
			n = bufHuge + rng.Intn(2)
		}
		return bufOp{Op: "Grow", N: n}
	case k < 76:
		return bufOp{Op: "Reset"}
	case k < 77:
		return bufOp{Op: "NilString"}
	case k < 84:
		return bufOp{Op: "Len"}
	case k < 92:
		return bufOp{Op: "Bytes"}
	}
	return bufOp{Op: "String"}
}

// nestOp: one call a collaborator makes on the buffer it serves, from inside its Read / Write.  Sizes
// are given as kinds and resolved inside the collaborator, where Available() / Len() are known.
func (g *bufGen) nestOp() bufOp {
	rng := g.rng
	wr := []string{"Write", "WriteString"}[rng.Intn(2)]
	switch k := rng.Intn(100); {
	case k < 14:
		return bufOp{Op: wr, Kind: "fit"}
	case k < 22:
		return bufOp{Op: wr, Kind: "nofit"}
	case k < 34:
		return bufOp{Op: wr, Kind: "big"}
	case k < 37:
		return bufOp{Op: wr, Kind: "fill"}
	case k < 42:
		t := bufTokens[rng.Intn(len(bufTokens))]
		return bufOp{Op: "WriteByte", N: int(t[rng.Intn(len(t))])}
	case k < 48:
		return bufOp{Op: "WriteRune", N: bufRunes[rng.Intn(len(bufRunes))]}
	case k < 54:
		return bufOp{Op: "ReadByte"}
	case k < 60:
		return bufOp{Op: "ReadRune"}
	case k < 65:
		return bufOp{Op: []string{"Next", "Read"}[rng.Intn(2)], Kind: []string{"half", "one", "len", "lenm1"}[rng.Intn(4)]}
	case k < 69:
		return bufOp{Op: []string{"ReadBytes", "ReadString"}[rng.Intn(2)], N: []int{'\n', 'a', 'A', 0x7e}[rng.Intn(4)]}
	case k < 74:
		return bufOp{Op: "UnreadByte"}
	case k < 78:
		return bufOp{Op: "UnreadRune"}
	case k < 83:
		return bufOp{Op: "Truncate", Kind: []string{"half", "lenm1", "len", "one"}[rng.Intn(4)]}
	case k < 86:
		return bufOp{Op: "Reset"}
	case k < 93:
		return bufOp{Op: "Grow", Kind: []string{"fit", "nofit", "big"}[rng.Intn(3)]}
	case k < 95:
		return bufOp{Op: "Len"}
	case k < 98:
		return bufOp{Op: "Bytes"}
	}
	return bufOp{Op: "String"}
}

func (g *bufGen) nest() []bufOp {
	n := []int{0, 1, 1, 1, 2, 2, 3}[g.rng.Intn(7)]
	ops := make([]bufOp, n)
	for i := range ops {
		ops[i] = g.nestOp()
	}
	return ops
}

// planOp: ReadFrom / WriteTo with a collaborator that follows a plan per call and calls back
func (g *bufGen) planOp(x bufAPI) bufOp {
	rng := g.rng
	if rng.Intn(2) == 0 {
		op := bufOp{Op: "WriteTo", Calls: []bufCall{}}
		for k := 0; k < 1+rng.Intn(2); k++ {
			c := bufCall{Fin: []string{"ok", "ok", "short", "err", "err", "zero", "over"}[rng.Intn(7)], Nest: g.nest()}
			c.WA = []int{0, 1, 2, max(x.Len(), 0), max(x.Len(), 0) / 2, max(x.Len(), 0) + 1}[rng.Intn(6)]
			op.Calls = append(op.Calls, c)
		}
		return op
	}
	op := bufOp{Op: "ReadFrom", Calls: []bufCall{}}
	n := rng.Intn(4)
	for k := 0; k < n; k++ {
		c := bufCall{Fin: "more", Order: []string{"pre", "post"}[rng.Intn(2)]}
		if rng.Intn(4) > 0 {
			c.C = toInts(g.payload([]int{1, 2, 5, 8, 40, 511, 512}[rng.Intn(7)]))
		}
		if rng.Intn(3) > 0 {
			c.Nest = g.nest()
		}
		if k == n-1 {
			c.Fin = []string{"more", "eof", "eof", "err", "neg"}[rng.Intn(5)]
			if c.Fin == "neg" {
				c.C = nil
			}
		}
		op.Calls = append(op.Calls, c)
	}
	return op
}

// afterRead: the calls whose outcome depends on what the preceding read recorded
func (g *bufGen) afterRead(x bufAPI) bufOp {
	rng := g.rng
	switch k := rng.Intn(100); {
	case k < 30:
		return bufOp{Op: "UnreadByte"}
	case k < 55:
		return bufOp{Op: "UnreadRune"}
	case k < 72:
		n := g.size(x)
		if a := x.Available(); rng.Intn(2) == 0 && a <= 3000 { // (each Grow beyond Available doubles the capacity)
			n = a + rng.Intn(3) - 1
			if n < 0 {
				n = 0
			}
		}
		return bufOp{Op: "Grow", N: n}
	case k < 78:
		if rng.Intn(2) == 0 {
			return bufOp{Op: "Write", B: []int{}}
		}
		return bufOp{Op: "WriteString", B: []int{}}
	case k < 84:
		return bufOp{Op: "Next", N: 0}
	case k < 88:
		return bufOp{Op: "Read", N: 0}
	case k < 94:
		return bufOp{Op: "Truncate", N: x.Len() + rng.Intn(2)}
	}
	return bufOp{Op: "ReadString", N: g.delim(x)}
}

// storeOp: the caller writes through one of the slices it kept (own copy or live alias)
func (g *bufGen) storeOp(pool *bufPool, alias bool) (bufOp, bool) {
	rng := g.rng
	var cand []int
	for i, h := range pool.hs {
		if h.tag != "str" && h.alias() == alias && len(h.b) > 0 {
			cand = append(cand, i)
		}
	}
	if len(cand) == 0 {
		return bufOp{}, false
	}
	k := cand[rng.Intn(len(cand))]
	h := pool.hs[k]
	if !alias && rng.Intn(2) == 0 {
		return bufOp{Op: "Fill", H: k + 1}, true
	}
	j := len(h.b)
	switch rng.Intn(5) {
	case 0:
		j = 1
	case 1, 2:
		j = 1 + rng.Intn(len(h.b))
	}
	t := bufTokens[rng.Intn(len(bufTokens))]
	g.pokedNxt = h.tag == "next" && j == len(h.b)
	return bufOp{Op: "Poke", H: k + 1, J: j, N: int(t[rng.Intn(len(t))])}, true
}

// keepIt: does the caller keep what this call hands out
func (g *bufGen) keepIt(op string) bool {
	pct := 0
	switch op {
	case "ReadBytes", "ReadString":
		pct = 85
	case "Bytes", "Next":
		pct = 70
	case "Read":
		pct = 50
	case "String":
		pct = 30
	case "Write", "WriteString":
		pct = 20
	}
	return pct > 0 && g.rng.Intn(100) < pct
}

func (g *bufGen) next(x bufAPI, prev string, pool *bufPool) bufOp {
	op := g.next1(x, prev, pool)
	if pool.cap > 0 {
		op.Keep = g.keepIt(op.Op)
	}
	return op
}

func (g *bufGen) next1(x bufAPI, prev string, pool *bufPool) bufOp {
	rng := g.rng
	if g.pokedNxt { // what was stored into the consumed region shows when the read point steps back
		g.pokedNxt = false
		if rng.Intn(10) < 7 {
			return bufOp{Op: "UnreadByte"}
		}
	}
	if len(pool.hs) > 0 {
		if rng.Intn(100) < 40 {
			if op, ok := g.storeOp(pool, true); ok {
				return op
			}
		}
		if rng.Intn(100) < 7 {
			if op, ok := g.storeOp(pool, false); ok {
				return op
			}
		}
	}
	L := x.Len()
	limit := 48
	if g.profile == "re" {
		limit = 2000
		if k := rng.Intn(100); k < 40 || (prev == "" && k < 80) {
			return g.planOp(x)
		}
	} else if g.profile != "small" {
		limit = 4200
		if rng.Intn(60) == 0 {
			return g.planOp(x)
		}
	} else if rng.Intn(120) == 0 {
		return g.planOp(x)
	}
	isRead := prev == "Read" || prev == "Next" || prev == "ReadByte" || prev == "ReadRune" || prev == "ReadBytes" ||
		prev == "ReadString" || prev == "Grow" || prev == "UnreadByte" || prev == "UnreadRune" || prev == "WriteTo"
	if isRead && rng.Intn(100) < 40 {
		return g.afterRead(x)
	}
	k := rng.Intn(100)
	if L > limit {
		k = 40 + rng.Intn(60) // drain
	}
	switch {
	case k < 36:
		return g.writeOp(x)
	case k < 74:
		return g.readOp(x)
	}
	return g.otherOp(x)
}

func (r *bufRunner) runRandom(g *bufGen, rd *bufRandom) {
	rng := g.rng
	nw := bufOp{Op: "New"}
	switch k := rng.Intn(100); {
	case k < 20:
		nw.How = "zero"
	case k < 40:
		nw.How = "bytes"
	case k < 55:
		nw.How = "string"
	case k < 85:
		nw.How = "cap"
		nw.Cap = []int{0, 1, 2, 7, 8, 16, 63, 64, 65, 128, 512, 1024}[rng.Intn(12)]
	default:
		nw.How = "marshal"
	}
	if nw.How != "zero" {
		n := rng.Intn(6)
		if g.profile != "small" && rng.Intn(3) == 0 {
			n = bufBoundaries[rng.Intn(len(bufBoundaries))]
		}
		if nw.How == "marshal" {
			n = rng.Intn(12)
			p := make([]byte, n)
			for i := range p {
				p[i] = "ab \n\xc3\xa9"[rng.Intn(6)]
			}
			nw.B = toInts(p)
		} else {
			nw.B = toInts(g.payload(n))
		}
	}
	obs := "every"
	if rng.Intn(3) == 0 {
		obs = "sparse"
	}
	steps := rd.MinLen + rng.Intn(rd.MaxLen-rd.MinLen+1)
	nw.Hold = []int{0, 1, 2, 2, 3, 4, 4, 6, 8, 8}[rng.Intn(10)]
	g.pokedNxt = false
	if nw.How == "marshal" && rng.Intn(10) < 7 {
		r.runRandomRecords(g, &nw, obs, steps)
		return
	}
	withSubjects(&nw, func(pc, bb bufAPI, init []byte) {
		r.begin(&nw, init)
		prev := ""
		i := 0
		defer func() {
			// the generator looks at the buffer (Len, Bytes, Cap ...) to aim its next call; a
			// PrintCtx that panics while merely being looked at is a divergence from
			// bytes.Buffer, not a harness failure: report it through the lock-step log
			if v := recover(); v != nil {
				e := &r.e
				e.begin()
				e.num("trace", r.trace)
				e.num("step", i)
				e.str("op", "inspect-after-"+prev)
				e.str("pc_pan", fmt.Sprint(v))
				e.str("bb_pan", "")
				e.num("pc_len", bufSafeLen(pc))
				e.num("bb_len", bufSafeLen(bb))
				e.end(r.outLock)
			}
		}()
		for ; i < steps; i++ {
			// sizes are aimed at PrintCtx's thresholds; the caller's stores are chosen from what the
			// reference handed out, so that the bytes.Buffer log is a legal history whatever
			// PrintCtx does (a store that does not fit PrintCtx's slice can only follow a result
			// that was already rejected)
			op := g.next(pc, prev, r.pools[1])
			r.step(pc, bb, &op, obs, i == steps-1, i)
			prev = op.Op
		}
	})
}

// ---------------------------------------------------------------- records: the pooled encoder from one record to the next

var bufRec struct {
	lg         slog.Logger
	head, tail string
}

// bufRecMsg: the message of a follow-up record (letters only: nothing for the formatter to escape)
func bufRecMsg(n int) string {
	b := make([]byte, n)
	for i := range b {
		b[i] = 'a' + byte((i*5+n)%26)
	}
	return string(b)
}

// bufLogRecord logs one record with a marshalling value; fn runs inside the marshaller, on the encoder
// the library hands to it.  A panic of the logging call is an observation (lpan), not a dead worker.
func bufLogRecord(lg slog.Logger, msg string, fn func(pc *slog.PrintCtx)) (called bool, lpan string) {
	defer func() {
		if v := recover(); v != nil {
			if s, ok := v.(string); ok && strings.HasPrefix(s, "worker:") {
				panic(v)
			}
			lpan = panicClass(v)
		}
	}()
	probe := marshalProbe{func(pc *slog.PrintCtx) {
		if called {
			return
		}
		called = true
		fn(pc)
	}}
	lg.Info(msg, "obj", probe)
	return
}

// bufRecFrame: the logger of the record histories and the frame of its records - what the library
// has written of a record with message m when it calls the marshaller of the first attribute is
// head + m + tail (JSON mode, a constant time layout).  Measured once, at the start of the worker,
// on two records whose marshaller only looks, and cross-checked; later records are predicted from it.
func bufRecFrame() (slog.Logger, string, string) {
	if bufRec.lg != nil {
		return bufRec.lg, bufRec.head, bufRec.tail
	}
	lg := slog.New("c19r")
	lg.SetWriter(io.Discard)
	lg.SetErrorWriter(io.Discard)
	lg.SetLevel(slog.InfoLevel)
	lg.SetJSONMode(true)
	lg.SetTimeFormat("T")
	see := func(msg string) string {
		var got string
		called, lpan := bufLogRecord(lg, msg, func(pc *slog.PrintCtx) {
			got = pc.String()
			if pc.Cap()-pc.Available() != len(got) {
				panic("worker: the frame of a record cannot be measured: a fresh encoder has consumed bytes")
			}
		})
		if !called || lpan != "" {
			panic("worker: the library did not call the marshaller of a record (" + lpan + ")")
		}
		return got
	}
	m1, m2 := "Qx7Qx7", "Zy9"
	p1, p2 := see(m1), see(m2)
	i := strings.Index(p1, m1)
	if i < 0 || strings.Count(p1, m1) != 1 {
		panic("worker: the frame of a record cannot be measured: " + p1)
	}
	head, tail := p1[:i], p1[i+len(m1):]
	if p2 != head+m2+tail || see("") != head+tail {
		panic("worker: the frame of a record is not head + message + tail: " + p1 + " / " + p2)
	}
	bufRec.lg, bufRec.head, bufRec.tail = lg, head, tail
	return lg, head, tail
}

func bufHasRecycle(ops []bufOp) bool {
	for i := range ops {
		if ops[i].Op == "Recycle" {
			return true
		}
	}
	return false
}

// recycle logs the step "the previous record ended, the library took the encoder back and handed pc to
// a marshaller of the next record", of which it has written `prefix` so far.  Nothing is called: the
// line carries what the marshaller sees on entry.  The reference is a bytes.Buffer made of prefix.
func (r *bufRunner) recycle(pc *slog.PrintCtx, bb *bytes.Buffer, op *bufOp, prefix []byte, same bool, lpan string, idx int) {
	*bb = *bytes.NewBuffer(append(make([]byte, 0, max(bufSafeCap(pc), len(prefix))), prefix...))
	var lens [2]int
	var conts [2][]byte
	var oks [2]bool
	for k, x := range []bufAPI{pc, bb} {
		out := r.outPC
		if k == 1 {
			out = r.outBB
		}
		pool := r.pools[k]
		pool.endWindows() // for the caller a modification like any other
		e := &r.e
		e.begin()
		e.str("op", "Recycle")
		e.num("n", op.N)
		e.bytes("b", prefix)
		e.boolean("keep", false)
		e.boolean("same", same)
		e.str("lpan", lpan)
		n := bufSafeLen(x)
		s, b, ok := bufSafeContents(x)
		if ok {
			e.str("pan", "")
		} else {
			e.str("pan", "runtime")
		}
		e.str("err", "nil")
		e.num("len", n)
		e.pool("hv", pool)
		if ok {
			e.bytes("s", s)
			e.bytes("bs", b)
		}
		e.end(out)
		lens[k], conts[k], oks[k] = n, s, ok
	}
	if lens[0] != lens[1] || oks[0] != oks[1] || !bytes.Equal(conts[0], conts[1]) || !r.samePools() {
		e := &r.e
		e.begin()
		e.num("trace", r.trace)
		e.num("step", idx)
		e.str("op", "Recycle")
		e.num("n", op.N)
		e.boolean("pc_ok", oks[0])
		e.num("pc_len", lens[0])
		e.num("bb_len", lens[1])
		e.bytes("pc_s", clipBytes(conts[0]))
		e.bytes("bb_s", clipBytes(conts[1]))
		e.pool("pc_hv", r.pools[0])
		e.pool("bb_hv", r.pools[1])
		e.end(r.outLock)
	}
}

func bufSafeCap(x bufAPI) (n int) {
	defer func() {
		if recover() != nil {
			n = 0
		}
	}()
	return x.Cap()
}

// runRecords: a scripted behaviour over several records of one logger; a "Recycle" op ends the
// current record and starts the next (N = length of its message).
func (r *bufRunner) runRecords(b *bufBehaviour) {
	lg, head, tail := bufRecFrame()
	var segs [][]bufOp
	cur := []bufOp{}
	for _, op := range b.Ops {
		if op.Op == "Recycle" {
			segs = append(segs, cur)
			cur = []bufOp{}
		}
		cur = append(cur, op)
	}
	segs = append(segs, cur)
	bb := new(bytes.Buffer)
	var prevPC *slog.PrintCtx
	idx, total, lpan := 0, len(b.Ops), ""
	for k := range segs {
		seg := segs[k]
		msg := "probe " + string(toBytes(b.New.B))
		if k > 0 {
			msg = bufRecMsg(seg[0].N)
		}
		last := k == len(segs)-1
		called, lp := bufLogRecord(lg, msg, func(pc *slog.PrintCtx) {
			if last {
				defer pc.Reset() // leave a sane encoder to the behaviours that follow
			}
			if k == 0 {
				init := append([]byte(nil), pc.Bytes()...)
				*bb = *bytes.NewBuffer(append(make([]byte, 0, pc.Cap()), init...))
				r.begin(&b.New, init)
			} else {
				rop := seg[0]
				r.recycle(pc, bb, &rop, []byte(head+msg+tail), pc == prevPC, lpan, idx)
				idx++
				seg = seg[1:]
			}
			prevPC = pc
			for i := range seg {
				op := seg[i]
				r.step(pc, bb, &op, b.Obs, idx == total-1, idx)
				idx++
			}
		})
		lpan = lp
		if !called {
			if k == 0 {
				panic("worker: the library did not call the marshaller")
			}
			return // (the record was not formatted: nothing more to observe)
		}
	}
}

// runRandomRecords: a random history over 2..4 records: random calls inside the marshaller of each
var bufRecLens = []int{0, 0, 1, 3, 9, 30, 64, 120, 400, 1500}

func (r *bufRunner) runRandomRecords(g *bufGen, nw *bufOp, obs string, steps int) {
	rng := g.rng
	lg, head, tail := bufRecFrame()
	nrec := 2 + rng.Intn(3)
	bb := new(bytes.Buffer)
	var prevPC *slog.PrintCtx
	i, lpan, prev := 0, "", ""
	for k := 0; k < nrec; k++ {
		msg := "probe " + string(toBytes(nw.B))
		rop := bufOp{Op: "Recycle", N: bufRecLens[rng.Intn(len(bufRecLens))]}
		if k > 0 {
			msg = bufRecMsg(rop.N)
		}
		upto := steps * (k + 1) / nrec
		if rng.Intn(4) == 0 {
			upto = i + rng.Intn(3) // a record whose marshaller does (next to) nothing
		}
		last := k == nrec-1
		called, lp := bufLogRecord(lg, msg, func(pc *slog.PrintCtx) {
			if last {
				defer pc.Reset()
			}
			defer func() {
				// (see runRandom: a PrintCtx that panics while the generator merely looks at it)
				if v := recover(); v != nil {
					if s, ok := v.(string); ok && strings.HasPrefix(s, "worker:") {
						panic(v)
					}
					e := &r.e
					e.begin()
					e.num("trace", r.trace)
					e.num("step", i)
					e.str("op", "inspect-after-"+prev)
					e.str("pc_pan", fmt.Sprint(v))
					e.str("bb_pan", "")
					e.num("pc_len", bufSafeLen(pc))
					e.num("bb_len", bufSafeLen(bb))
					e.end(r.outLock)
				}
			}()
			if k == 0 {
				init := append([]byte(nil), pc.Bytes()...)
				*bb = *bytes.NewBuffer(append(make([]byte, 0, pc.Cap()), init...))
				r.begin(nw, init)
			} else {
				r.recycle(pc, bb, &rop, []byte(head+msg+tail), pc == prevPC, lpan, i)
				i++
				prev = "Recycle"
			}
			prevPC = pc
			for ; i < upto || (last && i < steps); i++ {
				op := g.next(pc, prev, r.pools[1])
				r.step(pc, bb, &op, obs, last && i == steps-1, i)
				prev = op.Op
			}
		})
		lpan = lp
		if !called {
			if k == 0 {
				panic("worker: the library did not call the marshaller")
			}
			return
		}
	}
}
