package main

// Family "encoder" (C04 JSON, C05 logfmt, C06 colored console).
//
//	worker enc <cases.json> <trace.ndjson> <details.ndjson>
//	worker enc sites          lists the call sites behind //line directives (fam_encoder_sites.go)
//
// Every case is an ABSTRACT record of spec/Encoder.tla (message = sequence of character
// classes, attributes = tree of [key id, key class, kind, value class, value id]).  The worker
// concretises it (several representatives per class, chosen by a per-case seeded RNG), logs it
// through the real library (Entry.WriteThru: explicit timestamp, no gating), captures the
// payload, projects the bytes back to the abstract structure with decoders that are independent
// of the library (fam_encoder_dec.go, fam_encoder_color.go) and writes one trace line
// {rec, obs[, probe]} which TLC validates against spec/EncoderTrace.tla.  Nothing here decides
// pass/fail.  details.ndjson carries the concrete strings/payloads for reports and replay.

import (
	"context"
	"encoding/json"
	"errors"
	"fmt"
	"math"
	"math/rand"
	"os"
	"runtime"
	"strconv"
	"strings"
	"time"
	"unicode/utf8"

	"github.com/hedzr/is"
	"github.com/hedzr/is/term/color"
	"github.com/hedzr/logg/slog"
	errorsv3 "gopkg.in/hedzr/errors.v3"
)

func init() { register("enc", encMain) }

type encName struct {
	Has bool     `json:"has"`
	Cls []string `json:"cls"`
}

type encNode struct {
	K    int        `json:"k"`
	KC   string     `json:"kc"`
	Kind string     `json:"kind"`
	VC   string     `json:"vc"`
	V    int        `json:"v"`
	Sub  []*encNode `json:"sub"`
	Size int        `json:"size,omitempty"` // history component: the text of a text kind has exactly this many bytes

	conc any    // concrete Go value handed to the library
	text string // the textual content of text kinds (string, error text, ...)
	elem []any  // concrete elements of slice kinds
}

type encProbe struct {
	Pos    string `json:"pos"`
	Cls    string `json:"cls"`
	Quoted bool   `json:"quoted"`
}

// encLC is the level colour configuration of spec/Encoder.tla (record field lc): with Set the
// worker calls slog.SetLevelColors(sev, fg, bg) with concrete codes of the stated classes.
type encLC struct {
	Set bool   `json:"set"`
	Fg  string `json:"fg"` // "none" | "fg"
	Bg  string `json:"bg"` // "none" | "bg" | "attr"
}

type encRec struct {
	ID      int        `json:"id"`
	Fmt     string     `json:"fmt"`
	Testing bool       `json:"testing"`
	Name    encName    `json:"name"`
	Sev     int        `json:"sev"`
	Caller  bool       `json:"caller"`
	CFile   string     `json:"cfile"` // class of the special character in the file name of the call site ("plain": none)
	Width   int        `json:"width"`
	Minw    int        `json:"minw"`
	Msg     []string   `json:"msg"`
	Attrs   []*encNode `json:"attrs"`
	LC      encLC      `json:"lc"`
	Form    string     `json:"form,omitempty"` // "thru" (Entry.WriteThru) | "call-attr" | "call-kv" (Logit with Attr values / key, value pairs)
	Env     string     `json:"env,omitempty"`  // "default" | "nocolor" (is.SetNoColorMode(true) while the record is formatted)
}

type encCase struct {
	encRec
	Probe *encProbe `json:"probe,omitempty"`
	Salt  int       `json:"salt"`  // varies the representatives of one abstract case
	Site  int       `json:"site"`  // 0: the worker's own call site; k > 0: the k-th //line site of class CFile
	ByVar bool      `json:"byvar"` // enumerate the concrete Go types / boundary values by Salt
}

type encFile struct {
	Seed  int       `json:"seed"`
	Cases []encCase `json:"cases"`
}

// sentinels that delimit the probe character in the output
const encS1, encS2 = "pQz7", "7zQp"

var encTS = time.Date(2024, 5, 6, 7, 8, 9, 123456789, time.UTC)

// ---- concretisation of character classes

var encPools = map[string][]string{
	"plain":    {"a", "b", "Z", "q7", "x_y", "m-n", "0", "Hello", "w"},
	"space":    {" "},
	"quote":    {"\""},
	"bslash":   {"\\"},
	"LF":       {"\n"},
	"CR":       {"\r"},
	"TAB":      {"\t"},
	"BSFF":     {"\b", "\f"},
	"C0":       {"\a", "\v", "\x00", "\x01", "\x1f", "\x0e"},
	"ESC":      {"\x1b", "\x1b[2J", "\x1b]0;t\x1b\\", "\x1b[38;5;201m"},
	"DEL":      {"\x7f"},
	"C1":       {"\u009b", "\u0085", "\u0080", "\u009f", "\u009b31m", "\u0090", "\u009b2J"}, // C1 controls in UTF-8 (U+009B = CSI)
	"C1raw":    {"\x9b", "\x80", "\x9b31m", "\x85", "\x9f", "\x9b2J"},                   // the same controls as single bytes: not UTF-8
	"nonascii": {"é", "中", "Ж", "ü", "\ufffd", "a\ufffdb"}, // incl. a well-formed U+FFFD (not an invalid byte!)
	"npbmp":    {"\u200b", "\ufeff", "\u00ad", "\u00a0"},
	"lsep":     {"\u2028", "\u2029"},
	"astral":   {"😀", "𝒜"},
	"astralnp": {"\U000e0001", "\U0001d173", "\U0010ffff"},
	"invalid":  {"\xff", "\xc3", "\xfe", "\xed\xa0\xa0", "\xe2\xa0", "\xf5"}, // not UTF-8, no byte in 0x80..0x9f (those are C1raw)
	"markup":   {"<", ">", "&", "<b>", "</i>", "&amp;"},
	"equals":   {"="},
}

type encGen struct {
	r       *rand.Rand
	last    string // the representative most recently wrapped in sentinels
	noSpace bool
	variant int // >= 0: enumerate concrete Go types / boundary values by number
}

// pick chooses one of n concrete variants: the case's variant number when the case asks for
// deterministic enumeration (value-kind cells), a random one otherwise.
func (g *encGen) pick(n int) int {
	if g.variant >= 0 {
		return g.variant % n
	}
	return g.r.Intn(n)
}

func (g *encGen) rep(cls string) string {
	p, ok := encPools[cls]
	if !ok {
		panic("unknown class " + cls)
	}
	if cls == "plain" && g.r.Intn(60) == 0 {
		return strings.Repeat(p[g.r.Intn(len(p))], 300+g.r.Intn(1200))
	}
	return p[g.r.Intn(len(p))]
}

// text renders a class sequence; probe != "" wraps the single non-plain element in sentinels.
func (g *encGen) seq(cls []string) string {
	var sb strings.Builder
	for _, c := range cls {
		sb.WriteString(g.rep(c))
	}
	return sb.String()
}

func (g *encGen) probed(cls string) string { g.last = g.rep(cls); return encS1 + g.last + encS2 }

// ---- concrete values per kind

type encStringer struct{ s string }

func (s encStringer) String() string { return s.s }

type encTextM struct{ s string }

func (t encTextM) MarshalText() ([]byte, error) { return []byte(t.s), nil }

type encStructA struct {
	A int
	B string
}
type encStructB struct{ S string }

func (g *encGen) scalar(kind string, id int, text string) (any, []any) {
	r := g.r
	switch kind {
	case "string":
		return text, nil
	case "stringer":
		return encStringer{text}, nil
	case "textm":
		return encTextM{text}, nil
	case "error":
		if g.pick(3) == 0 {
			return errorsv3.New("%s", text), nil // carries a stack: JSON adds a trace object
		}
		return errors.New(text), nil
	case "bytes":
		return []byte(text), nil
	case "fallback":
		if g.noSpace { // colored: C06 fixes no value syntax, keep the %v text free of spaces
			if g.pick(2) == 0 {
				return encStructB{S: text}, nil
			}
			return map[string]string{"f": text}, nil
		}
		switch g.pick(3) {
		case 0:
			return encStructA{A: id, B: text}, nil
		case 1:
			return map[string]string{"f": text}, nil
		}
		return &encStructA{A: id, B: text}, nil
	case "nil":
		if g.pick(2) == 0 {
			var e error
			return e, nil
		}
		return nil, nil
	case "bool":
		return id%2 == 1, nil
	case "int":
		n := int64(id)*100003 + int64(r.Intn(100000))
		switch g.pick(12) {
		case 0:
			return int8(n % 127), nil
		case 1:
			return int16(n % 32767), nil
		case 2:
			return int32(-n), nil
		case 3:
			return int64(math.MinInt64 + n), nil
		case 4:
			return int64(math.MaxInt64 - n), nil
		case 5:
			return -int(n), nil
		case 6:
			return int8(math.MinInt8), nil
		case 7:
			return int16(math.MinInt16), nil
		case 8:
			return int32(math.MaxInt32), nil
		case 9:
			return int64(math.MinInt64), nil
		case 10:
			return int(0), nil
		}
		return int(n), nil
	case "uint":
		n := uint64(id)*100003 + uint64(r.Intn(100000))
		switch g.pick(10) {
		case 0:
			return uint8(128 + n%128), nil
		case 1:
			return uint16(32768 + n%32768), nil
		case 2:
			return uint32(math.MaxUint32 - uint32(n)), nil
		case 3:
			return uint64(math.MaxUint64 - n), nil
		case 4:
			return uint64(n), nil
		case 5:
			return uint8(n % 128), nil
		case 6:
			return uint(math.MaxUint64), nil
		case 7:
			return uint8(255), nil
		case 8:
			return uint16(65535), nil
		}
		return uint(n), nil
	case "float":
		f := float64(id) + r.Float64()
		switch g.pick(9) {
		case 0:
			return float32(f), nil
		case 1:
			return -f * 1e30, nil
		case 2:
			return f * 1e-30, nil
		case 3:
			return math.Inf(1 - 2*(id%2)), nil
		case 4:
			return float64(int64(f)), nil
		case 5:
			return math.SmallestNonzeroFloat64 * float64(id+1), nil
		}
		return f, nil
	case "complex":
		re, im := float64(id)+r.Float64(), r.Float64()*10-5
		if g.pick(3) == 0 {
			return complex64(complex(float32(re), float32(im))), nil
		}
		return complex(re, im), nil
	case "duration":
		return time.Duration(int64(id)*int64(time.Millisecond) + r.Int63n(int64(72*time.Hour))), nil
	case "time":
		t := encTS.Add(time.Duration(id)*time.Second + time.Duration(r.Int63n(int64(time.Hour))))
		// the three zone classes of spec/Encoder.tla: UTC, an offset of whole minutes, an offset with a seconds part
		switch g.pick(5) {
		case 0:
			t = t.In(time.FixedZone("X", 5*3600+1800))
		case 1:
			t = t.Add(-time.Duration(r.Int63n(int64(30 * 365 * 24 * time.Hour)))).In(time.FixedZone("Y", -7*3600))
		case 2:
			t = t.In(time.FixedZone("AMT", 19*60+32)) // Europe/Amsterdam until 1937: +00:19:32
		case 3:
			t = t.Add(-time.Duration(r.Int63n(int64(50 * 365 * 24 * time.Hour)))).In(time.FixedZone("MMT", -(44*60 + 30))) // Africa/Monrovia until 1972
		}
		return t, nil
	}
	panic("kind " + kind)
}

var encSliceElem = map[string]string{"strs": "string", "bools": "bool", "ints": "int", "uints": "uint",
	"floats": "float", "complexes": "complex", "durations": "duration", "times": "time"}

func (g *encGen) slice(kind string, id int, text string) (any, []any) {
	ek := encSliceElem[kind]
	n := g.r.Intn(4)
	if kind == "strs" && n == 0 {
		n = 1
	}
	elems := make([]any, 0, n)
	switch kind {
	case "strs":
		out := make([]string, n)
		for i := range out {
			out[i] = fmt.Sprintf("e%d", i)
		}
		out[g.r.Intn(n)] = text
		for _, s := range out {
			elems = append(elems, s)
		}
		return out, elems
	case "bools":
		out := make([]bool, n)
		for i := range out {
			out[i] = g.r.Intn(2) == 0
			elems = append(elems, out[i])
		}
		return out, elems
	case "ints":
		switch g.pick(3) {
		case 0:
			out := make([]int, n)
			for i := range out {
				out[i] = id*1009 + g.r.Intn(1000) - 500
				elems = append(elems, out[i])
			}
			return out, elems
		case 1:
			out := make([]int64, n)
			for i := range out {
				out[i] = math.MinInt64 + int64(id*1009+g.r.Intn(1000))
				elems = append(elems, out[i])
			}
			return out, elems
		}
		out := make([]int8, n)
		for i := range out {
			out[i] = int8(g.r.Intn(256) - 128)
			elems = append(elems, out[i])
		}
		return out, elems
	case "uints":
		if g.pick(2) == 0 {
			out := make([]uint, n)
			for i := range out {
				out[i] = uint(id*1009 + g.r.Intn(1000))
				elems = append(elems, out[i])
			}
			return out, elems
		}
		out := make([]uint64, n)
		for i := range out {
			out[i] = math.MaxUint64 - uint64(id*1009+g.r.Intn(1000))
			elems = append(elems, out[i])
		}
		return out, elems
	case "floats":
		if g.pick(2) == 0 {
			out := make([]float32, n)
			for i := range out {
				out[i] = float32(id) + g.r.Float32()
				elems = append(elems, out[i])
			}
			return out, elems
		}
		out := make([]float64, n)
		for i := range out {
			out[i] = (float64(id) + g.r.Float64()) * math.Pow(10, float64(g.r.Intn(40)-20))
			elems = append(elems, out[i])
		}
		return out, elems
	case "complexes":
		out := make([]complex128, n)
		for i := range out {
			out[i] = complex(float64(id)+g.r.Float64(), g.r.Float64()-0.5)
			elems = append(elems, out[i])
		}
		return out, elems
	case "durations":
		out := make([]time.Duration, n)
		for i := range out {
			v, _ := g.scalar(ek, id+i, "")
			out[i] = v.(time.Duration)
			elems = append(elems, out[i])
		}
		return out, elems
	case "times":
		out := make([]time.Time, n)
		for i := range out {
			v, _ := g.scalar(ek, id+i, "")
			out[i] = v.(time.Time)
			elems = append(elems, out[i])
		}
		return out, elems
	}
	panic("slice kind " + kind)
}

var encTextKinds = map[string]bool{"string": true, "error": true, "stringer": true, "bytes": true, "strs": true,
	"fallback": true, "textm": true}

// ---- one case

type encRun struct {
	c         *encCase
	g         *encGen
	keys      map[int]string // key id -> concrete key
	keyID     map[string]int
	nodesAt   map[string][]*encNode
	msg       string
	name      string
	probeTx   string   // the concrete text that carries the probe
	unmatched []string // decoded members that equal no input value (for reports only)
}

func encPathKey(p []int) string {
	var sb strings.Builder
	for _, k := range p {
		sb.WriteString(strconv.Itoa(k))
		sb.WriteByte('/')
	}
	return sb.String()
}

// key identities of spec/Encoder.tla's ReservedIds
var encReservedKeys = map[int]string{-1: "caller", 96: "level", 97: "logger", 98: "msg", 99: "time"}

func (r *encRun) key(n *encNode, probe bool) string {
	if k, ok := r.keys[n.K]; ok {
		return k
	}
	var k string
	switch {
	case encReservedKeys[n.K] != "":
		k = encReservedKeys[n.K] // a field name the encoders use themselves
	case n.K == 0:
		k = ""
	case probe:
		k = fmt.Sprintf("k%02d", n.K) + r.g.probed(n.KC)
	case n.KC != "plain" && n.KC != "":
		k = fmt.Sprintf("k%02d", n.K) + r.g.rep(n.KC) + "z"
	default:
		k = fmt.Sprintf("k%02d", n.K)
	}
	r.keys[n.K] = k
	r.keyID[k] = n.K
	return k
}

func (r *encRun) build(nodes []*encNode, path []int, depth int) slog.Attrs {
	items := r.buildArgs(nodes, path, depth, false)
	out := make(slog.Attrs, 0, len(items))
	for _, it := range items {
		out = append(out, it.(slog.Attr))
	}
	return out
}

// buildArgs concretises an attribute list as an ARGUMENT list: Attr values (kv = false), or alternating key,
// value pairs (kv = true) - then the members of a group are handed to slog.Group the same way, and the group
// itself is one Attr argument among the pairs.
func (r *encRun) buildArgs(nodes []*encNode, path []int, depth int, kv bool) []any {
	out := make([]any, 0, 2*len(nodes))
	for _, n := range nodes {
		p := append(append([]int(nil), path...), n.K)
		r.nodesAt[encPathKey(p)] = append(r.nodesAt[encPathKey(p)], n)
		pr := r.c.Probe
		if n.Kind == "group" {
			key := r.key(n, pr != nil && pr.Pos == "gkey" && n.KC == pr.Cls && depth == 0)
			if kv {
				out = append(out, slog.Group(key, r.buildArgs(n.Sub, p, depth+1, true)...))
			} else {
				out = append(out, slog.NewGroupedAttr(key, []slog.Attr(r.build(n.Sub, p, depth+1))...))
			}
			continue
		}
		key := r.key(n, pr != nil && pr.Pos == "key" && n.KC == pr.Cls && depth == 0)
		if encTextKinds[n.Kind] {
			if pr != nil && pr.Pos == n.Kind && n.VC == pr.Cls && r.probeTx == "" {
				n.text = r.g.probed(n.VC)
				r.probeTx = n.text
			} else if n.Size > 0 { // a long plain run, the special character (if any) behind it
				n.text = fmt.Sprintf("v%d", n.V) + encSizedPlain(r.g.r, n.Size)
				if n.VC != "plain" && n.VC != "" {
					n.text += r.g.rep(n.VC) + r.g.rep("plain")
				}
			} else if n.VC == "plain" || n.VC == "" {
				n.text = fmt.Sprintf("v%d", n.V) + r.g.rep("plain")
			} else {
				n.text = fmt.Sprintf("v%d", n.V) + r.g.rep(n.VC) + r.g.rep("plain")
			}
		}
		if _, ok := encSliceElem[n.Kind]; ok {
			n.conc, n.elem = r.g.slice(n.Kind, n.V, n.text)
		} else {
			n.conc, n.elem = r.g.scalar(n.Kind, n.V, n.text)
		}
		if kv {
			out = append(out, key, n.conc)
		} else {
			out = append(out, slog.NewAttr(key, n.conc))
		}
	}
	return out
}

// encCall logs a record through a public entry point with an argument list (forms "call-attr" /
// "call-kv"); the caller field must name this function, a line of lo..hi.
//
//go:noinline
func encCall(l *slog.Entry, lvl slog.Level, msg string, args []any) (lo, hi int, file, fn string) {
	lo = enchLine()
	pc, f, _, _ := runtime.Caller(0)
	file, fn = f, runtime.FuncForPC(pc).Name()
	l.Logit(encBg, lvl, msg, args...)
	hi = enchLine()
	return
}

// encCallSite is the frame the caller field must name when it is switched on.
//
//go:noinline
func encCallSite() (pc uintptr, file string, line int, fn string) {
	var pcs [1]uintptr
	runtime.Callers(1, pcs[:])
	fr, _ := runtime.CallersFrames(pcs[:]).Next()
	return pcs[0], fr.File, fr.Line, fr.Function
}

// ---- call sites behind //line directives (generated: fam_encoder_sites.go)

// encLineSite is a real call site of this program whose source position carries the file name
// `file` (a //line or /*line*/ directive): `at` captures a program counter inside it, `do` logs a
// record from it through a public entry point (history component).
type encLineSite struct {
	cls   string // character class of spec/Encoder.tla the file name carries
	file  string // the file name as written in the directive
	probe string // the special character that sits between the sentinels in the name ("" = no sentinels)
	at    func() (pc uintptr, file string, line int, fn string)
	do    func(l *slog.Entry, via string, lvl slog.Level, msg string, args []any) (line int, file, fn string)
}

// encSiteHere reports the statement of its caller: the pc handed to Entry.WriteThru and what
// the runtime says about it.
//
//go:noinline
func encSiteHere() (pc uintptr, file string, line int, fn string) {
	var pcs [1]uintptr
	runtime.Callers(2, pcs[:])
	fr, _ := runtime.CallersFrames(pcs[:]).Next()
	return pcs[0], fr.File, fr.Line, fr.Function
}

var encBg = context.Background()

// encSiteOf: the k-th (1-based, wrapping) site of a class.
func encSiteOf(cls string, k int) *encLineSite {
	var of []*encLineSite
	for i := range encLineSites {
		if encLineSites[i].cls == cls {
			of = append(of, &encLineSites[i])
		}
	}
	if len(of) == 0 || k < 1 {
		return nil
	}
	return of[(k-1)%len(of)]
}

// encListSites prints every //line site with the file name the runtime really reports for it.
func encListSites() int {
	out := []map[string]any{}
	for i := range encLineSites {
		s := &encLineSites[i]
		_, file, line, fn := s.at()
		out = append(out, map[string]any{"cls": s.cls, "file": strconv.QuoteToASCII(s.file), "probe": strconv.QuoteToASCII(s.probe),
			"runtime": strconv.QuoteToASCII(file), "line": line, "fn": fn, "ok": file == s.file && line > 0})
	}
	fmt.Println(encJSONString(out))
	return 0
}

type encCapture struct{ chunks [][]byte }

func (c *encCapture) Write(p []byte) (int, error) {
	c.chunks = append(c.chunks, append([]byte(nil), p...))
	return len(p), nil
}

var encLoggers = map[string]*slog.Entry{}
var encCap = &encCapture{}

func encLogger(format, name string, has, call bool) *slog.Entry {
	k := format + "\x00" + name
	if !has {
		k = format
	}
	if call {
		k = "call\x00" + k
	}
	if l, ok := encLoggers[k]; ok {
		return l
	}
	var l *slog.Entry
	if has {
		l = slog.New(name).SetWriter(encCap)
	} else {
		l = slog.New().SetWriter(encCap)
	}
	l.SetErrorWriter(encCap)
	switch format {
	case "json":
		l.SetJSONMode(true)
	case "logfmt":
		l.SetJSONMode(false)
		l.SetColorMode(false)
	default:
		l.SetColorMode(true)
	}
	l.SetLevel(slog.TraceLevel)
	if call { // records enter through Logit: the gate must let every severity pass (WriteThru has no gate)
		l.SetLevel(slog.AlwaysLevel)
	}
	encLoggers[k] = l
	return l
}

func encMain(args []string) int {
	if len(args) >= 1 && args[0] == "sites" {
		return encListSites()
	}
	if len(args) < 3 {
		fmt.Fprintln(os.Stderr, "usage: worker enc <cases.json> <trace.ndjson> <details.ndjson>")
		return 2
	}
	var f encFile
	readJSON(args[0], &f)
	out := newTraceOut(args[1])
	defer out.close()
	det := newTraceOut(args[2])
	defer det.close()

	// two registered custom severities (fg+attribute with tags; fg only, no tags); 33 stays unregistered
	_ = slog.RegisterLevel(slog.Level(17), "NOTICE", slog.RegWithColor(color.FgBlue, color.BgDim),
		slog.RegWithShortTags([6]string{"", "N", "NT", "NTC", "NOTC", "NOTIC"}))
	_ = slog.RegisterLevel(slog.Level(18), "HINT", slog.RegWithColor(color.FgLightGreen))
	testing := is.InTesting()
	baseFlags := slog.LstdFlags&^slog.Lcaller | slog.LnoInterrupt

	for i := range f.Cases {
		c := &f.Cases[i]
		c.Testing = testing
		seed := int64(f.Seed)*1000003 + int64(c.ID)*7919 + int64(c.Salt)*104729
		r := &encRun{c: c, g: &encGen{r: rand.New(rand.NewSource(seed))}, keys: map[int]string{}, keyID: map[string]int{},
			nodesAt: map[string][]*encNode{}}
		r.g.noSpace = c.Fmt == "color"
		r.g.variant = -1
		if c.ByVar {
			r.g.variant = c.Salt
		}
		pr := c.Probe
		if pr != nil && pr.Pos == "msg" {
			r.msg = r.g.probed(pr.Cls)
			r.probeTx = r.msg
		} else {
			r.msg = r.g.seq(c.Msg)
		}
		if c.Name.Has {
			if pr != nil && pr.Pos == "name" {
				r.name = r.g.probed(pr.Cls)
				r.probeTx = r.name
			} else {
				r.name = "svc" + r.g.seq(c.Name.Cls)
			}
		}
		if c.Form == "" {
			c.Form = "thru"
		}
		if c.Env == "" {
			c.Env = "default"
		}
		var attrs slog.Attrs
		var callArgs []any
		if c.Form == "thru" {
			attrs = r.build(c.Attrs, nil, 0)
		} else {
			callArgs = r.buildArgs(c.Attrs, nil, 0, c.Form == "call-kv")
		}

		if c.Caller {
			slog.SetFlags(baseFlags | slog.Lcaller)
		} else {
			slog.SetFlags(baseFlags)
		}
		slog.SetLevelOutputWidth(c.Width)
		slog.SetMessageMinimalWidth(c.Minw)
		l := encLogger(c.Fmt, r.name, c.Name.Has, c.Form != "thru")
		if c.LC.Fg == "" {
			c.LC.Fg, c.LC.Bg = "none", "none"
		}
		lcFg, lcBg := -1, -1
		if c.LC.Set {
			lcFg, lcBg = encSetColours(c.Sev, c.LC, r.g.r)
		}
		encCap.chunks = encCap.chunks[:0]
		if c.CFile == "" {
			c.CFile = "plain"
		}
		pc, file, line, fn := encCallSite()
		if c.Site > 0 { // a call site behind a //line directive whose file name carries a character of class CFile
			ls := encSiteOf(c.CFile, c.Site)
			if ls == nil {
				fmt.Fprintf(os.Stderr, "worker enc: no //line call site of class %q\n", c.CFile)
				return 2
			}
			pc, file, line, fn = ls.at()
			if pr != nil && pr.Pos == "cfile" {
				r.g.last = ls.probe
			}
		}
		if !c.Caller {
			pc = 0
		}
		panicked := ""
		lineHi := 0
		if c.Env == "nocolor" { // the process-wide no-colour switch of github.com/hedzr/is (a --no-color option sets it)
			is.SetNoColorMode(true)
		}
		t0 := time.Now()
		func() {
			defer func() {
				if e := recover(); e != nil {
					panicked = fmt.Sprint(e)
				}
			}()
			if c.Form == "thru" {
				l.WriteThru(context.Background(), slog.Level(c.Sev), encTS, pc, r.msg, attrs)
			} else {
				// a logging call: the time is now, the call site is encCall (sites behind //line directives are
				// reached through WriteThru only - the orchestrator generates call forms with site 0)
				line, lineHi, file, fn = encCall(l, slog.Level(c.Sev), r.msg, callArgs)
			}
		}()
		t1 := time.Now()
		if c.Env == "nocolor" {
			is.SetNoColorMode(false)
		}
		if c.LC.Set {
			encRestoreColours(c.Sev)
		}
		encTSOK = encTSFixed
		if c.Form != "thru" {
			encTSOK = encTSWindow(t0, t1)
		}
		var payload []byte
		for _, ch := range encCap.chunks {
			payload = append(payload, ch...)
		}
		site := encSite{file: file, line: line, lineHi: lineHi, fn: fn}
		var obs map[string]any
		switch c.Fmt {
		case "json":
			obs = encObsJSON(r, payload, site)
		case "logfmt":
			obs = encObsLogfmt(r, payload, site)
		default:
			obs = encObsColor(r, payload, site)
		}
		obs["writes"] = len(encCap.chunks)
		delete(obs, "lvltext")
		delete(obs, "tagtext")
		line1 := map[string]any{"rec": c.encRec, "obs": obs}
		if pr != nil {
			form, found := encProbeForm(payload, pr.Cls, r.g.last)
			line1["probe"] = map[string]any{"cls": pr.Cls, "form": form, "found": found, "quoted": pr.Quoted}
		}
		out.emit(line1)
		lcon := true // the configured codes were switched on somewhere in the record (binding of SetLevelColors, not judged)
		if st, ok := obs["stream"].([]int); ok && c.LC.Set {
			lcon = (lcFg < 0 || encIntIn(st, lcFg)) && (lcBg < 0 || encIntIn(st, lcBg))
		}
		det.emit(map[string]any{"id": c.ID, "lc": []int{lcFg, lcBg}, "lcon": lcon,
			"payload": strconv.QuoteToASCII(string(payload)), "msg": strconv.QuoteToASCII(r.msg),
			"name": strconv.QuoteToASCII(r.name), "site": strconv.QuoteToASCII(file), "keys": encKeyList(r), "values": encValueList(c.Attrs), "panic": panicked, "unmatched": r.unmatched})
	}
	return 0
}

type encSite struct {
	file   string
	line   int
	lineHi int // > 0: any line in line..lineHi (history component: the call sits inside enchDo)
	fn     string
}

func encKeyList(r *encRun) map[string]string {
	m := map[string]string{}
	for id, k := range r.keys {
		m[strconv.Itoa(id)] = strconv.QuoteToASCII(k)
	}
	return m
}

func encValueList(nodes []*encNode) []string {
	var out []string
	var walk func(ns []*encNode)
	walk = func(ns []*encNode) {
		for _, n := range ns {
			if len(out) >= 40 {
				return
			}
			if n.Kind == "group" {
				walk(n.Sub)
			} else {
				out = append(out, fmt.Sprintf("v%d %s %T %s", n.V, n.Kind, n.conc, strconv.QuoteToASCII(fmt.Sprintf("%v", n.conc))))
			}
		}
	}
	walk(nodes)
	return out
}

// encProbeForm finds the probe character between the sentinels and renders the bytes emitted
// for it as the token alphabet of Encoder.tla.
func encProbeForm(payload []byte, cls, rep string) ([]string, bool) {
	s := string(payload)
	i := strings.Index(s, encS1)
	if i < 0 {
		return []string{}, false
	}
	rest := s[i+len(encS1):]
	j := strings.Index(rest, encS2)
	if j < 0 {
		return []string{}, false
	}
	if rest[:j] == rep { // the character itself, unescaped
		return []string{"R_" + cls}, true
	}
	return encTokens(rest[:j], cls), true
}

// ColorUnsafe of spec/Encoder.tla: the C0 controls, ESC, DEL and the C1 controls (UTF-8 encoded / as single bytes)
var encControlCls = map[string]bool{"LF": true, "CR": true, "TAB": true, "BSFF": true, "C0": true, "ESC": true, "DEL": true,
	"C1": true, "C1raw": true}

// encControlAt: does a control character start at s[i]?  (a byte < 0x20, DEL, a code point U+0080..U+009F, or a
// byte 0x80..0x9f that is not part of a UTF-8 sequence); w = the width of what sits there.
func encControlAt(s string, i int) (ctl bool, w int) {
	b := s[i]
	if b < 0x80 {
		return b < 0x20 || b == 0x7f, 1
	}
	r, w := utf8.DecodeRuneInString(s[i:])
	if r == utf8.RuneError && w <= 1 {
		return b <= 0x9f, 1
	}
	return r >= 0x80 && r <= 0x9f, w
}

func encHasControl(s string) bool {
	for i := 0; i < len(s); {
		ctl, w := encControlAt(s, i)
		if ctl {
			return true
		}
		i += w
	}
	return false
}

func encIsHex(b byte) bool {
	return b >= '0' && b <= '9' || b >= 'a' && b <= 'f' || b >= 'A' && b <= 'F'
}

// encTokens: a backslash starts an escape (letter, then the hex/octal digits that follow);
// anything else is "the character itself".
func encTokens(seg, cls string) []string {
	out := []string{}
	raw := false
	for i := 0; i < len(seg); {
		if seg[i] != '\\' {
			if !raw {
				// the printable tail of a multi-byte representative (ESC [ 2 J) is ordinary text
				j := i
				for j < len(seg) && seg[j] != '\\' {
					j++
				}
				if encControlCls[cls] && !encHasControl(seg[i:j]) {
					out = append(out, "R_plain")
				} else {
					out = append(out, "R_"+cls)
				}
				raw = true
			}
			i++
			continue
		}
		raw = false
		out = append(out, "BS")
		i++
		if i >= len(seg) {
			break
		}
		ch := seg[i]
		i++
		switch {
		case ch == '"':
			out = append(out, "q")
		case ch == '\\':
			out = append(out, "bs")
		case ch == '/':
			out = append(out, "sl")
		case ch >= '0' && ch <= '7':
			out = append(out, "O")
			for n := 0; n < 2 && i < len(seg) && seg[i] >= '0' && seg[i] <= '7'; n++ {
				out = append(out, "O")
				i++
			}
		case ch == 'x' || ch == 'u' || ch == 'U':
			out = append(out, string(ch))
			max := map[byte]int{'x': 2, 'u': 4, 'U': 8}[ch]
			for n := 0; n < max && i < len(seg) && encIsHex(seg[i]); n++ {
				out = append(out, "H")
				i++
			}
		default:
			out = append(out, string(ch))
		}
	}
	return out
}

const encPlainAlphabet = "abcdefghijklmnopqrstuvwxyzABCDEFGHIJKLMNOPQRSTUVWXYZ0123456789_-.:,;!?/()+*#@%~^|"

// encSizedPlain: n bytes of plain text (no space, quote, backslash, '=', markup or control byte)
func encSizedPlain(r *rand.Rand, n int) string {
	b := make([]byte, n)
	for i := range b {
		b[i] = encPlainAlphabet[r.Intn(len(encPlainAlphabet))]
	}
	return string(b)
}

func encJSONString(v any) string {
	b, _ := json.Marshal(v)
	return string(b)
}
