package main

import (
	"context"
	"errors"
	"fmt"
	"math/rand"
	"time"

	"github.com/hedzr/logg/slog"
)

// LogA (property C02): one call through an entry-point class with a message of a given class and
// an argument list given as token kinds; several concrete representatives exist per token and
// one is drawn per call from the script's seed.

type argStringer struct{ s string }

func (a argStringer) String() string { return a.s }

type argStruct struct {
	A int
	B string
	C []byte
	D map[string]int
}

var coreRng *rand.Rand

func (r *coreRun) rng() *rand.Rand {
	if coreRng == nil {
		coreRng = rand.New(rand.NewSource(r.sc.Seed*1000003 + 7))
	}
	return coreRng
}

func pick[T any](rn *rand.Rand, xs ...T) T { return xs[rn.Intn(len(xs))] }

func (r *coreRun) message(class string) string {
	rn := r.rng()
	switch class {
	case "empty":
		return ""
	case "blank":
		return pick(rn, " ", "\n", "\t", " \t\r\n ", "\n\n", "\r\n")
	case "multi":
		return pick(rn, "line one\nline two", "a\nb\nc", "first\n\nthird", "x\r\ny")
	case "trailnl":
		return pick(rn, "message\n", "two\nlines\n", "crlf\r\n")
	case "bytes":
		n := rn.Intn(40) + 1
		b := make([]byte, n)
		for i := range b {
			b[i] = byte(rn.Intn(256))
		}
		return pick(rn, string(b), "q\"uote\\back", "esc\x1b[31mred", "nul\x00byte", "\xff\xfe", "tab\tsep", "<b>markup</b> &amp;")
	}
	return pick(rn, "hello", "a plain message", "msg=with equals", "unicode héllo 世界", "x")
}

func (r *coreRun) argValue(tok string) any {
	rn := r.rng()
	key := fmt.Sprintf("a%03d", rn.Intn(30))
	switch tok {
	case "key":
		return key
	case "ekey":
		return ""
	case "str":
		return pick(rn, "value", "", "with space", "q\"uote", "new\nline", "\xffbad")
	case "int":
		return pick[any](rn, 42, int8(-3), uint16(7), int64(-1)<<62, 3.5, float32(1.25), true, complex(1, -2), 'x', uint8(200))
	case "nil":
		return nil
	case "err":
		return pick[any](rn, errors.New("boom"), fmt.Errorf("wrapped: %w", errors.New("inner")), context.Canceled)
	case "any":
		ch := make(chan int)
		x := 5
		return pick[any](rn, argStruct{1, "b", []byte("c"), map[string]int{"d": 1}}, &argStruct{A: 2}, map[string]any{"k": 1},
			[]any{1, "two", nil}, ch, &x, []byte("bytes\nwith newline"), [2]int{1, 2}, struct{}{}, argStringer{"stringer"},
			time.Duration(1500)*time.Millisecond, time.Date(2024, 1, 2, 3, 4, 5, 6, time.UTC), []string{"a", "b"}, []int{1, 2},
			[]float64{1.5}, []bool{true}, []time.Duration{time.Second}, func() {}, (*argStruct)(nil), error(nil))
	case "attr":
		return pick[any](rn, slog.Int(key, rn.Intn(9)), slog.String(key, "v"), slog.Any(key, nil), slog.Bool("", true),
			slog.NewAttr(key, errors.New("attr error")))
	case "attrs":
		return pick[any](rn, slog.Attrs{slog.Int(key, 1), slog.Int("a001", 2)}, slog.Attrs{}, slog.Attrs(nil), slog.NewAttrs(key, 1, "dangling"))
	case "attrslice":
		return pick[any](rn, []slog.Attr{slog.Int(key, 1)}, []slog.Attr{}, []slog.Attr(nil), []slog.Attr{slog.Int(key, 1), slog.Int(key, 2)})
	case "group":
		return pick[any](rn, slog.Group("g"+key, "x", 1, "y", "two"), slog.Group("g"+key, slog.Int("x", 1)),
			slog.NewGroupedAttr("g"+key, slog.Int("x", 1), slog.Int("x", 2)), slog.NewGroupedAttrEasy("g"+key, "x", 1))
	case "egroup":
		return pick[any](rn, slog.Group("g"+key), slog.Group(""), slog.NewGroupedAttr("g"+key))
	case "bigattrs": // more attributes than any pooled slice is sized for
		n := pick(rn, 1025, 1100, 2000)
		big := make(slog.Attrs, 0, n)
		for i := 0; i < n; i++ {
			big = append(big, slog.Int(fmt.Sprintf("b%04d", i%1500), i))
		}
		return big
	case "ngroup":
		return pick[any](rn, slog.Group("g"+key, "x", 1, slog.Group("h", "y", 2, slog.Group("i", "z", 3))),
			slog.Group("g"+key, slog.Group("h")), slog.Group("g"+key, slog.Group("h", slog.Group("i"))))
	}
	panic("unknown token " + tok)
}

func (r *coreRun) logA(l *slog.Entry, ev coreEvent, rec map[string]any) {
	msg := r.message(ev.Mc)
	var args []any
	for _, t := range ev.Args {
		args = append(args, r.argValue(t))
	}
	lvl := slog.Level(ev.A)
	ctx := context.Background()
	takeAll()
	outcome := "ret"
	func() {
		defer func() {
			if p := recover(); p != nil {
				outcome = "panic: " + fmt.Sprint(p)
			}
		}()
		switch ev.K {
		case "verb":
			callVerb(l, lvl, msg, args)
		case "ctx":
			callCtxVerb(l, ctx, lvl, msg, args)
		case "LogAttrs":
			l.LogAttrs(ctx, lvl, msg, args...)
		case "Logit":
			l.Logit(ctx, lvl, msg, args...)
		case "Println":
			if ev.Mc == "none" && len(args) == 0 {
				l.Println() // no argument at all
				break
			}
			// NOTE first element of args is decoded as the message; it may be of any kind
			if len(ev.Args) > 0 && ev.Args[0] != "key" && ev.Args[0] != "str" && ev.Args[0] != "ekey" {
				l.Println(args...) // non-string first argument
			} else {
				l.Println(append([]any{msg}, args...)...)
			}
		case "pkg":
			callPkgVerb(lvl, msg, args)
		case "pkg.ctx":
			callPkgCtxVerb(ctx, lvl, msg, args)
		case "pkg.Println":
			if ev.Mc == "none" && len(args) == 0 {
				slog.Println()
				break
			}
			if len(ev.Args) > 0 && ev.Args[0] != "key" && ev.Args[0] != "str" && ev.Args[0] != "ekey" {
				slog.Println(args...)
			} else {
				slog.Println(append([]any{msg}, args...)...)
			}
		default:
			panic("unknown entry-point class " + ev.K)
		}
	}()
	evs := []map[string]any{}
	for _, e := range takeAll() {
		if e.K == "w" {
			p := e.payload
			evs = append(evs, map[string]any{"w": e.W, "nl": len(p) > 0 && p[len(p)-1] == '\n', "one": string(p) == "\n"})
		}
	}
	rec["evs"] = evs
	rec["outcome"] = outcome
	// Println with a non-string first argument has no message of class mc: the first argument is the message
	if (ev.K == "Println" || ev.K == "pkg.Println") && len(ev.Args) > 0 && ev.Args[0] != "key" && ev.Args[0] != "str" && ev.Args[0] != "ekey" {
		rec["mc"] = "plain"
	} else {
		rec["mc"] = ev.Mc
	}
	rec["args"] = append([]string{}, ev.Args...)
}

func callVerb(l *slog.Entry, lvl slog.Level, msg string, args []any) {
	switch lvl {
	case slog.PanicLevel:
		l.Panic(msg, args...)
	case slog.FatalLevel:
		l.Fatal(msg, args...)
	case slog.ErrorLevel:
		l.Error(msg, args...)
	case slog.WarnLevel:
		l.Warn(msg, args...)
	case slog.InfoLevel:
		l.Info(msg, args...)
	case slog.DebugLevel:
		l.Debug(msg, args...)
	case slog.TraceLevel:
		l.Trace(msg, args...)
	case slog.AlwaysLevel:
		l.Print(msg, args...)
	case slog.OKLevel:
		l.OK(msg, args...)
	case slog.SuccessLevel:
		l.Success(msg, args...)
	case slog.FailLevel:
		l.Fail(msg, args...)
	default:
		l.Logit(context.Background(), lvl, msg, args...)
	}
}

func callCtxVerb(l *slog.Entry, ctx context.Context, lvl slog.Level, msg string, args []any) {
	switch lvl {
	case slog.PanicLevel:
		l.PanicContext(ctx, msg, args...)
	case slog.FatalLevel:
		l.FatalContext(ctx, msg, args...)
	case slog.ErrorLevel:
		l.ErrorContext(ctx, msg, args...)
	case slog.WarnLevel:
		l.WarnContext(ctx, msg, args...)
	case slog.InfoLevel:
		l.InfoContext(ctx, msg, args...)
	case slog.DebugLevel:
		l.DebugContext(ctx, msg, args...)
	case slog.TraceLevel:
		l.TraceContext(ctx, msg, args...)
	case slog.AlwaysLevel:
		l.PrintContext(ctx, msg, args...)
	case slog.OKLevel:
		l.OKContext(ctx, msg, args...)
	case slog.SuccessLevel:
		l.SuccessContext(ctx, msg, args...)
	case slog.FailLevel:
		l.FailContext(ctx, msg, args...)
	default:
		l.LogAttrs(ctx, lvl, msg, args...)
	}
}

func callPkgVerb(lvl slog.Level, msg string, args []any) {
	switch lvl {
	case slog.PanicLevel:
		slog.Panic(msg, args...)
	case slog.FatalLevel:
		slog.Fatal(msg, args...)
	case slog.ErrorLevel:
		slog.Error(msg, args...)
	case slog.WarnLevel:
		slog.Warn(msg, args...)
	case slog.InfoLevel:
		slog.Info(msg, args...)
	case slog.DebugLevel:
		slog.Debug(msg, args...)
	case slog.TraceLevel:
		slog.Trace(msg, args...)
	case slog.AlwaysLevel:
		slog.Print(msg, args...)
	case slog.OKLevel:
		slog.OK(msg, args...)
	case slog.SuccessLevel:
		slog.Success(msg, args...)
	default:
		slog.Fail(msg, args...)
	}
}

func callPkgCtxVerb(ctx context.Context, lvl slog.Level, msg string, args []any) {
	switch lvl {
	case slog.PanicLevel:
		slog.PanicContext(ctx, msg, args...)
	case slog.FatalLevel:
		slog.FatalContext(ctx, msg, args...)
	case slog.ErrorLevel:
		slog.ErrorContext(ctx, msg, args...)
	case slog.WarnLevel:
		slog.WarnContext(ctx, msg, args...)
	case slog.InfoLevel:
		slog.InfoContext(ctx, msg, args...)
	case slog.DebugLevel:
		slog.DebugContext(ctx, msg, args...)
	case slog.TraceLevel:
		slog.TraceContext(ctx, msg, args...)
	case slog.AlwaysLevel:
		slog.PrintContext(ctx, msg, args...)
	case slog.OKLevel:
		slog.OKContext(ctx, msg, args...)
	case slog.SuccessLevel:
		slog.SuccessContext(ctx, msg, args...)
	default:
		slog.FailContext(ctx, msg, args...)
	}
}
