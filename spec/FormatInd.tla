---------------------------- MODULE FormatInd ----------------------------
(* C11, unbounded: the format bits of any number of loggers under any sequence of mode calls.
   A stand-alone typed transcription of LoggCore's SetJSONMode / SetColorMode / child creation,
   small enough for Apalache to discharge OneFormat as an inductive invariant
   (IndInit => IndInv at length 0, IndInv /\ Next => IndInv' at length 1).                       *)
EXTENDS Integers

VARIABLES
    \* @type: Int -> Bool;
    json,
    \* @type: Int -> Bool;
    color,
    \* @type: Int -> Bool;
    live

\* logger slots (Apalache needs a constant range; the inductive step covers histories of any length)
Ids == 1..16

\* SetJSONMode(l, m): m is the last boolean argument or TRUE
SetJSON(l, m) ==
    /\ live[l]
    /\ json' = [json EXCEPT ![l] = m]
    /\ color' = [color EXCEPT ![l] = IF m THEN FALSE ELSE color[l]]
    /\ UNCHANGED live
SetColor(l, m) ==
    /\ live[l]
    /\ json' = [json EXCEPT ![l] = FALSE]
    /\ color' = [color EXCEPT ![l] = m]
    /\ UNCHANGED live
\* New / With*: a fresh child starts with its parent's format
Child(p, c) ==
    /\ live[p] /\ ~live[c]
    /\ live' = [live EXCEPT ![c] = TRUE]
    /\ json' = [json EXCEPT ![c] = json[p]]
    /\ color' = [color EXCEPT ![c] = color[p]]
\* With<Mode>: child creation followed by the mode call on the child, as one step
WithJSON(p, c, m) ==
    /\ live[p] /\ ~live[c]
    /\ live' = [live EXCEPT ![c] = TRUE]
    /\ json' = [json EXCEPT ![c] = m]
    /\ color' = [color EXCEPT ![c] = IF m THEN FALSE ELSE color[p]]
WithColor(p, c, m) ==
    /\ live[p] /\ ~live[c]
    /\ live' = [live EXCEPT ![c] = TRUE]
    /\ json' = [json EXCEPT ![c] = FALSE]
    /\ color' = [color EXCEPT ![c] = m]

Init ==
    /\ live = [i \in Ids |-> i = 1]
    /\ json = [i \in Ids |-> FALSE]
    /\ color = [i \in Ids |-> TRUE]

Next ==
    \/ \E l \in Ids, m \in BOOLEAN : SetJSON(l, m) \/ SetColor(l, m)
    \/ \E p \in Ids, c \in Ids : Child(p, c)
    \/ \E p \in Ids, c \in Ids, m \in BOOLEAN : WithJSON(p, c, m) \/ WithColor(p, c, m)

OneFormat == \A l \in Ids : live[l] => ~(json[l] /\ color[l])

\* inductive invariant: type correctness plus the property for every slot (live or not: a slot
\* that is not live keeps its initial bits)
IndInv ==
    /\ json \in [Ids -> BOOLEAN] /\ color \in [Ids -> BOOLEAN] /\ live \in [Ids -> BOOLEAN]
    /\ \A l \in Ids : ~(json[l] /\ color[l])
IndInit == IndInv
=============================================================================
