--------------------------- MODULE RegistryTrace ---------------------------
(* Trace validation for Registry (property C17).

   INPUT.  The Go worker runs every behaviour (a sequence of RegisterLevel calls) in a FRESH
   process - the registry cannot be un-registered - and after the start and after every call
   projects the whole public level API.  Behaviours sharing a prefix whose recordings are
   byte-identical are merged, so the log is a tree written in depth-first order:

     TraceFile  one line per tree node:
        d     depth: 0 = observation of the fresh process, k = after the k-th call
        v, t, tags, treat, err, clr, ret      the call and whether it returned an error (d > 0)
        all   AllLevels()
        lv    ids (into LvFile) of the per-level observations, pr  id (into PrFile) of the
              ParseLevel table.  Interning is injective: equal ids <=> equal observations.
        nest  the same questions asked from INSIDE the library's own writing: a sequence of
              [ctx, ran, lv, pr] - ctx one of Registry!Contexts ("warn": inside the Write of the
              default logger's destination while ParseLevel reports an unknown name, "warn-go":
              another goroutine at that moment, "rec": inside the Write of an ordinary record,
              "val": inside the String method of a value being formatted), ran = the library came
              to that place, lv = ids (into LvFile) of per-level round-trip observations (members
              l .. jdec only), pr = id of the ParseLevel table obtained there.
        lvp   ids (into LvFile) of the round-trip part (l .. jdec) of the outside observations,
              so that  nest[k].lv = lvp  <=>  the nested answers are exactly the outside ones
     LvFile     line k = observation of one level:
        l, str (String), pstr (ParseLevel(String)), txtok/txt/utxt (MarshalText, UnmarshalText
        of it), jsok/js/ujs (MarshalJSON, UnmarshalJSON of it), ejs (encoding/json Marshal ->
        Unmarshal), jdec (js decoded by encoding/json), tag (ShortTag(1..5)),
        gate (per logger level L: Enabled, and whether a record at l was emitted),
        dest (where a record at l went on an Always logger: "normal" / "err" / ...)
        sgr  (colour escapes of a colour-mode record at l; never interpreted, it only makes
              the colour table part of "every table" for RefusalNoOp)
     PrFile     line k = [tab |-> sequence of [s, r]]: ParseLevel(s) = r for every probe string
   Text is code points (-1 = stray byte), an error result is ERR.

   THE MONITOR consumes one line per step.  stk[d+1] is the frame (model state + observation
   ids) of the current node at depth d, so a line at depth d continues from stk[d].  For a call
   line the decision must be one Registry.Decisions allows; the successor is Registry.Accept or
   the unchanged state; a refusal must leave the WHOLE observation identical to the parent's
   (RefusalNoOp); then every observation is compared with what the Registry operators determine.

   The nested observations are judged by the SAME operators with the context handed to
   Registry!LookupIn (which, for the property, ignores it): keys "Nested(<ctx>):<part>:...".

   Every failed comparison is a finding with a KEY.  The key names the part of the statement
   (NameRoundTrip, TextRoundTrip, JSONRoundTrip, AnswersToName, UsesGivenTags, ShortTagLen,
   GatedAsTreated, RoutedIfRequested, AllLevels, RefusalNoOp, Decision; NameForm / TextForm /
   JSONForm: the printed / marshalled form itself, read by the model's own ideal parser, must
   denote the level - this keeps a defect of the way back from hiding one of the way out)
   and, after the colon,
   the named deviation of Registry.tla that predicts EXACTLY the value observed - or
   "unexplained" when none does.  So a listed known defect only ever excuses the precise wrong
   answer it is known to give.  A decision the model does not allow ends that branch of the
   tree (the model cannot follow); everything else continues.                                *)
EXTENDS Registry, Json, SequencesExt

CONSTANTS TraceFile, LvFile, PrFile

VARIABLES i, stk, bad, stats

tvars == <<i, stk, bad, stats, reg, last>>   \* reg, last: variables of Registry, unused here

TLog == ndJsonDeserialize(TraceFile)
LvDefs == ndJsonDeserialize(LvFile)
PrDefs == ndJsonDeserialize(PrFile)


-----------------------------------------------------------------------------
(* keys *)
\* candidate explanations, tried in this order
C_Parse == <<[n |-> "ParseFolds", d |-> {"ParseFolds"}]>>
C_JSON  == <<[n |-> "JSONNoUnquote", d |-> {"JSONNoUnquote"}],
             [n |-> "ParseFolds", d |-> {"ParseFolds"}],
             [n |-> "JSONNoUnquote+ParseFolds", d |-> {"JSONNoUnquote", "ParseFolds"}]>>
C_Tag   == <<[n |-> "TagBytes", d |-> {"TagBytes"}]>>
C_Err   == <<[n |-> "ErrDevNoArg", d |-> {"ErrDevNoArg"}]>>
C_None  == <<>>
\* nested questions: additionally "every lookup fails while an unknown name is being reported"
C_Busy(ctx) == IF ctx \in Reporting THEN <<[n |-> "BusyWhileReporting", d |-> {"BusyWhileReporting"}]>> ELSE <<>>
Pfx(ctx) == IF ctx = "outside" THEN "" ELSE "Nested(" \o ctx \o "):"

\* the first candidate whose prediction P holds names the finding
KeyOf(chk, P(_), cands) ==
    IF Len(cands) >= 1 /\ P(cands[1].d) THEN chk \o ":" \o cands[1].n
    ELSE IF Len(cands) >= 2 /\ P(cands[2].d) THEN chk \o ":" \o cands[2].n
    ELSE IF Len(cands) >= 3 /\ P(cands[3].d) THEN chk \o ":" \o cands[3].n
    ELSE IF Len(cands) >= 4 /\ P(cands[4].d) THEN chk \o ":" \o cands[4].n
    ELSE chk \o ":unexplained"

\* a finding; the detail text is only built for the first occurrence of a key
Finding(key, detail) == {[key |-> key, detail |-> IF key \in DOMAIN bad THEN "" ELSE detail]}

-----------------------------------------------------------------------------
(* one level's observation o against model state s *)
NameFC(ctx, s, o) ==
    IF o.pstr = o.l THEN {}
    ELSE Finding(KeyOf(Pfx(ctx) \o "NameRoundTrip", LAMBDA dev : o.pstr \in LookupIn(dev, ctx, s, o.str), C_Busy(ctx) \o C_Parse),
              ToJson([level |-> o.l, printed |-> o.str, parsed_to |-> o.pstr, asked_from |-> ctx]))
NameF(s, o) == NameFC("outside", s, o)

\* the forms themselves, judged by the specification's parser (independent of ParseLevel)
FormFC(ctx, s, o) ==
    (IF o.l \in ParseSet({}, s, o.str) THEN {}
     ELSE Finding(Pfx(ctx) \o "NameForm:unexplained", ToJson([level |-> o.l, printed |-> o.str, denotes |-> ParseSet({}, s, o.str)])))
    \cup
    (IF o.txtok /\ o.l \in ParseSet({}, s, o.txt) THEN {}
     ELSE Finding(Pfx(ctx) \o "TextForm:unexplained", ToJson([level |-> o.l, marshalled_ok |-> o.txtok, text |-> o.txt])))
    \cup
    (IF o.jsok /\ o.l \in ParseSet({}, s, o.jdec) THEN {}
     ELSE Finding(Pfx(ctx) \o "JSONForm:unexplained", ToJson([level |-> o.l, marshalled_ok |-> o.jsok, json |-> o.js, decoded |-> o.jdec])))
FormF(s, o) == FormFC("outside", s, o)

TextFC(ctx, s, o) ==
    IF o.txtok /\ o.utxt = o.l THEN {}
    ELSE Finding(KeyOf(Pfx(ctx) \o "TextRoundTrip", LAMBDA dev : o.txtok /\ o.utxt \in UnmarshalTextIn(dev, ctx, s, o.txt),
                    C_Busy(ctx) \o C_Parse),
              ToJson([level |-> o.l, marshalled_ok |-> o.txtok, text |-> o.txt, unmarshalled_to |-> o.utxt, asked_from |-> ctx]))
TextF(s, o) == TextFC("outside", s, o)

JsonFC(ctx, s, o) ==
    IF o.jsok /\ o.ujs = o.l /\ o.ejs = o.l THEN {}
    ELSE Finding(KeyOf(Pfx(ctx) \o "JSONRoundTrip",
                    LAMBDA dev : /\ o.jsok
                                 /\ LET src == IF "JSONNoUnquote" \in dev THEN o.js ELSE o.jdec
                                    IN o.ujs \in LookupIn(dev, ctx, s, src) /\ o.ejs \in LookupIn(dev, ctx, s, src),
                    C_Busy(ctx) \o C_JSON),
              ToJson([level |-> o.l, marshalled_ok |-> o.jsok, json |-> o.js, UnmarshalJSON_to |-> o.ujs,
                      encoding_json_to |-> o.ejs, asked_from |-> ctx]))
JsonF(s, o) == JsonFC("outside", s, o)

TagF(s, o) ==
    UNION {IF HasCustomTag(s, o.l, n)
           THEN IF o.tag[n] = s.ctag[o.l][n] THEN {}
                ELSE Finding("UsesGivenTags:unexplained",
                          ToJson([level |-> o.l, n |-> n, given |-> s.ctag[o.l][n], got |-> o.tag[n]]))
           ELSE IF IsChars(o.tag[n], n) THEN {}
                ELSE Finding(KeyOf("ShortTagLen", LAMBDA dev : "TagBytes" \in dev /\ o.tag[n] = BytePrefix(o.str, n), C_Tag),
                          ToJson([level |-> o.l, name |-> o.str, n |-> n, got |-> o.tag[n]]))
           : n \in 1..5}

GateF(s, o) ==
    IF o.l \notin DOMAIN s.treat THEN {}      \* registered with a treated-as level, or OK/Success/Fail
    ELSE LET wrong == {k \in DOMAIN o.gate :
                         LET g == o.gate[k]
                             want == Admit(g.L, o.l, FALSE, s.treat)
                         IN g.en # want \/ (g.out >= 0 /\ (g.out = 1) # want)}
         IN IF wrong = {} THEN {}
            ELSE Finding("GatedAsTreated:unexplained",
                      ToJson([level |-> o.l, treated_as |-> s.treat[o.l],
                              wrong |-> {o.gate[k] : k \in wrong}]))

DestOf(dev, s, l) == IF ErrRouted(dev, s, l) THEN "err" ELSE "normal"
DestF(s, o) ==
    IF o.l \notin Registered(s) \/ o.dest = DestOf({}, s, o.l) THEN {}
    ELSE Finding(KeyOf("RoutedIfRequested", LAMBDA dev : o.dest = DestOf(dev, s, o.l), C_Err),
              ToJson([level |-> o.l, requested |-> s.req[o.l], went_to |-> o.dest]))

\* only levels the model knows are determined; values never registered are observed too
\* (they matter for RefusalNoOp) but nothing is claimed about them
LvFails(s, o) ==
    IF o.l \notin Vals(s) THEN {}
    ELSE NameF(s, o) \cup FormF(s, o) \cup TextF(s, o) \cup JsonF(s, o) \cup TagF(s, o) \cup GateF(s, o) \cup DestF(s, o)

\* the ParseLevel table: a registered name or alias resolves to its level; any other string
\* gives an error or a level it matches case-insensitively
ParseFC(ctx, s, tab) ==
    UNION {LET p == tab[k] IN
           IF p.r \in LookupIn({}, ctx, s, p.s) THEN {}
           ELSE Finding(KeyOf(Pfx(ctx) \o (IF p.s \in DOMAIN s.keys THEN "AnswersToName" ELSE "ParseUnknown"),
                           LAMBDA dev : p.r \in LookupIn(dev, ctx, s, p.s), C_Busy(ctx) \o C_Parse),
                     ToJson([string |-> p.s, parsed_to |-> p.r, allowed |-> LookupIn({}, ctx, s, p.s), asked_from |-> ctx]))
           : k \in DOMAIN tab}
ParseF(s, tab) == ParseFC("outside", s, tab)

\* the nested observations of a line: round trips of every level the model knows and the
\* ParseLevel table, as answered from inside the library's own writing
NestLvF(ctx, s, o) ==
    IF o.l \notin Vals(s) THEN {}
    ELSE NameFC(ctx, s, o) \cup FormFC(ctx, s, o) \cup TextFC(ctx, s, o) \cup JsonFC(ctx, s, o)
NestF(s, e) ==
    UNION {LET n == e.nest[k] IN
           IF ~n.ran THEN {}
           ELSE IF n.lv = e.lvp /\ n.pr = e.pr THEN {}      \* the very answers given outside: judged there
           ELSE IF n.ctx \notin Contexts THEN Finding("Nested:unknown-context", n.ctx)
           ELSE UNION {NestLvF(n.ctx, s, LvDefs[id]) : id \in Range(n.lv)} \cup ParseFC(n.ctx, s, PrDefs[n.pr].tab)
           : k \in DOMAIN e.nest}

AllF(s, all) ==
    IF Range(all) = Vals(s) /\ Len(all) = Cardinality(Vals(s)) THEN {}
    ELSE Finding("AllLevels:unexplained", ToJson([got |-> all, want |-> s.all]))

ObsFails(s, e) ==
    UNION {LvFails(s, LvDefs[id]) : id \in Range(e.lv)} \cup ParseF(s, PrDefs[e.pr].tab) \cup AllF(s, e.all)
    \cup NestF(s, e)

-----------------------------------------------------------------------------
(* the monitor *)
Frame(s, e, failed) == [st |-> s, lv |-> e.lv, pr |-> e.pr, all |-> e.all, nest |-> e.nest, failed |-> failed]

OptOf(e) == [tags |-> e.tags, treat |-> e.treat, err |-> e.err, clr |-> e.clr]

Eval(par, e) ==
    IF e.d = 0
    THEN [frame |-> Frame(InitState, e, FALSE), fails |-> ObsFails(InitState, e), stat |-> "init"]
    ELSE IF par.failed
    THEN [frame |-> Frame(par.st, e, TRUE), fails |-> {}, stat |-> "skipped"]
    ELSE LET out == IF e.ret = "ok" THEN "accepted" ELSE "refused"
             why == Why(par.st, e.v, e.t)
         IN IF out \notin Decisions(par.st, e.v, e.t)
            THEN [frame |-> Frame(par.st, e, TRUE),
                  fails |-> Finding("Decision:" \o why \o ":" \o out,
                                 ToJson([value |-> e.v, title |-> e.t, registered |-> par.st.all, returned |-> e.ret])),
                  stat |-> "rejected"]
            ELSE LET s2 == IF out = "accepted" THEN Accept(par.st, e.v, e.t, OptOf(e)) ELSE par.st
                     same == e.lv = par.lv /\ e.pr = par.pr /\ e.all = par.all /\ e.nest = par.nest
                     noop == IF out = "accepted" \/ same THEN {}
                             ELSE Finding("RefusalNoOp:" \o why,
                                       ToJson([value |-> e.v, title |-> e.t,
                                               levels_changed |-> {LvDefs[e.lv[k]].l : k \in {k2 \in DOMAIN e.lv :
                                                                     k2 \notin DOMAIN par.lv \/ e.lv[k2] # par.lv[k2]}},
                                               parse_table_changed |-> e.pr # par.pr,
                                               nested_answers_changed |-> e.nest # par.nest,
                                               all_before |-> par.all, all_after |-> e.all]))
                 IN [frame |-> Frame(s2, e, FALSE), fails |-> noop \cup ObsFails(s2, e),
                     stat |-> why \o ":" \o out]

AddBad(b, F, line) ==
    LET ks == {f.key : f \in F}
    IN [k \in DOMAIN b \cup ks |->
          IF k \in DOMAIN b THEN [b[k] EXCEPT !.n = @ + (IF k \in ks THEN 1 ELSE 0)]
          ELSE [line |-> line, n |-> 1, detail |-> (CHOOSE f \in F : f.key = k).detail]]

Bump(st, k) == IF k \in DOMAIN st THEN [st EXCEPT ![k] = @ + 1] ELSE (k :> 1) @@ st

TInit == i = 1 /\ stk = <<>> /\ bad = <<>> /\ stats = <<>> /\ reg = InitState /\ last = NoCall

TNext ==
    /\ i <= Len(TLog)
    /\ i' = i + 1
    /\ UNCHANGED <<reg, last>>
    /\ LET e == TLog[i]
           res == Eval(IF e.d = 0 THEN <<>> ELSE stk[e.d], e)
       IN /\ stk' = SubSeq(stk, 1, e.d) \o <<res.frame>>
          /\ bad' = AddBad(bad, res.fails, i)
          /\ stats' = Bump(stats, res.stat)

TSpec == TInit /\ [][TNext]_tvars

\* evaluated in every state; prints the verdict once the whole log is consumed
Done == i <= Len(TLog)
        \/ /\ LET ks == SetToSeq(DOMAIN bad) IN
              PrintT("@@bad " \o ToJson([k \in 1..Len(ks) |->
                         [key |-> ks[k], line |-> bad[ks[k]].line, n |-> bad[ks[k]].n, detail |-> bad[ks[k]].detail]]))
           /\ PrintT("@@stats " \o ToJson(stats))
        \/ TRUE

\* the model's own invariants on every state the implementation was driven through
TConsistent == \A k \in DOMAIN stk : LET s == stk[k].st IN
                  /\ Cardinality(Vals(s)) = Len(s.all)
                  /\ DOMAIN s.name = Vals(s)
                  /\ \A l \in Vals(s) : ParseSet({}, s, s.name[l]) = {l}
=============================================================================
