-------------------------------- MODULE Pool --------------------------------
(* Concurrent logging through the two sync.Pools of hedzr/logg (property C08).

   Every goroutine g issues N calls.  One call takes the steps the code takes, each a separate
   action so that TLC explores every interleaving at that grain:

     GetAttrs   poolAttrs.Get            (entry.go logContext)
     GetPc      poolPrintCtx.Get + set   (entry.go print: the object is truncated and re-initialised)
     SortBegin  serializeAttrs starts sorting/deduplicating the attribute slices it prints:
                its own pooled slice, and the item slice of every group it prints
     SortEnd
     Format     the remaining chunks of the record are appended to the object's buffer
     Write      the buffer is handed to the destination (one Write call)
     PutPc      poolPrintCtx.Put
     PutAttrs   poolAttrs.Put

   sync.Pool gives no reuse guarantee: Get returns any object that is currently in the pool or a
   new one; the model lets it return ANY object no goroutine holds.

   Shared locations: the item slice of a group value that several calls print ("grp").  How the
   code treats it while sorting is the constant GroupSort:
       "copy"     sorts a private copy                       (read access to the shared slice)
       "inplace"  sorts and deduplicates the shared slice    (write access)
   The property needs "copy"; "inplace" is what the pinned tree did (defect, now fixed).

   The second kind of shared location is an attribute LIST a program hands to an entry point that
   takes the list itself ("list"): Entry.WriteThru (interface LogSlogAware - what adapters call)
   receives an Attrs value, not variadic arguments that the call copies into its pooled slice.
   Goroutines in UsesList pass ONE list they share to every such call.  The slice the call sorts
   is then that list or a copy of it - constant ListSort, same two values, same meaning; the
   property ("with attribute values they share ... without any data race") needs "copy".

   Mechanism variants used only for non-vacuity witness runs (Variant):
       "ok", "putBeforeWrite" (object returned to the pool before it is written out),
       "sharedBuffer" (one package-level buffer instead of pooled objects).                    *)
EXTENDS Integers, Sequences, FiniteSets, TLC

CONSTANTS NG,          \* goroutines 1..NG
          N,           \* calls per goroutine
          NP,          \* PrintCtx objects that may exist (>= NG so that a fresh one is always possible)
          K,           \* chunks per record
          GroupSort,   \* "copy" | "inplace"
          UsesGroup,   \* set of goroutines whose calls print the shared group
          ListSort,    \* "copy" | "inplace": what a call does with an attribute list it was handed as such
          UsesList,    \* set of goroutines whose calls hand over the shared attribute list (WriteThru)
          Variant

VARIABLES pc,          \* pc[g]: program counter of goroutine g
          call,        \* call[g]: number of the call in progress (1..N), N+1 when finished
          holds,       \* holds[g]: PrintCtx object held (0 none)
          was,         \* was[g]: the object most recently obtained (used by the putBeforeWrite variant)
          hattrs,      \* hattrs[g]: attribute slice object held (0 none)
          buf,         \* buf[o]: chunks currently in object o's buffer, each <<g, call, k>>
          window,      \* open accesses to shared locations: set of <<g, loc, mode>>
          delivered    \* sequence of payloads (each a sequence of chunks) seen by the destination

vars == <<pc, call, holds, was, hattrs, buf, window, delivered>>

Gs == 1..NG
Objs == 1..NP
TheObj(g) == IF Variant = "sharedBuffer" THEN 1 ELSE holds[g]

Init ==
    /\ pc = [g \in Gs |-> "idle"]
    /\ call = [g \in Gs |-> 1]
    /\ holds = [g \in Gs |-> 0]
    /\ was = [g \in Gs |-> 0]
    /\ hattrs = [g \in Gs |-> 0]
    /\ buf = [o \in Objs |-> <<>>]
    /\ window = {}
    /\ delivered = <<>>

Held == {holds[g] : g \in Gs} \ {0}
HeldAttrs == {hattrs[g] : g \in Gs} \ {0}

GetAttrs(g, a) ==
    /\ pc[g] = "idle" /\ call[g] <= N
    /\ a \in Objs \ HeldAttrs
    /\ hattrs' = [hattrs EXCEPT ![g] = a]
    /\ pc' = [pc EXCEPT ![g] = "attrs"]
    /\ UNCHANGED <<call, holds, buf, window, delivered, was>>

GetPc(g, o) ==
    /\ pc[g] = "attrs"
    /\ IF Variant = "sharedBuffer" THEN o = 1 ELSE o \in Objs \ Held
    /\ holds' = [holds EXCEPT ![g] = o]
    /\ was' = [was EXCEPT ![g] = o]
    /\ buf' = [buf EXCEPT ![o] = <<<<g, call[g], 1>>>>]         \* set(): truncate, then the head of the record
    /\ pc' = [pc EXCEPT ![g] = "got"]
    /\ UNCHANGED <<call, hattrs, window, delivered>>

SortBegin(g) ==
    /\ pc[g] = "got"
    /\ window' = window \cup {<<g, <<"attrs", hattrs[g]>>, "w">>}
                        \cup (IF g \in UsesGroup THEN {<<g, <<"grp", 0>>, IF GroupSort = "inplace" THEN "w" ELSE "r">>} ELSE {})
                        \cup (IF g \in UsesList THEN {<<g, <<"list", 0>>, IF ListSort = "inplace" THEN "w" ELSE "r">>} ELSE {})
    /\ pc' = [pc EXCEPT ![g] = "sorting"]
    /\ UNCHANGED <<call, holds, hattrs, buf, delivered, was>>

SortEnd(g) ==
    /\ pc[g] = "sorting"
    /\ window' = {w \in window : w[1] # g}
    /\ pc' = [pc EXCEPT ![g] = "fmt"]
    /\ UNCHANGED <<call, holds, hattrs, buf, delivered, was>>

Format(g) ==
    /\ pc[g] = "fmt"
    /\ LET o == TheObj(g) IN
       /\ Len(buf[o]) < K
       /\ buf' = [buf EXCEPT ![o] = Append(buf[o], <<g, call[g], Len(buf[o]) + 1>>)]
    /\ UNCHANGED <<pc, call, holds, hattrs, window, delivered, was>>

FormatDone(g) ==
    /\ pc[g] = "fmt" /\ Len(buf[TheObj(g)]) >= K
    /\ pc' = [pc EXCEPT ![g] = IF Variant = "putBeforeWrite" THEN "early" ELSE "ready"]
    /\ UNCHANGED <<call, holds, hattrs, buf, window, delivered, was>>

\* variant only: the object goes back to the pool before its buffer is written out
EarlyPut(g) ==
    /\ pc[g] = "early"
    /\ holds' = [holds EXCEPT ![g] = 0]
    /\ pc' = [pc EXCEPT ![g] = "ready2"]
    /\ UNCHANGED <<call, hattrs, buf, window, delivered, was>>
LateWrite(g) ==
    /\ pc[g] = "ready2"
    /\ delivered' = Append(delivered, buf[was[g]])
    /\ pc' = [pc EXCEPT ![g] = "written2"]
    /\ UNCHANGED <<call, holds, hattrs, buf, window, was>>
AfterLate(g) ==
    /\ pc[g] = "written2"
    /\ pc' = [pc EXCEPT ![g] = "put"]
    /\ UNCHANGED <<call, holds, hattrs, buf, window, delivered, was>>

Write(g) ==
    /\ pc[g] = "ready"
    /\ delivered' = Append(delivered, buf[TheObj(g)])
    /\ pc' = [pc EXCEPT ![g] = "written"]
    /\ UNCHANGED <<call, holds, hattrs, buf, window, was>>

PutPc(g) ==
    /\ pc[g] = "written"
    /\ holds' = [holds EXCEPT ![g] = 0]
    /\ pc' = [pc EXCEPT ![g] = "put"]
    /\ UNCHANGED <<call, hattrs, buf, window, delivered, was>>

PutAttrs(g) ==
    /\ pc[g] = "put"
    /\ hattrs' = [hattrs EXCEPT ![g] = 0]
    /\ call' = [call EXCEPT ![g] = call[g] + 1]
    /\ pc' = [pc EXCEPT ![g] = "idle"]
    /\ UNCHANGED <<holds, buf, window, delivered, was>>

Next ==
    \/ \E g \in Gs, a \in Objs : GetAttrs(g, a)
    \/ \E g \in Gs, o \in Objs : GetPc(g, o)
    \/ \E g \in Gs : SortBegin(g) \/ SortEnd(g) \/ Format(g) \/ FormatDone(g) \/ Write(g) \/ PutPc(g) \/ PutAttrs(g)
    \/ \E g \in Gs : EarlyPut(g) \/ LateWrite(g) \/ AfterLate(g)

Spec == Init /\ [][Next]_vars

-----------------------------------------------------------------------------
(* Properties (C08) *)

\* a pooled object is used by one goroutine at a time
PcExclusive ==
    Variant = "sharedBuffer" \/
    \A g1, g2 \in Gs : (g1 # g2 /\ holds[g1] # 0) => holds[g1] # holds[g2]
AttrsExclusive == \A g1, g2 \in Gs : (g1 # g2 /\ hattrs[g1] # 0) => hattrs[g1] # hattrs[g2]

\* every payload a destination observes is the complete record of exactly one call
Whole(p) == /\ Len(p) = K
            /\ \A k \in 1..K : p[k] = <<p[1][1], p[1][2], k>>
NoTear == \A d \in 1..Len(delivered) : Whole(delivered[d])

\* no two goroutines access one shared location at the same time unless both only read
NoRace ==
    \A w1, w2 \in window : (w1[1] # w2[1] /\ w1[2] = w2[2]) => (w1[3] = "r" /\ w2[3] = "r")

\* nothing is delivered twice, and when every goroutine is done every call was delivered once
NoDup == \A d1, d2 \in 1..Len(delivered) : d1 # d2 => delivered[d1][1] # delivered[d2][1]
Finished == \A g \in Gs : call[g] = N + 1 /\ pc[g] = "idle"
Multiset ==
    Finished => /\ Len(delivered) = NG * N
                /\ \A g \in Gs, c \in 1..N : \E d \in 1..Len(delivered) : delivered[d][1] = <<g, c, 1>>

\* the held object is written before it goes back to the pool
WriteBeforePut == \A g \in Gs : pc[g] \in {"ready", "ready2", "fmt", "sorting", "got"} => TheObj(g) # 0
=============================================================================
