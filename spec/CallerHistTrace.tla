-------------------------- MODULE CallerHistTrace --------------------------
(* Trace validation for the history component of C14 (CallerHist.tla), a monitor in the style
   of CallerTrace.tla.

   The Go worker executed behaviours (the edge cover of the graph TLC dumped for CallerHist, and
   seeded random deeper histories) on the real library.  One line per step:

     [b, s, op, l, n, how, alias, obs, herr]

   b/s: behaviour and step number (s = 0, op = "Init": the initial configuration);  op/l/n/how:
   the event (l: the receiver's handle; for the package-level forms the handle of the default
   logger);  alias: for an event that returned a logger, the first earlier handle that is the
   SAME object (0: a new object) - reported, never judged by the worker;  obs: after the step,
   for EVERY live handle several records  [l, ep, f, inl, d, k, i]:  entry point ep of family f
   issued through handle l with d wrappers (inl: inlinable chain), and the frame (k, i) of the
   real call stack that the record's caller member names (see CallerTrace.tla).

   One line is consumed per step.  The monitor keeps the configuration hs of CallerHist,
   advances it with the SAME operators the exhaustive machine uses (With / Give / Plain) - With
   takes the reported identity, so both outcomes the statement leaves open are followed - and
   accepts the line when every observation equals AttrH(hs', l, f, d), the frame skip[l] levels
   above the issuing statement.  A line that does not is collected in `bad` (with the state
   needed to name the relation between the diverging logger and the receiver) and the monitor
   resumes at the next behaviour: model and implementation have separated.  Lines the harness
   must never produce (unknown handle, observation of too shallow a chain, a live handle that
   was not observed) are collected with why = "harness" and make the check Undecided.           *)
EXTENDS CallerHist

CONSTANTS TraceFile, MaxReport

VARIABLES i, sync, bad, nbad, nok, nobs

tvars == <<hs, ev, i, sync, bad, nbad, nok, nobs>>

TLog == ndJsonDeserialize(TraceFile)

Creating == {"WithSkip", "PkgWithSkip", "Derive"}
Giving == {"WithSkip", "PkgWithSkip", "SetSkip", "PkgSetSkip"}
StepOps == Creating \cup Giving \cup {"SetDefault", "Touch"}

WellFormed(e) ==
    /\ {"b", "s", "op", "l", "n", "how", "alias", "obs", "herr"} \subseteq DOMAIN e
    /\ e.op \in StepOps \cup {"Init"}
    /\ e.herr = ""

(* the event is one the machine can take in configuration h *)
LineGuard(h, e) ==
    /\ e.l \in Live(h)
    /\ e.op \in Creating => h.n < HMaxLoggers /\ e.alias \in 0..h.n
    /\ e.op \in Giving => e.n \in HSkips
    /\ e.op \in {"PkgWithSkip", "PkgSetSkip"} => e.l = h.def
    /\ e.op = "Derive" => e.how \in HHows
    /\ e.op = "Touch" => e.how \in HTouches

LineStep(h, e) ==
    CASE e.op \in {"WithSkip", "PkgWithSkip"} -> With(h, e.l, e.n, e.alias)
      [] e.op \in {"SetSkip", "PkgSetSkip"}   -> Give(h, e.l, e.n)
      [] e.op = "Derive"                      -> Plain(h, e.l)
      [] e.op = "SetDefault"                  -> [h EXCEPT !.def = e.l]
      [] e.op = "Touch"                       -> h

ObsSeq(e) == e.obs
(* what the harness owes: the observation is one the machine can make in h *)
ObsWF(h, o) == /\ {"l", "ep", "f", "d", "k", "i"} \subseteq DOMAIN o
               /\ [name |-> o.ep, fam |-> o.f] \in HEPs
               /\ EmitGuard(h, o.l, o.f, o.d)
ObsOK(h, o) == [k |-> o.k, i |-> o.i] = AttrH(h, o.l, o.f, o.d)
Observed(e) == {ObsSeq(e)[k].l : k \in 1..Len(ObsSeq(e))}

Harness(e, why) == [line |-> i, b |-> e.b, s |-> e.s, why |-> "harness", what |-> why]

(* the divergence report: every diverging handle (ls), the handles with an accepted observation
   (okls), the first diverging observation with the frame the property demands, and the tree
   (par/obj of the state after the step) *)
Report(h, e) ==
    LET os == ObsSeq(e)
        ks == {k \in 1..Len(os) : ~ObsOK(h, os[k])}
        k0 == CHOOSE k \in ks : \A y \in ks : k <= y
    IN [line |-> i, b |-> e.b, s |-> e.s, why |-> "attr", op |-> e.op, recv |-> e.l, n |-> e.n, how |-> e.how,
        alias |-> e.alias, new |-> IF e.op \in Creating THEN h.n ELSE 0,
        ls |-> {os[k].l : k \in ks}, okls |-> {os[k].l : k \in (1..Len(os)) \ ks}, nobs |-> Cardinality(ks), first |-> os[k0],
        want |-> AttrH(h, os[k0].l, os[k0].f, os[k0].d), skip |-> h.skip, par |-> h.par, obj |-> h.obj, def |-> h.def]

Note(r) == /\ nbad' = nbad + 1
           /\ bad' = IF nbad < MaxReport THEN Append(bad, r) ELSE bad

(* judge the observations of line e in configuration h (the state after the step) *)
Judge(h, e) ==
    LET os == ObsSeq(e) IN
    IF \E k \in 1..Len(os) : ~ObsWF(h, os[k])
    THEN /\ Note(Harness(e, "an observation the machine cannot make")) /\ sync' = FALSE /\ UNCHANGED <<nok, nobs>>
    ELSE IF Observed(e) # Live(h)
    THEN /\ Note(Harness(e, "not every live handle was observed")) /\ sync' = FALSE /\ UNCHANGED <<nok, nobs>>
    ELSE IF \A k \in 1..Len(os) : ObsOK(h, os[k])
    THEN /\ sync' = TRUE /\ nok' = nok + 1 /\ nobs' = nobs + Len(os) /\ UNCHANGED <<bad, nbad>>
    ELSE /\ Note(Report(h, e)) /\ sync' = FALSE /\ UNCHANGED <<nok, nobs>>

TInit == /\ hs = H0 /\ ev = NoEv
         /\ i = 1 /\ sync = FALSE /\ bad = <<>> /\ nbad = 0 /\ nok = 0 /\ nobs = 0

TNext ==
    /\ i <= Len(TLog)
    /\ i' = i + 1
    /\ LET e == TLog[i] IN
       IF ~WellFormed(e)
       THEN /\ Note([line |-> i, b |-> -1, s |-> -1, why |-> "harness", what |-> "malformed line or harness error"])
            /\ sync' = FALSE /\ UNCHANGED <<hs, ev, nok, nobs>>
       ELSE IF e.op = "Init"
       THEN /\ hs' = H0 /\ ev' = NoEv
            /\ Judge(H0, e)
       ELSE IF ~sync                                  \* separated earlier in this behaviour: skip to the next
       THEN UNCHANGED <<hs, ev, sync, bad, nbad, nok, nobs>>
       ELSE IF ~LineGuard(hs, e)
       THEN /\ Note(Harness(e, "an event the machine cannot take here"))
            /\ sync' = FALSE /\ UNCHANGED <<hs, ev, nok, nobs>>
       ELSE /\ hs' = LineStep(hs, e)
            /\ ev' = EvOf(e.op, e.l, e.n, e.how)
            /\ Judge(LineStep(hs, e), e)

TSpec == TInit /\ [][TNext]_tvars

\* evaluated in every state; prints the verdict once the whole log is consumed
Done == i <= Len(TLog) \/ PrintT("@@hverdict " \o ToJson([n |-> Len(TLog), ok |-> nok, nobs |-> nobs, nbad |-> nbad, bad |-> bad])) \/ TRUE

\* every configuration the implementation was driven through is one of the specification
TStateOK == HStateOK(hs) /\ AliasesAgree
=============================================================================
