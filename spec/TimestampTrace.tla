--------------------------- MODULE TimestampTrace ---------------------------
(* Trace validation for Timestamp (C16): a log of public calls recorded from the real library
   is checked against the configuration machine of Timestamp.tla.

   One JSON object per line:
     {"op":"Reset"}                                   start of a behaviour (fresh root logger, factory flags)
     {"op":..,"l":..,"a":..,"f":..,                   the call (Timestamp!Guard / Step)
      "ret": id of the logger returned (0 none), "n": loggers known so far,
      "flags": the timestamp-related flags GetFlags() shows,
      "obs": per logger 1..n  [json |-> P, logfmt |-> P, color |-> P]}
   P is a sequence with one entry per probe record (WriteThru with an explicit instant in a
   zone with a non-zero offset): the sequence of all "<layout id>@<zone>" pairs that explain
   the time field of that record, i.e. the text equals the instant formatted with that layout
   in that zone ("UTC" / "Own") and parses back with it to the instant's fields.

   The checker is a monitor (one line per step).  Because the machine is nondeterministic where
   the statement is silent (what a fresh child starts from; SetTimeFormat(x, "")) and such a
   choice may show only later (a child that took over "local mode" looks like an unconfigured
   one until the local flag changes), the monitor keeps the SET of abstract states that explain
   everything observed so far (`cands`).  A line is accepted when at least one candidate allows
   the call and has a successor that explains the observations: the returned logger, the
   number of loggers, the flags, and - for every logger and every format - every probe is
   explained by a layout of LayoutSet in the zone Zone selects.  A line that leaves no candidate
   is recorded in `bad` with what the model expected; the rest of that behaviour is skipped.
   `st` follows the candidates in which children start unconfigured as long as there is one;
   `inh` counts the steps at which it had to leave that path.                                  *)
EXTENDS Timestamp, Json, SequencesExt

CONSTANT TraceFile

VARIABLES i, failed, bad, inh, cands

TLog == ndJsonDeserialize(TraceFile)

SeqRange(q) == {q[x] : x \in DOMAIN q}

Fit(y, z) == y \o "@" \o z

ProbeOK(x, fits) == \E y \in x.layouts : Fit(y, x.zone) \in SeqRange(fits)

ObsLoggerOK(s, l, o) ==
    \A fmt \in Formats :
        \A p \in DOMAIN o[fmt] : ProbeOK(ExpectedOf(s, l, fmt), o[fmt][p])

ObsMatch(s, e, s2) ==
    /\ e.ret = Ret(s, e, s2)
    /\ e.n = s2.n
    /\ SeqRange(e.flags) = s2.flags
    /\ Len(e.obs) = s2.n
    /\ \A l \in 1..s2.n : ObsLoggerOK(s2, l, e.obs[l])

\* successors of the candidate set that explain the line
After(cs, e) == UNION {{s2 \in Step(s, e) : ObsMatch(s, e, s2)} : s \in {c \in cs : Guard(c, e)}}

\* what the model expected, for the report (children starting unconfigured)
Expect(s, e) ==
    IF ~Guard(s, e) THEN "call not allowed by the model in this state"
    ELSE LET s2 == CHOOSE x \in StepNoInherit(s, e) : TRUE
         IN ToJson([ret |-> Ret(s, e, s2), n |-> s2.n, flags |-> s2.flags,
                    loggers |-> [l \in 1..s2.n |->
                        [utc |-> s2.utc[l], lay |-> s2.lay[l],
                         zone |-> Zone(s2.utc[l], s2.flags),
                         layouts |-> LayoutSet(s2.lay[l], s2.flags)]]])

TInit == st = InitState /\ cands = {InitState} /\ i = 1 /\ failed = FALSE /\ bad = {} /\ inh = 0

TNext ==
    /\ i <= Len(TLog)
    /\ i' = i + 1
    /\ LET e == TLog[i] IN
       IF e.op = "Reset"
       THEN st' = InitState /\ cands' = {InitState} /\ failed' = FALSE /\ UNCHANGED <<bad, inh>>
       ELSE IF failed THEN UNCHANGED <<st, cands, failed, bad, inh>>
       ELSE LET ok == After(cands, e)
                plain == IF Guard(st, e) THEN StepNoInherit(st, e) \cap ok ELSE {}
            IN IF ok = {}
               THEN /\ UNCHANGED <<st, cands, inh>> /\ failed' = TRUE
                    /\ bad' = bad \cup {[line |-> i, expected |-> Expect(st, e)]}
               ELSE /\ cands' = ok /\ UNCHANGED <<failed, bad>>
                    /\ IF plain # {} THEN st' = (CHOOSE s2 \in plain : TRUE) /\ inh' = inh
                       ELSE st' = (CHOOSE s2 \in ok : TRUE) /\ inh' = inh + 1

TSpec == TInit /\ [][TNext]_<<st, cands, i, failed, bad, inh>>

\* evaluated in every state; prints the verdict once the whole log is consumed
Done == i <= Len(TLog) \/ PrintT("@@bad " \o ToJson([bad |-> SetToSeq(bad), inh |-> inh, lines |-> Len(TLog)])) \/ TRUE

\* the model's own invariants are evaluated on every abstract state that explains what the
\* implementation showed
TCellsOK == \A s \in cands : CellsOKIn(s)
TStatementOK == \A s \in cands : StatementOKIn(s)
\* the number of candidates stays small (a growing set would mean observations are too weak)
TCandsSmall == Cardinality(cands) <= 4096
=============================================================================
