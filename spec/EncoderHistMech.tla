--------------------------- MODULE EncoderHistMech ---------------------------
(* Why histories can matter at all, and what keeps them from mattering.

   EncoderHist states WHAT a record must look like: Expect(st, l, r), a function of the visible
   configuration.  An implementation keeps more than the visible configuration between two
   records - this module adds that hidden state (variable mech) to the machine of EncoderHist
   and computes, per DISCIPLINE (constant Variant), the abstract outcome MechOut an
   implementation of that discipline produces:

     resid      the pooled formatter object still holds the continuation lines of the last
                colored multi-line message (the library: PrintCtx.restLines)
     memo       custom severity -> source of a memoised bracketed tag ("none" = nothing memoised)
     poolEmpty  the private slot of the attribute pool is empty (right after a collection)
     alias      logger whose OWN attribute array sits in the attribute pool (0 = none)
     dirty      loggers whose own attributes were overwritten through such an alias
   (the pooled formatter object also OWNS the bytes of the record it formatted: the argument a
   destination's Write receives is a view of them.  That needs no state of its own here - whether
   the view is still intact when the destination reads it depends only on WHEN the object goes
   back to the pool and on whether somebody formats a record in between: a destination that logs.)

   Variant "faithful" transcribes the library as it is: the continuation lines are consulted by
   the colored path only and re-assigned by every colored record, nothing is memoised, a record
   always formats a pooled COPY of the logger's attributes, the error dump depends on the
   process kind sampled at start-up.  Invariant NoLeak (MechOut = what Expect demands, for every
   logger and record class, in every reachable state) holds for it.  The six other variants
   are the sloppy disciplines the history component of the checks is built to catch on the real
   code; TLC must VIOLATE NoLeak for each of them (vacuity check of the invariant and of the
   event vocabulary: the counterexamples are exactly the shapes of history the driver covers):
     keep-restlines  the continuation lines are printed whenever present (no format test)
     memo-tags       the bracketed tag is memoised per severity; RegisterLevel does not drop it
     alias-own       a bare message formats the logger's own array and returns it to the pool
     debug-live      the error dump follows the live debug switch instead of the process kind
     fg-only-close   the closing reset of a message line is written only after a foreground colour
                     (no hidden state: the leak needs the event SetColors - a configuration neither
                     RegisterLevel nor the built-in table produces - and a multi-line record)
     early-release   the formatter object goes back to the pool as soon as the record is formatted,
                     the destinations are written afterwards ("a slow writer must not pin a pooled
                     object"): a destination that logs before it reads its argument makes the
                     nested record draw that very object and format over the bytes the outer Write
                     still holds (the leak needs the event Wire: passive destinations see nothing) *)
EXTENDS EncoderHist

CONSTANT Variant

VARIABLE mech

mvars == <<st, hist, obl, flat, mech>>

NoMemo == [c \in Customs |-> "none"]
MInit == /\ HInit
         /\ mech = [resid |-> FALSE, memo |-> NoMemo, poolEmpty |-> FALSE, alias |-> 0, dirty |-> {}]

Bare(r) == RecClasses[r].args = <<>>
IsMulti(r) == LinesOf(RecClasses[r].msg) > 1
TheTag(s, sev) == CHOOSE x \in ExpTagSrc(s, sev) \ {"other"} : TRUE

\* ---- what the statements demand, at this level of abstraction
ExpLines(rec) == IF rec.fmt # "json" /\ DumpAllowed(rec) THEN "dump"
                 ELSE IF rec.fmt = "color" THEN "layout" ELSE "one"
ExpOut(s, l, r) == LET e == Expect(s, l, r) IN
    [lines |-> ExpLines(e.rec), tag |-> IF e.rec.fmt = "color" THEN e.tag ELSE {}, attrs |-> "own", clean |-> TRUE,
     payload |-> [j \in DOMAIN Deliveries(s, l, r) |-> "own"]]

\* ---- what an implementation of discipline Variant produces
MechLines(s, m, l, r) ==
    LET rec == ExpRec(s, l, RecClasses[r])
        dump == /\ rec.fmt # "json" /\ HasKind(rec.attrs, "error")
                /\ (IF Variant = "debug-live" THEN s.testing \/ s.dbg ELSE s.testing)
    IN IF dump THEN "dump"
       ELSE IF rec.fmt = "color" THEN "layout"
       ELSE IF Variant = "keep-restlines" /\ m.resid THEN "many" ELSE "one"
MechTag(s, m, l, r) ==
    LET sev == RecClasses[r].sev IN
    IF s.mode[l] # "color" THEN {}
    ELSE IF Variant = "memo-tags" /\ sev \in Customs /\ m.memo[sev] # "none" THEN {m.memo[sev]}
    ELSE ExpTagSrc(s, sev)
\* every colour switched on is off again at every line break: an implementation that writes the
\* closing reset of a message line only after a FOREGROUND leaks for a severity configured (event
\* SetColors) without foreground but with a background / attribute, on a multi-line message
MechClean(s, l, r) ==
    LET lc == LcOf(s, RecClasses[r].sev) IN
    ~(/\ Variant = "fg-only-close" /\ s.mode[l] = "color" /\ IsMulti(r)
      /\ lc.set /\ lc.fg = "none" /\ lc.bg # "none")
\* whose bytes a destination finds in its argument when it reads it, per delivery: with the object released before
\* the destinations are written, a record formatted in between (by this destination or an earlier one of the same
\* record, unless it is passive because it is inside its own Write further out) has overwritten them.  `act` of a
\* delivery at depth > 0 is not reconstructed: a nested record whose own destination logs is counted as overwritten
\* only at depth 0, which is enough for the witness.
MechPayload(s, l, r) ==
    LET D == Deliveries(s, l, r) IN
    [j \in DOMAIN D |-> IF Variant = "early-release" /\ D[j].d = 0 /\ (DestLogs(s, D[j]) \/ EarlierLogs(s, D[j]))
                         THEN "foreign" ELSE "own"]
MechOut(s, m, l, r) ==
    [lines |-> MechLines(s, m, l, r), tag |-> MechTag(s, m, l, r),
     attrs |-> IF l \in m.dirty THEN "foreign" ELSE "own", clean |-> MechClean(s, l, r), payload |-> MechPayload(s, l, r)]

\* ---- how the hidden state moves
MEmit(s, m, l, r) ==
    LET sev == RecClasses[r].sev
        m1 == [m EXCEPT !.resid = IF s.mode[l] = "color" THEN IsMulti(r) ELSE @]
        m2 == IF Variant = "memo-tags" /\ s.mode[l] = "color" /\ sev \in Customs /\ m.memo[sev] = "none"
              THEN [m1 EXCEPT !.memo[sev] = TheTag(s, sev)] ELSE m1
    IN IF Variant = "alias-own" /\ Bare(r) /\ Own[l] # <<>>
       THEN \* the logger's own array is handed to the pool; it is the next one out only if the slot was empty
            (IF m2.poolEmpty THEN [m2 EXCEPT !.alias = l, !.poolEmpty = FALSE] ELSE m2)
       ELSE \* a pooled slice is taken, filled, returned
            [m2 EXCEPT !.poolEmpty = FALSE, !.dirty = IF m2.alias # 0 /\ ~Bare(r) THEN @ \cup {m2.alias} ELSE @]
MGC(m) == [m EXCEPT !.resid = FALSE, !.poolEmpty = TRUE, !.alias = 0]
MCfg(m, l, f) == IF f.how = "set" THEN m
                 ELSE [m EXCEPT !.dirty = @ \ {l}, !.alias = IF @ = l THEN 0 ELSE @]     \* a new logger object

MNext ==
    \/ \E l \in Loggers, f \in CfgIds : Configure(l, f) /\ mech' = MCfg(mech, l, CfgForms[f])
    \/ \E l \in Loggers, r \in RcIds : Emit(l, r) /\ mech' = MEmit(st, mech, l, r)
    \/ \E n \in GCs : GC(n) /\ mech' = MGC(mech)
    \/ \E c \in Customs, g \in RegForms : Register(c, g) /\ mech' = mech
    \/ \E k \in SwitchKinds, v \in SwitchVias : Switch(k, v) /\ mech' = mech
    \/ SwitchOff /\ mech' = mech
    \/ \E w \in Widths : SetWidth(w) /\ mech' = [mech EXCEPT !.memo = NoMemo]
    \/ \E m \in MinWidths : SetMinW(m) /\ mech' = mech
    \/ \E v \in ColSevs, f \in ColFgs, b \in ColBgs : SetColors(v, f, b) /\ mech' = mech
    \/ \E l \in Loggers, w \in DestIds : Wire(l, w) /\ mech' = mech

MSpec == MInit /\ [][MNext]_mvars

\* hidden state never shows: whatever happened before, every logger produces for every record
\* class what the statements demand in the current visible configuration
NoLeak == \A l \in Loggers, r \in RcIds :
            LET m == MechOut(st, mech, l, r)  e == ExpOut(st, l, r)
            IN m.lines = e.lines /\ m.attrs = e.attrs /\ m.tag \subseteq e.tag /\ m.clean = e.clean /\ m.payload = e.payload
=============================================================================
