------------------------------- MODULE Caller -------------------------------
(* C14 - caller attribution points at the user's call site for every entry point.

   WHAT IS MODELLED.  A record is issued by a statement in user code through one public entry
   point.  At the moment the library captures the program counter, the call stack (innermost
   frame first, exactly the numbering runtime.Callers uses, index 0 = runtime.Callers itself) is

        <library frames of the entry point>  o  <user frames: site, wrap_1 .. wrap_d, driver>

   `site` (user frame 0) is the function holding the issuing statement, wrap_j the j-th wrapper
   around it.  Every entry point family hard-codes how many frames it strips (Const), adds the
   skip count carried by the logger (extraFrames, set by SetSkip / WithSkip) and hands the sum
   to runtime.Callers; the frame found there is what the record reports as `caller`.

   This module is the TABLE component: one record of one freshly configured logger.  Histories of
   logger configuration (several live loggers, WithSkip / SetSkip / New / With... / SetDefault in
   any order, every live logger observed after every step) are CallerHist.tla, which instantiates
   this module for the stack and the attributed frame (AttrD).

   The table is deliberately thin (no history): TLC enumerates the cells

        entry point x format x logger kind x inlining x way the skip was given x skip x depth x site

   site = "go": the frames of the wrapper chain sit in an ordinary source file of the program.
   Any other value names a chain whose functions sit behind `//line` directives (generated code,
   Windows paths): the FILE NAME of every frame of that chain carries a backslash, a quote, a
   blank, a control character, non-ASCII text ... (LineSites, a constant: the sites the worker
   has; "plain..." = an ordinary POSIX path behind a directive, the control).  The property
   speaks of "the file, line and function reported in a record": what the source file of the
   issuing statement is called must not matter - the reported triple is that of user frame
   `skip` whatever characters the name has (SiteIndependent), in every format.  Line cells exist
   for one entry point per calling convention (LineEPNames), //go:noinline chains, skip 0..2 given
   by SetSkip / WithSkip / not at all, chains of skip..2 wrappers.

   ua (user attribute named like the built-in member): the property speaks of what is "reported in
   a record" - of the record as a READER sees it.  A record is a list of members; `caller` is the
   name of the built-in member, and nothing keeps a program from using that name for an attribute
   of its own: the name of the calling service as a plain value, or a group caller{file, line,
   function} relayed from a client - given with the record ("rec-"), carried by the logger
   (SetAttrs / Set: "log-") or by a log/slog handler (Logger.With: "hdl-").  Readers of JSON
   (encoding/json and every other common decoder) and the logfmt tokenizer of this check take the
   LAST member of a name.  Written(c, D) is the order in which the members named `caller` (logfmt:
   caller.file / caller.line / caller.function) appear in the encoded record - "user" for the
   program's attribute, "site" for the built-in member; Collides(c) says when the two share a
   name (JSON: always; logfmt: only a group, whose members become caller.file ...; the console
   line has no names - the call site is the tail of the line); Seen(c) is what a last-wins reader
   gets for the caller field: it MUST be the call site (CallerSurvivesUserAttr, and
   AttributionAtIssuer is stated on Seen), i.e. the built-in member comes after every attribute
   of its name (or such an attribute is dropped / renamed - the statement leaves that open, the
   reader sees the call site either way).  UA cells exist for UAEPNames (one entry point per
   calling convention that can carry the attribute), all formats, root / default-root loggers,
   //go:noinline chains, skip 0..2 via none / SetSkip / WithSkip, chains of skip..2 wrappers.
   time, level, msg and logger are reserved names too, but C14 speaks of the caller field only;
   what a top-level attribute of THOSE names does to a record is outside the stated domain of
   C04 / C05 ("all keys other than the reserved field names", Encoder!InDomain) and inside C06's
   (Encoder.tla, top-key cells).

   route / the std-log and log/slog FRONT ENDS.  Two families do not capture the program counter in
   a frame the user's statement calls directly: between the library's own frames and the statement
   sit frames of OTHER packages, and how many depends on what the program called (FrontOf):
     bridge   (NewLogLogger): every method of *log.Logger writes into the bridge, and so does every
              package-level function of package log once log.SetOutput(bridge.Writer()) was called.
              Print/Printf/Println call Logger.output themselves; Panic*/Fatal* call
              Logger.Output, which calls output; the package-level Output / Panic* / Fatal* go
              through std.Output as well.  "The statement in user code that issued it" is the caller
              of the outermost frame of package log - the documented mechanism skips the frames of
              package log BY NAME and then moves the skip count on (BridgeBase).
     adapter  (NewSlogHandler): a log/slog Record carries the PC of the statement that issued it -
              log/slog.Logger captures it in its verbs, log/slog.NewLogLogger(h) in its writer, and a
              program that wraps log/slog builds the Record with the PC of ITS caller and calls
              Handler.Handle (log/slog's documented wrapping pattern; "logslog.Handle").  Between
              Handle of the adapter and that statement may sit any number of other handlers'
              Handle frames (middleware: route mw1 / mw2).  The documented mechanism starts at the
              frame the record's PC names and moves the skip count on from there (AdapterBase).
              A Record without a PC (PC = 0: log/slog says "no program counter is available" - std
              log.Print after log/slog.SetDefault without Lshortfile, a hand-made Record) names no
              statement; the property is silent there and such records are not part of the table.
   The entry points that exist only for this purpose (log.* package level, Fatal*, logslog.Handle,
   logslog.std.Print = log/slog.NewLogLogger(adapter).Print) and the middleware routes have cells in a
   narrow sub-table like the //line and ua cells (RouteCells: 3 formats, root / default-root,
   //go:noinline chains, skip 0..2 via none / SetSkip / WithSkip, chains of skip..2 wrappers);
   Fatal* ends the process (os.Exit in package log): root logger, chains of exactly skip wrappers,
   each cell in a process of its own.  The Panic* methods of the bridge's logger are ordinary
   entry points with the full table.

   one cell per state (Init picks an entry point and logger kind, Next any cell of that pair),
   evaluates the invariants below in every cell and exports the table (Export); the Go worker
   issues every cell on the real library and CallerTrace.tla validates what the records really
   reported against AttrD.

   VARIABLES   cell        the cell under consideration (a record, see CellsOver)
               phase       enumeration bookkeeping only ("seed" -> "cell")

   OPERATORS
     EPs, EPNames          the public entry points, by family
     LibNames, Const,
     ViaGetpc              transcription of the library's frame layout and skip constants
     Ops, FinalSkip        the logger's skip after the calls that establish it (SetSkip
                           overwrites, WithSkip makes a child carrying exactly n)
     Stack, CallersArg,
     AttrD(c, D)           the frame the library reports for cell c with deviations D enabled
     Want(c)               what the PROPERTY demands: user frame number c.skip
     CellsOver, IsCell     the table / membership in it;  Export(file) writes it as ndjson
     Init, Next            enumeration only;  InitBridge restricts it to the bridge family

   PROPERTY (C14) AS INVARIANTS
     AttributionAtIssuer   sentence 1+2: reported frame = user frame `skip` (0 = the issuing
                           statement) for every entry point / format / kind / inlining - "reported"
                           = what a last-wins reader of the record gets (Seen)
     RouteIndependent      handlers a record passes before the adapter (middleware) and which function
                           of a front end was called (package log's method set and package-level
                           functions, log/slog's verbs / std-log writer / a wrapper's own Record)
                           change nothing
     CallerSurvivesUserAttr  an attribute named caller (plain or group; record, logger, handler)
                           changes nothing: Seen(cell) = Seen(the same cell without it)
     SkipMovesExactlyN     sentence 2: skip n moves the attribution exactly n frames up from
                           where skip 0 points, never into or across library frames
     FormatIndependent, KindIndependent, InlineIndependent, ViaIndependent, SiteIndependent
                           the attribution depends on (entry point, skip) only - not on the
                           format, ..., nor on what the source file of the frames is called
     WithinChain           the attributed frame exists and is one of site/wrap_1..wrap_d

   NAMED DEVIATIONS (what the pinned library does differently; AllDevs).  The invariants are
   checked with Devs = {}; a witness run with the deviation enabled must violate
   AttributionAtIssuer (non-vacuity), and the trace specification uses AttrD(c, {d}) to
   recognise a listed known finding.
     BridgeIgnoresSkip     the std-log bridge (NewLogLogger) strips a fixed number of frames and
                           never looks at the logger's skip count.
     BridgeFixedDepth      the std-log bridge strips a fixed number of frames (4: right for
                           Print/Printf/Println/Output of the bridge's own logger only).
     AdapterFixedDepth     the log/slog adapter ignores the record's PC and strips a fixed number
                           of frames (right for a verb of a log/slog.Logger built directly on it).
     CallerBeforeAttrs     JSON / logfmt write the built-in caller member in front of the
                           attributes ("fixed members first"): an attribute named caller then
                           follows it and is what a last-wins reader reports.                   *)
EXTENDS Integers, Sequences, FiniteSets, SequencesExt, TLC, Json

CONSTANTS MaxDepthInl,   \* deepest wrapper chain of inlinable wrappers
          MaxDepthNo,    \* deepest wrapper chain of //go:noinline wrappers
          AllOthers,     \* TRUE: every previous/parent skip value # skip; FALSE: one per skip
          Devs,          \* enabled deviations
          LineSites      \* wrapper chains behind //line directives (names of the worker's sites)

VARIABLES cell,          \* the cell under consideration
          phase          \* "seed": an (entry point, kind) pair was picked; "cell": a full cell

AllDevs == {"BridgeIgnoresSkip", "CallerBeforeAttrs", "BridgeFixedDepth", "AdapterFixedDepth"}

Larger(a, b) == IF a > b THEN a ELSE b
MaxSkip == Larger(MaxDepthInl, MaxDepthNo)

-----------------------------------------------------------------------------
(* Entry points *)

Families == {"verb", "ctx", "attrs", "printf", "pkgverb", "pkgctx", "adapter", "bridge"}

Verbs == {"Panic", "Fatal", "Error", "Warn", "Info", "Debug", "Trace", "Print", "OK", "Success", "Fail", "Println"}
CtxVerbs == {"PanicContext", "FatalContext", "ErrorContext", "WarnContext", "InfoContext", "DebugContext",
             "TraceContext", "PrintContext", "PrintlnContext", "OKContext", "SuccessContext", "FailContext"}

StdVerbs == {"Print", "Printf", "Println", "Output", "Panic", "Panicf", "Panicln", "Fatal", "Fatalf", "Fatalln"}
(* functions of package log that end the process after the record was written *)
TermEPNames == {p \o v : p \in {"stdlog.", "log."}, v \in {"Fatal", "Fatalf", "Fatalln"}}
(* entry points that have cells in the route sub-table only *)
NarrowEPNames == {"log." \o v : v \in StdVerbs} \cup TermEPNames \cup {"logslog.Handle", "logslog.std.Print"}

EPNames(f) ==
    CASE f = "verb"    -> Verbs                                   \* logger.Info(...) ... logger.Println(...)
      [] f = "ctx"     -> CtxVerbs                                \* logger.InfoContext(ctx, ...)
      [] f = "attrs"   -> {"LogAttrs", "Logit", "Log"}            \* logger.LogAttrs/Logit/Log(ctx, level, ...)
      [] f = "printf"  -> {"Infof", "Warnf", "Errorf"}
      [] f = "pkgverb" -> {"slog." \o v : v \in Verbs}            \* package-level, default logger
      [] f = "pkgctx"  -> {"slog." \o v : v \in CtxVerbs}
      [] f = "adapter" -> {"logslog." \o v : v \in {"Debug", "Info", "Warn", "Error", "DebugContext", "InfoContext",
                                                    "WarnContext", "ErrorContext", "Log", "LogAttrs"}}
                                                                  \* log/slog.Logger over NewSlogHandler
                          \cup {"logslog.Handle",                \* Handler.Handle with a Record the program built (own PC)
                                "logslog.std.Print"}              \* log/slog.NewLogLogger(handler, level).Print
      [] f = "bridge"  -> {"stdlog." \o v : v \in StdVerbs}       \* log.Logger from NewLogLogger: its whole method set
                          \cup {"log." \o v : v \in StdVerbs}     \* package log itself after log.SetOutput(bridge.Writer())

EPs == UNION {{[name |-> n, fam |-> f] : n \in EPNames(f)} : f \in Families}
FullEPs == {e \in EPs : e.name \notin NarrowEPNames}           \* entry points with the full table

(* The library's OWN frames from runtime.Callers (index 0) outwards, innermost first.  "<ep>"
   stands for the public function/method the user called.  Compiler generated method wrappers
   (logimp.Info for a detached root) are elided by runtime.Callers and not listed.  For the two
   front-end families the frames of the other packages follow (FrontOf). *)
OwnNames(f) ==
    CASE f = "verb"    -> <<"runtime.Callers", "getpc", "Entry.log1", "<ep>">>
      [] f = "ctx"     -> <<"runtime.Callers", "getpc", "<ep>">>
      [] f = "attrs"   -> <<"runtime.Callers", "getpc", "<ep>">>
      [] f = "printf"  -> <<"runtime.Callers", "getpc", "<ep>">>
      [] f = "pkgverb" -> <<"runtime.Callers", "getpc", "logctxctx", "logctx", "<ep>">>
      [] f = "pkgctx"  -> <<"runtime.Callers", "getpc", "logctxctx", "<ep>">>
      [] f = "adapter" -> <<"runtime.Callers", "handler4LogSlog.Handle">>
      [] f = "bridge"  -> <<"runtime.Callers", "getpc", "handlerWriter.Write">>

(* Frames of other packages between the library and the user's statement, innermost first, each with
   the package it belongs to ("<ep>": the function of that package the user called). *)
Fr(n, p) == [n |-> n, p |-> p]
(* functions of package log that reach Logger.output through Logger.Output *)
StdViaOutput == {"stdlog." \o v : v \in StdVerbs \ {"Print", "Printf", "Println", "Output"}}
                \cup {"log." \o v : v \in StdVerbs \ {"Print", "Printf", "Println"}}
Routes == {"direct", "mw1", "mw2"}
Middleware(r) == CASE r = "mw1" -> <<Fr("middleware.Handle", "other")>>
                   [] r = "mw2" -> <<Fr("middleware.Handle", "other"), Fr("middleware.Handle", "other")>>
                   [] OTHER -> <<>>
FrontOf(c) ==
    CASE c.fam = "bridge" ->
           IF c.ep \in StdViaOutput
           THEN <<Fr("log.Logger.output", "log"), Fr("log.Logger.Output", "log"), Fr("<ep>", "log")>>
           ELSE <<Fr("log.Logger.output", "log"), Fr("<ep>", "log")>>
      [] c.fam = "adapter" ->
           Middleware(c.route) \o
           (CASE c.ep = "logslog.Handle" -> <<Fr("helper building the Record", "other")>>
              [] c.ep = "logslog.std.Print" -> <<Fr("log/slog.handlerWriter.Write", "log/slog"), Fr("log.Logger.output", "log"),
                                                 Fr("<ep>", "log")>>
              [] OTHER -> <<Fr("log/slog.Logger.log", "log/slog"), Fr("<ep>", "log/slog")>>)
      [] OTHER -> <<>>
NLib(c) == Len(OwnNames(c.fam)) + Len(FrontOf(c))

(* The constant each family passes as `skip` (getpc adds 1 for itself).  The two front-end families
   do not count (BridgeBase, AdapterBase); what they counted once is the deviation. *)
Const(f) ==
    CASE f = "verb"    -> 3          \* log1: getpc(3, extra)
      [] f = "ctx"     -> 2          \* getpc(2, extra)
      [] f = "attrs"   -> 2
      [] f = "printf"  -> 2
      [] f = "pkgverb" -> 3 + 1      \* logctx -> logctxctx(ctx, 1, ...): getpc(3+inc, extra)
      [] f = "pkgctx"  -> 3 + 0      \* logctxctx(ctx, 0, ...)
      [] f = "adapter" -> 3 + 1      \* (deviation AdapterFixedDepth) runtime.Callers(3+1+skip)
      [] f = "bridge"  -> 4          \* (deviation BridgeFixedDepth) getpc(4, extra)
ViaGetpc(f) == f # "adapter"

-----------------------------------------------------------------------------
(* Cells *)

Formats == {"json", "logfmt", "color"}

(* root: detached logger from slog.New (a *logimp behind the Logger interface); child: a named
   child of such a root (an Entry); defroot/defchild: the same two installed with SetDefault and
   reached through slog.Default() / the package-level functions / slog.SetSkip / slog.WithSkip *)
KindsOf(f) == IF f \in {"pkgverb", "pkgctx"} THEN {"defroot", "defchild"}
              ELSE {"root", "child", "defroot", "defchild"}

(* how the logger got its skip count *)
Vias == {"none", "Set", "With", "SetSet", "WithOver"}

Ops(via, n, o) ==
    CASE via = "none"     -> <<>>
      [] via = "Set"      -> <<[op |-> "SetSkip", n |-> n]>>
      [] via = "With"     -> <<[op |-> "WithSkip", n |-> n]>>
      [] via = "SetSet"   -> <<[op |-> "SetSkip", n |-> o], [op |-> "SetSkip", n |-> n]>>
      [] via = "WithOver" -> <<[op |-> "SetSkip", n |-> o], [op |-> "WithSkip", n |-> n]>>

(* logger state while the skip is being established: skip of the logger that will be used;
   SetSkip overwrites it, WithSkip continues with a child that carries exactly n *)
ApplyOp(s, o) == IF o.op = "SetSkip" THEN [s EXCEPT !.skip = o.n]
                 ELSE [skip |-> o.n, derived |-> TRUE]

RECURSIVE Fold(_, _)
Fold(s, ops) == IF ops = <<>> THEN s ELSE Fold(ApplyOp(s, Head(ops)), Tail(ops))

FinalSkip(c) == Fold([skip |-> 0, derived |-> FALSE], Ops(c.via, c.skip, c.other)).skip

OtherChoices(s) == IF AllOthers THEN (0..MaxSkip) \ {s} ELSE {(s + 2) % (MaxSkip + 1)}

MaxDepth(inl) == IF inl THEN MaxDepthInl ELSE MaxDepthNo

Shapes(inl) ==
    {<<v, s, o, d>> \in Vias \X (0..MaxSkip) \X (0..MaxSkip) \X (0..MaxDepth(inl)) :
        /\ s <= d                                  \* the attributed frame is in the wrapper chain
        /\ v = "none" => s = 0
        /\ IF v \in {"SetSet", "WithOver"} THEN o \in OtherChoices(s) /\ o # s ELSE o = s}
ShapesInl == Shapes(TRUE)        \* (constant definitions: TLC evaluates them once)
ShapesNo == Shapes(FALSE)
ShapesOf(inl) == IF inl THEN ShapesInl ELSE ShapesNo

(* (built as one set comprehension: TLC's UNION is quadratic in the number of elements) *)
EPKinds == UNION {{<<e, k>> : k \in KindsOf(e.fam)} : e \in FullEPs}
ShapesAll == {<<TRUE, sh>> : sh \in ShapesInl} \cup {<<FALSE, sh>> : sh \in ShapesNo}

(* call sites behind //line directives: one entry point per calling convention of every family
   (variadic any / context first / level + attrs / printf / package level / log/slog front end /
   std log front end), loggers that are roots and (package level: the default) roots, noinline
   chains, skip 0..MaxLineSkip given in the three basic ways, chains of skip..LineDepth wrappers *)
LineEPNames == {"Info", "Println", "InfoContext", "LogAttrs", "Log", "Infof", "slog.Warn", "slog.InfoContext",
                "logslog.Info", "logslog.LogAttrs", "stdlog.Print", "stdlog.Output"}
LineKinds(f) == IF f \in {"pkgverb", "pkgctx"} THEN {"defroot"} ELSE {"root", "defroot"}
MaxLineSkip == 2
LineDepth == 2                    \* skip <= depth <= LineDepth: a wrapper reports its own caller, with and without more wrappers above
LineShapes == {sh \in ShapesNo : sh[1] \in {"none", "Set", "With"} /\ sh[2] <= MaxLineSkip /\ sh[4] <= LineDepth}
LineEPKinds == {ek \in EPKinds : ek[1].name \in LineEPNames /\ ek[2] \in LineKinds(ek[1].fam)}

(* attributes named like the built-in member: where the program put it x plain value / group with the
   members file, line, function.  The record itself can carry one only where the entry point takes
   attributes (not printf, not the std-log bridge), a handler only in the log/slog front end. *)
UAttrs == {"rec-plain", "rec-group", "log-plain", "log-group", "hdl-plain", "hdl-group"}
UAWhere(u) == CASE u \in {"rec-plain", "rec-group"} -> "rec" [] u \in {"log-plain", "log-group"} -> "log"
                [] u \in {"hdl-plain", "hdl-group"} -> "hdl" [] OTHER -> "none"
UAGroup(u) == u \in {"rec-group", "log-group", "hdl-group"}
UAOf(f) == {u \in UAttrs : /\ UAWhere(u) = "rec" => f \in {"verb", "ctx", "attrs", "pkgverb", "adapter"}
                           /\ UAWhere(u) = "hdl" => f = "adapter"}
UAEPNames == {"Info", "InfoContext", "LogAttrs", "Infof", "slog.Warn", "logslog.Info", "logslog.LogAttrs", "stdlog.Print"}
UAEPKinds == {ek \in EPKinds : ek[1].name \in UAEPNames /\ ek[2] \in LineKinds(ek[1].fam)}

(* front ends and routes (see the header).  RouteOf(name): the routes an entry point has cells for in
   the sub-table; kinds: root / default-root, the terminating functions on a root only *)
RouteEPNames == NarrowEPNames \cup {"logslog.Info", "logslog.LogAttrs"}
RouteOf(n) == IF n \in {"logslog.Info", "logslog.LogAttrs"} THEN {"mw1", "mw2"}      \* (their direct cells are in the full table)
              ELSE IF n \in {"logslog.Handle", "logslog.std.Print"} THEN Routes
              ELSE {"direct"}
RouteKinds(e) == IF e.name \in TermEPNames THEN {"root"} ELSE LineKinds(e.fam)
RouteEPKinds == UNION {{<<e, k>> : k \in RouteKinds(e)} : e \in {x \in EPs : x.name \in RouteEPNames}}
AllEPKinds == EPKinds \cup {ek \in RouteEPKinds : ek[1].name \in NarrowEPNames}

(* the table; an operator with a parameter because TLC evaluates every parameterless constant
   definition eagerly, once per worker, and this one is large *)
GoCellsOver(eks) == {[ep |-> ek[1].name, fam |-> ek[1].fam, fmt |-> f, kind |-> ek[2], inl |-> ns[1],
                      via |-> ns[2][1], skip |-> ns[2][2], other |-> ns[2][3], depth |-> ns[2][4], site |-> "go",
                      ua |-> "none", route |-> "direct"] :
                          ek \in eks \cap EPKinds, f \in Formats, ns \in ShapesAll}
LineCellsOver(eks) == {[ep |-> ek[1].name, fam |-> ek[1].fam, fmt |-> f, kind |-> ek[2], inl |-> FALSE,
                        via |-> sh[1], skip |-> sh[2], other |-> sh[3], depth |-> sh[4], site |-> s, ua |-> "none",
                        route |-> "direct"] :
                            ek \in eks \cap LineEPKinds, f \in Formats, sh \in LineShapes, s \in LineSites}
UACellsOver(eks) == {[ep |-> ek[1].name, fam |-> ek[1].fam, fmt |-> f, kind |-> ek[2], inl |-> FALSE,
                      via |-> sh[1], skip |-> sh[2], other |-> sh[3], depth |-> sh[4], site |-> "go", ua |-> u,
                      route |-> "direct"] :
                          ek \in eks \cap UAEPKinds, f \in Formats, sh \in LineShapes, u \in UAttrs}
(* (the parts are never united: TLC enumerates a union by testing every element of the second
   set for membership in the first; UACellsOver ranges over all of UAttrs and is filtered by IsCell
   where it is used) *)
UACells(eks) == {c \in UACellsOver(eks) : c.ua \in UAOf(c.fam)}
RouteCellsOver(eks) == {[ep |-> ek[1].name, fam |-> ek[1].fam, fmt |-> f, kind |-> ek[2], inl |-> FALSE,
                         via |-> sh[1], skip |-> sh[2], other |-> sh[3], depth |-> sh[4], site |-> "go", ua |-> "none",
                         route |-> r] :
                             ek \in eks \cap RouteEPKinds, f \in Formats, sh \in LineShapes, r \in Routes}
(* (a process per cell for the terminating functions: chains of exactly `skip` wrappers) *)
RouteCells(eks) == {c \in RouteCellsOver(eks) : /\ c.route \in RouteOf(c.ep)
                                                /\ c.ep \in TermEPNames => c.depth = c.skip}
CellsOver(eks) == GoCellsOver(eks)
NCells == Cardinality(EPKinds) * Cardinality(Formats) * Cardinality(ShapesAll)
          + Cardinality(LineEPKinds) * Cardinality(Formats) * Cardinality(LineShapes) * Cardinality(LineSites)
          + Cardinality(UACells(EPKinds))
          + Cardinality(RouteCells(RouteEPKinds))

IsCell(c) ==
    /\ [name |-> c.ep, fam |-> c.fam] \in EPs
    /\ c.fmt \in Formats /\ c.kind \in KindsOf(c.fam) /\ c.inl \in BOOLEAN
    /\ <<c.via, c.skip, c.other, c.depth>> \in ShapesOf(c.inl)
    /\ c.route \in Routes
    /\ \/ c.route = "direct" /\ c.ep \notin NarrowEPNames
       \/ /\ c.route \in RouteOf(c.ep) /\ c.site = "go" /\ c.ua = "none" /\ ~c.inl     \* (the sub-table enumerates the terminating
          /\ <<[name |-> c.ep, fam |-> c.fam], c.kind>> \in RouteEPKinds                \* functions with depth = skip only)
          /\ <<c.via, c.skip, c.other, c.depth>> \in LineShapes
    /\ \/ c.ua = "none"
       \/ /\ c.ua \in UAOf(c.fam) /\ c.site = "go" /\ ~c.inl
          /\ <<[name |-> c.ep, fam |-> c.fam], c.kind>> \in UAEPKinds
          /\ <<c.via, c.skip, c.other, c.depth>> \in LineShapes
    /\ \/ c.site = "go"
       \/ /\ c.site \in LineSites /\ ~c.inl
          /\ <<[name |-> c.ep, fam |-> c.fam], c.kind>> \in LineEPKinds
          /\ <<c.via, c.skip, c.other, c.depth>> \in LineShapes

-----------------------------------------------------------------------------
(* The stack and the attributed frame *)

LibFrame == [k |-> "lib", i |-> -1]
UserFrame(j) == [k |-> "user", i |-> j]              \* 0 = site .. d = wrap_d, d+1 = driver
NoFrame == [k |-> "none", i |-> -1]

Stack(c) == [x \in 1..NLib(c) |-> LibFrame] \o [x \in 1..(c.depth + 2) |-> UserFrame(x - 1)]

(* the skip count the capture really uses *)
Extra(c, D) == IF c.fam = "bridge" /\ "BridgeIgnoresSkip" \in D THEN 0 ELSE FinalSkip(c)

(* Where the attribution starts (1-based position in Stack; the skip count is added to it).
   getpc families: the constant of the family.
   bridge: the first frame above handlerWriter.Write that is not a frame of package log.
   adapter: the frame the record's PC names - every front end (log/slog.Logger, log/slog's std-log
   writer, a helper of the program following log/slog's wrapping pattern) captures the PC of the
   statement that called INTO it, i.e. of the caller of its outermost frame.                     *)
RECURSIVE LeadingIn(_, _)
LeadingIn(q, p) == IF q = <<>> \/ Head(q).p # p THEN 0 ELSE 1 + LeadingIn(Tail(q), p)
BridgeBase(c) == Len(OwnNames("bridge")) + LeadingIn(FrontOf(c), "log") + 1
AdapterBase(c) == NLib(c) + 1
CountedBase(c) == Const(c.fam) + (IF ViaGetpc(c.fam) THEN 1 ELSE 0) + 1
Base0(c, D) == CASE c.fam = "bridge" /\ "BridgeFixedDepth" \notin D -> BridgeBase(c)
                 [] c.fam = "adapter" /\ "AdapterFixedDepth" \notin D -> AdapterBase(c)
                 [] OTHER -> CountedBase(c)

Pos(c, D) == Base0(c, D) + Extra(c, D)
CallersArg(c, D) == Pos(c, D) - 1          \* what runtime.Callers is (in effect) asked to skip

AttrD(c, D) == LET s == Stack(c)  a == Pos(c, D)
               IN IF a <= Len(s) THEN s[a] ELSE NoFrame

(* The record as a reader sees it.  Members named like the caller field, in the order they are
   written: the attributes of the program come between msg and the built-in caller member. *)
UserVal == [k |-> "attr", i |-> -1]                  \* the program's attribute, not a frame
Collides(c) == c.ua # "none" /\ (c.fmt = "json" \/ (c.fmt = "logfmt" /\ UAGroup(c.ua)))
Written(c, D) == IF ~Collides(c) THEN <<"site">>
                 ELSE IF "CallerBeforeAttrs" \in D THEN <<"site", "user">> ELSE <<"user", "site">>
LastOf(q) == q[Len(q)]
SeenD(c, D) == IF LastOf(Written(c, D)) = "site" THEN AttrD(c, D) ELSE UserVal

Attributed(c) == SeenD(c, Devs)

Want(c) == UserFrame(c.skip)

-----------------------------------------------------------------------------
(* The property *)

TypeOK == IsCell(cell)

AttributionAtIssuer == Attributed(cell) = Want(cell)

Base(c) == [c EXCEPT !.via = "none", !.skip = 0, !.other = 0]
SkipMovesExactlyN ==
    /\ IsCell(Base(cell))
    /\ Pos(cell, Devs) = Pos(Base(cell), Devs) + cell.skip
    /\ \A x \in Pos(Base(cell), Devs)..Pos(cell, Devs) : Stack(cell)[x].k = "user"

(* The independence invariants compare the cell with its siblings along one dimension.  Equality
   is symmetric and transitive, so it is enough to compare from one representative of every
   sibling class (the first format, first kind, ...); every class has its representative in the
   table, so nothing is lost and the table is checked in a third of the time. *)
FormatIndependent == cell.fmt = "json" =>
    \A f \in Formats : Attributed([cell EXCEPT !.fmt = f]) = Attributed(cell)
KindIndependent == cell.kind = "defroot" =>
    \A k \in KindsOf(cell.fam) : Attributed([cell EXCEPT !.kind = k]) = Attributed(cell)
InlineIndependent == (cell.depth = cell.skip /\ (cell.inl \/ cell.skip > MaxDepthInl)) =>
    \A n \in BOOLEAN, d \in 0..MaxSkip :         \* neither inlining nor extra wrappers above matter
        LET c == [cell EXCEPT !.inl = n, !.depth = d] IN IsCell(c) => Attributed(c) = Attributed(cell)
ViaIndependent == cell.via = "Set" =>
    \A v \in Vias, o \in OtherChoices(cell.skip) \cup {cell.skip} :
        LET c == [cell EXCEPT !.via = v, !.other = o] IN IsCell(c) => Attributed(c) = Attributed(cell)
(* an attribute of the program that is named like the built-in member does not matter *)
CallerSurvivesUserAttr == cell.ua # "none" => Attributed(cell) = Attributed([cell EXCEPT !.ua = "none"])
(* neither the handlers a record passes on its way to the adapter nor the function of the front end
   that was called matter: the sub-table cells of a family agree with each other and, where the
   entry point has them, with the direct cells *)
RouteIndependent ==
    /\ cell.route = "direct" =>
          \A r \in Routes : LET c == [cell EXCEPT !.route = r] IN IsCell(c) => Attributed(c) = Attributed(cell)
    /\ cell.ep \in RouteEPNames =>
          \A e \in {x \in EPs : x.fam = cell.fam /\ x.name \in RouteEPNames}, r \in Routes :
              LET c == [cell EXCEPT !.ep = e.name, !.route = r] IN IsCell(c) => Attributed(c) = Attributed(cell)
(* what the source file of the chain's frames is called does not matter *)
SiteIndependent == cell.site = "go" =>
    \A s \in LineSites : LET c == [cell EXCEPT !.site = s] IN IsCell(c) => Attributed(c) = Attributed(cell)
WithinChain == Attributed(cell).k = "user" /\ Attributed(cell).i <= cell.depth

(* Enumeration: an initial state fixes (entry point, logger kind); its successors are all cells of
   that pair (so TLC's workers share the table); cells have no successors (no deadlock check). *)
CellsFor(e, k) == IF e.name \in NarrowEPNames THEN RouteCells({<<e, k>>}) ELSE CellsOver({<<e, k>>})
InitOver(eks) == /\ phase = "seed"
                 /\ cell \in {CHOOSE c \in CellsFor(ek[1], ek[2]) : TRUE : ek \in eks}
InitFams(F) == InitOver({x \in AllEPKinds : x[1].fam \in F})
Init == InitFams(Families)
InitBridge == InitOver({x \in EPKinds : x[1].fam = "bridge"})       \* witness runs for the bridge deviations
InitAdapter == InitOver({x \in AllEPKinds : x[1].fam = "adapter" /\ x[1].name \in RouteEPNames})  \* ... for AdapterFixedDepth
InitUA == /\ phase = "seed"               \* witness run for CallerBeforeAttrs: the entry points that have UA cells
          /\ cell \in {CHOOSE c \in CellsFor(ek[1], ek[2]) : TRUE : ek \in {x \in UAEPKinds : x[1].fam \in {"attrs", "adapter"}}}
Next == /\ phase = "seed" /\ phase' = "cell"
        /\ \/ cell' \in GoCellsOver({<<[name |-> cell.ep, fam |-> cell.fam], cell.kind>>})
           \/ cell' \in LineCellsOver({<<[name |-> cell.ep, fam |-> cell.fam], cell.kind>>})
           \/ cell' \in UACells({<<[name |-> cell.ep, fam |-> cell.fam], cell.kind>>})
           \/ cell' \in RouteCells({<<[name |-> cell.ep, fam |-> cell.fam], cell.kind>>})
Spec == Init /\ [][Next]_<<cell, phase>>

-----------------------------------------------------------------------------
(* Export of the table: one JSON object per cell with the frame the property demands *)

Row(c) == [ep |-> c.ep, fam |-> c.fam, fmt |-> c.fmt, kind |-> c.kind, inl |-> c.inl, via |-> c.via,
           skip |-> c.skip, other |-> c.other, depth |-> c.depth, site |-> c.site, ua |-> c.ua, route |-> c.route, want |-> Want(c)]

Export(file) ==
          /\ ndJsonSerialize(file, SetToSeq({Row(c) : c \in GoCellsOver(EPKinds)})
                                    \o SetToSeq({Row(c) : c \in LineCellsOver(EPKinds)})
                                    \o SetToSeq({Row(c) : c \in UACells(EPKinds)})
                                    \o SetToSeq({Row(c) : c \in RouteCells(RouteEPKinds)}))
          /\ PrintT("@@routeeps " \o ToJson(SetToSeq(RouteEPNames)))
          /\ PrintT("@@termeps " \o ToJson(SetToSeq(TermEPNames)))
          /\ PrintT("@@eps " \o ToJson(SetToSeq({e.name : e \in EPs})))
          /\ PrintT("@@lineeps " \o ToJson(SetToSeq(LineEPNames)))
          /\ PrintT("@@uaeps " \o ToJson(SetToSeq(UAEPNames)))
          /\ PrintT("@@ncells " \o ToJson(NCells))
=============================================================================
