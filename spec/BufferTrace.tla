---------------------------- MODULE BufferTrace ----------------------------
(* Trace validation for Buffer (C19).

   A log recorded from a real implementation - slog.PrintCtx, or the reference bytes.Buffer
   itself - is checked against the deterministic model of Buffer.tla.  One JSON object per line:

     {"op":"New", "b":[..]}                      a buffer constructed with contents b begins a trace
     {"op":<call>, <arguments>, <observations>}  one public call ("NilString": String() on a nil pointer)

   arguments      n   integer argument (len(p) of Read, Next/Truncate/Grow count, byte, rune, delimiter)
                  b   byte argument (Write/WriteString payload; for ReadFrom what the reader delivered)
                  fin ReadFrom: how the reader ended ("eof" / "err" / "neg")
                  avail   Grow: Available() before the call
                  wn, werr   WriteTo: what the writer returned
   observations   pan (panic class, "" = none), err (error class), rn / rm (integer results),
                  rb (returned bytes), len / s / bs (Len(), String(), Bytes() after the call;
                  optional - long contents are logged only now and then),
                  WriteTo: called, wb (was the writer called, with which bytes),
                  ReadFrom: done, after, minp (reader driven to its end, calls after its end,
                  smallest slice it was offered)

   The checker is a monitor: it consumes one line per step, computes the model's outcome with
   the SAME operators as the exhaustive model (Do dispatches to the Op* operators) and compares
   every logged observation with it (Match).  A rejected line is recorded in `bad` with what the
   model expected; the rest of that trace is skipped and checking resumes at the next "New".
   The model's invariants (TTypeOK, TPrevShape, TRuneAgain) are evaluated on every state the
   implementation drove the model into.                                                        *)
EXTENDS Buffer, Json, SequencesExt

CONSTANT TraceFile

VARIABLES i, failed, bad

TLog == ndJsonDeserialize(TraceFile)

Has(r, f) == f \in DOMAIN r

\* the model's outcome for one logged call
Do(s, e) ==
    CASE e.op \in {"Write", "WriteString"} -> OpWrite(s, e.b)
      [] e.op = "WriteByte" -> OpWriteByte(s, e.n)
      [] e.op = "WriteRune" -> OpWriteRune(s, e.n)
      [] e.op = "Read" -> OpRead(s, e.n)
      [] e.op = "Next" -> OpNext(s, e.n)
      [] e.op = "ReadByte" -> OpReadByte(s)
      [] e.op = "ReadRune" -> OpReadRune(s)
      [] e.op = "UnreadByte" -> OpUnreadByte(s)
      [] e.op = "UnreadRune" -> OpUnreadRune(s)
      [] e.op \in {"ReadBytes", "ReadString"} -> OpReadSlice(s, e.n)
      [] e.op = "Truncate" -> OpTruncate(s, e.n)
      [] e.op = "Reset" -> OpReset(s)
      [] e.op = "Grow" -> OpGrow(s, e.n, e.avail)
      [] e.op = "ReadFrom" -> OpReadFrom(s, e.b, e.fin)
      [] e.op = "WriteTo" -> OpWriteTo(s, e.wn, e.werr)
      [] e.op = "Len" -> OpLen(s)
      [] e.op \in {"Bytes", "String"} -> OpContents(s)
      [] e.op = "NilString" -> OpNilString(s)

\* which result fields a call has
HasN(op) == op \in {"Write", "WriteString", "WriteRune", "Read", "ReadByte", "ReadRune", "ReadFrom", "WriteTo", "Len"}
HasM(op) == op = "ReadRune"
HasB(op) == op \in {"Read", "Next", "ReadBytes", "ReadString", "Bytes", "String", "NilString"}

KnownOp(e) == e.op \in {"Write", "WriteString", "WriteByte", "WriteRune", "Read", "Next", "ReadByte", "ReadRune",
                        "UnreadByte", "UnreadRune", "ReadBytes", "ReadString", "Truncate", "Reset", "Grow",
                        "ReadFrom", "WriteTo", "Len", "Bytes", "String", "NilString"}

Match(s, e, o) ==
    /\ e.pan = o.pan
    /\ o.pan = NoPanic =>
         /\ e.err = o.err
         /\ HasN(e.op) => e.rn = o.n
         /\ HasM(e.op) => e.rm = o.m
         /\ HasB(e.op) => e.rb = o.b
    /\ Has(e, "len") => e.len = Len(o.st.data)
    /\ Has(e, "s") => e.s = o.st.data
    /\ Has(e, "bs") => e.bs = o.st.data
    /\ e.op = "WriteTo" => /\ e.called = WriterCalled(s)
                           /\ e.called => e.wb = s.data
    /\ e.op = "ReadFrom" => /\ e.done /\ e.after = 0
                            /\ e.minp >= MinRead

Short(b) == IF Len(b) <= 48 THEN b ELSE Take(b, 24) \o <<-1>> \o LastK(b, 24)
Expect(s, e) ==
    LET o == Do(s, e)
    IN ToJson([pan |-> o.pan, err |-> o.err, rn |-> o.n, rm |-> o.m, rb |-> Short(o.b), len |-> Len(o.st.data),
               s |-> Short(o.st.data), lr |-> o.st.lr, prev |-> o.st.prev,
               before |-> [len |-> Len(s.data), s |-> Short(s.data), lr |-> s.lr, prev |-> s.prev]])

TInit == st = Fresh /\ i = 1 /\ failed = FALSE /\ bad = {}

TNext ==
    /\ i <= Len(TLog)
    /\ i' = i + 1
    /\ LET e == TLog[i] IN
       IF e.op = "New" THEN st' = New(e.b) /\ failed' = FALSE /\ bad' = bad
       ELSE IF failed THEN UNCHANGED <<st, failed, bad>>
       ELSE IF ~KnownOp(e) THEN st' = st /\ failed' = TRUE /\ bad' = bad \cup {[line |-> i, expected |-> "unknown call"]}
       ELSE LET o == Do(st, e)
            IN IF Match(st, e, o)
               THEN st' = o.st /\ UNCHANGED <<failed, bad>>
               ELSE st' = st /\ failed' = TRUE /\ bad' = bad \cup {[line |-> i, expected |-> Expect(st, e)]}

TSpec == TInit /\ [][TNext]_<<st, i, failed, bad>>

\* evaluated in every state; prints the verdict once the whole log is consumed
Done == i <= Len(TLog) \/ PrintT("@@bad " \o ToJson(SetToSeq(bad))) \/ TRUE

TTypeOK == IsByteSeq(st.prev) /\ st.lr \in -1..4
TPrevShape == PrevShape
TRuneAgain == RuneAgain
=============================================================================
