---------------------------- MODULE BufferTrace ----------------------------
(* Trace validation for Buffer (C19).

   A log recorded from a real implementation - slog.PrintCtx, or the reference bytes.Buffer
   itself - is checked against the deterministic model of Buffer.tla.  One JSON object per line:

     {"op":"New", "b":[..], "hold":K}            a buffer constructed with contents b begins a trace;
                                                 the caller keeps at most K results (oldest forgotten first)
     {"op":<call>, <arguments>, <observations>}  one public call ("NilString": String() on a nil pointer)
     {"op":"Poke", "h":k, "j":j, "n":v, ...}     the caller executes slice[j] = v (j from 1) on the k-th kept slice
     {"op":"Fill", "h":k, ...}                   the caller overwrites the k-th kept (owned) slice: b -> 255-b, and
                                                 appends a byte into whatever spare capacity the slice has
     {"op":"Recycle", "b":[..], ...}             the record ended, the library took the encoder back and handed
                                                 it (as a rule the same object: "same") to a marshaller of the next
                                                 record; b = what the library has written of that record so far
                                                 (computed by the worker from the record, not read from the encoder);
                                                 observations (pan, len, s, bs, hv) taken on entry of the marshaller

   arguments      n   integer argument (len(p) of Read, Next/Truncate/Grow count, byte, rune, delimiter)
                  b   byte argument (Write/WriteString payload; for ReadFrom what the reader delivered)
                  fin ReadFrom: how the reader ended ("eof" / "err" / "neg")
                  avail   Grow: Available() before the call
                  wn, werr   WriteTo: what the writer returned
                  keep   the caller keeps the slice / string this call returned (Read: p[:n]; Write and
                         WriteString: the argument) - the slice itself, not a copy of it
                  scr    Write / WriteString: the caller overwrote its argument right after the call
                         returned, before the observations of this line were taken (OpWrite copies, so
                         the model's outcome is that of the call alone)
   observations   pan (panic class, "" = none), err (error class), rn / rm (integer results),
                  rb (returned bytes), len / s / bs (Len(), String(), Bytes() after the call;
                  optional - long contents are logged only now and then),
                  WriteTo: called, wb (was the writer called, with which bytes),
                  ReadFrom: done, after, minp (reader driven to its end, calls after its end,
                  smallest slice it was offered; the reader uses the rest of the slice as scratch space),
                  pl (the lengths of the slices the first Read calls were offered),
                  collaborators with a plan per call (Buffer.tla, COLLABORATORS):
                    WriteTo: wl (the length of EVERY Write call the writer received), nest (the calls
                      the writer made on the buffer from inside its first Write, each a record like a
                      line of this log: op, arguments, avail / cap before, cap2 after, pan, err, rn,
                      rm, rb, len), wn / werr its answer
                    ReadFrom: calls = one record per Read call received: pl (len(p)), off (absolute read
                      point on entry: Cap-Available-Len), c (bytes stored), fin (more/eof/err/neg),
                      order (pre: stored before calling back / post), nest (as above); planned (number
                      of calls the reader's plan has up to its final answer)
                  A line the model declares undefined for bytes.Buffer (`und`) ends the checking of
                  that trace without a verdict; it is listed in `skip`.
                  hv (optional): the CURRENT contents of every slice the caller keeps, oldest first,
                  read after the call.  Compared with `held` (Buffer.tla): the model decides which
                  results are still kept and must be intact (owned copies for ever, aliases until the
                  next modification - after that the caller has dropped them, as the model did)

   The checker is a monitor: it consumes one line per step, computes the model's outcome with
   the SAME operators as the exhaustive model (Do dispatches to the Op* operators) and compares
   every logged observation with it (Match).  A rejected line is recorded in `bad` with what the
   model expected; the rest of that trace is skipped and checking resumes at the next "New".
   The model's invariants (TTypeOK, TPrevShape, TRuneAgain) are evaluated on every state the
   implementation drove the model into.                                                        *)
EXTENDS Buffer, Json, SequencesExt

CONSTANT TraceFile

VARIABLES i, failed, bad, hold, skip

TLog == ndJsonDeserialize(TraceFile)

Has(r, f) == f \in DOMAIN r

\* the model's outcome for one logged call: [o |-> outcome, und |-> outside the defined domain,
\* outs |-> outcomes of the calls the collaborator made from inside]
Plain(o) == RR(o, FALSE, <<>>)
DoR(s, e) ==
    CASE e.op = "ReadFrom" -> IF Has(e, "calls") THEN OpReadFromRe(s, e.calls) ELSE Plain(OpReadFrom(s, e.b, e.fin))
      [] e.op = "WriteTo" -> IF Has(e, "nest") THEN OpWriteToRe(s, e.nest, e.wn, e.werr) ELSE Plain(OpWriteTo(s, e.wn, e.werr))
      [] e.op = "NilString" -> Plain(OpNilString(s))
      [] OTHER -> Plain(DoEv(s, e))

\* the calls a collaborator made from inside, in the order of the model's `outs`
RECURSIVE Flat(_, _)
Flat(calls, j) == IF j > Len(calls) THEN <<>> ELSE calls[j].nest \o Flat(calls, j + 1)
NestOf(e) == IF e.op = "ReadFrom" /\ Has(e, "calls") THEN Flat(e.calls, 1)
             ELSE IF e.op = "WriteTo" /\ Has(e, "nest") THEN e.nest ELSE <<>>

\* which result fields a call has
HasN(op) == op \in {"Write", "WriteString", "WriteRune", "Read", "ReadByte", "ReadRune", "ReadFrom", "WriteTo", "Len"}
HasM(op) == op = "ReadRune"
HasB(op) == op \in {"Read", "Next", "ReadBytes", "ReadString", "Bytes", "String", "NilString"}

\* the caller's own stores through a kept slice (no call of the buffer)
IsStore(e) == e.op \in {"Poke", "Fill"}
Legal(H, e) == CASE e.op = "Poke" -> CanPoke(H, e.h, e.j) [] e.op = "Fill" -> CanFill(H, e.h)
StoreOut(s, H, e) == IF e.op = "Poke" THEN Ok(PokeSt(s, H[e.h], e.j, e.n)) ELSE Ok(s)
StoreHeld(H, e) == IF e.op = "Poke" THEN PokeHeld(H, e.h, e.j, e.n) ELSE FillHeld(H, e.h)
ArgOf(e) == IF e.op \in {"Write", "WriteString"} THEN e.b ELSE <<>>

KnownOp(e) == e.op \in {"Write", "WriteString", "WriteByte", "WriteRune", "Read", "Next", "ReadByte", "ReadRune",
                        "UnreadByte", "UnreadRune", "ReadBytes", "ReadString", "Truncate", "Reset", "Grow",
                        "ReadFrom", "WriteTo", "Len", "Bytes", "String", "NilString", "Recycle"}

\* a call made from inside a collaborator against the model's outcome of it
NMatch(ne, no) ==
    /\ ne.pan = no.pan
    /\ no.pan = NoPanic =>
         /\ ne.err = no.err
         /\ HasN(ne.op) => ne.rn = no.n
         /\ HasM(ne.op) => ne.rm = no.m
         /\ HasB(ne.op) => ne.rb = no.b
    /\ ne.len = Len(no.st.data)

Match(s, e, r, H) ==
    LET o == r.o
        nest == NestOf(e)
    IN
    /\ e.pan = o.pan
    /\ Has(e, "hv") => /\ Len(e.hv) = Len(H)
                       /\ \A k \in DOMAIN H : e.hv[k] = H[k].val
    /\ o.pan = NoPanic =>
         /\ e.err = o.err
         /\ HasN(e.op) => e.rn = o.n
         /\ HasM(e.op) => e.rm = o.m
         /\ HasB(e.op) => e.rb = o.b
    /\ Has(e, "len") => e.len = Len(o.st.data)
    /\ Has(e, "s") => e.s = o.st.data
    /\ Has(e, "bs") => e.bs = o.st.data
    /\ e.op = "WriteTo" => /\ e.called = WriterCalled(s)
                           /\ e.called => e.wb = s.data
                           /\ Has(e, "wl") => e.wl = WriterLens(s)          \* exactly one Write, of everything
    /\ e.op = "ReadFrom" => /\ e.done /\ e.after = 0
                            /\ e.minp >= MinRead
                            /\ Has(e, "pl") => \A k \in DOMAIN e.pl : e.pl[k] >= MinRead
                            /\ Has(e, "calls") => /\ Len(e.calls) = e.planned
                                                  /\ \A k \in DOMAIN e.calls : e.calls[k].pl >= MinRead
    /\ Len(nest) = Len(r.outs)
    /\ \A k \in DOMAIN nest : NMatch(nest[k], r.outs[k])

Short(b) == IF Len(b) <= 48 THEN b ELSE Take(b, 24) \o <<-1>> \o LastK(b, 24)
ShortHeld(H) == [k \in DOMAIN H |-> [tag |-> H[k].tag, val |-> Short(H[k].val)]]
NShort(no) == [pan |-> no.pan, err |-> no.err, rn |-> no.n, rm |-> no.m, rb |-> Short(no.b), len |-> Len(no.st.data)]
Expect(s, e, r, H) ==
    LET o == r.o IN
    ToJson([nest |-> [k \in DOMAIN r.outs |-> NShort(r.outs[k])], wl |-> WriterLens(s), pan |-> o.pan, err |-> o.err, rn |-> o.n, rm |-> o.m, rb |-> Short(o.b), len |-> Len(o.st.data),
            s |-> Short(o.st.data), lr |-> o.st.lr, prev |-> o.st.prev, held |-> ShortHeld(H),
            before |-> [len |-> Len(s.data), s |-> Short(s.data), lr |-> s.lr, prev |-> s.prev, held |-> ShortHeld(held)]])

TInit == st = Fresh /\ held = <<>> /\ hold = 0 /\ i = 1 /\ failed = FALSE /\ bad = {} /\ skip = {}

Reject(txt) == /\ UNCHANGED <<st, held, skip>> /\ failed' = TRUE /\ bad' = bad \cup {[line |-> i, expected |-> txt]}
\* outside what bytes.Buffer defines: no verdict on the rest of this trace
Leave == /\ UNCHANGED <<st, held, bad>> /\ failed' = TRUE /\ skip' = skip \cup {i}

TNext ==
    /\ i <= Len(TLog)
    /\ i' = i + 1
    /\ LET e == TLog[i] IN
       IF e.op = "New" THEN st' = New(e.b) /\ held' = <<>> /\ hold' = e.hold /\ failed' = FALSE /\ bad' = bad /\ skip' = skip
       ELSE /\ hold' = hold
            /\ IF failed THEN UNCHANGED <<st, held, failed, bad, skip>>
               ELSE IF IsStore(e)
               THEN IF ~Legal(held, e) THEN Reject("store through a slice the caller does not (or may no longer) hold")
                    ELSE LET r == Plain(StoreOut(st, held, e))
                             H == StoreHeld(held, e)
                         IN IF Match(st, e, r, H) THEN st' = r.o.st /\ held' = H /\ UNCHANGED <<failed, bad, skip>>
                            ELSE Reject(Expect(st, e, r, H))
               ELSE IF ~KnownOp(e) THEN Reject("unknown call")
               ELSE LET r == DoR(st, e)
                        H == HCall(held, e.op, r.o, ArgOf(e), e.keep, hold)
                    IN IF r.und THEN Leave
                       ELSE IF Match(st, e, r, H) THEN st' = r.o.st /\ held' = H /\ UNCHANGED <<failed, bad, skip>>
                       ELSE Reject(Expect(st, e, r, H))

TSpec == TInit /\ [][TNext]_<<st, held, hold, i, failed, bad, skip>>

\* evaluated in every state; prints the verdict once the whole log is consumed
Done == i <= Len(TLog) \/ (PrintT("@@bad " \o ToJson(SetToSeq(bad))) /\ PrintT("@@skip " \o ToJson(SetToSeq(skip)))) \/ TRUE

TTypeOK == IsByteSeq(st.prev) /\ st.lr \in -1..4
TPrevShape == PrevShape
TRuneAgain == RuneAgain
THeld == Len(held) <= hold /\ AliasCoherent
=============================================================================
