----------------------------- MODULE EncoderHist -----------------------------
(* C04 / C05 / C06 over HISTORIES.

   Encoder.tla decides the three encoder properties for ONE record: Diag(rec, obs) is the set
   of clauses of the property that the observation of a record violates.  The properties are
   for-all claims over records and configurations - so the encoding of a record must be a
   function of (record, configuration) and of nothing else: not of the records that were
   formatted before, not of garbage collections, not of the order in which the configuration
   was reached, not of how many bytes the record has.  This module makes that explicit.

   STATE (variable st) - everything that may LEGITIMATELY influence an encoding:
     testing   the process kind (go test / production)               [fixed at Init]
     dbg, trc  the process-wide debug / trace switches (is.DebugMode, is.TraceMode)
     width     level output width (slog.SetLevelOutputWidth)
     minw      minimal message width (slog.SetMessageMinimalWidth)
     reg       custom severity -> "none" | registration form (slog.RegisterLevel ... options)
     col       severity (of ColSevs) -> level colour configuration [set, fg, bg] of Encoder.tla:
               NoLC = never touched by SetLevelColors (built-in table / colours of the
               registration), else what the last slog.SetLevelColors(sev, fg, bg) put there -
               {no foreground, a foreground} x {nothing, a background colour, a text attribute}
     mode      logger slot -> "json" | "logfmt" | "color"   (what JSONMode()/ColorMode() report)
     named     logger slot -> the logger has a name           (what Name() reports)
     dest      logger slot -> destination form (index into DestForms): the io.Writers the logger of
               the slot writes to (SetWriter / AddWriter, SetErrorWriter / AddErrorWriter), in order.
               DestForms[w] is a sequence of destinations [log, l, r]: log = FALSE is a PASSIVE
               writer (it consumes its argument and returns); log = TRUE is a destination that
               LOGS: inside its Write, BEFORE it reads its argument, it emits a record of class r
               through the logger of slot l - an auditing / rotating / retrying writer reporting
               what it is about to do (l may be another logger of any format, or the very logger
               it serves: then at another severity / with other attributes).  Such a writer never
               re-enters itself (it is passive while it is inside its own Write), so every
               emission terminates.  Form 1 is the single passive destination every logger starts with.
   plus the constant Own[l], the attributes every logger of slot l is created with.

   EVENTS (one named action each, so that TLC labels the edges of the dumped graph):
     Configure(l, f)   form f = [how, p, calls]: the logger of slot l is reconfigured ("set":
                       setter calls on the live logger) or REPLACED by a new one ("new" /
                       "newset": slog.New with options / followed by setters; "child" /
                       "childset" / "with": l := p.New(name, options), p.New(name) + setters,
                       p.With<Mode>(b) + setters).  calls = sequence of [op, arg] with
                       op in {"json", "color"}, arg in {"def", "on", "off"} - every order.
     Wire(l, w)        the destinations of the logger of slot l become DestForms[w].
     Emit(l, r)        logger l logs a record of class r = [sev, msg, args, caller, cfile, cls] through a
                       public entry point (Info..., XxxContext, LogAttrs): message classes incl.
                       multi-line and BIG ones, call-site attributes incl. errors and groups; with
                       caller the statement sits in a source file whose name carries a character
                       of class cfile ("plain": an ordinary path; others: behind a //line directive).
     GC(n)             n garbage collections (sync.Pool contents dropped).
     Register(c, g)    slog.RegisterLevel(c, title, options of form g).
     Switch(k, v)      some logger is switched to DebugLevel / TraceLevel in way v (the library
                       then turns the process-wide switch on);  SwitchOff  resets both.
     SetWidth(w), SetMinW(m)
     SetColors(v, f, b)  slog.SetLevelColors(v, <a colour of class f>, <a colour of class b>) for a
                       built-in or custom severity v of ColSevs - process-wide, like the widths.

   DELIVERIES.  With destinations that log, ONE Emit hands several payloads to destinations:
   Deliveries(st, l, r) lists them - [l, r, d, k] = the record of class r of logger l, at nesting
   depth d (0 = the record of the Emit itself), as handed to the k-th destination of l - nested
   ones first (they are complete before the destination that caused them reads its own argument).
   What is judged is the payload a destination finds in the argument of its Write WHEN IT READS
   IT, i.e. after the record it logged itself is out: the argument is the destination's until
   Write returns.  Every delivery must be the COMPLETE record Expect says for ITS logger and
   class: the outer record is not shortened, overwritten or mixed with the nested one, the
   nested one is a record like any other, a second destination gets the same bytes as the first.
   Nesting depth is bounded by the number of logging destinations (NestBounded).

   EXPECTATION.  Expect(st, l, r) = the abstract record of Encoder.tla an Emit must produce
   (format = st.mode[l], name, widths, testing from st; message and attributes Own[l] \o r.args
   from the class) together with the admissible sources of the level tag / level name.  It is
   an operator of (st, l, r) ONLY.  HDiag judges an observation against it with Encoder!Diag.
   `hist` - the classes of the last HistDepth Emit / GC events - is carried in the state of the
   exhaustive machine for exactly one reason: so that every edge of TLC's graph is a pair
   (triple) of consecutive events and the edge cover executed on the library contains every
   such sequence.  No operator that states an expectation reads it:
     EmitsAreSilent       (action property) an Emit or GC step leaves st - and with it the
                          expectation of every future Emit - unchanged;
     ColoursOfOthersDoNotMatter  the expectation ignores the colours set for other severities;
     OthersDoNotMatter    the expectation for one logger ignores the modes of the others;
     DestinationsDoNotMatter  ... and what any logger's destinations are or do: a record is the same
                          record whether it is written at depth 0 or from inside a destination's Write;
     SwitchesDoNotMatter  ... and the debug / trace switches;  TypeOK, OblLive.
   EncoderHistMech.tla adds the hidden state an implementation keeps between records (pooled
   formatter residue, attribute pool, memoised tags) and shows which disciplines keep it from
   leaking (invariant NoLeak) and that six sloppy ones do leak (witnesses).

   OBLIGATIONS (variable obl) are a DRIVER device of the exhaustive machine only: after a
   configuration event the next event is an Emit that observes it (the reconfigured logger
   logs / the registered severity is logged / a coloured record follows a width change / a
   record with an error follows a debug switch).  They make the edge cover put an observation
   right behind every configuration edge.  The trace specification has no obligations: any
   sequence of events is a behaviour there (random deeper histories).

   Which mode a call sequence leaves a logger in is C11's property; CfgStep transcribes the
   documented rule only to PLAN behaviours.  The monitor (EncoderHistTrace) adopts what the
   getters report after the calls and judges the following records against THAT.           *)
EXTENDS Encoder

CONSTANTS Loggers,                \* logger slots, 1..n
          InitMode, InitNamed,    \* slot -> mode / BOOLEAN of the logger Reset creates
          Own,                    \* slot -> attributes of the logger (sequence of Encoder nodes)
          CfgIds, CfgForms,       \* CfgForms[f] = [how, p, calls]
          RcIds, RecClasses,      \* RecClasses[r] = [sev, msg, args, caller, cfile, cls]
          Customs,                \* abstract custom severities (>= 100)
          RegForms,               \* "title" | "titlecolor" | "tags" | "tagsbg"
          Widths, MinWidths,
          SwitchKinds, SwitchVias, \* {"debug","trace"} x ways of switching a logger's level
          GCs,                    \* numbers of consecutive collections a GC event may make
          ColSevs, ColFgs, ColBgs, \* severities whose colours may be set; classes of fg ("none","fg") / bg ("none","bg","attr")
          ProcKinds,              \* subset of BOOLEAN: testing
          DestForms, DestIds,     \* DestForms[w] = sequence of destinations [log, l, r]; DestIds: the forms Wire may install
          HistDepth

VARIABLES st, hist, obl

hvars == <<st, hist, obl, flat>>

Modes == {"json", "logfmt", "color"}
NoObl == [k |-> "none", x |-> 0]

----------------------------------------------------------------------------
(* the functional core: one pure operator per event *)

\* documented setter semantics (C11): JSON on clears colour; JSON off leaves colour as it is;
\* colour on/off clears JSON
ApplyCall(m, c) ==
    IF c.op = "json" THEN (IF c.arg # "off" THEN "json" ELSE IF m = "json" THEN "logfmt" ELSE m)
    ELSE (IF c.arg # "off" THEN "color" ELSE "logfmt")
RECURSIVE ApplyCalls(_, _)
ApplyCalls(m, cs) == IF cs = <<>> THEN m ELSE ApplyCalls(ApplyCall(m, Head(cs)), Tail(cs))

Detached(f) == f.how \in {"new", "newset"}
StartMode(s, l, f) == IF f.how = "set" THEN s.mode[l] ELSE IF Detached(f) THEN "color" ELSE s.mode[f.p]
CfgStep(s, l, f) ==
    [s EXCEPT !.mode[l] = ApplyCalls(StartMode(s, l, f), f.calls),
              \* a child always has a name (a random one when none is given)
              !.named[l] = IF f.how = "set" THEN @ ELSE IF Detached(f) THEN InitNamed[l] ELSE TRUE]
RegGuard(s, c) == s.reg[c] = "none"
\* a registration that carries colours replaces what SetLevelColors may have put there before
RegStep(s, c, g) == [s EXCEPT !.reg[c] = g,
                              !.col = IF c \in ColSevs /\ g \in {"titlecolor", "tags", "tagsbg"} THEN [@ EXCEPT ![c] = NoLC] ELSE @]
ColStep(s, v, f, b) == [s EXCEPT !.col[v] = [set |-> TRUE, fg |-> f, bg |-> b]]
WireStep(s, l, w) == [s EXCEPT !.dest[l] = w]
PassiveForm == 1
InitDest == [l \in Loggers |-> PassiveForm]

\* ---- the payloads one Emit hands to destinations (a destination is named <<slot, index>>; `act` =
\* the destinations that are inside their Write: they do not log again)
Dests(s, l) == DestForms[s.dest[l]]
RECURSIVE Deliv(_, _, _, _, _)
Deliv(s, l, r, d, act) ==
    LET ds == Dests(s, l)
        nested(k) == IF ds[k].log /\ <<l, k>> \notin act
                     THEN Deliv(s, ds[k].l, ds[k].r, d + 1, act \cup {<<l, k>>}) ELSE <<>>
    IN Cat([k \in DOMAIN ds |-> nested(k)]) \o [k \in DOMAIN ds |-> [l |-> l, r |-> r, d |-> d, k |-> k]]
Deliveries(s, l, r) == Deliv(s, l, r, 0, {})
\* the destination a delivery is handed to logs (before it reads) / an earlier destination of the same record did
DestLogs(s, x) == Dests(s, x.l)[x.k].log
EarlierLogs(s, x) == \E j \in 1..(x.k - 1) : Dests(s, x.l)[j].log
LoggingDests(s) == {<<l, k>> \in Loggers \X (1..8) : k \in DOMAIN Dests(s, l) /\ Dests(s, l)[k].log}
LcOf(s, sev) == IF sev \in ColSevs THEN s.col[sev] ELSE NoLC
SwitchStep(s, k) == IF k = "debug" THEN [s EXCEPT !.dbg = TRUE] ELSE [s EXCEPT !.trc = TRUE]
SwitchOffStep(s) == [s EXCEPT !.dbg = FALSE, !.trc = FALSE]

\* ---- the expectation: a function of the state and the record class only
ExpRecOf(s, l, sev, msg, attrs, caller, cfile) ==
    [fmt |-> s.mode[l], testing |-> s.testing, name |-> [has |-> s.named[l], cls |-> <<>>], sev |-> sev,
     caller |-> caller, cfile |-> cfile, width |-> s.width, minw |-> s.minw, msg |-> msg, attrs |-> attrs,
     lc |-> LcOf(s, sev)]
ExpRec(s, l, r) == ExpRecOf(s, l, r.sev, r.msg, Own[l] \o r.args, r.caller, r.cfile)
\* Where the bracketed tag (colored) / the level member (JSON, logfmt) of a severity may come
\* from.  The harness names the sources the printed text is equal to: "builtin" (the library's
\* table, read through Level.ShortTag / Level.String), "tags" (the short tag registered for the
\* CURRENT width), "title" (the registered title, cut or padded to the width), "generic" (the
\* L#<number> rendering of a severity nobody registered), "other".  The statements fix: explicit
\* short tags are the tag; a registered severity is called by its title, never by the generic
\* rendering it had before the registration; how a title-only registration or an unregistered
\* severity is abbreviated is left open ("other" accepted).
ExpTagSrc(s, sev) ==
    IF sev \in Customs
    THEN (IF s.reg[sev] = "none" THEN {"generic", "other"}
          ELSE IF s.reg[sev] \in {"title", "titlecolor"} THEN {"title", "other"} ELSE {"tags"})
    ELSE {"builtin"}
ExpNameSrc(s, sev) ==
    IF sev \in Customs THEN (IF s.reg[sev] = "none" THEN {"generic", "other"} ELSE {"title"}) ELSE {"builtin"}
Expect(s, l, r) == [rec |-> ExpRec(s, l, RecClasses[r]), tag |-> ExpTagSrc(s, RecClasses[r].sev),
                    name |-> ExpNameSrc(s, RecClasses[r].sev)]

\* verdict on one observed record: the per-record clauses of Encoder.tla plus the source of the
\* level tag / level name, which only a history can get wrong
SeqSet(q) == {q[j] : j \in DOMAIN q}
HDiag(rec, tagexp, nameexp, o) ==
    Diag(rec, o)
    \cup (IF rec.fmt = "color" /\ InLayoutDomain(rec) /\ o.parsed /\ SeqSet(o.tagsrc) \cap tagexp = {}
          THEN {"level-tag-text"} ELSE {})
    \cup (IF rec.fmt # "color" /\ o.valid /\ SeqSet(o.lvlsrc) \cap nameexp = {}
          THEN {"level-name-text"} ELSE {})

----------------------------------------------------------------------------
(* the exhaustive machine *)

Push(h, x) == IF HistDepth = 0 THEN <<>>
              ELSE LET a == Append(h, x) IN IF Len(a) > HistDepth THEN Tail(a) ELSE a

HasErr(l, r) == HasKind(Own[l] \o RecClasses[r].args, "error")
Observes(o, s, l, r) ==
    CASE o.k = "logger" -> l = o.x
      [] o.k = "sev"    -> RecClasses[r].sev = o.x
      [] o.k = "color"  -> s.mode[l] = "color"
      [] o.k = "sevcolor" -> RecClasses[r].sev = o.x /\ s.mode[l] = "color"
      [] o.k = "err"    -> HasErr(l, r)
      [] OTHER          -> TRUE
MkObl(o, s) == IF \E l \in Loggers, r \in RcIds : Observes(o, s, l, r) THEN o ELSE NoObl

HInit ==
    /\ st \in {[testing |-> t, dbg |-> FALSE, trc |-> FALSE, width |-> 3, minw |-> 36,
                reg |-> [c \in Customs |-> "none"], col |-> [v \in ColSevs |-> NoLC],
                mode |-> InitMode, named |-> InitNamed, dest |-> InitDest] : t \in ProcKinds}
    /\ hist = <<>>
    /\ obl = NoObl
    /\ flat = <<>>

Config(s2, o) == /\ obl = NoObl
                 /\ st' = s2
                 /\ obl' = MkObl(o, s2)
                 /\ UNCHANGED <<hist, flat>>

Configure(l, f) == /\ (CfgForms[f].how \in {"child", "childset", "with"} => CfgForms[f].p \in Loggers)
                   /\ Config(CfgStep(st, l, CfgForms[f]), [k |-> "logger", x |-> l])
Register(c, g)  == RegGuard(st, c) /\ Config(RegStep(st, c, g), [k |-> "sev", x |-> c])
Switch(k, v)    == v \in SwitchVias /\ Config(SwitchStep(st, k), [k |-> "err", x |-> 0])
SwitchOff       == (st.dbg \/ st.trc) /\ Config(SwitchOffStep(st), NoObl)
SetWidth(w)     == w # st.width /\ Config([st EXCEPT !.width = w], [k |-> "color", x |-> 0])
SetMinW(m)      == m # st.minw /\ Config([st EXCEPT !.minw = m], [k |-> "color", x |-> 0])
SetColors(v, f, b) == /\ st.col[v] # [set |-> TRUE, fg |-> f, bg |-> b]
                      /\ Config(ColStep(st, v, f, b), [k |-> "sevcolor", x |-> v])
Wire(l, w)      == /\ st.dest[l] # w
                   /\ \A k \in DOMAIN DestForms[w] : DestForms[w][k].log => DestForms[w][k].l \in Loggers /\ DestForms[w][k].r \in RcIds
                   /\ Config(WireStep(st, l, w), [k |-> "logger", x |-> l])
Emit(l, r)      == /\ Observes(obl, st, l, r)
                   /\ obl' = NoObl
                   /\ hist' = Push(hist, <<l, RecClasses[r].cls>>)
                   /\ UNCHANGED <<st, flat>>
GC(n)           == /\ obl = NoObl
                   /\ hist' = Push(hist, <<0, "gc">>)
                   /\ HistDepth > 0 => hist' # hist          \* a second GC in a row adds nothing
                   /\ UNCHANGED <<st, obl, flat>>

HNext ==
    \/ \E l \in Loggers, f \in CfgIds : Configure(l, f)
    \/ \E l \in Loggers, r \in RcIds : Emit(l, r)
    \/ \E n \in GCs : GC(n)
    \/ \E c \in Customs, g \in RegForms : Register(c, g)
    \/ \E k \in SwitchKinds, v \in SwitchVias : Switch(k, v)
    \/ SwitchOff
    \/ \E w \in Widths : SetWidth(w)
    \/ \E m \in MinWidths : SetMinW(m)
    \/ \E v \in ColSevs, f \in ColFgs, b \in ColBgs : SetColors(v, f, b)
    \/ \E l \in Loggers, w \in DestIds : Wire(l, w)

HSpec == HInit /\ [][HNext]_hvars

TypeOK ==
    /\ st.testing \in BOOLEAN /\ st.dbg \in BOOLEAN /\ st.trc \in BOOLEAN
    /\ st.width \in 1..5 /\ st.minw >= 16
    /\ \A l \in Loggers : st.mode[l] \in Modes /\ st.named[l] \in BOOLEAN
    /\ \A c \in Customs : st.reg[c] \in RegForms \cup {"none"}
    /\ \A v \in ColSevs : st.col[v] \in LevelColours
    /\ \A l \in Loggers : st.dest[l] \in DOMAIN DestForms
    /\ Len(hist) <= HistDepth
\* an obligation never dead-locks the driver: some Emit can discharge it
OblLive == obl = NoObl \/ \E l \in Loggers, r \in RcIds : Observes(obl, st, l, r)

\* THE history-independence statement of the model: formatting a record (and a garbage
\* collection) changes nothing that an expectation is computed from - whatever was emitted
\* before, the next Emit(l, r) is judged against the same Expect(st, l, r)
IsEmitOrGC == (\E l \in Loggers, r \in RcIds : Emit(l, r)) \/ (\E n \in GCs : GC(n))
EmitsAreSilent ==
    [][IsEmitOrGC => (st' = st \/ \A l \in Loggers, r \in RcIds : Expect(st', l, r) = Expect(st, l, r))]_hvars
\* ... and the expectation of one logger does not depend on the mode of another one
OthersDoNotMatter ==
    \A l \in Loggers, r \in RcIds, m \in Modes : \A l2 \in Loggers \ {l} :
        Expect([st EXCEPT !.mode[l2] = m], l, r) = Expect(st, l, r)
\* ... nor on the debug / trace switches: C05 claims the single line for every production
\* process, C06 ties the error dump to go test / a debugger, not to a log level
SwitchesDoNotMatter ==
    \A l \in Loggers, r \in RcIds, d \in BOOLEAN, t \in BOOLEAN :
        Expect([st EXCEPT !.dbg = d, !.trc = t], l, r) = Expect(st, l, r)

\* ... nor on what the destinations of any logger (its own included) are or do
DestinationsDoNotMatter ==
    \A l \in Loggers, r \in RcIds, l2 \in Loggers, w \in DOMAIN DestForms :
        Expect(WireStep(st, l2, w), l, r) = Expect(st, l, r)
\* one Emit hands finitely many payloads out: the record itself to each of its destinations, and a destination
\* logs at most once per chain (it is passive while inside its own Write)
NestBounded ==
    \A l \in Loggers, r \in RcIds :
        LET D == Deliveries(st, l, r) IN
        /\ \A j \in DOMAIN D : D[j].d <= Cardinality(LoggingDests(st)) /\ D[j].l \in Loggers /\ D[j].r \in RcIds
        /\ \A k \in DOMAIN Dests(st, l) : \E j \in DOMAIN D : D[j] = [l |-> l, r |-> r, d |-> 0, k |-> k]
        /\ (LoggingDests(st) = {} => Len(D) = Len(Dests(st, l)))

\* ... nor on the colours configured for ANOTHER severity
ColoursOfOthersDoNotMatter ==
    \A l \in Loggers, r \in RcIds : \A v \in ColSevs \ {RecClasses[r].sev}, c \in LevelColours :
        Expect([st EXCEPT !.col[v] = c], l, r) = Expect(st, l, r)

DumpAlias == [t |-> st.testing]
=============================================================================
