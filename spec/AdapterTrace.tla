---------------------------- MODULE AdapterTrace ----------------------------
(* Trace validation for Adapter (property C15).

   The Go worker (harness/fam_adapter.go) executes behaviours of the Adapter model on the real
   library - NewSlogHandler, Handler.WithAttrs/WithGroup/Enabled/Handle through a real
   log/slog.Logger, Entry.Log, NewLogLogger + log.Logger.Print / Writer().Write - on recording
   writers, decodes every record that reached a writer with its own decoders and logs one JSON
   line per call: the call's arguments and what was observed.  This module is a monitor over
   that log: one line is consumed per step, the abstract state is advanced with the operators of
   Adapter, and every observation is judged by the `...Verdict` operators below.

   A verdict is "ok" or a KEY naming the abstract class of the divergence:
     "dev:<Name>"     the observation is not what the property demands but is EXACTLY what the
                      named deviation of Adapter (the pinned library's known behaviour) predicts;
     "<call>:<who>:<clause>"  anything else, named after the first clause of the property that
                      fails (count, sev, dest, format, msg, time:<kind of record time>, rec-attrs, given-attrs, ...;
                      "rec-attrs:dupkey" / "given-attrs:dupkey" when every missing attribute
                      shares its key with another one of its group - see Adapter, EQUAL KEYS;
                      "...-attrs:valuer", ":group-valuer", ":valuer-chain", ":valuer-in-valuer" when
                      every missing attribute has LogValuers on its path - see AttrClause).
     "nested:<relation of h2 to h>:<carrier>:<outer|inner>:<clause>"  a nested pair (Adapter, NESTED RECORDS);
     "nested:<relation>:<carrier>:hang", "hang:<call>"   the call did not return: the harness's watchdog
                      wrote the line (field hang) after the process had made no progress for 30 s (next to
                      no CPU time used) or after 15 minutes, and ended the process.
   PROCESSES.  The registry is process-wide and cannot be undone: the line "Proc" starts a new
   process (factory tables), "Reset" a new behaviour in the same process (the registry stays).
   Behaviours that register levels are executed in a process of their own.
   Every rejected line is printed as  @@bad {"line":..,"key":..}; at the end @@end {lines, bad}.

   Observed record (decoded by the harness, independent of the library):
     w      writer that received it (1/2 = the logger's normal/error writer, -1/-2 = the
            package default writers)
     fmt    "json" | "logfmt" | "color" (by shape)        sev   severity (0..11, -1 unknown)
     msg    message bytes (colored mode: first line only)
     t      the printed time: [now (inside the call window), ok (it could be read), d, s, n (the instant:
            days since 0001-01-01, second of the day, nanosecond - in UTC)]
     leaves attributes found: [k key ("" = lost by the encoder), p enclosing groups known from
            nesting or a dotted key, m group names printed before it (encoders that print a bare
            group marker), kind, v catalogue value denoted (-1 unknown)]                        *)
EXTENDS Adapter, Json

CONSTANT TraceFile

VARIABLES i, nbad

TLog == ndJsonDeserialize(TraceFile)

-----------------------------------------------------------------------------
(* attribute acceptance *)

\* observed leaf O stands for the expected path P
PathOK(P, O) ==
    \/ O.k = ""                                                     \* key lost by the encoder
    \/ Append(O.p, O.k) = P                                         \* nested object or dotted key
    \/ /\ O.p = <<>> /\ O.k = Last(P)                               \* bare group markers before it
       /\ \A x \in 1..(Len(P) - 1) : \E y \in 1..Len(O.m) : O.m[y] = P[x]

\* E = [p, k, v, q]: the q leading elements come from WithGroup - nested or not, both accepted
LeafMatches(E, O) ==
    /\ O.kind = E.k /\ O.v = E.v
    /\ (PathOK(E.p, O) \/ PathOK(SubSeq(E.p, E.q + 1, Len(E.p)), O))

Present(E, Os) == \E y \in 1..Len(Os) : LeafMatches(E, Os[y])

\* the leaves of part (a sequence) that must be in the output - not displaced by a later attribute
\* with the same key anywhere in the record's tree `all` - but are not
Missing(part, all, Os) == {L \in ToSet(part) : ~Displaced(L, all) /\ ~Present(L, Os)}

\* name of the clause; ":dupkey" when every missing attribute shares its key with another one of its
\* group; else, when every (uncontested) missing attribute has LogValuers on its path, the simplest
\* such class: ":valuer" (a LogValuer leaf), ":group-valuer" (member of a group a LogValuer resolved
\* to), ":valuer-chain" (a LogValuer resolving to a LogValuer), ":valuer-in-valuer" (a LogValuer
\* inside a group that a LogValuer resolved to)
VRank == <<"valuer", "group-valuer", "valuer-chain", "valuer-in-valuer">>
AttrClause(name, part, all, Os) ==
    LET miss == Missing(part, all, Os)
        unc == {L \in miss : ~Contested(L, all)}
        cls == {VClass(L) : L \in unc}
    IN IF miss = {} THEN "ok"
       ELSE IF unc = {} THEN name \o ":dupkey"
       ELSE IF "plain" \in cls THEN name
       ELSE name \o ":" \o VRank[Min({r \in 1..4 : VRank[r] \in cls})]

MsgOK(m, o) == IF o.fmt = "color" THEN o.msg = FirstLine(m) ELSE o.msg = m

\* "the record's own time": t = the time id the model says is emitted (0 = stamped during the call),
\* ot = the printed time as read back by the harness
TimeOK(t, ot) == IF t = 0 THEN ot.now
                 ELSE ot.ok /\ ~ot.now /\ [d |-> ot.d, s |-> ot.s, n |-> ot.n] = Instant(RecTimes[t])

\* first failing clause of one record against the canonical record c; strictTime = FALSE for a
\* fresh detached logger (its time layout is not the one the harness configured)
RecClause(s, c, o, strictTime) ==
    IF o.w # WriterOf(s, c.dest, o.sev) THEN "dest"
    ELSE IF o.fmt # c.fmt THEN "format"
    ELSE IF ~MsgOK(c.msg, o) THEN "msg"
    ELSE IF strictTime /\ ~TimeOK(c.t, o.t) THEN "time:" \o TimeKind(c.t)
    ELSE IF AttrClause("rec-attrs", c.rec, AllLeaves(c), o.leaves) # "ok" THEN AttrClause("rec-attrs", c.rec, AllLeaves(c), o.leaves)
    ELSE AttrClause("given-attrs", c.given, AllLeaves(c), o.leaves)

-----------------------------------------------------------------------------
(* verdicts *)

Who(h) == IF h = 1 THEN "root" ELSE "derived"

EnabledClause(s, hs, e) == IF e.out \in EnabledSet(s, hs, e.v) THEN "ok" ELSE "enabled"

EnabledVerdict(s, e) ==
    LET c == EnabledClause(s, s.hs[e.h].s, e)
    IN IF c = "ok" THEN "ok"
       ELSE IF e.h > 1 /\ EnabledClause(s, FreshHandler, e) = "ok" THEN "dev:DerivedFresh"
       ELSE "enabled:" \o Who(e.h)

\* e: [h, v, sh, via, t, mi, en, recs]; log/slog.Logger asks Enabled first and calls Handle iff yes
HandleClause(s, hs, e, strictTime) ==
    IF e.en \notin EnabledSet(s, hs, e.v) THEN "enabled"
    ELSE IF Len(e.recs) # (IF e.en THEN 1 ELSE 0) THEN "count"
    ELSE IF ~e.en THEN "ok"
    ELSE LET o == e.recs[1]
         IN IF o.sev \notin MapLevel(s, e.v) THEN "sev"
            ELSE RecClause(s, Canon(hs, o.sev, e.sh, e.t, HMsgs[e.mi]), o, strictTime)

HandleVerdict(s, e) ==
    LET c == HandleClause(s, s.hs[e.h].s, e, TRUE)
    IN IF c = "ok" THEN "ok"
       ELSE IF e.h > 1 /\ HandleClause(s, FreshHandler, e, FALSE) = "ok" THEN "dev:DerivedFresh"
       ELSE "handle:" \o Who(e.h) \o ":" \o c

\* e: [h, h2, v, sh, via, t, mi, car, k, cv, q, en, en2, calls, recs]: outer record through h, its carrier logs
\* the inner record q through h2 (0 = another handler on the same logger) each time it is asked (calls);
\* recs = everything that reached a writer, in order.  The two are told apart by their messages.
\* h2 = 0: the harness made another handler for the same logger (NewSlogHandler once more, same options) and
\* logs what the logger's getters say afterwards: nothing may have changed (Adapter!SecondAdapterSame)
SecondAdapterOK(s, e) == e.h2 # 0 \/ (e.lvl = s.lg.level /\ e.fmtobs = s.lg.fmt /\ e.caller = s.caller /\ e.dbg = s.dbg)

NestedClause(s, e) ==
    LET hsO == s.hs[e.h].s
        hsI == TargetOf(s, e.h2)
        mO == HMsgs[e.mi]
        mI == HMsgs[e.q.mi]
        XO == {x \in 1..Len(e.recs) : MsgOK(mO, e.recs[x])}
        XI == (1..Len(e.recs)) \ XO
        OuterC(o) == IF o.sev \notin MapLevel(s, e.v) THEN "sev"
                     ELSE RecClause(s, CanonL(hsO, o.sev, NestLeaves(e), e.t, mO), o, TRUE)
        InnerC(o) == IF ~MsgOK(mI, o) THEN "msg"
                     ELSE IF o.sev \notin MapLevel(s, e.q.v) THEN "sev"
                     ELSE RecClause(s, Canon(hsI, o.sev, e.q.sh, e.q.t, mI), o, TRUE)
        badI == {y \in XI : InnerC(e.recs[y]) # "ok"}
    IN IF ~SecondAdapterOK(s, e) THEN "second-adapter-changed-the-logger"
       ELSE IF e.en \notin EnabledSet(s, hsO, e.v) THEN "outer:enabled"
       ELSE IF e.en2 \notin EnabledSet(s, hsI, e.q.v) THEN "inner:enabled"
       ELSE IF Cardinality(XO) # (IF e.en THEN 1 ELSE 0) THEN "outer:count"
       ELSE IF Cardinality(XI) # (IF e.en2 THEN e.calls ELSE 0) THEN "inner:count"
       ELSE IF \E x \in XO : OuterC(e.recs[x]) # "ok" THEN "outer:" \o OuterC(e.recs[CHOOSE x \in XO : TRUE])
       ELSE IF badI # {} THEN "inner:" \o InnerC(e.recs[Min(badI)])
       ELSE "ok"

NestedVerdict(s, e) ==
    LET c == IF "hang" \in DOMAIN e THEN "hang" ELSE NestedClause(s, e)
    IN IF c = "ok" THEN "ok" ELSE "nested:" \o Rel(s, e.h, e.h2) \o ":" \o e.car \o ":" \o c

\* Entry.Log(v): some severity of sevs is chosen; the record appears iff the logger admits it
EntryLogClause(s, e, sevs) ==
    IF Len(e.recs) = 0 THEN (IF \E r \in sevs : ~Gate(s, s.lg.level, r) THEN "ok" ELSE "count")
    ELSE IF Len(e.recs) > 1 THEN "count"
    ELSE LET o == e.recs[1]
         IN IF o.sev \notin sevs THEN "sev"
            ELSE IF ~Gate(s, s.lg.level, o.sev) THEN "gate"
            ELSE IF ~MsgOK(HMsgs[e.mi], o) THEN "msg"
            ELSE IF o.w # WriterOf(s, "cfg", o.sev) THEN "dest"
            ELSE "ok"

EntryLogVerdict(s, e) ==
    LET c == EntryLogClause(s, e, MapLevel(s, e.v))
    IN IF c = "ok" THEN "ok"
       ELSE IF EntryLogClause(s, e, {CodeEntryLogLevel(e.v)}) = "ok" THEN "dev:EntryLogUnknownFatal"
       ELSE "entrylog:" \o c

\* e: [mi, direct, n, err, recs]; direct = Writer().Write(bytes), else Print(string(bytes))
BridgeClause(s, e, emits) ==
    LET b == IF e.direct THEN BMsgs[e.mi] ELSE StdLogBytes(BMsgs[e.mi])
        m == BridgeMsg(b)
    IN IF Len(e.recs) # (IF emits THEN 1 ELSE 0) THEN "admission"
       ELSE IF ~emits THEN "ok"
       ELSE LET o == e.recs[1]
            IN IF s.br.sev = Always /\ Blank(m) THEN "ok"     \* printed as an empty line by design
               ELSE IF o.sev # s.br.sev THEN "sev"
               ELSE IF o.w # WriterOf(s, "cfg", o.sev) THEN "dest"
               ELSE IF ~MsgOK(m, o) THEN "msg"
               ELSE IF e.direct /\ (e.n # Len(b) \/ e.err) THEN "ret"
               ELSE "ok"

BridgeVerdict(s, e) ==
    LET c == BridgeClause(s, e, Gate(s, s.lg.level, s.br.sev))
    IN IF c = "ok" THEN "ok"
       ELSE IF BridgeClause(s, e, s.br.sev >= s.lg.level) = "ok" THEN "dev:BridgeInverted"
       ELSE "bridge:" \o c

\* NewSlogHandler: the logger's level/format afterwards are observed through its getters
NewHandlerVerdict(s2, e) ==
    IF e.lvl # s2.lg.level THEN "newhandler:level"
    ELSE IF e.fmtobs # s2.lg.fmt THEN "newhandler:format"
    ELSE IF e.caller # s2.caller THEN "newhandler:caller-flag"
    ELSE IF e.dbg # s2.dbg THEN "newhandler:debug-mode"
    ELSE "ok"

-----------------------------------------------------------------------------
(* the monitor *)

\* the monitor runs with Deviations = {}: derivations have exactly one (the ideal) successor
Ideal(S) == CHOOSE x \in S : TRUE

Step(s, e) ==   \* successor state (ideal branch) and verdict of one line
    CASE e.op = "Nested" -> [s |-> s, v |-> NestedVerdict(s, e)]
      [] "hang" \in DOMAIN e -> [s |-> s, v |-> "hang:" \o e.op]      \* a call that did not return (the log ends here)
      [] e.op = "Proc" -> [s |-> InitState, v |-> "ok"]
      [] e.op = "Reset" -> [s |-> ResetState(s), v |-> "ok"]
      [] e.op = "Register" -> [s |-> RegisterStep(s, [val |-> e.val, treat |-> e.treat, err |-> e.err]), v |-> "ok"]
      [] e.op = "NewHandler" -> LET s2 == NewHandlerStep(s, e.L, e.oi) IN [s |-> s2, v |-> NewHandlerVerdict(s2, e)]
      [] e.op = "WithAttrs" -> [s |-> Ideal(DeriveSteps(s, e.h, AttrStep(e.a))), v |-> "ok"]
      [] e.op = "WithGroup" -> [s |-> Ideal(DeriveSteps(s, e.h, GroupStep(e.g))), v |-> "ok"]
      [] e.op = "Enabled" -> [s |-> s, v |-> EnabledVerdict(s, e)]
      [] e.op = "Handle" -> [s |-> s, v |-> HandleVerdict(s, e)]
      [] e.op = "EntryLog" -> [s |-> s, v |-> EntryLogVerdict(s, e)]
      [] e.op = "NewBridge" -> [s |-> NewBridgeStep(s, e.L, e.sev, e.f), v |-> "ok"]
      [] e.op = "Bridge" -> [s |-> s, v |-> BridgeVerdict(s, e)]

TInit == st = InitState /\ i = 1 /\ nbad = 0

\* a rejected line is printed at once (one worker: every step is evaluated exactly once) and only
\* counted in the state, so the state stays small however many lines are rejected
TNext ==
    /\ i <= Len(TLog)
    /\ i' = i + 1
    /\ LET r == Step(st, TLog[i])
       IN /\ st' = r.s
          /\ nbad' = IF r.v = "ok" THEN nbad ELSE nbad + 1
          /\ (r.v = "ok" \/ PrintT("@@bad " \o ToJson([line |-> i, key |-> r.v])))

TSpec == TInit /\ [][TNext]_<<st, i, nbad>>

\* evaluated in every state; prints the number of rejected lines once the whole log is consumed
Done == i <= Len(TLog) \/ PrintT("@@end " \o ToJson([lines |-> Len(TLog), bad |-> nbad])) \/ TRUE

\* the model's own invariants on every state the implementation visits
TKeepsConfig == KeepsConfig
TAddsGiven == AddsGiven
TRecordWins == RecordWins
TSecondAdapterSame == SecondAdapterSame
TStdIndependent == StdIndependent
TRegistryLocal == RegistryLocal
TTypeOK == TypeOK
=============================================================================
