----------------------------- MODULE PoolTrace -----------------------------
(* Trace validation for property C08: hook events recorded while G goroutines log concurrently
   through the real library are checked against the ownership discipline of Pool.tla, one event
   per step, in the order of the sequence numbers the hook assigned.

   Event kinds (field ev) and what the monitor requires (same rules as the Pool actions):
     attrs.get a   the attribute slice a is not held by anybody        (GetAttrs)
     attrs.put a   the goroutine holds a, or holds one and returns its grown successor (PutAttrs)
     pc.get a      the PrintCtx a is not held by anybody               (GetPc: PcExclusive)
     sort.begin a  opens a write window on slice a; for a slice shared between calls
                   (class "shared") no other goroutine may have a window on it     (NoRace)
                   - a private copy (class "private") or the goroutine's own pooled
                   slice (class "own") is always fine
     sort.end a    closes the window
     write.begin a the goroutine holds PrintCtx a                      (Write happens while held)
     write.end a
     pc.put a      the goroutine holds a                               (PutPc after Write)
     call c        the driver issued call c; admitted says whether it must produce a record
     deliver c     one payload was observed for call c; same = it equals, byte for byte, the
                   record the same call produces alone                 (NoTear)
     list a        after the concurrent phase: same = the attribute list a that n calls were handed as it is
                   (WriteThru) still holds, member by member, what the program put there - a shared
                   location is only read (NoRace with ListSort = "copy"); observed without hooks
     end           totals: every admitted call delivered exactly once  (Multiset)               *)
EXTENDS Integers, Sequences, FiniteSets, TLC, Json, SequencesExt

CONSTANT TraceFile

VARIABLES i,        \* next line
          pcOwner,  \* PrintCtx id -> goroutine holding it
          atOwner,  \* attrs slice id -> goroutine holding it
          win,      \* open sort windows: goroutine -> stack of <<slice id, class>> (sorts nest: record, then its groups)
          wrote,    \* PrintCtx ids written since their last get
          calls,    \* admitted call ids
          got,      \* delivered call ids (a bag, as function id -> count)
          bad       \* rejected lines

vars == <<i, pcOwner, atOwner, win, wrote, calls, got, bad>>

TLog == ndJsonDeserialize(TraceFile)

Reject(why) == bad' = bad \cup {[line |-> i, why |-> why]}

Init ==
    /\ i = 1 /\ pcOwner = <<>> /\ atOwner = <<>> /\ win = <<>> /\ wrote = {} /\ calls = {} /\ got = <<>> /\ bad = {}

StackOf(g) == IF g \in DOMAIN win THEN win[g] ELSE <<>>
Held(f, a) == a \in DOMAIN f
Drop(f, a) == [x \in DOMAIN f \ {a} |-> f[x]]

Next ==
    /\ i <= Len(TLog)
    /\ i' = i + 1
    /\ LET e == TLog[i] IN
       CASE e.ev = "attrs.get" ->
              /\ IF Held(atOwner, e.a) THEN Reject("attribute slice handed out while another goroutine holds it") ELSE bad' = bad
              /\ atOwner' = (e.a :> e.g) @@ atOwner
              /\ UNCHANGED <<pcOwner, win, wrote, calls, got>>
         [] e.ev = "attrs.put" ->
              \* (a call with more attributes than the slice holds makes it grow: the goroutine then returns the
              \* grown slice - another array nobody holds - in place of the one it took)
              /\ LET mine == {x \in DOMAIN atOwner : atOwner[x] = e.g} IN
                 IF Held(atOwner, e.a) /\ atOwner[e.a] = e.g
                 THEN bad' = bad /\ atOwner' = Drop(atOwner, e.a)
                 ELSE IF ~Held(atOwner, e.a) /\ mine # {}
                 THEN bad' = bad /\ atOwner' = Drop(atOwner, CHOOSE x \in mine : TRUE)
                 ELSE Reject("attribute slice returned by a goroutine that does not hold it") /\ atOwner' = Drop(atOwner, e.a)
              /\ UNCHANGED <<pcOwner, win, wrote, calls, got>>
         [] e.ev = "pc.get" ->
              /\ IF Held(pcOwner, e.a) THEN Reject("PrintCtx handed out while another goroutine holds it") ELSE bad' = bad
              /\ pcOwner' = (e.a :> e.g) @@ pcOwner
              /\ wrote' = wrote \ {e.a}
              /\ UNCHANGED <<atOwner, win, calls, got>>
         [] e.ev = "pc.put" ->
              \* (a blank Print/Println writes a constant newline and never writes the object's buffer out,
              \* so "written" is not required here; a write after the put is rejected at write.begin)
              /\ IF Held(pcOwner, e.a) /\ pcOwner[e.a] = e.g THEN bad' = bad
                 ELSE Reject("PrintCtx returned to the pool by a goroutine that does not hold it")
              /\ pcOwner' = Drop(pcOwner, e.a)
              /\ UNCHANGED <<atOwner, win, wrote, calls, got>>
         [] e.ev = "write.begin" ->
              /\ IF Held(pcOwner, e.a) /\ pcOwner[e.a] = e.g THEN bad' = bad ELSE Reject("buffer written out by a goroutine that does not hold the PrintCtx")
              /\ wrote' = wrote \cup {e.a}
              /\ UNCHANGED <<pcOwner, atOwner, win, calls, got>>
         [] e.ev = "write.end" ->
              /\ IF Held(pcOwner, e.a) /\ pcOwner[e.a] = e.g THEN bad' = bad ELSE Reject("PrintCtx changed hands during the write")
              /\ UNCHANGED <<pcOwner, atOwner, win, wrote, calls, got>>
         [] e.ev = "sort.begin" ->
              /\ IF e.class = "shared" /\ \E g2 \in DOMAIN win : g2 # e.g /\ \E k \in 1..Len(win[g2]) : win[g2][k][1] = e.a
                 THEN Reject("two goroutines sort the same shared attribute slice at the same time (data race)")
                 ELSE IF e.class = "shared" THEN Reject("a slice shared between calls is sorted in place") ELSE bad' = bad
              /\ win' = (e.g :> Append(StackOf(e.g), <<e.a, e.class>>)) @@ win
              /\ UNCHANGED <<pcOwner, atOwner, wrote, calls, got>>
         [] e.ev = "sort.end" ->
              /\ IF StackOf(e.g) = <<>> THEN Reject("sort.end without sort.begin") /\ win' = win
                 ELSE /\ bad' = bad
                      /\ win' = IF Len(StackOf(e.g)) = 1 THEN Drop(win, e.g)
                                ELSE (e.g :> SubSeq(win[e.g], 1, Len(win[e.g]) - 1)) @@ win
              /\ UNCHANGED <<pcOwner, atOwner, wrote, calls, got>>
         [] e.ev = "call" ->
              /\ calls' = IF e.admitted THEN calls \cup {e.call} ELSE calls
              /\ UNCHANGED <<pcOwner, atOwner, win, wrote, got, bad>>
         [] e.ev = "deliver" ->
              /\ IF e.same THEN bad' = bad ELSE Reject("a delivered payload is not the complete record of exactly one call")
              /\ got' = IF e.call \in DOMAIN got THEN [got EXCEPT ![e.call] = @ + 1] ELSE (e.call :> 1) @@ got
              /\ UNCHANGED <<pcOwner, atOwner, win, wrote, calls>>
         [] e.ev = "list" ->         \* a list shared between calls is only read
              /\ IF e.same THEN bad' = bad ELSE Reject("an attribute list shared between calls was rewritten by a call it was handed to (sorted in place)")
              /\ UNCHANGED <<pcOwner, atOwner, win, wrote, calls, got>>
         [] e.ev = "blank" ->        \* blank Print/Println calls arrive as single newlines, one each
              /\ IF e.got = e.want THEN bad' = bad ELSE Reject("multiset: number of single-newline payloads differs from the blank Print/Println calls")
              /\ UNCHANGED <<pcOwner, atOwner, win, wrote, calls, got>>
         [] e.ev = "end" ->
              /\ IF /\ DOMAIN got = calls
                    /\ \A c \in DOMAIN got : got[c] = 1
                    /\ pcOwner = <<>> /\ atOwner = <<>> /\ win = <<>>
                 THEN bad' = bad
                 ELSE Reject("multiset of delivered records differs from the admitted calls, or an object is still held at the end")
              /\ UNCHANGED <<pcOwner, atOwner, win, wrote, calls, got>>
         [] OTHER -> Reject("unknown event") /\ UNCHANGED <<pcOwner, atOwner, win, wrote, calls, got>>

Spec == Init /\ [][Next]_vars

Done == i <= Len(TLog) \/ PrintT("@@bad " \o ToJson(SetToSeq(bad))) \/ TRUE

\* invariants of Pool.tla, evaluated on every state the implementation visits
PcExclusiveT == \A a \in DOMAIN pcOwner : pcOwner[a] # 0
=============================================================================
