------------------------------- MODULE Encoder -------------------------------
(* The three record encoders of hedzr/logg/slog - JSON (C04), logfmt (C05), colored
   console (C06) - at the level of abstraction the three properties speak at.

   WHAT IS MODELLED

   A record is  [fmt, testing, name, sev, caller, cfile, width, minw, msg, attrs, lc, form, env]  where
     msg    is a sequence of character CLASSES (Classes below; "LF" separates lines),
     form   how the record and its attribute lists reach the library (Forms below):
              "thru"      a finished record handed over with Entry.WriteThru(ctx, sev, time, pc, msg, Attrs) - what
                          the log/slog handler, the adapters and bridges do;  attribute lists are Attr values,
              "call-attr" a logging CALL  l.Logit(ctx, sev, msg, a1, a2, ...)  whose arguments are Attr values
                          (groups: slog.NewGroupedAttr(key, members...)),
              "call-kv"   a logging CALL whose arguments are alternating KEY, VALUE pairs - the first form the
                          README shows: l.Info("m", "k", 1, "user", "bob") - at top level and inside every group
                          (slog.Group(key, "k", 1, ...)); a group is itself handed over as one Attr argument.
              The expectation (Members / Pairs) is a function of the attributes only: the form is a dimension of the
              cell space, FormDoesNotMatter says so.  The one place where a CALL differs from a record handed
              over is C02's documented blank line: a logging call at severity Always (Print is nothing else) with a
              blank message is that feature, not a record, whatever its arguments (BlankPrint - outside the domain
              here: C02 defines "blank" by the message alone and owns the outcome).  Handed over through WriteThru
              (a log/slog record of a non-standard level - the adapter maps it to Always -, a std-log bridge at
              AlwaysLevel) a blank message at severity Always is a record like any other, attributes and all,
     env    the process environment the record is formatted in (Envs below): "default", or "nocolor" = the
              process-wide no-colour switch of github.com/hedzr/is is on (is.SetNoColorMode(true), what an
              application's --no-color option / the NO_COLOR convention sets).  No clause of C04 / C05 / C06
              mentions it: layout and colour hygiene must hold in it too (a completely plain record is
              one way to satisfy C06 there; EnvDoesNotMatter),
     caller the caller member / field is switched on (flag Lcaller); then
     cfile  is the class of the special character inside the FILE NAME of the call site the
              record is attributed to ("plain": an ordinary POSIX path).  The file name comes out
              of the program's symbol table - generated code and `//line` directives put Windows
              paths (C:\work\app\main.go), quotes, blanks, control and non-ASCII characters there;
              SiteClasses is what the Go toolchain accepts.  caller.file is a STRING MEMBER LIKE ANY
              OTHER: the escape-class table of Part A applies to it (CallerRoundTrip), it must
              decode to exactly the file the runtime reports for that site after the library's
              documented path hardening (slog.Safety) - clause "caller-file" of Part D,
     lc     the level colour configuration in force for the record's severity:
              [set, fg, bg]  set = slog.SetLevelColors(sev, fg, bg) was called (FALSE: the
              built-in table / the colours of the registration), fg in {"none", "fg"} (NoColor /
              a foreground colour), bg in {"none", "bg", "attr"} (NoColor / a background colour /
              a text attribute such as underline, bold, dim).  The table is process-wide state;
              EncoderHist carries it as st.col and changes it by the event SetColors.
     attrs  is a sequence of nodes  [k, kc, kind, vc, v, sub]:
              k    key identity (an integer; the concrete key of id k sorts like k; 0 = "";
                   ReservedIds = the field names the encoders use themselves: -1 caller,
                   96 level, 97 logger, 98 msg, 99 time - every other id k is "k<k>...")
              kc   class of the special character put into the key ("plain" = none)
              kind value kind (Kinds below; "group" has members in sub)
              vc   class of the special character inside a textual value
              v    value identity (which occurrence this is; lets "last one wins" be observed)
              Values of kind time / times are instants in ANY zone: UTC, an offset of whole minutes, an offset
              with a seconds part (every IANA zone before standard time: Europe/Amsterdam +00:19:32 until 1937);
              "times with their exact value" = the decoded text denotes the same INSTANT (the harness enumerates
              the three zone classes as representatives of the kind).
     name   [has, cls] the logger name,  sev/caller/width/minw presentation settings.

   Part A  escaping.  Every class is emitted as a short sequence of TOKENS:
             R_<class>  the character itself, unescaped      BS  a backslash
             q bs sl b f n r t a v x u U                    the character after a backslash
             H / O      one hex / octal digit
           JsonStr / GoStr / ColStr are recognisers of the string grammars of RFC 8259, of
           strconv.Unquote + "stays on one line", and of "Go syntax without raw control bytes".
           EscJSON / EscGo (= Esc(fmt, c)) are the escapers the properties call for; EscMech
           is the transcription of the library's only escaper (pc.go appendEscapedRune).
           Mode(fmt, c, form) names how an observed emission fails ("raw", "go-escape", ...).
           Invariants  Legal, OneLine, RoundTrip, NoForgery, NoRawControl  range over the
           whole class table.  ColorUnsafe = what a terminal acts upon: the C0 controls, ESC, DEL AND the C1
           controls - U+0080..U+009F in UTF-8 (class "C1": U+009B is CSI, the one-character form of ESC [) and a
           lone byte 0x80..0x9f (class "C1raw": the 8-bit form of the same controls, not UTF-8).  LOGFMT TOKENS: a
           logfmt reader knows two kinds of value - a quoted string, and a bare value that ENDS AT THE NEXT BLANK;
           a slice value is read back from the text of ONE such token ([e1,e2,...]).  ListForms / ListOneToken say
           which ways of writing a string slice stay one token for every character class; `BareListIsOneToken`
           (expected to FAIL) is the form "[" quoted elements "]" written as a bare value.  `MechIsJson` (expected to FAIL) shows that the Go-syntax
           escaper cannot satisfy the JSON grammar and for which classes.  CallerRoundTrip: the
           same for the caller member over SiteClasses; `SymbolCopyIsLegal` (expected to FAIL)
           is the discipline "symbol-table strings are plain paths and identifiers - copy them
           between the quotes unless they carry a quote": SymbolCopyBad lists the (format, class)
           pairs it breaks.
   Part B  attribute trees.  Merge = for every key its last occurrence, ascending key order,
           recursively inside groups (C07 owns the rule, the encoders must exhibit it);
           Members(rec) is the object JSON must decode to, Pairs(rec) the dotted key=value
           list of logfmt / colored - a group's members appear under path.key wherever the
           group sits.  The builder machine (variable `flat`, action AddNode) enumerates
           every tree up to MaxNodes nodes; invariants MergeSorted, MergeLastWins,
           MergeIdempotent, PairsAscending, PairsComplete, MembersCount are evaluated on every
           tree; the model-checking module adds `Export`, which prints each tree once so that
           the harness replays exactly TLC's set.  EmptyGroupReserved names the members with a
           reserved key whose parent group has the EMPTY key (JSON only): the key path in front
           of them is as empty as at record level.  TreeFeatures names the shapes of a tree
           (group, after-group, empty-group, nested-group, duplicate-key, empty-key).
   Part C  colour hygiene.  A terminal-state machine (fg, bg, attributes; SGR 0 resets)
           is driven by a stream of integers: an SGR parameter (>= 0) or Brk (a line
           break).  ResetAtBreak(stream, n) = the state is the reset state at the first n
           breaks and at the end.  IdealStream(rec) is the layout of the property with the
           colours switched on and off; invariant ColourOK checks it for every tree, every
           level colour configuration (LevelColours: {no foreground, a foreground} x {nothing,
           a background colour, a text attribute}) and 1..4 message lines.  CRStream is the
           witness for the library's CR deviation, FgOnlyCloseStream the one for a discipline
           that writes the closing reset only when a foreground was opened (both expected to
           fail).  HalfSwitchStream is the witness for a library that honours the process-wide no-colour
           switch (record field env) by halves - the wrap helpers write neither colour nor reset, the
           "switch this on" helpers still write (expected to fail).  Ign is an escape sequence with a malformed parameter list (ESC [ - 1 m): a
           terminal ignores it, it changes no state.  The verdict on an observation is
           ResetAtBreak of the observed stream whatever lc is: lc widens the cell space (and
           names findings), it adds no clause.
   Part D  the verdict on an observation (used by EncoderTrace): JsonDiag (C04) / LogfmtDiag
           (C05) / ColorDiag (C06) return the set of violated clauses of the property for one
           record and the harness's projection of the bytes the library wrote for it;
           AcceptJSON / AcceptLogfmt / AcceptColor list the representations a statement leaves
           open (nil as null or placeholder, number or exact decimal string, ...); InDomain is
           the input domain of each property.

   The module never looks at bytes: byte-level fidelity inside a class (is the decoded
   string equal to the input?) is decided by the independent decoders of the harness and
   arrives here as the booleans / value identities of the observation.                    *)
EXTENDS Integers, Sequences, FiniteSets, TLC

CONSTANTS MaxNodes,     \* builder bound: number of nodes of a tree
          KeyIds,       \* key identities the builder may use (0 = the empty key)
          MaxDepth      \* builder bound: nesting depth of groups

VARIABLE flat           \* tree under construction, preorder: <<[d |-> depth, k |-> key, g |-> isGroup, v |-> value id]>>

----------------------------------------------------------------------------
(* Part A: character classes and escaping *)

Classes == {"plain", "space", "quote", "bslash", "LF", "CR", "TAB", "BSFF", "C0", "ESC", "DEL", "C1", "C1raw",
            "nonascii", "npbmp", "lsep", "astral", "astralnp", "invalid", "markup", "equals"}
(* plain: ASCII letters/digits/punctuation without special meaning; BSFF: \b \f (JSON has
   short escapes for them); C0: every other byte < 0x20 except ESC (BEL, VT, NUL, ...);
   C1: the controls U+0080..U+009F encoded in UTF-8 (U+009B = CSI, U+0085 = NEL, U+0090 = DCS ...); C1raw: a
   lone byte 0x80..0x9f - the 8-bit form of the same controls, which is not UTF-8;
   npbmp: non-printable BMP outside the controls (U+200B, U+FEFF, U+00AD); lsep: U+2028/9; astral(np): (non-)
   printable code points above U+FFFF; invalid: any other byte sequence that is not UTF-8 (no byte of it in
   0x80..0x9f); markup: < > &   *)

Control  == {"LF", "CR", "TAB", "BSFF", "C0", "ESC", "DEL"}       \* raw control bytes (7-bit)
ColorUnsafe == Control \cup {"C1", "C1raw"}                       \* ... and the C1 controls: what a terminal acts upon
Invalid  == {"invalid", "C1raw"}                                  \* not UTF-8
ValidUTF8(c) == c \notin Invalid

RawTok(c) == "R_" \o c
IsRaw(t) == \E c \in Classes : RawTok(c) = t
ClassOfRaw(t) == CHOOSE c \in Classes : RawTok(c) = t
U4 == <<"BS", "u", "H", "H", "H", "H">>
U8 == <<"BS", "U", "H", "H", "H", "H", "H", "H", "H", "H">>
X2 == <<"BS", "x", "H", "H">>
Drop(s, n) == SubSeq(s, n + 1, Len(s))
AllH(s, a, b) == Len(s) >= b /\ \A i \in a..b : s[i] = "H"

\* RFC 8259 section 7: unescaped = anything but quote, backslash and U+0000..U+001F (and the
\* text must be UTF-8); escapes = \" \\ \/ \b \f \n \r \t \uXXXX
JsonRawOK == Classes \ ({"quote", "bslash", "LF", "CR", "TAB", "BSFF", "C0", "ESC"} \cup Invalid)
JsonSimple == {"q", "bs", "sl", "b", "f", "n", "r", "t"}
RECURSIVE JsonStr(_)
JsonStr(s) ==
    IF s = <<>> THEN TRUE
    ELSE IF IsRaw(s[1]) THEN ClassOfRaw(s[1]) \in JsonRawOK /\ JsonStr(Tail(s))
    ELSE IF s[1] = "BS" /\ Len(s) >= 2 THEN
            IF s[2] \in JsonSimple THEN JsonStr(Drop(s, 2))
            ELSE IF s[2] = "u" /\ AllH(s, 3, 6) THEN JsonStr(Drop(s, 6))
            ELSE FALSE
    ELSE FALSE

\* strconv.Unquote of a double-quoted Go string, plus the framing demand of C05: no raw CR/LF
GoRawOK == Classes \ {"quote", "bslash", "LF", "CR"}
GoSimple == {"q", "bs", "a", "b", "f", "n", "r", "t", "v"}
RECURSIVE GoStrOver(_, _)
GoStrOver(s, rawok) ==
    IF s = <<>> THEN TRUE
    ELSE IF IsRaw(s[1]) THEN ClassOfRaw(s[1]) \in rawok /\ GoStrOver(Tail(s), rawok)
    ELSE IF s[1] = "BS" /\ Len(s) >= 2 THEN
            IF s[2] \in GoSimple THEN GoStrOver(Drop(s, 2), rawok)
            ELSE IF s[2] = "x" /\ AllH(s, 3, 4) THEN GoStrOver(Drop(s, 4), rawok)
            ELSE IF s[2] = "u" /\ AllH(s, 3, 6) THEN GoStrOver(Drop(s, 6), rawok)
            ELSE IF s[2] = "U" /\ AllH(s, 3, 10) THEN GoStrOver(Drop(s, 10), rawok)
            ELSE IF s[2] = "O" /\ Len(s) >= 4 /\ s[3] = "O" /\ s[4] = "O" THEN GoStrOver(Drop(s, 4), rawok)
            ELSE FALSE
    ELSE FALSE
GoStr(s) == GoStrOver(s, GoRawOK)
\* colored console: C06 fixes no quoting, but a value must not contribute a raw control byte
ColStr(s) == GoStrOver(s, Classes \ ColorUnsafe)

StrLegal(fmt, s) == CASE fmt = "json" -> JsonStr(s) [] fmt = "logfmt" -> GoStr(s) [] OTHER -> ColStr(s)

\* the escapers the properties call for (a set: every alternative is acceptable)
EscJSON(c) ==
    CASE c = "quote" -> {<<"BS", "q">>}  [] c = "bslash" -> {<<"BS", "bs">>}
      [] c = "LF" -> {<<"BS", "n">>, U4} [] c = "CR" -> {<<"BS", "r">>, U4} [] c = "TAB" -> {<<"BS", "t">>, U4}
      [] c = "BSFF" -> {<<"BS", "b">>, <<"BS", "f">>, U4}
      [] c \in {"C0", "ESC"} \cup Invalid -> {U4}          \* invalid bytes: U+FFFD, not invertible
      [] c \in {"lsep", "DEL", "npbmp", "C1"} -> {<<RawTok(c)>>, U4}
      [] OTHER -> {<<RawTok(c)>>}
\* transcription of pc.go appendQuotedWith/appendEscapedRune (Go syntax, strconv.Quote rules)
EscMech(c) ==
    CASE c = "quote" -> {<<"BS", "q">>}  [] c = "bslash" -> {<<"BS", "bs">>}
      [] c = "LF" -> {<<"BS", "n">>} [] c = "CR" -> {<<"BS", "r">>} [] c = "TAB" -> {<<"BS", "t">>}
      [] c = "BSFF" -> {<<"BS", "b">>, <<"BS", "f">>}
      [] c = "C0" -> {<<"BS", "a">>, <<"BS", "v">>, X2}
      [] c \in {"ESC", "DEL"} \cup Invalid -> {X2}
      [] c \in {"npbmp", "lsep", "C1"} -> {U4}
      [] c = "astralnp" -> {U8}
      [] OTHER -> {<<RawTok(c)>>}
EscGo(c) == EscMech(c)          \* for logfmt and colored values Go syntax IS what is called for
Esc(fmt, c) == IF fmt = "json" THEN EscJSON(c) ELSE EscGo(c)

\* what a decoder can get back from one escape (hex digits are abstract, so \u.... may be any
\* BMP class); used only to state RoundTrip over the table
Decodes(f, c) ==
    \/ f = <<RawTok(c)>>
    \/ (f = <<"BS", "q">> /\ c = "quote")
    \/ (f = <<"BS", "bs">> /\ c = "bslash")
    \/ (f = <<"BS", "n">> /\ c = "LF")
    \/ (f = <<"BS", "r">> /\ c = "CR")
    \/ (f = <<"BS", "t">> /\ c = "TAB")
    \/ (f \in {<<"BS", "b">>, <<"BS", "f">>} /\ c = "BSFF")
    \/ (f \in {<<"BS", "a">>, <<"BS", "v">>} /\ c = "C0")
    \/ (f = X2 /\ c \in Control \cup {"plain", "space", "quote", "bslash", "markup", "equals"})
    \/ (f = U4 /\ c \notin {"astral", "astralnp"} \cup Invalid)
    \/ (f = U8 /\ c \notin Invalid)

Formats == {"json", "logfmt", "color"}
Legal        == \A fm \in Formats, c \in Classes : \A f \in Esc(fm, c) : StrLegal(fm, f)
RoundTrip    == \A fm \in Formats, c \in Classes : ValidUTF8(c) => \A f \in Esc(fm, c) : Decodes(f, c)
OneLine      == \A fm \in Formats, c \in Classes : \A f \in Esc(fm, c) : RawTok("LF") # f[1] /\ RawTok("CR") # f[1]
NoForgery    == \A fm \in Formats : \A f \in Esc(fm, "quote") \cup Esc(fm, "bslash") : f[1] = "BS"
NoRawControl == \A c \in ColorUnsafe : \A f \in Esc("color", c) : ~IsRaw(f[1])
\* witness (must be violated): the library's Go-syntax escaper used for JSON strings
MechIsJson   == \A c \in Classes : \A f \in EscMech(c) : JsonStr(f)
MechJsonBad  == {c \in Classes : \E f \in EscMech(c) : ~JsonStr(f)}

\* The caller member.  File names of call sites: every class the Go toolchain accepts in a source
\* position (`//line file:line`, `/*line file:line*/` - the block form even carries a line break).
\* It refuses invalid UTF-8, NUL and U+FEFF: no class but "invalid" disappears (NUL is one
\* representative of C0, U+FEFF one of npbmp).
SiteClasses == Classes \ Invalid
QuotedFormats == {"json", "logfmt"}            \* caller.file is a quoted string there
CallerRoundTrip == \A fm \in QuotedFormats, c \in SiteClasses :
                       ValidUTF8(c) /\ \A f \in Esc(fm, c) : StrLegal(fm, f) /\ Decodes(f, c)
\* witness (must be violated): "symbol-table strings are plain - copy unless there is a quote in it"
SymbolCopy(c) == IF c = "quote" THEN EscMech(c) ELSE {<<RawTok(c)>>}
SymbolCopyIsLegal == \A fm \in QuotedFormats, c \in SiteClasses : \A f \in SymbolCopy(c) : StrLegal(fm, f)
SymbolCopyBad == {<<fm, c>> \in QuotedFormats \X SiteClasses : \E f \in SymbolCopy(c) : ~StrLegal(fm, f)}

\* how an observed emission of one class is called in a finding
Mode(fmt, c, f) ==
    IF StrLegal(fmt, f) THEN "ok"
    ELSE IF f = <<>> THEN "dropped"
    ELSE IF IsRaw(f[1]) THEN "raw"
    ELSE IF f[1] = "BS" /\ Len(f) >= 2 /\ GoStrOver(f, Classes) THEN "go-escape"
    ELSE "garbled"

\* LOGFMT TOKENS.  A logfmt reader splits a line at blanks: a value is a double-quoted string (which may hold
\* blanks) or a BARE value that ends at the next blank.  The parse-back form of a SLICE value in the C05 model is:
\* the text of ONE value token - bare or quoted and then unquoted - reads  [e1,e2,...]  with every element a
\* quoted string or a bare run without blank, comma and bracket.  A way of writing a string slice:
\*   outer  "bare" | "quoted"   the list text is written as it is / as one quoted (and escaped) value
\*   elem   "quoted" | "bare"   the elements inside the brackets
ListForms == [outer : {"bare", "quoted"}, elem : {"quoted", "bare"}]
\* the tokens an element character of class c contributes to the line a logfmt reader splits
ElemEmission(lf, c) == IF lf.elem = "quoted" \/ lf.outer = "quoted" THEN EscGo(c) ELSE {<<RawTok(c)>>}
\* a BARE value is cut at a raw blank or line break, and a raw quote / '=' / control byte is none of its
\* characters; inside a quoted outer value nothing is (the grammar GoStr of the whole value takes care)
CutsBare == {"space", "LF", "CR", "TAB"}
ListOneTokenFor(lf, c) ==
    \A f \in ElemEmission(lf, c) :
        IF lf.outer = "quoted" THEN GoStr(f)
        ELSE ~(IsRaw(f[1]) /\ ClassOfRaw(f[1]) \in CutsBare) /\ (lf.elem = "quoted" => GoStr(f))
ListOneToken(lf) == \A c \in Classes : ListOneTokenFor(lf, c)
\* the forms C05 accepts for a slice of strings: the whole list as one quoted value
AcceptedStrListForms == {lf \in ListForms : lf.outer = "quoted"}
StrListsAreOneToken == \A lf \in AcceptedStrListForms : ListOneToken(lf)
\* witness (must be violated): "[" Go-quoted elements "]" written as a BARE value - a blank inside an element
\* is a blank of the line
BareList == [outer |-> "bare", elem |-> "quoted"]
BareListIsOneToken == ListOneToken(BareList)
BareListBad == {c \in Classes : ~ListOneTokenFor(BareList, c)}

----------------------------------------------------------------------------
(* Part B: attribute trees *)

Kinds == {"string", "bool", "int", "uint", "float", "complex", "time", "duration", "error", "stringer",
          "bytes", "nil", "strs", "bools", "ints", "uints", "floats", "complexes", "durations", "times",
          "fallback", "textm", "group"}
TextKinds == {"string", "error", "stringer", "bytes", "strs", "fallback", "textm"}   \* carry a class vc

\* the field names the encoders write themselves, as key identities (integer order = byte order of
\* the concrete keys: "caller" < "k01" .. "k90" < "level" < "logger" < "msg" < "time"; the order of
\* caller and the empty key 0 is never observed: the empty key is legal in JSON only, where member
\* order is not part of C04)
ReservedIds == {-1, 96, 97, 98, 99}
TimeKey == 99
ResName(k) == CASE k = -1 -> "caller" [] k = 96 -> "level" [] k = 97 -> "logger" [] k = 98 -> "msg"
                [] k = 99 -> "time" [] OTHER -> "none"

Max(a, b) == IF a >= b THEN a ELSE b
RECURSIVE Asc(_)
Asc(S) == IF S = {} THEN <<>> ELSE LET m == CHOOSE x \in S : \A y \in S : x <= y IN <<m>> \o Asc(S \ {m})
KeysOf(s) == {s[i].k : i \in DOMAIN s}
LastIdx(s, k) == CHOOSE i \in DOMAIN s : s[i].k = k /\ \A j \in DOMAIN s : s[j].k = k => j <= i

RECURSIVE Merge(_)
Merge(s) == LET ks == Asc(KeysOf(s))
            IN [n \in 1..Len(ks) |->
                   LET x == s[LastIdx(s, ks[n])]
                   IN IF x.kind = "group" THEN [x EXCEPT !.sub = Merge(x.sub)] ELSE x]

RECURSIVE Flat(_, _)
Flat(s, path) ==
    IF s = <<>> THEN <<>>
    ELSE LET x == Head(s)
             p == Append(path, x.k)
         IN (IF x.kind = "group" THEN Flat(x.sub, p) ELSE <<[path |-> p, kind |-> x.kind, vc |-> x.vc, v |-> x.v]>>)
            \o Flat(Tail(s), path)

Members(rec) == Merge(rec.attrs)
Pairs(rec)   == Flat(Merge(rec.attrs), <<>>)

\* lexicographic order of paths (sequences of key ids)
RECURSIVE PathLess(_, _)
PathLess(p, q) == IF p = <<>> THEN q # <<>>
                  ELSE IF q = <<>> THEN FALSE
                  ELSE IF Head(p) # Head(q) THEN Head(p) < Head(q)
                  ELSE PathLess(Tail(p), Tail(q))

\* structural features of an attribute list, for naming a failure ("attrs:<feature>")
RECURSIVE Levels(_)          \* the attribute list itself and the member list of every group in it
Levels(s) == {s} \cup UNION {Levels(s[i].sub) : i \in {j \in DOMAIN s : s[j].kind = "group"}}
AnyLevel(s, P(_)) == \E q \in Levels(s) : P(q)
HasGroup(s)     == \E i \in DOMAIN s : s[i].kind = "group"
HasEmptyGroup(s) == \E i \in DOMAIN s : s[i].kind = "group" /\ s[i].sub = <<>>
HasNested(s)    == \E i \in DOMAIN s : s[i].kind = "group" /\ HasGroup(s[i].sub)
HasDup(s)       == Cardinality(KeysOf(s)) < Len(s)
AfterGroup(s)   == LET m == Merge(s) IN \E i, j \in DOMAIN m : i < j /\ m[i].kind = "group"
HasEmptyKey(s)  == 0 \in KeysOf(s)
HasTopReserved(s) == KeysOf(s) \cap ReservedIds # {}          \* s = the top-level attribute list
RECURSIVE MemberReserved(_, _)                                  \* {<<name, kind>>} of group members with a reserved key
MemberReserved(s, d) ==
    UNION { (IF d > 0 /\ s[i].k \in ReservedIds THEN {<<ResName(s[i].k), s[i].kind>>} ELSE {})
            \cup (IF s[i].kind = "group" THEN MemberReserved(s[i].sub, d + 1) ELSE {}) : i \in DOMAIN s }
\* {<<name, kind>>} of members with a reserved key whose PARENT group has the empty key (JSON only: the
\* empty key is no legal logfmt key).  An implementation that tells "record level" from "inside a group" by
\* the key path written so far cannot tell such a member from a top-level attribute.
RECURSIVE EmptyGroupReserved(_)
EmptyGroupReserved(s) ==
    UNION { (IF s[i].kind = "group"
             THEN (IF s[i].k = 0 THEN {<<ResName(s[i].sub[j].k), s[i].sub[j].kind>> :
                                          j \in {x \in DOMAIN s[i].sub : s[i].sub[x].k \in ReservedIds}} ELSE {})
                  \cup EmptyGroupReserved(s[i].sub)
             ELSE {}) : i \in DOMAIN s }
TreeFeatures(s) ==
    (IF AnyLevel(s, AfterGroup) THEN {"after-group"} ELSE IF HasGroup(s) THEN {"group"} ELSE {})
    \cup (IF AnyLevel(s, HasEmptyGroup) THEN {"empty-group"} ELSE {})
    \cup (IF HasNested(s) THEN {"nested-group"} ELSE {})
    \cup (IF AnyLevel(s, HasDup) THEN {"duplicate-key"} ELSE {})
    \cup (IF AnyLevel(s, HasEmptyKey) THEN {"empty-key"} ELSE {})

(* the builder machine: every tree of at most MaxNodes nodes over KeyIds *)
RECURSIVE Nest(_, _)
\* children of the forest `f` (preorder with depths) that sit at depth d, each with its subtree
Nest(f, d) ==
    IF f = <<>> THEN <<>>
    ELSE LET rest == Tail(f)
             \* the subtree of Head(f) = the longest prefix of rest with depth > d
             n == IF \E i \in DOMAIN rest : rest[i].d <= d
                  THEN (CHOOSE i \in DOMAIN rest : rest[i].d <= d /\ \A j \in 1..(i - 1) : rest[j].d > d) - 1
                  ELSE Len(rest)
             h == Head(f)
         IN <<[k |-> h.k, kc |-> "plain", kind |-> IF h.g THEN "group" ELSE "int", vc |-> "plain",
               v |-> h.v, sub |-> Nest(SubSeq(rest, 1, n), d + 1)]>>
            \o Nest(Drop(rest, n), d)
Tree == Nest(flat, 0)

Init == flat = <<>>
AddNode(d, k, g) ==
    /\ Len(flat) < MaxNodes
    /\ d <= MaxDepth
    /\ IF flat = <<>> THEN d = 0
       ELSE LET l == flat[Len(flat)] IN d <= (IF l.g THEN l.d + 1 ELSE l.d)
    /\ flat' = Append(flat, [d |-> d, k |-> k, g |-> g, v |-> Len(flat) + 1])
Next == \E d \in 0..MaxDepth, k \in KeyIds, g \in BOOLEAN : AddNode(d, k, g)
Spec == Init /\ [][Next]_flat

RECURSIVE SortedAll(_)
SortedAll(m) == /\ \A i \in 1..(Len(m) - 1) : m[i].k < m[i + 1].k
                /\ \A i \in DOMAIN m : m[i].kind = "group" => SortedAll(m[i].sub)
MergeSorted     == SortedAll(Merge(Tree))
MergeLastWins   == LET t == Tree  m == Merge(t)
                   IN \A i \in DOMAIN m : m[i].v = t[LastIdx(t, m[i].k)].v /\ m[i].kind = t[LastIdx(t, m[i].k)].kind
MergeIdempotent == Merge(Merge(Tree)) = Merge(Tree)
MembersCount    == Len(Merge(Tree)) = Cardinality(KeysOf(Tree))
PairsAscending  == LET p == Flat(Merge(Tree), <<>>) IN \A i \in 1..(Len(p) - 1) : PathLess(p[i].path, p[i + 1].path)
PairsComplete   == \* every scalar that survives the merge is printed exactly once, under its full path
                   LET p == Flat(Merge(Tree), <<>>)
                       RECURSIVE Scalars(_)
                       Scalars(s) == IF s = <<>> THEN 0
                                     ELSE (IF Head(s).kind = "group" THEN Scalars(Head(s).sub) ELSE 1) + Scalars(Tail(s))
                   IN Len(p) = Scalars(Merge(Tree))
\* what a key is called does not matter: renaming the keys by an order-preserving map (here: the
\* reserved names to ordinary ids just below / above the kNN range) commutes with Merge and Flat,
\* at every depth - a reserved name is special nowhere in the expectation
Ren(k) == IF k = -1 THEN 0 - 7 ELSE IF k \in ReservedIds THEN k + 100 ELSE k
RECURSIVE RenTree(_)
RenTree(s) == [i \in DOMAIN s |-> [s[i] EXCEPT !.k = Ren(@), !.sub = RenTree(@)]]
RenPairs(p) == [i \in DOMAIN p |-> [p[i] EXCEPT !.path = [j \in DOMAIN @ |-> Ren(@[j])]]]
KeyNamesDoNotMatter == /\ Merge(RenTree(Tree)) = RenTree(Merge(Tree))
                       /\ Flat(Merge(RenTree(Tree)), <<>>) = RenPairs(Flat(Merge(Tree), <<>>))

----------------------------------------------------------------------------
(* Part C: colour hygiene *)

Brk == -1                                   \* a line break in the stream
Ign == -2                                   \* an escape sequence ESC [ ... m whose parameter list is malformed
                                            \* (ESC [ - 1 m): terminals ignore it - Apply leaves the state alone
                                            \* (occurs in OBSERVED streams only: the library writes it for a level
                                            \* without foreground colour; the statement does not forbid it)
ResetState == [fg |-> 0, bg |-> 0, at |-> {}]
Apply(st, n) ==
    IF n = 0 THEN ResetState
    ELSE IF n \in (30..37) \cup (90..97) THEN [st EXCEPT !.fg = n]
    ELSE IF n = 39 THEN [st EXCEPT !.fg = 0]
    ELSE IF n \in (40..47) \cup (100..107) THEN [st EXCEPT !.bg = n]
    ELSE IF n = 49 THEN [st EXCEPT !.bg = 0]
    ELSE IF n \in 1..9 THEN [st EXCEPT !.at = @ \cup {n}]
    ELSE IF n = 22 THEN [st EXCEPT !.at = @ \ {1, 2}]
    ELSE IF n \in 23..24 THEN [st EXCEPT !.at = @ \ {n - 20}]
    ELSE IF n = 25 THEN [st EXCEPT !.at = @ \ {5, 6}]
    ELSE IF n \in 27..29 THEN [st EXCEPT !.at = @ \ {n - 20}]
    ELSE st
\* states at the line breaks of a stream, followed by the final state
RECURSIVE AtBreaks(_, _, _)
AtBreaks(s, i, st) ==
    IF i > Len(s) THEN <<st>>
    ELSE IF s[i] = Brk THEN <<st>> \o AtBreaks(s, i + 1, st)
    ELSE AtBreaks(s, i + 1, Apply(st, s[i]))
\* the first n breaks (the record's own line ends) and the end of the payload are reset
ResetAtBreak(s, n) ==
    LET b == AtBreaks(s, 1, ResetState)
    IN /\ b[Len(b)] = ResetState
       /\ \A i \in 1..(Len(b) - 1) : i <= n => b[i] = ResetState

\* level colour configurations (record field lc; SetLevelColors(level, fg, bg), RegisterLevel options,
\* the built-in table): {no foreground, a foreground} x {nothing, a background colour, a text attribute}
LcFgs == {"none", "fg"}
LcBgs == {"none", "bg", "attr"}
NoLC == [set |-> FALSE, fg |-> "none", bg |-> "none"]
LevelColours == {NoLC} \cup {[set |-> TRUE, fg |-> f, bg |-> b] : f \in LcFgs, b \in LcBgs}
\* the SGR parameters a configuration switches on (one representative code per class)
Codes(f, b) == (IF f = "fg" THEN <<36>> ELSE <<>>)
               \o (IF b = "bg" THEN <<44>> ELSE IF b = "attr" THEN <<4>> ELSE <<>>)
SevColours == {Codes(f, b) : f \in LcFgs, b \in LcBgs} \cup {<<33, 2>>, <<97, 5>>}
HasFg(cs) == \E i \in DOMAIN cs : cs[i] \in (30..37) \cup (90..97)
RECURSIVE Cat(_)
Cat(ss) == IF ss = <<>> THEN <<>> ELSE Head(ss) \o Cat(Tail(ss))
On(cs) == cs                                  \* switching the colours of the class on
LinesOf(msg) == \* number of lines of a message (class sequence), trailing line breaks dropped
    LET RECURSIVE Trim(_)
        Trim(m) == IF m # <<>> /\ m[Len(m)] = "LF" THEN Trim(SubSeq(m, 1, Len(m) - 1)) ELSE m
        t == Trim(msg)
    IN 1 + Cardinality({i \in DOMAIN t : t[i] = "LF"})
\* the layout of C06 with colours: TS name [TAG] first-line attrs caller, rest lines, final break
IdealStream(cs, hasName, pairs, caller, nlines) ==
    <<32, 0>> \o (IF hasName THEN <<37, 0>> ELSE <<>>)                  \* timestamp, logger name
    \o On(cs) \o <<0>>                                                  \* [TAG]
    \o On(cs) \o <<0>>                                                  \* first line, padded
    \o Cat([i \in DOMAIN pairs |->                                      \* key (dim), value (level / error colour)
              <<90, 0>> \o (IF pairs[i].kind = "error" THEN <<31>> ELSE On(cs)) \o <<0>>])
    \o (IF caller THEN <<90, 0>> ELSE <<>>)
    \o Cat([i \in 1..(nlines - 1) |-> <<Brk>> \o On(cs) \o <<0>>])     \* rest lines
    \o <<Brk>>
\* the library's treatment of CR LF in a message: the line break lands inside the coloured first line
CRStream(cs) == <<32, 0>> \o On(cs) \o <<0>> \o On(cs) \o <<Brk, 0>> \o <<Brk>>
ColourOK == \A cs \in SevColours, hn \in BOOLEAN, ca \in BOOLEAN, nl \in 1..4 :
                ResetAtBreak(IdealStream(cs, hn, Flat(Merge(Tree), <<>>), ca, nl), nl)
CRIsClean == \A cs \in SevColours \ {<<>>} : ResetAtBreak(CRStream(cs), 2)      \* witness: must fail
\* a discipline that writes the closing reset of a message line only when it opened a FOREGROUND:
\* the first line is rescued by the reset that ends the attribute
\* section, the continuation lines are not.  Witness: must fail - and fails only where the cell
\* space has a configuration without foreground but with a background / attribute, and >= 2 lines
FgOnlyClose(cs) == cs \o (IF HasFg(cs) THEN <<0>> ELSE <<>>)
FgOnlyCloseStream(cs, nlines) ==
    <<32, 0>> \o cs \o <<0>> \o FgOnlyClose(cs) \o <<90, 0>> \o cs \o <<0>>
    \o Cat([i \in 1..(nlines - 1) |-> <<Brk>> \o FgOnlyClose(cs)]) \o <<Brk>>
FgOnlyCloseIsClean == \A cs \in SevColours, nl \in 1..4 : ResetAtBreak(FgOnlyCloseStream(cs, nl), nl)
FgOnlyCloseBad == {<<cs, nl>> \in SevColours \X (1..4) : ~ResetAtBreak(FgOnlyCloseStream(cs, nl), nl)}

\* THE PROCESS ENVIRONMENT (record field env).  With the process-wide no-colour switch on, one half of a
\* library's colouring (helpers that wrap a text in colour + reset) writes the bare text, while the other half
\* (helpers that "switch a colour on" for what follows) still writes: the background / attribute of a level is
\* switched on in front of every message line and nothing ever resets it.  Witness: must fail - exactly for the
\* configurations that have a background / attribute.
Envs == {"default", "nocolor"}
Forms == {"thru", "call-attr", "call-kv"}
BgOf(cs) == SelectSeq(cs, LAMBDA n : ~(n \in (30..37) \cup (90..97)))
HalfSwitchStream(cs, nlines) ==
    BgOf(cs) \o Cat([i \in 1..(nlines - 1) |-> <<Brk>> \o BgOf(cs)]) \o <<Brk>>
HalfSwitchIsClean == \A cs \in SevColours, nl \in 1..4 : ResetAtBreak(HalfSwitchStream(cs, nl), nl)
HalfSwitchBad == {<<cs, nl>> \in SevColours \X (1..4) : ~ResetAtBreak(HalfSwitchStream(cs, nl), nl)}
\* a completely plain record satisfies the hygiene clause in every environment
PlainStream(nlines) == [i \in 1..nlines |-> Brk]
PlainIsClean == \A nl \in 1..4 : ResetAtBreak(PlainStream(nl), nl)

----------------------------------------------------------------------------
(* Part D: verdict on one observed record *)

\* representations a decoder may report, and which ones the statements accept per kind
NumberKinds == {"int", "uint", "float"}
SliceOf(kind) == CASE kind = "strs" -> "string" [] kind = "bools" -> "bool" [] kind = "ints" -> "int"
                   [] kind = "uints" -> "uint" [] kind = "floats" -> "float" [] kind = "complexes" -> "complex"
                   [] kind = "durations" -> "duration" [] kind = "times" -> "time" [] OTHER -> ""
AcceptJSON(kind) ==
    CASE kind = "nil" -> {"null", "placeholder"}                 \* "nil as null or a fixed placeholder"
      [] kind \in NumberKinds -> {"number", "numstring"}          \* a JSON number, or its exact decimal text
      [] kind = "bool" -> {"bool"}
      [] kind = "complex" -> {"string"}
      [] kind = "duration" -> {"string", "number"}
      [] kind = "time" -> {"string"}
      [] kind = "error" -> {"string", "object"}                  \* the text, or an object carrying it
      [] kind \in {"string", "stringer", "bytes", "textm"} -> {"string"}
      [] kind = "fallback" -> {"string", "object", "array"}
      [] kind = "group" -> {"object"}
      [] OTHER -> {"array"}                                      \* slices
\* logfmt: "every string-like value is quoted".  The harness reads a line the way a logfmt reader does: it is
\* split at blanks outside quoted strings FIRST; the representation of a pair is that of its value token -
\* "quoted", "bare" (no quote / control byte in it), "list" (a bare token whose text reads [e1,...,en]); the text
\* of a quoted token is read as a list when a slice is expected (see LOGFMT TOKENS in Part A).  A slice written
\* so that a blank of an element cuts the token comes back as a pair that matches nothing plus forged pairs.
AcceptLogfmt(kind) ==
    CASE kind \in {"string", "error", "stringer", "bytes", "fallback", "textm"} -> {"quoted"}
      [] kind \in {"time", "duration", "nil", "bool", "complex"} \cup NumberKinds -> {"quoted", "bare"}
      [] OTHER -> {"list", "quoted"}
AcceptColor(kind) == {"quoted", "bare", "list"}                  \* C06 fixes no value syntax

Occurs(q, x) == Cardinality({i \in DOMAIN q : q[i] = x})

\* the decoder reports in vs the identities of all input values (under that key path) that the
\* decoded value equals; the occurrence the merge rule selects must be among them
Won(e, g) == \E x \in DOMAIN g.vs : g.vs[x] = e.v

\* members of a decoded JSON object against the merged attributes; order is not part of C04
RECURSIVE MembersMatch(_, _)
MembersMatch(exp, got) ==
    /\ Len(exp) = Len(got)
    /\ \A i \in DOMAIN exp :
         \E j \in DOMAIN got :
            /\ got[j].k = exp[i].k
            /\ \A j2 \in DOMAIN got : got[j2].k = exp[i].k => j2 = j
            /\ got[j].rep \in AcceptJSON(exp[i].kind)
            /\ (exp[i].kc \in Invalid \/ got[j].kx)            \* the key itself, byte for byte
            /\ IF exp[i].kind = "group" THEN MembersMatch(exp[i].sub, got[j].sub)
               ELSE exp[i].vc \in Invalid \/ Won(exp[i], got[j])

PairsMatchSet(exp, got, accept(_)) ==          \* each expected pair exactly once, nothing else
    /\ Len(exp) = Len(got)
    /\ \A i \in DOMAIN exp :
         \E j \in DOMAIN got :
            /\ got[j].path = exp[i].path
            /\ \A j2 \in DOMAIN got : got[j2].path = exp[i].path => j2 = j
            /\ got[j].rep \in accept(exp[i].kind)
            /\ got[j].kx
            /\ (exp[i].vc \in Invalid \/ Won(exp[i], got[j]))
\* the one allowance for a reserved name (colored only - C04 / C05 exclude top-level reserved keys
\* from their domain): a TOP-LEVEL attribute `time` holding a time.Time may be rendered in any way
TopTimeWaived(p) == Len(p.path) = 1 /\ p.path[1] = TimeKey /\ p.kind = "time"
PairsMatchSeq(exp, got, accept(_)) ==          \* ... and in the stated (ascending) order
    /\ Len(exp) = Len(got)
    /\ \A i \in DOMAIN exp : /\ got[i].path = exp[i].path
                             /\ got[i].rep \in accept(exp[i].kind)
                             /\ got[i].kx
                             /\ (exp[i].vc \in Invalid \/ Won(exp[i], got[i]) \/ TopTimeWaived(exp[i]))

HasKind(s, kind) == AnyLevel(s, LAMBDA q : \E i \in DOMAIN q : q[i].kind = kind)
\* class of the call site's file name (records of older recordings carry none: an ordinary path)
CFile(rec) == IF "cfile" \in DOMAIN rec THEN rec.cfile ELSE "plain"
\* how the record reached the library / the process environment (records of older recordings and of the history
\* component carry neither: a call with Attr values / mixed arguments in the default environment)
Form(rec) == IF "form" \in DOMAIN rec THEN rec.form ELSE "call-attr"
Env(rec) == IF "env" \in DOMAIN rec THEN rec.env ELSE "default"
\* the expectation never reads them
Without(rec, f) == [x \in DOMAIN rec \ {f} |-> rec[x]]
\* o.callerok: line and function are those of the call site;  o.cfilert: the file member / field
\* decodes to exactly slog.Safety(<file the runtime reports for the site>)
CallerDiag(rec, o) == (IF rec.caller => o.callerok THEN {} ELSE {"caller"})
                      \cup (IF rec.caller => o.cfilert THEN {} ELSE {"caller-file"})
MsgAllValid(rec) == \A i \in DOMAIN rec.msg : ValidUTF8(rec.msg[i])
NameAllValid(rec) == \A i \in DOMAIN rec.name.cls : ValidUTF8(rec.name.cls[i])

\* the expected top-level members of a JSON record / head fields of a logfmt record
Head4(rec) == <<"time">> \o (IF rec.name.has THEN <<"logger">> ELSE <<>>) \o <<"level", "msg">>

JsonDiag(rec, o) ==
    (IF o.nl = 1 /\ o.endnl THEN {} ELSE {"oneline"})
    \cup (IF o.valid THEN {} ELSE {"invalid-json"})
    \cup (IF ~o.valid THEN {}
          ELSE (IF "dups" \in DOMAIN o => o.dups = 0 THEN {} ELSE {"duplicate-member"})   \* a decoder keeps ONE member per name
          \cup (IF /\ \A f \in {"time", "level", "msg"} : Occurs(o.top, f) = 1
                   /\ Occurs(o.top, "logger") = (IF rec.name.has THEN 1 ELSE 0)
                   /\ Occurs(o.top, "caller") = (IF rec.caller THEN 1 ELSE 0)
                   /\ Occurs(o.top, "unknown") = 0
                   /\ Occurs(o.top, "attr") = Len(Members(rec))
                THEN {} ELSE {"top-level-members"})
          \cup (IF MsgAllValid(rec) => o.msgrt THEN {} ELSE {"msg-changed"})
          \cup (IF rec.name.has /\ NameAllValid(rec) => o.namert THEN {} ELSE {"logger-changed"})
          \cup (IF o.lvl THEN {} ELSE {"level-name"})
          \cup CallerDiag(rec, o)
          \cup (IF MembersMatch(Members(rec), o.members) THEN {} ELSE {"members"}))

\* C05 claims the single line only for production processes; under go test an error value may
\* append a dump after the record, whose first line must still parse
DumpAllowed(rec) == rec.testing /\ HasKind(rec.attrs, "error")
CallerTail == <<"caller.file", "caller.line", "caller.function">>
LogfmtDiag(rec, o) ==
    (IF (o.nl = 1 /\ o.endnl) \/ (DumpAllowed(rec) /\ o.nl >= 1) THEN {} ELSE {"oneline"})
    \cup (IF o.valid THEN {} ELSE {"unparsable"})
    \cup (IF ~o.valid THEN {}
          ELSE (IF o.head = Head4(rec) THEN {} ELSE {"head-fields"})
          \cup (IF o.tail = (IF rec.caller THEN CallerTail ELSE <<>>) THEN {} ELSE {"caller-fields"})
          \cup (IF o.headq THEN {} ELSE {"head-unquoted"})
          \cup (IF MsgAllValid(rec) => o.msgrt THEN {} ELSE {"msg-changed"})
          \cup (IF rec.name.has /\ NameAllValid(rec) => o.namert THEN {} ELSE {"logger-changed"})
          \cup (IF o.lvl THEN {} ELSE {"level-name"})
          \cup CallerDiag(rec, o)
          \cup (IF PairsMatchSet(Pairs(rec), o.pairs, AcceptLogfmt) THEN {} ELSE {"pairs"}))

\* C06.  Layout is claimed for messages without markup and without control characters other
\* than LF; hygiene for every message without escape bytes.  The caller is part of the layout
\* ("..., the attributes, the caller, and then the remaining message lines"); C06 fixes no quoting
\* for it and speaks of raw control bytes of ATTRIBUTE VALUES only: a call site whose file name
\* carries a control character (it is the program's own source position, not an input of the
\* record) is judged for colour hygiene alone.
LayoutClasses == {"plain", "space", "quote", "bslash", "nonascii", "astral", "equals", "LF"}
CallerCtlFree(rec) == rec.caller => CFile(rec) \notin ColorUnsafe
InLayoutDomain(rec) == (\A i \in DOMAIN rec.msg : rec.msg[i] \in LayoutClasses) /\ CallerCtlFree(rec)
MsgCtlFree(rec) == \A i \in DOMAIN rec.msg : rec.msg[i] \notin ColorUnsafe \ {"LF"}
TrailingLF(msg) == LET RECURSIVE T(_)
                       T(m) == IF m # <<>> /\ m[Len(m)] = "LF" THEN 1 + T(SubSeq(m, 1, Len(m) - 1)) ELSE 0
                   IN T(msg)
OwnLines(rec) == LinesOf(rec.msg)
\* a group has no token of its own; the separators written around it are not constrained, so
\* every group met before the first printed value may widen the gap after the padded message
RECURSIVE LeadG(_)
LeadG(m) == \* <<number of such groups, a value was found>>
    IF m = <<>> THEN <<0, FALSE>>
    ELSE IF m[1].kind # "group" THEN <<0, TRUE>>
    ELSE LET a == LeadG(m[1].sub)
         IN IF a[2] THEN <<1 + a[1], TRUE>>
            ELSE LET b == LeadG(Tail(m)) IN <<1 + a[1] + b[1], b[2]>>
LeadGroups(m) == LeadG(m)[1]
ColorDiag(rec, o) ==
    \* hygiene: all breaks of the record proper (everything, outside the go-test error dump)
    (IF ResetAtBreak(o.stream, IF DumpAllowed(rec) THEN OwnLines(rec) ELSE Len(o.stream))
     THEN {} ELSE {"colour-at-break"})
    \cup (IF MsgCtlFree(rec) /\ CallerCtlFree(rec) /\ ~DumpAllowed(rec) => o.rawctl = 0 THEN {} ELSE {"raw-control"})
    \cup (IF ~InLayoutDomain(rec) THEN {}
          ELSE (IF o.parsed THEN {} ELSE {"layout-unparsable"})
          \cup (IF ~o.parsed THEN {}
                ELSE (IF o.ts THEN {} ELSE {"timestamp"})
                \cup (IF rec.name.has = o.hasname /\ (rec.name.has => o.namert) THEN {} ELSE {"logger"})
                \cup (IF o.tagw = rec.width /\ o.tagok THEN {} ELSE {"level-tag"})
                \cup (IF o.firstrt THEN {} ELSE {"first-line"})
                \* "padded to the minimal width": the width is what the reader sees - CHARACTERS (code points; no
                \* East-Asian display width is attempted), not the bytes of their encoding: lenr / padr count runes
                \cup (IF \E x \in 0..LeadGroups(Members(rec)) : o.padr = Max(o.lenr, rec.minw) + x
                      THEN {} ELSE {"padding"})
                \cup (IF PairsMatchSeq(Pairs(rec), o.pairs, AcceptColor) THEN {} ELSE {"pairs"})
                \cup (IF rec.caller = o.hascaller /\ (rec.caller => o.callerok) THEN {} ELSE {"caller"})
                \cup (IF rec.caller /\ o.hascaller => o.cfilert THEN {} ELSE {"caller-file"})
                \cup (IF DumpAllowed(rec) THEN {}
                      ELSE (IF /\ o.nrest >= OwnLines(rec) - 1
                               /\ o.nrest - (OwnLines(rec) - 1) <= TrailingLF(rec.msg)
                               /\ o.restrt /\ o.indent
                            THEN {} ELSE {"rest-lines"}))))

Diag(rec, o) == CASE rec.fmt = "json" -> JsonDiag(rec, o)
                  [] rec.fmt = "logfmt" -> LogfmtDiag(rec, o)
                  [] OTHER -> ColorDiag(rec, o)

\* the input domain of each property (records outside are skipped, never judged).
\* TOP-LEVEL ATTRIBUTES NAMED LIKE A BUILT-IN MEMBER.  The quantifier of C04 excludes "the four reserved field names":
\* the library declares exactly four field-name constants (slog/cmn.go: timestampFieldName "time", levelFieldName "level",
\* callerFieldName "caller", messageFieldName "msg") - FourReserved.  `logger` is NOT one of them (a literal in
\* printLoggerName; the README itself logs With("logger", ...)): a top-level attribute keyed `logger` is INSIDE C04 - the
\* record must decode to the logger name if any AND to that attribute, and a decoder keeps one member per name (clause
\* "duplicate-member").  C05 says "other than the reserved names" without a number: all five names stay outside there.  A JSON
\* / logfmt record that carries an excluded top-level key is skipped here whatever it looks like (which of two members
\* of one name a reader gets is not a claim of C04 / C05).  The one reserved name another property speaks about is
\* `caller`: C14 demands that the record REPORTS the call site - Caller.tla (dimension ua) states what a last-wins
\* reader must find under that name when the record, the logger or a handler carries an attribute keyed `caller`.
\* C06 has no such exclusion: in the console line a top-level reserved key is an ordinary pair (TopTimeWaived is the
\* one allowance).  As MEMBERS OF A GROUP the five names are ordinary keys in every format (KeyNamesDoNotMatter).
RECURSIVE KeysLegal(_, _)
KeysLegal(fmt, s) == \A i \in DOMAIN s :
    /\ (fmt # "json" => s[i].k # 0 /\ s[i].kc \in {"plain", "nonascii", "astral", "markup", "bslash"})
    /\ (s[i].kind = "group" => KeysLegal(fmt, s[i].sub))
\* Escape bytes that reach a colored payload VERBATIM from outside the record's message and attribute values: the file name
\* of the call site (the program's own source position) and, in a go-test process, the dump of an error text (C06 exempts the
\* dump from the raw-control clause).  In the default environment the record's own closing resets happen to undo them and
\* the hygiene clause is judged as for any record.  With the no-colour switch on the library writes NO escape sequence
\* at all - that is what the switch is for - so it cannot switch off what it never switched on: like a message that
\* carries escape bytes (excluded by the quantifier of C06), such a record is outside the hygiene claim there.
RECURSIVE HasErrEsc(_)
HasErrEsc(s) == \E i \in DOMAIN s : \/ (s[i].kind = "error" /\ s[i].vc = "ESC")
                                     \/ (s[i].kind = "group" /\ HasErrEsc(s[i].sub))
ForeignEsc(rec) == (rec.caller /\ CFile(rec) = "ESC") \/ (rec.testing /\ HasErrEsc(rec.attrs))
FourReserved == ReservedIds \ {97}
TopExcluded(fmt) == IF fmt = "json" THEN FourReserved ELSE IF fmt = "logfmt" THEN ReservedIds ELSE {}
\* C02's documented blank line: a logging CALL at severity Always = 8 (Print / Println and their Context and package-level
\* forms are exactly that) whose message is empty or made of blanks and line breaks is delivered as one newline byte -
\* not a record.  C02 states it for every argument list ("blank" is said of the message), so the arguments do not matter
\* here either.  As a finished record handed over through WriteThru it is a record.
AlwaysSev == 8
BlankMsg(msg) == \A i \in DOMAIN msg : msg[i] \in {"space", "LF", "CR", "TAB"}
BlankPrint(rec) == rec.sev = AlwaysSev /\ BlankMsg(rec.msg) /\ Form(rec) # "thru"
InDomain(rec) ==
    /\ KeysLegal(rec.fmt, rec.attrs)
    /\ rec.caller => CFile(rec) \in SiteClasses
    /\ KeysOf(rec.attrs) \cap TopExcluded(rec.fmt) = {}      \* "all keys other than the (four) reserved field names"
    /\ ~BlankPrint(rec)
    /\ rec.fmt # "color" => ~HasKind(rec.attrs, "textm")      \* user marshallers are outside C04/C05
    /\ rec.fmt = "color" => "ESC" \notin {rec.msg[i] : i \in DOMAIN rec.msg}
    /\ rec.fmt = "color" /\ Env(rec) = "nocolor" => ~ForeignEsc(rec)
\* neither the form in which a record reached the library nor the process environment is read by any expectation
FormDoesNotMatter == \A rec \in {[fmt |-> "json", sev |-> 4, msg |-> <<"plain">>, attrs |-> Tree, form |-> f, env |-> e] :
                                   f \in Forms, e \in Envs} :
                         /\ Members(rec) = Merge(Tree) /\ Pairs(rec) = Flat(Merge(Tree), <<>>)
                         /\ Members(rec) = Members(Without(Without(rec, "form"), "env"))
=============================================================================
