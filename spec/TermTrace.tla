------------------------------ MODULE TermTrace ------------------------------
(* Trace validation for C12 (spec/Term.tla).

   The Go worker executes every cell of the table exported by Term in a child process of the
   right mode and writes one JSON line per cell: the cell's coordinates plus what was observed
   from outside the call -

     out      "ret" the call returned, "panic" a panic was recovered around it, "exit" the child
              process ended inside the call (write-ahead marker without an end marker), "hang" the
              child was still alive inside the call, without any progress, when the time limit of
              the driver ran out (the driver killed it; see fam_term.go for the limit).  For a
              nested cell (from # "top") the markers and the recover sit around the NESTED call,
              inside the Write / String / MarshalText / LogValue it is issued from
     status   exit status of the child when out = "exit"
     pv       "msg" when the recovered panic value is a string equal to the WHOLE message
              (whatever its size), "other" otherwise
     nrec     number of records of that call found in the write-through recorders (everything
              found there was written BEFORE the process ended / the panic was recovered);
              nothing can be found where the cell's destination class has no recording writer
              for the severity (Term!Recording) - the "written first" clause is skipped there
     oout     nested cells: how the OUTER call (a call of severity Always or Info, Term!OuterSeverity)
              ended - "ret", "panic" (recovered around it), "exit" (the process ended inside it after
              the nested call had returned); "none" for top-level cells and where the nested call
              itself ended the process.  The statement's "no other severity ever panics or exits"
              applies to it (OuterTerminates)
     rec      "complete" (decoded by independent decoders; carries the whole message) / "none" /
              "incomplete:<why>" / "skip" (severity other than Panic/Fatal)

   This module is a monitor: it consumes one line per step, rebuilds the cell, and evaluates the
   property predicates of Term (WriteThenTerminateP, OnlyWhenStatedP, EndsP, FinalMatchesStatementP -
   the same operators the exhaustive model is checked against) on the OBSERVED final state.
   A line that fails is collected in `bad` with the names of the failed predicates and the
   outcome the specification expected; `missing` counts cells of the table that were never
   observed (when ExpectAll).  The machine variables of Term are set to the specified final
   state of the observed cell, so Term's state invariants are evaluated on every visited cell.
   `split` is the relational form of "termination does not depend on the destination or the
   message size", evaluated on the observations alone: the Keys (severity, level, flags, mode)
   for which two observed calls ended differently.                                           *)
EXTENDS Term

CONSTANTS TraceFile,     \* ndjson file written by the worker
          ExpectAll      \* TRUE: every cell of the table must occur in the log

VARIABLES i, bad

TLog == ndJsonDeserialize(TraceFile)

CellOf(e) == [ep |-> e.ep, recv |-> e.recv, r |-> e.r, L |-> e.L, ni |-> e.ni, ia |-> e.ia,
              testing |-> e.testing, start |-> e.start, fmt |-> e.fmt, base |-> e.base, inp |-> e.inp,
              dst |-> e.dst, size |-> e.size, from |-> e.from]
FinOf(e) == [out |-> e.out, status |-> e.status, pv |-> e.pv]

\* the record counts as written only if the independent decoder found it complete
WrittenOf(e) == IF e.rec = "complete" THEN e.nrec ELSE 0

LineBad(e) ==
    IF ~IsCell(CellOf(e)) THEN {"NotACell"}
    ELSE Failed(CellOf(e), FinOf(e), WrittenOf(e)) \cup
         (IF OuterReturnsP(CellOf(e), e.oout) THEN {} ELSE {"OuterTerminates"})

TInit == /\ i = 1 /\ bad = {}
         /\ cell = CellSeq[1]
         /\ pc = "call" /\ written = 0 /\ fin = NoFin

TNext ==
    /\ i <= Len(TLog)
    /\ i' = i + 1
    /\ LET e == TLog[i]
           c == CellOf(e)
           why == LineBad(e)
       IN /\ bad' = IF why = {} THEN bad
                    ELSE bad \cup {[line |-> i, id |-> e.id, why |-> SetToSeq(why),
                                    expected |-> IF IsCell(c) THEN ToJson(Expected(c)) ELSE "not a cell of the table"]}
          /\ IF IsCell(c)
             THEN /\ cell' = c /\ pc' = "done" /\ fin' = ExpectedFin(c)
                  /\ written' = IF Gate(c) THEN 1 ELSE 0
             ELSE UNCHANGED <<cell, pc, written, fin>>

TSpec == TInit /\ [][TNext]_<<i, bad, cell, pc, written, fin>>

\* cells of the table never observed: the table has NCells cells, the orchestrator hands over a log
\* whose lines have pairwise different coordinates, so it is the number of lines that are cells
\* of the table that counts (building the set of a million observed cells is quadratic in TLC)
\* (counted and collected in two halves: TLC refuses to build a set from more than a million elements at once)
Half == Len(TLog) \div 2
CellLines(ids) == Cardinality({k \in ids : IsCell(CellOf(TLog[k]))})
Missing == IF ExpectAll
           THEN NCells - (CellLines(1..Half) + CellLines((Half + 1)..Len(TLog)))
           ELSE 0

\* Keys whose observed calls did not all end the same way (out, status, pv)
ObsPairsOf(ids) == {<<Key(CellOf(TLog[k])), FinOf(TLog[k])>> : k \in ids}
ObsPairs == ObsPairsOf(1..Half) \cup ObsPairsOf((Half + 1)..Len(TLog))
Split == IF Cardinality(ObsPairs) = Cardinality({p[1] : p \in ObsPairs}) THEN <<>>
         ELSE SetToSeq({p[1] : p \in {p \in ObsPairs : \E q \in ObsPairs : q[1] = p[1] /\ q # p}})

\* evaluated in every state; prints the verdict once the whole log is consumed
Done == i <= Len(TLog) \/ PrintT("@@bad " \o ToJson([bad |-> SetToSeq(bad), missing |-> Missing, lines |-> Len(TLog),
                                                    split |-> Split])) \/ TRUE
=============================================================================
