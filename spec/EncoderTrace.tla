---------------------------- MODULE EncoderTrace ----------------------------
(* Trace validation for Encoder (C04 JSON, C05 logfmt, C06 colored).

   Every line of the log is one record the harness pushed through the real library:
     rec   the abstract record (see Encoder.tla) that was concretised and logged (with caller the
           record is attributed to a real call site of the worker; cfile # "plain" or a site number:
           one behind a `//line` directive whose file name carries a character of that class; key ids in
           ReservedIds became the field names time / level / msg / logger / caller; with lc.set the
           harness called SetLevelColors(sev, fg, bg) with concrete codes of the stated classes
           right before the record and put the table back afterwards; form = how it was handed to the library:
           Entry.WriteThru with Attr values / a call Logit(ctx, sev, msg, args...) with Attr values / with alternating
           key, value arguments at every level; env = "nocolor": is.SetNoColorMode(true) was in force),
     obs   the projection of the bytes the library wrote, made by the harness's independent
           decoders (encoding/json; logfmt tokenizer + strconv.Unquote; SGR scanner + layout
           parser) - structure, value identities and fidelity booleans, never raw bytes,
     probe (optional) [cls, form]: for a record that carries one special character in one
           position (message, name, key, value, file name of the call site), the token form in
           which that character was found in the output.

   The monitor consumes one line per step.  A record outside the input domain of its property
   is counted and skipped.  Otherwise Diag(rec, obs) - the set of clauses of the property the
   observation violates, computed from the specification's Members / Pairs / ResetAtBreak /
   string grammars - must be empty; if it is not, one line
        @@bad {"line": i, "diag": [...], "mode": m, "feats": [...]}
   is printed (mode = how the probe character was emitted, feats = the abstract features of
   the record, which the orchestrator uses to name the finding).  "@@done [n, skipped]" is
   printed when the whole log has been consumed.                                            *)
EXTENDS Encoder, Json

CONSTANT TraceFile

VARIABLES i, nbad, nskip

TLog == ndJsonDeserialize(TraceFile)

Has(r, f) == f \in DOMAIN r

\* abstract features of a record: which classes sit where, which kinds, which tree shapes
RECURSIVE NodeFeats(_)
NodeFeats(s) ==
    UNION { {"value:" \o s[j].kind}
            \cup (IF s[j].kc # "plain" THEN {"key:" \o s[j].kc} ELSE {})
            \cup (IF s[j].kind \in TextKinds /\ s[j].vc # "plain" THEN {"text:" \o s[j].vc} ELSE {})
            \cup (IF s[j].kind = "group" THEN NodeFeats(s[j].sub) ELSE {}) : j \in DOMAIN s }
\* reserved field names as keys: of a group member (any depth) / of a top-level attribute; the
\* level colour configuration the record was formatted under
ResFeats(rec) ==
    {"member-key:" \o x[1] \o ":" \o x[2] : x \in MemberReserved(rec.attrs, 0)}
    \cup {"empty-group-member:" \o x[1] \o ":" \o x[2] : x \in EmptyGroupReserved(rec.attrs)}
    \cup {"top-key:" \o ResName(rec.attrs[j].k) \o ":" \o rec.attrs[j].kind :
             j \in {x \in DOMAIN rec.attrs : rec.attrs[x].k \in ReservedIds}}
    \cup (IF Has(rec, "lc") /\ rec.lc.set THEN {"colours:" \o rec.lc.fg \o "+" \o rec.lc.bg} ELSE {})
    \cup (IF rec.caller /\ CFile(rec) # "plain" THEN {"caller:" \o CFile(rec)} ELSE {})
Feats(rec) ==
    NodeFeats(rec.attrs) \cup ResFeats(rec)
    \cup {"msg:" \o rec.msg[j] : j \in {x \in DOMAIN rec.msg : rec.msg[x] # "plain"}}
    \cup {"name:" \o rec.name.cls[j] : j \in {x \in DOMAIN rec.name.cls : rec.name.cls[x] # "plain"}}
    \cup {"attrs:" \o f : f \in TreeFeatures(rec.attrs)}
    \* how the record reached the library (a call with key/value pairs is a feature of the attribute LIST), the process
    \* environment, a blank message at severity Always
    \cup (IF Form(rec) = "call-kv" THEN {"attrs:kv-form"} ELSE {})
    \cup {"form:" \o Form(rec)}
    \cup (IF Env(rec) # "default" THEN {"env:" \o Env(rec)} ELSE {})
    \cup (IF rec.sev = AlwaysSev /\ BlankMsg(rec.msg) THEN {"shape:blank-always"} ELSE {})

\* a probe adds the string-grammar verdict of the specification on the observed token form
ProbeDiag(e) ==
    IF Has(e, "probe") /\ ~StrLegal(e.rec.fmt, e.probe.form) /\ e.probe.quoted THEN {"illegal-escape"} ELSE {}
ProbeMode(e) == IF Has(e, "probe") THEN Mode(e.rec.fmt, e.probe.cls, e.probe.form) ELSE "none"

TInit == flat = <<>> /\ i = 1 /\ nbad = 0 /\ nskip = 0

TNext ==
    /\ i <= Len(TLog)
    /\ i' = i + 1
    /\ UNCHANGED flat
    /\ LET e == TLog[i] IN
       IF ~InDomain(e.rec) THEN nskip' = nskip + 1 /\ nbad' = nbad
       ELSE LET d == Diag(e.rec, e.obs) \cup ProbeDiag(e) IN
            /\ nskip' = nskip
            /\ IF d = {} THEN nbad' = nbad
               ELSE /\ nbad' = nbad + 1
                    /\ PrintT("@@bad " \o ToJson([line |-> i, diag |-> d, mode |-> ProbeMode(e),
                                                  feats |-> Feats(e.rec)]))

TSpec == TInit /\ [][TNext]_<<flat, i, nbad, nskip>>

\* evaluated in every state; prints the summary once the whole log is consumed
Done == i <= Len(TLog) \/ PrintT("@@done " \o ToJson(<<nbad, nskip>>))
=============================================================================
