----------------------------- MODULE MC_Format -----------------------------
(* C11: the complete output-format machine: 3 loggers, every mode call (Set/With and as a
   New(...) option) with every boolean argument list of length 0..2.                        *)
EXTENDS LoggCore

cBoolLists == << <<>>, <<TRUE>>, <<FALSE>>, <<TRUE, FALSE>>, <<FALSE, TRUE>> >>
cLayouts == << "" >>
cOptLists ==
    << <<>>,
       <<[k |-> "JSONMode", a |-> 1, b |-> 0]>>, <<[k |-> "JSONMode", a |-> 3, b |-> 0]>>,
       <<[k |-> "ColorMode", a |-> 1, b |-> 0]>>, <<[k |-> "ColorMode", a |-> 3, b |-> 0]>>,
       <<[k |-> "JSONMode", a |-> 2, b |-> 0], [k |-> "ColorMode", a |-> 4, b |-> 0]>>,
       <<[k |-> "ColorMode", a |-> 2, b |-> 0], [k |-> "JSONMode", a |-> 5, b |-> 0]>> >>
cSetterArgs == [k \in {"JSONMode", "ColorMode"} |-> {<<i, 0>> : i \in 1..5}]
cNames == {"a"}
cWLevels == {}
cInitTreat == TreatInit
cInitErrDev == ErrDevInit
=============================================================================
