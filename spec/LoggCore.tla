------------------------------ MODULE LoggCore ------------------------------
(* The logger system of hedzr/logg as a state machine over its public API.

   Style: "functional core".  The whole abstract state is one record `st`; every public call
   is an event record `e`; Guard(s, e) says whether the call is modelled from s and
   Step(s, e) is the SET of successor states the documented model allows (a singleton except
   where the documentation is silent).  The exhaustive specification (Next), the trace
   specification (LoggCoreTrace) and the expected observations (the Obs operators) all use the same
   operators, so there is one source of truth.

   Abstract state (fields of st):
     n        number of loggers created so far; loggers are 1..n, 1 is the package default logger
     parent   parent[l] = 0 for a detached (root) logger
     name     "" no name, "?" a generated (anonymous) name, "c/[k]" the WithSkip(k) child
     cfg      per logger: json, color, utc, layout, level, attrs, skip, ctx, wn, we, wl
              wn/we: normal / error writer lists (sequences of writer ids; STDOUT/STDERR are the
              package defaults), wl: per-level writer lists
     dbg      process-wide debug mode (sticky; set as a side effect of SetLevel(Debug))
     deflvl   the package's current default level (lvlCurrent)
     deflog   which logger is the package default
     flags    global flag set
     treat, errdev   level registry tables that matter for gating and routing
     regd     custom level values registered so far (RegisterLevel refuses a second registration)
     vrb      the process-wide verbose switch of hedzr/is (set from outside the library)
     hnd      log/slog handlers made so far: hnd[k] is the logger handler k sits on
     bulk     loggers that were given BulkN anonymous children in one go (a long-running process deriving a
              child per request): bulk[k] is the parent of the k-th batch; the children are never used again
     closed   file destinations (writer ids from FileBase on) that were closed through the writer
              list they are in: every later Write to them fails, nothing arrives                *)
EXTENDS Levels, TLC, SequencesExt, FiniteSetsExt

CONSTANTS
    MaxLoggers,      \* bound on loggers created in the exhaustive model
    Names,           \* explicit child names (strings)
    OptLists,        \* sequence of option lists usable in New(...): each a sequence of [k, a, b]
    BoolLists,       \* sequence of boolean argument lists for the mode calls
    Layouts,         \* sequence of time layouts (strings), "" = no argument
    SetterArgs,      \* [kind -> set of <<a, b>>] argument pairs explored per setter kind
    InitLevel,       \* lvlCurrent at process start: Debug under go test, Warn in production
    InitTreat,       \* treated-as table at start (factory table plus levels registered by the driver)
    InitErrDev,      \* error-device set at start
    InitRegd,        \* custom level values registered by the driver before the behaviour starts
    HandlerOpts,     \* sequence of log/slog handler options [nocolor, nosource, json, level (0: none)]
    RegCalls,        \* sequence of RegisterLevel calls [v, t (treated-as, -1: none), e (error device), clash (title of a built-in level)]
    WLevels,         \* severities for which per-level writers are explored
    WantsLevel,      \* writers that ask to be told the severity before each Write (LevelSettable)
    FailSets,        \* sequence of fault assignments explored by LogF: sets of <<phase, writer, occurrence>>
    LogSevs,         \* severities explored by LogF
    Tokens,          \* argument token kinds explored by LogA (C02), see Args below
    MaxArgs,         \* longest argument list explored by LogA
    EPs,             \* entry-point classes explored by LogA
    MsgClasses,      \* message classes explored by LogA
    Groups,          \* table of group values: Groups[g] is a sequence of attributes; an attribute <<k, -g>> is a group
    CtxVals,         \* context contents explored by LogM: each a sequence of <<context key, value>> (value 0 = absent)
    CallArgs,        \* call-site attribute lists explored by LogM
    FlagSets,        \* sequence of flag sets used as arguments of the flag calls (sets of flag names)
    MaxBulk,         \* bound on BulkKids batches in the exhaustive model
    BulkN,           \* children per batch
    FileBase,        \* writer ids from here on are files (harness/rec.go)
    MaxHandlers,     \* bound on log/slog handlers in the exhaustive model
    MaxSaved,        \* bound on outstanding SaveFlagsAndMod / SaveLevelAndSet scopes in the exhaustive model
    MaxList,         \* bound on the length of attribute / writer / context-key lists in the exhaustive model
    Acts             \* enabled action families (subset of AllActs)

VARIABLE st

STDOUT == -1
STDERR == -2
\* destinations whose Go type cannot be compared (a struct value holding a slice, a func adapter): set and add
\* work as for any writer; such a value has no identity, so a remove call that names one finds nothing and
\* changes nothing - and does not panic (harness/rec.go: writer ids 37..40)
Uncomparable == 37..40

AllActs == {"Set", "With", "New", "NewDetached", "PkgSetLevel", "SetDefault", "LogF", "LogA", "LogM", "SetAttrsR", "Lookup",
            "Flags", "PkgLevel", "DbgMode", "PkgSkip"}

\* the global flag set (flags.go); StdFlags = LstdFlags.  The harness starts every behaviour from
\* LstdFlags | LnoInterrupt so that Panic/Fatal probes return.
StdFlags == {"time", "micro", "localTime", "lineno", "caller", "attrs", "privacypath", "privacyrx"}
InitFlags == StdFlags \cup {"noInterrupt"}

-----------------------------------------------------------------------------
(* Per-logger configuration *)

NoWL == [v \in WLevels |-> <<>>]

DefaultCfg(js, clr, lvl) ==
    [json |-> js, color |-> clr, utc |-> 0, layout |-> "", level |-> lvl, attrs |-> <<>>,
     skip |-> 0, ctx |-> <<>>, wn |-> <<STDOUT>>, we |-> <<STDERR>>, wl |-> NoWL]

InitState ==
    [n |-> 1, parent |-> <<0>>, name |-> <<"">>,
     cfg |-> <<DefaultCfg(FALSE, TRUE, InitLevel)>>,
     dbg |-> FALSE, deflvl |-> InitLevel, deflog |-> 1, attrsR |-> FALSE,
     flags |-> InitFlags, savedf |-> <<>>, savedl |-> <<>>,
     treat |-> InitTreat, errdev |-> InitErrDev, regd |-> InitRegd, vrb |-> FALSE, hnd |-> <<>>, closed |-> {}, bulk |-> <<>>]

Live(s) == 1..s.n

LastOr(bs, d) == IF bs = <<>> THEN d ELSE bs[Len(bs)]

RemoveOne(seq, x) ==
    IF \E i \in 1..Len(seq) : seq[i] = x
    THEN LET i == CHOOSE i \in 1..Len(seq) : seq[i] = x /\ \A j \in 1..(i - 1) : seq[j] # x
         IN SubSeq(seq, 1, i - 1) \o SubSeq(seq, i + 1, Len(seq))
    ELSE seq
RemoveAllOf(seq, x) == SelectSeq(seq, LAMBDA y : y # x)

(* Setter kinds: the effect of Set<K>(a, b) on one logger's configuration (writer id 0 is a nil
   writer: every writer operation ignores it).  The result is a SET
   of configurations: a singleton except for removal from a list holding the writer twice,
   where the documentation does not say whether one or all occurrences go.                    *)
TsDefaultLayoutC == "2006-01-02T15:04:05.999999999Z07:00"
SetterKinds == {"JSONMode", "ColorMode", "UTCMode", "TimeFormat", "Level", "Attrs", "Attrs1", "SetKV", "Attrs0", "AttrsN", "Skip", "CtxKeys", "CtxReset",
                "Writer", "AddWriter", "RemoveWriter", "ErrorWriter", "AddErrorWriter",
                "RemoveErrorWriter", "AddLevelWriter", "RemoveLevelWriter", "ResetLevelWriter",
                "ResetLevelWriters", "ResetWriters"}

ApplyK(c, k, a, b) ==
    CASE k = "JSONMode" ->
           LET m == LastOr(BoolLists[a], TRUE)
           IN {[c EXCEPT !.json = m, !.color = IF m THEN FALSE ELSE c.color]}
      [] k = "ColorMode" ->
           LET m == LastOr(BoolLists[a], TRUE) IN {[c EXCEPT !.json = FALSE, !.color = m]}
      [] k = "UTCMode" ->
           LET m == LastOr(BoolLists[a], TRUE) IN {[c EXCEPT !.utc = IF m THEN 2 ELSE 1]}
      [] k = "TimeFormat" ->
           {[c EXCEPT !.layout = IF Layouts[a] = "" THEN TsDefaultLayoutC ELSE Layouts[a]]}
      [] k = "Level" -> {[c EXCEPT !.level = a]}
      \* SetAttrs(attr) / SetAttrs1(Attrs{attr}) / Set(key, value): all append one attribute
      \* ("KV": a bare key, value pair among the arguments of New)
      [] k \in {"Attrs", "Attrs1", "SetKV", "KV"} -> {[c EXCEPT !.attrs = Append(c.attrs, <<a, b>>)]}
      \* SetAttrs with a attributes at once: keys b, b+1, ..., values 1..a
      [] k = "AttrsN" -> {[c EXCEPT !.attrs = c.attrs \o [x \in 1..a |-> <<b + x - 1, x>>]]}
      \* an EMPTY list given to SetAttrs/SetAttrs1/Set/SetContextKeys (With...: still a new child)
      [] k = "Attrs0" -> {c}
      [] k = "Skip" -> {[c EXCEPT !.skip = a]}
      [] k = "CtxKeys" -> {[c EXCEPT !.ctx = Append(c.ctx, a)]}
      [] k = "CtxReset" -> {[c EXCEPT !.ctx = <<>>]}          \* ResetContextKeys
      [] k = "Writer" -> IF a = 0 THEN {c} ELSE {[c EXCEPT !.wn = <<a>>]}
      [] k = "AddWriter" -> IF a = 0 THEN {c} ELSE {[c EXCEPT !.wn = Append(c.wn, a)]}
      [] k = "RemoveWriter" -> IF a \in Uncomparable THEN {c} ELSE {[c EXCEPT !.wn = RemoveOne(c.wn, a)], [c EXCEPT !.wn = RemoveAllOf(c.wn, a)]}
      [] k = "ErrorWriter" -> IF a = 0 THEN {c} ELSE {[c EXCEPT !.we = <<a>>]}
      [] k = "AddErrorWriter" -> IF a = 0 THEN {c} ELSE {[c EXCEPT !.we = Append(c.we, a)]}
      [] k = "RemoveErrorWriter" -> IF a \in Uncomparable THEN {c} ELSE {[c EXCEPT !.we = RemoveOne(c.we, a)], [c EXCEPT !.we = RemoveAllOf(c.we, a)]}
      [] k = "AddLevelWriter" -> IF a = 0 THEN {c} ELSE {[c EXCEPT !.wl[b] = Append(c.wl[b], a)]}
      [] k = "RemoveLevelWriter" -> IF a \in Uncomparable THEN {c} ELSE {[c EXCEPT !.wl[b] = RemoveOne(c.wl[b], a)], [c EXCEPT !.wl[b] = RemoveAllOf(c.wl[b], a)]}
      [] k = "ResetLevelWriter" -> {[c EXCEPT !.wl[b] = <<>>]}
      [] k = "ResetLevelWriters" -> {[c EXCEPT !.wl = NoWL]}
      [] k = "ResetWriters" -> {[c EXCEPT !.wn = <<STDOUT>>, !.we = <<STDERR>>, !.wl = NoWL]}

\* process-wide side effect of giving a logger the level v
DbgAfter(d, k, a) == d \/ (k = "Level" /\ a = Debug)

\* apply a list of options (New(...) arguments) in order: set of resulting <<cfg, dbg>>
RECURSIVE ApplyOpts(_, _, _)
ApplyOpts(c, d, os) ==
    IF os = <<>> THEN {<<c, d>>}
    ELSE UNION {ApplyOpts(c2, DbgAfter(d, os[1].k, os[1].a), Tail(os)) : c2 \in ApplyK(c, os[1].k, os[1].a, os[1].b)}

-----------------------------------------------------------------------------
(* Tree *)

Kids(s, p) == {m \in Live(s) : s.parent[m] = p}
KidNamed(s, p, nm) == {m \in Kids(s, p) : s.name[m] = nm}

RECURSIVE RootOf(_, _)
RootOf(s, l) == IF s.parent[l] = 0 THEN l ELSE RootOf(s, s.parent[l])
RECURSIVE DepthOf(_, _)
DepthOf(s, l) == IF s.parent[l] = 0 THEN 0 ELSE 1 + DepthOf(s, s.parent[l])
RECURSIVE IsUnder(_, _, _)          \* m is l or a descendant of l
IsUnder(s, m, l) == m = l \/ (s.parent[m] # 0 /\ IsUnder(s, s.parent[m], l))
Subtree(s, l) == {m \in Live(s) : IsUnder(s, m, l)}

\* a fresh child of p: inherits level and format, everything else is the default
AddChild(s, p, nm) ==
    [s EXCEPT !.n = s.n + 1, !.parent = Append(s.parent, p), !.name = Append(s.name, nm),
              !.cfg = Append(s.cfg, DefaultCfg(s.cfg[p].json, s.cfg[p].color, s.cfg[p].level))]

AddDetached(s, nm) ==
    [s EXCEPT !.n = s.n + 1, !.parent = Append(s.parent, 0), !.name = Append(s.name, nm),
              !.cfg = Append(s.cfg, DefaultCfg(FALSE, TRUE, s.deflvl))]

SkipName(k) == "c/[" \o ToString(k) \o "]"

-----------------------------------------------------------------------------
(* Events.  e = [op, l, k, a, b]:
     Set          l.Set<k>(a, b)                      returns l
     With         l.With<k>(a, b)                     returns the child
     New          l.New(k = name or "" , options OptLists[a])
     NewDetached  slog.New(k = name or "", options OptLists[a])
     PkgSetLevel  slog.SetLevel(a)
     SetDefault   slog.SetDefault(l)                                                         *)

\* C03: destinations of a record of severity r emitted by logger l
Dest(s, l, r) ==
    IF r = Off THEN <<>>
    ELSE IF r \in WLevels /\ s.cfg[l].wl[r] # <<>> THEN s.cfg[l].wl[r]
    ELSE IF ErrClass(r, s.errdev) THEN s.cfg[l].we
    ELSE s.cfg[l].wn

\* a logger whose three writer components are the defaults may never have been given writers: it then has
\* no configuration of its own to remove a default destination from (it follows the package defaults)
OwnWriters(s, l) == s.cfg[l].wn # <<STDOUT>> \/ s.cfg[l].we # <<STDERR>> \/ s.cfg[l].wl # NoWL
Guard(s, e) ==
    CASE e.op = "Set" -> /\ e.l \in Live(s) /\ e.k \in SetterKinds
                         /\ ((e.k \in {"RemoveWriter", "RemoveErrorWriter"} /\ e.a < 0) => OwnWriters(s, e.l))
      [] e.op = "With" -> e.l \in Live(s) /\ e.k \in SetterKinds
      [] e.op = "New" -> e.l \in Live(s)
      [] e.op = "NewDetached" -> TRUE
      [] e.op = "PkgSetLevel" -> TRUE
      [] e.op = "SetDefault" -> e.l \in Live(s)
      [] e.op = "LogM" -> e.l \in Live(s)          \* a record with context CtxVals[e.a] and call attributes CallArgs[e.b]
      [] e.op = "PkgSkip" -> e.k \in {"SetSkip", "WithSkip"}   \* slog.SetSkip(a) / slog.WithSkip(a): the default logger's twins
      [] e.op = "DbgMode" -> TRUE                  \* the process-wide debug mode set from outside the library (hedzr/is)
      \* NewSlogHandler(l, HandlerOpts[e.a]) / a record of standard level e.a through handler e.l
      [] e.op = "MkHandler" -> e.l \in Live(s) /\ e.a \in DOMAIN HandlerOpts
      [] e.op = "HEmit" -> e.l \in DOMAIN s.hnd
      \* l.GetWriterBy(e.a).Close(): closes every member of the destination list of severity e.a (modelled
      \* for lists of the user's own writers; the built-in stdout/stderr destinations are left out)
      [] e.op = "CloseW" -> e.l \in Live(s) /\ \A j \in DOMAIN Dest(s, e.l, e.a) : Dest(s, e.l, e.a)[j] > 0
      \* re-entrancy: a record of logger e.l one of whose values, while being formatted, issues a record of
      \* logger e.a (String() of an attribute value logs); creating a child of e.a from inside e.l.Each(...)
      \* long-running processes: BulkN anonymous children of e.l in one go; 70 000 loggers derived elsewhere
      [] e.op = "BulkKids" -> e.l \in Live(s)
      [] e.op = "Burn" -> TRUE
      [] e.op = "LogNest" -> e.l \in Live(s) /\ e.a \in Live(s)
      [] e.op = "EachNew" -> e.l \in Live(s) /\ e.a \in Live(s) /\ OptLists[1] = <<>>
      \* New(l.Name()) on l's parent: every child - named, anonymous, made by With...() - is the direct child of
      \* that name and must be handed back (nothing is asked of a logger without parent)
      [] e.op = "Lookup" -> e.l \in Live(s)
      [] e.op = "VrbMode" -> TRUE                  \* the process-wide verbose switch set from outside the library (hedzr/is)
      \* slog.RegisterLevel(v, title, options): RegCalls[e.a]
      [] e.op = "Register" -> e.a \in DOMAIN RegCalls
      [] e.op = "SetAttrsR" -> TRUE                \* the inherit-attributes flag (LattrsR) on (e.a = 1) / off
      \* global flags: e.k in SetFlags AddFlags RemoveFlags ResetFlags SaveFlagsAndMod(add e.a, remove e.b)
      \* RestoreFlags (call the e.a-th restore function obtained so far; any of them, any number of times)
      [] e.op = "Flags" -> (CASE e.k \in {"SetFlags", "AddFlags", "RemoveFlags"} -> e.a \in DOMAIN FlagSets
                              [] e.k = "ResetFlags" -> TRUE
                              [] e.k = "SaveFlagsAndMod" -> e.a \in DOMAIN FlagSets /\ e.b \in DOMAIN FlagSets
                              [] e.k = "RestoreFlags" -> e.a \in DOMAIN s.savedf
                              [] OTHER -> FALSE)
      \* package level: ResetLevel, Reset, SaveLevelAndSet(e.a), RestoreLevel (e.a-th restore function)
      [] e.op = "PkgLevel" -> (CASE e.k \in {"ResetLevel", "Reset", "SaveLevelAndSet"} -> TRUE
                                 [] e.k = "RestoreLevel" -> e.a \in DOMAIN s.savedl
                                 [] OTHER -> FALSE)
      [] e.op = "LogA" -> e.l \in Live(s)          \* a call through entry point e.k, severity e.a, message class e.mc, arguments e.args
      [] e.op = "LogF" -> e.l \in Live(s)          \* a record of severity e.a under fault assignment FailSets[e.b]
      [] OTHER -> FALSE

\* does RegisterLevel accept the call?  Not for a value in use (built-in or registered), not for
\* a title in use (the driver's clash calls carry the title of a built-in level)
RegOK(s, e) == LET c == RegCalls[e.a] IN ~c.clash /\ c.v \notin s.regd /\ c.v \notin Builtin

RECURSIVE Step(_, _)
Step(s, e) ==
    CASE e.op = "Set" ->
           {[s EXCEPT !.cfg[e.l] = c2, !.dbg = DbgAfter(s.dbg, e.k, e.a)] : c2 \in ApplyK(s.cfg[e.l], e.k, e.a, e.b)}
      [] e.op = "With" ->
           IF e.k = "Skip" /\ KidNamed(s, e.l, SkipName(e.a)) # {}
           THEN \* WithSkip(k) keeps one child per k
                LET m == CHOOSE m \in KidNamed(s, e.l, SkipName(e.a)) : TRUE
                IN {[s EXCEPT !.cfg[m].skip = e.a]}
           ELSE LET s1 == AddChild(s, e.l, IF e.k = "Skip" THEN SkipName(e.a) ELSE "?")
                    m == s1.n
                IN {[s1 EXCEPT !.cfg[m] = c2, !.dbg = DbgAfter(s.dbg, e.k, e.a)] : c2 \in ApplyK(s1.cfg[m], e.k, e.a, e.b)}
      [] e.op = "New" ->
           IF e.k # "" /\ KidNamed(s, e.l, e.k) # {}
           THEN {s}                                  \* the existing direct child, untouched
           ELSE LET s1 == AddChild(s, e.l, IF e.k = "" THEN "?" ELSE e.k)
                    m == s1.n
                IN {[s1 EXCEPT !.cfg[m] = r[1], !.dbg = r[2]] : r \in ApplyOpts(s1.cfg[m], s.dbg, OptLists[e.a])}
      [] e.op = "NewDetached" ->
           LET s1 == AddDetached(s, e.k)
               m == s1.n
           IN {[s1 EXCEPT !.cfg[m] = r[1], !.dbg = r[2]] : r \in ApplyOpts(s1.cfg[m], s.dbg, OptLists[e.a])}
      [] e.op = "PkgSetLevel" ->
           {[s EXCEPT !.deflvl = e.a, !.cfg[s.deflog].level = e.a, !.dbg = s.dbg \/ e.a = Debug]}
      [] e.op = "SetDefault" -> {[s EXCEPT !.deflog = e.l]}
      [] e.op = "LogA" -> {s}
      [] e.op = "LogM" -> {s}
      [] e.op = "PkgSkip" ->
           IF e.k = "SetSkip" THEN {[s EXCEPT !.cfg[s.deflog].skip = e.a]}
           ELSE Step(s, [op |-> "With", l |-> s.deflog, k |-> "Skip", a |-> e.a, b |-> 0])
      [] e.op = "DbgMode" -> {[s EXCEPT !.dbg = (e.a = 1)]}
      [] e.op = "VrbMode" -> {[s EXCEPT !.vrb = (e.a = 1)]}
      \* making a handler configures the logger it sits on (level if given, then colour, then JSON) and
      \* the caller flag; using the handler never configures anything
      [] e.op = "MkHandler" ->
           LET o == HandlerOpts[e.a]
               c == s.cfg[e.l]
               c1 == IF o.level # 0 THEN [c EXCEPT !.level = o.level] ELSE c
               c2 == [c1 EXCEPT !.json = FALSE, !.color = ~o.nocolor]
               c3 == IF o.json THEN [c2 EXCEPT !.json = TRUE, !.color = FALSE] ELSE c2
               nf == IF o.nosource THEN s.flags \ {"caller"} ELSE s.flags \cup {"caller"}
           IN {[s EXCEPT !.cfg[e.l] = c3, !.flags = nf, !.dbg = s.dbg \/ o.level = Debug, !.hnd = Append(s.hnd, e.l)]}
      [] e.op = "HEmit" -> {s}
      [] e.op = "LogNest" -> {s}
      [] e.op = "BulkKids" -> {[s EXCEPT !.bulk = Append(s.bulk, e.l)]}
      [] e.op = "Burn" -> {s}
      [] e.op = "EachNew" -> Step(s, [op |-> "New", l |-> e.a, k |-> "", a |-> 1, b |-> 0])
      [] e.op = "Lookup" -> {s}
      [] e.op = "CloseW" -> {[s EXCEPT !.closed = @ \cup {w \in ToSet(Dest(s, e.l, e.a)) : w >= FileBase}]}
      \* a refused registration (value in use, or title in use) changes nothing at all; an accepted
      \* one changes the entries of its own value only
      [] e.op = "Register" ->
           LET c == RegCalls[e.a] IN
           IF RegOK(s, e)
           THEN {[s EXCEPT !.regd = @ \cup {c.v},
                           !.treat = IF c.t >= 0 THEN (c.v :> c.t) @@ s.treat ELSE s.treat,
                           !.errdev = IF c.e THEN @ \cup {c.v} ELSE @]}
           ELSE {s}
      [] e.op = "SetAttrsR" -> {[s EXCEPT !.attrsR = (e.a = 1),
                                           !.flags = IF e.a = 1 THEN s.flags \cup {"attrsR"} ELSE s.flags \ {"attrsR"}]}
      [] e.op = "Flags" ->
           LET nf == (CASE e.k = "SetFlags" -> FlagSets[e.a]
                        [] e.k = "AddFlags" -> s.flags \cup FlagSets[e.a]
                        [] e.k = "RemoveFlags" -> s.flags \ FlagSets[e.a]
                        [] e.k = "ResetFlags" -> StdFlags
                        [] e.k = "SaveFlagsAndMod" -> (s.flags \cup FlagSets[e.a]) \ FlagSets[e.b]
                        [] e.k = "RestoreFlags" -> s.savedf[e.a])
           IN {[s EXCEPT !.flags = nf, !.attrsR = ("attrsR" \in nf),
                         !.savedf = IF e.k = "SaveFlagsAndMod" THEN Append(s.savedf, s.flags) ELSE s.savedf]}
      [] e.op = "PkgLevel" ->
           LET SetTo(t, v) == [t EXCEPT !.deflvl = v, !.cfg[t.deflog].level = v, !.dbg = t.dbg \/ v = Debug]
           IN (CASE e.k = "ResetLevel" -> {SetTo(s, Warn)}
                 [] e.k = "Reset" -> {[SetTo(s, Warn) EXCEPT !.flags = StdFlags, !.attrsR = FALSE]}
                 [] e.k = "SaveLevelAndSet" -> {[SetTo(s, e.a) EXCEPT !.savedl = Append(s.savedl, s.deflvl)]}
                 [] e.k = "RestoreLevel" -> {SetTo(s, s.savedl[e.a])})
      [] e.op = "LogF" -> {s}                        \* logging never changes the configuration; no fault state exists

\* the logger a call returns (0: nothing / not a logger)
Ret(s, e, s2) ==
    CASE e.op = "Set" -> e.l
      [] e.op = "With" ->
           IF e.k = "Skip" /\ KidNamed(s, e.l, SkipName(e.a)) # {}
           THEN CHOOSE m \in KidNamed(s, e.l, SkipName(e.a)) : TRUE ELSE s2.n
      [] e.op = "New" ->
           IF e.k # "" /\ KidNamed(s, e.l, e.k) # {}
           THEN CHOOSE m \in KidNamed(s, e.l, e.k) : TRUE ELSE s2.n
      [] e.op = "NewDetached" -> s2.n
      [] e.op = "EachNew" -> s2.n
      [] e.op = "Lookup" -> e.l
      [] e.op = "PkgSkip" ->
           IF e.k = "SetSkip" THEN 0
           ELSE IF KidNamed(s, s.deflog, SkipName(e.a)) # {} THEN CHOOSE m \in KidNamed(s, s.deflog, SkipName(e.a)) : TRUE ELSE s2.n
      [] OTHER -> 0

-----------------------------------------------------------------------------
(* Derived observations: what the public API must show in state s.                            *)

Fmt(c) == IF c.json THEN "json" ELSE IF c.color THEN "color" ELSE "logfmt"

(* Timestamp of a record (C16, here as part of the logger system): the zone follows the logger's
   zone mode, else the process-wide local-time flag; the layout is the logger's own if it has
   one, else the one the date/time/microseconds flags select (cvt.go, defaultLayouts).  For the
   two flag combinations the table does not list, the statement fixes no layout.             *)
TsDefaultLayout == "2006-01-02T15:04:05.999999999Z07:00"       \* SetTimeFormat() / SetTimeFormat("")
TsExported == {"15:04:05Z07:00", "15:04:05.000000Z07:00", "2006-01-0215:04:05Z07:00",
               "2006-01-02T15:04:05.000000Z07:00", TsDefaultLayout}
TsFlagLayouts(df) ==
    CASE df = {"date"} -> {"2006-01-02"}
      [] df = {"time"} -> {"15:04:05Z07:00"}
      [] df = {"time", "micro"} -> {"15:04:05.000000Z07:00"}
      [] df = {"date", "time"} -> {"2006-01-0215:04:05Z07:00"}
      [] df = {"date", "micro"} -> {"2006-01-02T15:04:05.000000Z07:00"}
      [] df = {"date", "time", "micro"} -> {"2006-01-02T15:04:05.000000Z07:00"}
      [] OTHER -> TsExported
TsZone(s, l) == IF s.cfg[l].utc = 2 \/ (s.cfg[l].utc = 0 /\ "localTime" \notin s.flags) THEN "UTC" ELSE "Own"
TsLayouts(s, l) == IF s.cfg[l].layout # "" THEN {s.cfg[l].layout}
                   ELSE TsFlagLayouts(s.flags \cap {"date", "time", "micro"})


(* C07: attribute assembly.  An attribute is <<key, value>> with integer keys (the harness maps key
   k to a name whose byte order is the numeric order) and positive integer values; <<key, -g>> is
   a group whose members are Groups[g].
     sources, in this order: the values found in the context for the logger's context keys, the
       logger's own attributes preceded - iff the inherit flag is on - by its ancestors'
       (outermost first), the call's own attributes;
     each distinct key once, the last occurrence winning; ascending key order; the same inside
       every group.
   Leaves() flattens the merged tree to <<path, value>> in printed order (empty groups vanish).   *)
AKeys(as) == {as[x][1] : x \in DOMAIN as}
LastVal(as, k) == as[CHOOSE x \in DOMAIN as : as[x][1] = k /\ \A y \in DOMAIN as : y > x => as[y][1] # k][2]
\* (computed with one pass, key -> last value; LastVal above is the declarative reading used by MergeOK)
LastMap(as) == LET F[x \in 0..Len(as)] == IF x = 0 THEN <<>> ELSE (as[x][1] :> as[x][2]) @@ F[x - 1] IN F[Len(as)]
Merge(as) == LET m == LastMap(as)
                 ks == SetToSortSeq(DOMAIN m, <)
             IN [x \in 1..Len(ks) |-> <<ks[x], m[ks[x]]>>]

RECURSIVE Leaves(_, _)
Leaves(as, prefix) ==
    LET m == Merge(as)
        F[x \in 0..Len(m)] ==
            IF x = 0 THEN <<>>
            ELSE F[x - 1] \o (IF m[x][2] < 0 THEN Leaves(Groups[-m[x][2]], Append(prefix, m[x][1]))
                              ELSE <<[p |-> Append(prefix, m[x][1]), v |-> m[x][2]]>>)
    IN F[Len(m)]

RECURSIVE Chain(_, _)
Chain(s, l) == IF s.attrsR /\ s.parent[l] # 0 THEN Chain(s, s.parent[l]) \o s.cfg[l].attrs ELSE s.cfg[l].attrs

\* context key ids from 10 on are DISTINCT keys that print under the name of key a - 10 (two keys of
\* different types with one name): each is looked up by its own identity, the attributes collide by name
CtxKeyAttr(a) == 50 + (IF a >= 10 THEN a - 10 ELSE a)
FromCtx(s, l, cv) ==
    LET ks == s.cfg[l].ctx
        \* a key is looked up by its identity; a value that is PRESENT counts, whatever it is (0 - the zero value
        \* of its type - included); the last value stored for a key is the one the context returns
        Has(a) == \E x \in DOMAIN cv : cv[x][1] = a
        Val(a) == cv[CHOOSE x \in DOMAIN cv : cv[x][1] = a /\ \A y \in DOMAIN cv : y > x => cv[y][1] # a][2]
        F[x \in 0..Len(ks)] == IF x = 0 THEN <<>>
                               ELSE F[x - 1] \o (IF Has(ks[x]) THEN <<<<CtxKeyAttr(ks[x]), Val(ks[x])>>>> ELSE <<>>)
    IN F[Len(ks)]
Sources(s, l, cv, ca) == FromCtx(s, l, cv) \o Chain(s, l) \o ca
ExpectM(s, e) == Leaves(Sources(s, e.l, CtxVals[e.a], CallArgs[e.b]), <<>>)

\* C01: does logger l emit a record of severity r
Emits(s, l, r) == Admit(s.cfg[l].level, r, s.dbg, s.treat)

(* C02 / C13: delivery of one record.  Every destination selected for the severity is attempted
   exactly once, whatever the other attempts do; if an attempt failed, the record was not itself a
   warning and the logger admits Warn, ONE diagnostic warning record is attempted once on every
   warning destination; a failing diagnostic produces nothing further.  A fault assignment names
   the failing attempts as <<phase, writer, occurrence>> (phase 1 the record, 2 the diagnostic;
   occurrence counts repeated list entries).                                                      *)
Occ(d, j) == Cardinality({x \in 1..j : d[x] = d[j]})
Attempts(d, phase, fails, closed) ==
    [j \in 1..Len(d) |-> [w |-> d[j], ph |-> phase, fail |-> (<<phase, d[j], Occ(d, j)>> \in fails \/ d[j] \in closed),
                            whole |-> TRUE]]        \* every attempt is handed the complete record
AnyFail(as) == \E j \in 1..Len(as) : as[j].fail
WantsDiag(s, l, r, a1) == AnyFail(a1) /\ r # Warn /\ Emits(s, l, Warn)
Deliver(s, l, r, fails) ==
    IF ~Emits(s, l, r) THEN <<>>
    ELSE LET a1 == Attempts(Dest(s, l, r), 1, fails, s.closed)
             a2 == IF WantsDiag(s, l, r, a1) THEN Attempts(Dest(s, l, Warn), 2, fails, s.closed) ELSE <<>>
         IN a1 \o a2

\* what an observer of the destinations sees of a list of attempts / of a destination list: a closed
\* file receives nothing (the attempt is made and fails)
Visible(s, as) == SelectSeq(as, LAMBDA x : x.w \notin s.closed)
Open(s, d) == SelectSeq(d, LAMBDA w : w \notin s.closed)
\* Close() reaches every member that can be closed: the recording LogWriters note it
\* (harness/rec.go: writer ids with (w-1) % 4 in {1, 2} are LogWriters), files get closed
Closers(d) == SelectSeq(d, LAMBDA w : w > 0 /\ w < FileBase /\ (w - 1) % 4 \in {1, 2})

(* C02: whatever the arguments, an admitted call is one whole Write (payload ending in a newline)
   per selected destination, a call that is not admitted writes nothing, and a blank
   Print/Println is exactly one newline byte.  Package-level entry points act on the default
   logger.  The expected outcome does not depend on the argument list - that IS the property;
   TLC enumerates the lists (ArgLists) so that every one of them is executed.                     *)
ArgLists == UNION {[1..n -> Tokens] : n \in 0..MaxArgs}
BlankClasses == {"empty", "blank", "none"}      \* "none": Println() without any argument
PkgEPs == {"pkg", "pkg.ctx", "pkg.Println"}
Target(s, e) == IF e.k \in PkgEPs THEN s.deflog ELSE e.l
ExpectA(s, e) ==
    LET t == Target(s, e)
        d == Dest(s, t, e.a)
    IN IF Emits(s, t, e.a)
       THEN [j \in 1..Len(d) |-> [w |-> d[j], nl |-> TRUE, one |-> (e.a = Always /\ e.mc \in BlankClasses)]]
       ELSE <<>>

EachOf(s, l) ==   \* Each: every logger of the subtree exactly once, with its depth below l
    LET sub == Subtree(s, l)
        ids == SetToSortSeq(sub, <)
    IN [i \in 1..Len(ids) |-> <<ids[i], DepthOf(s, ids[i]) - DepthOf(s, l)>>]

\* ... and the bulk children below l: per depth below l, how many Each must visit (they are leaves)
BulkAt(s, l, d) == BulkN * Cardinality({k \in DOMAIN s.bulk : s.bulk[k] \in Subtree(s, l) /\ DepthOf(s, s.bulk[k]) - DepthOf(s, l) + 1 = d})
EachBulk(s, l) == {<<d, BulkAt(s, l, d)>> : d \in {dd \in 1..(s.n + 1) : BulkAt(s, l, dd) > 0}}
HasBulk(s, l) == \E k \in DOMAIN s.bulk : s.bulk[k] \in Subtree(s, l)

\* DumpSubloggers: one line per logger of the subtree, indented by its depth below l
DumpDepths(s, l) == LET e == EachOf(s, l) IN [x \in 1..Len(e) |-> e[x][2]]

SubCands(s, l, nm) == {m \in Subtree(s, l) : s.name[m] = nm}

-----------------------------------------------------------------------------
(* Exhaustive specification *)

Do(op, l, k, a, b) ==
    LET e == [op |-> op, l |-> l, k |-> k, a |-> a, b |-> b]
    IN /\ Guard(st, e)
       /\ st' \in Step(st, e)

\* argument values explored (the union over all kinds; each action filters by its kind)
ArgPairs == UNION {SetterArgs[k] : k \in DOMAIN SetterArgs}
ArgA == {ab[1] : ab \in ArgPairs}
ArgB == {ab[2] : ab \in ArgPairs}

\* one named action per public call, so that TLC's state-graph dump labels every edge with the
\* call and its arguments
\* lists grow without bound in the library; the exhaustive model stops appending at MaxList
Room(l, k, b) ==
    /\ l \in Live(st)
    /\ k \in {"Attrs", "Attrs1", "SetKV"} => Len(st.cfg[l].attrs) < MaxList
    /\ k = "AttrsN" => st.cfg[l].attrs = <<>>
    /\ k = "CtxKeys" => Len(st.cfg[l].ctx) < MaxList
    /\ k = "AddWriter" => Len(st.cfg[l].wn) < MaxList
    /\ k = "AddErrorWriter" => Len(st.cfg[l].we) < MaxList
    /\ k = "AddLevelWriter" => Len(st.cfg[l].wl[b]) < MaxList
WithKinds == {"JSONMode", "ColorMode", "UTCMode", "TimeFormat", "Level", "Attrs", "Attrs1", "SetKV", "Attrs0", "AttrsN", "Skip", "CtxKeys", "Writer", "ErrorWriter"}

Set(l, k, a, b) == "Set" \in Acts /\ <<a, b>> \in SetterArgs[k] /\ Room(l, k, b) /\ Do("Set", l, k, a, b)
\* (a lookup - New(existing name, ...), WithSkip(n) for an n that has its child - needs no room for a new logger:
\*  it stays enabled when the bounded model is full)
With(l, k, a, b) == "With" \in Acts /\ k \in WithKinds /\ (st.n < MaxLoggers \/ (k = "Skip" /\ KidNamed(st, l, SkipName(a)) # {}))
                    /\ <<a, b>> \in SetterArgs[k] /\ Do("With", l, k, a, b)
\* bare key, value arguments of New need a name in front of them: the first string argument IS the name
HasKV(oi) == \E j \in DOMAIN OptLists[oi] : OptLists[oi][j].k = "KV"
New(l, nm, oi) == "New" \in Acts /\ (st.n < MaxLoggers \/ (nm # "" /\ KidNamed(st, l, nm) # {})) /\ (nm = "" => ~HasKV(oi)) /\ Do("New", l, nm, oi, 0)
NewDetached(nm, oi) == "NewDetached" \in Acts /\ st.n < MaxLoggers /\ (nm = "" => ~HasKV(oi)) /\ Do("NewDetached", 0, nm, oi, 0)
PkgSetLevel(v) == "PkgSetLevel" \in Acts /\ "Level" \in DOMAIN SetterArgs /\ <<v, 0>> \in SetterArgs["Level"] /\ Do("PkgSetLevel", 0, "", v, 0)
SetDefault(l) == "SetDefault" \in Acts /\ Do("SetDefault", l, "", 0, 0)
LogF(l, r, fi) == "LogF" \in Acts /\ Do("LogF", l, "", r, fi)
LogM(l, ci, ai) == "LogM" \in Acts /\ Do("LogM", l, "", ci, ai)
SetAttrsR(b) == "SetAttrsR" \in Acts /\ b \in {0, 1} /\ Do("SetAttrsR", 0, "", b, 0)
DbgMode(b) == "DbgMode" \in Acts /\ b \in {0, 1} /\ Do("DbgMode", 0, "", b, 0)
MkHandler(l, a) == "MkHandler" \in Acts /\ Len(st.hnd) < MaxHandlers /\ Do("MkHandler", l, "", a, 0)
HEmit(h, r) == "HEmit" \in Acts /\ r \in {Debug, Info, Warn, Error} /\ Do("HEmit", h, "", r, 0)
BulkKids(l) == "BulkKids" \in Acts /\ Len(st.bulk) < MaxBulk /\ Do("BulkKids", l, "", 0, 0)
Burn == "Burn" \in Acts /\ Do("Burn", 0, "", 0, 0)
LogNest(l, m) == "LogNest" \in Acts /\ Do("LogNest", l, "", m, 0)
Lookup(l) == "Lookup" \in Acts /\ Do("Lookup", l, "", 0, 0)
EachNew(l, m) == "EachNew" \in Acts /\ st.n < MaxLoggers /\ Do("EachNew", l, "", m, 0)
CloseW(l, r) == "CloseW" \in Acts /\ Do("CloseW", l, "", r, 0)
VrbMode(b) == "VrbMode" \in Acts /\ b \in {0, 1} /\ Do("VrbMode", 0, "", b, 0)
Register(a) == "Register" \in Acts /\ a \in DOMAIN RegCalls /\ Do("Register", 0, "", a, 0)
PkgSkip(k, a) ==
    /\ "PkgSkip" \in Acts /\ "Skip" \in DOMAIN SetterArgs /\ <<a, 0>> \in SetterArgs["Skip"]
    /\ (k = "WithSkip" => st.n < MaxLoggers)
    /\ Do("PkgSkip", 0, k, a, 0)
FlagKinds == {"SetFlags", "AddFlags", "RemoveFlags", "ResetFlags", "SaveFlagsAndMod", "RestoreFlags"}
Flags(k, a, b) ==
    /\ "Flags" \in Acts
    /\ (k \in {"SetFlags", "AddFlags", "RemoveFlags", "ResetFlags", "RestoreFlags"} => b = 0)
    /\ (k = "ResetFlags" => a = 0)
    /\ (k = "SaveFlagsAndMod" => Len(st.savedf) < MaxSaved)
    /\ Do("Flags", 0, k, a, b)
PkgLevelKinds == {"ResetLevel", "Reset", "SaveLevelAndSet", "RestoreLevel"}
PkgLevel(k, a) ==
    /\ "PkgLevel" \in Acts
    /\ (k \in {"ResetLevel", "Reset"} => a = 0)
    /\ (k = "SaveLevelAndSet" => Len(st.savedl) < MaxSaved /\ "Level" \in DOMAIN SetterArgs /\ <<a, 0>> \in SetterArgs["Level"])
    /\ Do("PkgLevel", 0, k, a, 0)
\* message classes are varied with an empty argument list, argument lists with a plain message
LogA(l, ep, r, mc, args) ==
    /\ "LogA" \in Acts /\ l \in Live(st)
    /\ (mc = "plain" \/ args = <<>> \/ (mc \in {"empty", "blank"} /\ Len(args) <= 1))   \* a blank message may carry attributes
    /\ (ep \in {"Println", "pkg.Println"} => r = Always)
    /\ (ep \in PkgEPs => r # Off)              \* there is no package-level function carrying Off
    /\ (mc = "none" => ep \in {"Println", "pkg.Println"})
    /\ st' \in Step(st, [op |-> "LogA", l |-> l, k |-> ep, a |-> r, b |-> 0, mc |-> mc, args |-> args])

Next ==
    \/ \E l \in 1..MaxLoggers, k \in DOMAIN SetterArgs, a \in ArgA, b \in ArgB : Set(l, k, a, b)
    \/ \E l \in 1..MaxLoggers, k \in DOMAIN SetterArgs, a \in ArgA, b \in ArgB : With(l, k, a, b)
    \/ \E l \in 1..MaxLoggers, nm \in Names \cup {""}, oi \in DOMAIN OptLists : New(l, nm, oi)
    \/ \E nm \in Names \cup {""}, oi \in DOMAIN OptLists : NewDetached(nm, oi)
    \/ \E v \in ArgA : PkgSetLevel(v)
    \/ \E l \in 1..MaxLoggers : SetDefault(l)
    \/ \E l \in 1..MaxLoggers, r \in LogSevs, fi \in DOMAIN FailSets : LogF(l, r, fi)
    \/ \E l \in 1..MaxLoggers, ci \in DOMAIN CtxVals, ai \in DOMAIN CallArgs : LogM(l, ci, ai)
    \/ \E b \in {0, 1} : SetAttrsR(b)
    \/ \E b \in {0, 1} : DbgMode(b)
    \/ \E b \in {0, 1} : VrbMode(b)
    \/ \E l \in 1..MaxLoggers, m \in 1..MaxLoggers : LogNest(l, m)
    \/ \E l \in 1..MaxLoggers : BulkKids(l)
    \/ Burn
    \/ \E l \in 1..MaxLoggers, m \in 1..MaxLoggers : EachNew(l, m)
    \/ \E l \in 1..MaxLoggers : Lookup(l)
    \/ \E l \in 1..MaxLoggers, r \in LogSevs : CloseW(l, r)
    \/ \E l \in 1..MaxLoggers, a \in DOMAIN HandlerOpts : MkHandler(l, a)
    \/ \E h \in 1..MaxHandlers, r \in {Debug, Info, Warn, Error} : HEmit(h, r)
    \/ \E a \in DOMAIN RegCalls : Register(a)
    \/ \E k \in {"SetSkip", "WithSkip"}, a \in ArgA : PkgSkip(k, a)
    \/ \E k \in FlagKinds, a \in 0..Len(FlagSets), b \in 0..Len(FlagSets) : Flags(k, a, b)
    \/ \E k \in PkgLevelKinds, a \in ArgA \cup 0..MaxSaved : PkgLevel(k, a)
    \/ \E l \in 1..MaxLoggers, ep \in EPs, r \in LogSevs, mc \in MsgClasses, args \in ArgLists : LogA(l, ep, r, mc, args)

Init == st = InitState
Spec == Init /\ [][Next]_st

-----------------------------------------------------------------------------
(* Properties *)

\* small node labels for state-graph dumps (edges carry the information)
DumpAlias == [n |-> st.n]

\* C11: exactly one of three formats - the fourth combination of the two bits is unreachable
OneFormat == \A l \in Live(st) : ~(st.cfg[l].json /\ st.cfg[l].color)

\* structural sanity of the tree (C10)
TreeOK ==
    /\ Len(st.parent) = st.n /\ Len(st.name) = st.n /\ Len(st.cfg) = st.n
    /\ \A l \in Live(st) : st.parent[l] \in 0..(l - 1)
    /\ \A l \in Live(st) : RootOf(st, l) \in Live(st) /\ st.parent[RootOf(st, l)] = 0
    \* direct children of one logger have distinct names unless anonymous
    /\ \A l, m \in Live(st) : (l # m /\ st.parent[l] = st.parent[m] /\ st.parent[l] # 0 /\ st.name[l] = st.name[m]) => st.name[l] = "?"
    \* Each visits every logger of a subtree exactly once
    /\ \A l \in Live(st) : Len(EachOf(st, l)) = Cardinality(Subtree(st, l))

\* C10 isolation, as an action property: a step changes at most the configuration of one logger,
\* and never the configuration of a logger that existed before other than the receiver
Isolation ==
    [][\A l \in Live(st) :
          st'.cfg[l] # st.cfg[l] =>
             \A m \in Live(st) \ {l} : st'.cfg[m] = st.cfg[m]]_st

\* the level registry only grows, a registration concerns one value, the built-in levels keep
\* their factory entries for ever, and no registration touches a logger
RegistryLocal ==
    [][/\ st.regd \subseteq st'.regd
       /\ \A v \in DOMAIN st.treat : v \in DOMAIN st'.treat /\ st'.treat[v] = st.treat[v]
       /\ st.errdev \subseteq st'.errdev
       /\ Cardinality((DOMAIN st'.treat \ DOMAIN st.treat) \cup (st'.errdev \ st.errdev) \cup (st'.regd \ st.regd)) <= 1
       /\ (st'.regd # st.regd \/ st'.treat # st.treat \/ st'.errdev # st.errdev) => (st'.cfg = st.cfg /\ st'.n = st.n)
       /\ (DOMAIN st'.treat \ DOMAIN st.treat) \cap Builtin = {} /\ (st'.errdev \ st.errdev) \cap Builtin = {}]_st

\* loggers are never destroyed and never re-parented or renamed
TreeMonotone ==
    [][/\ st'.n >= st.n
       /\ \A l \in Live(st) : st'.parent[l] = st.parent[l] /\ st'.name[l] = st.name[l]]_st

\* debug mode is sticky
\* (only the external switch DbgMode can clear it; no call of the library ever does)
DbgSticky == [][st.dbg => (st'.dbg \/ "DbgMode" \in Acts)]_st

\* C01 at design level: the declarative rule and the transcribed mechanism agree on every state
GateAgrees ==
    \A l \in Live(st) : \A r \in (Builtin \cup DOMAIN st.treat \cup {13, 15, -8}) :
        Admit(st.cfg[l].level, r, st.dbg, st.treat) = EnabledMech(st.cfg[l].level, r, st.dbg, st.treat)

\* beyond the listed properties: the flag algebra
FlagsOK ==
    /\ st.attrsR = ("attrsR" \in st.flags)
    /\ Len(st.savedf) <= MaxSaved /\ Len(st.savedl) <= MaxSaved
\* a restore function re-installs exactly the value that was current when its scope was opened
RestoreExact ==
    [][\A x \in DOMAIN st.savedf : x \in DOMAIN st'.savedf /\ st'.savedf[x] = st.savedf[x]]_st

\* C07 at design level: what is printed has unique, ascending keys at every level, every source key
\* appears, and the value printed for a top-level scalar key is its last occurrence in source order
MergeOK ==
    \A l \in Live(st) : \A ci \in DOMAIN CtxVals : \A ai \in DOMAIN CallArgs :
        LET src == Sources(st, l, CtxVals[ci], CallArgs[ai])
            m == Merge(src)
        IN /\ \A x \in DOMAIN m : m[x][2] = LastVal(src, m[x][1])      \* the one-pass Merge agrees with the declarative reading
           /\ \A x \in 1..(Len(m) - 1) : m[x][1] < m[x + 1][1]
           /\ {m[x][1] : x \in DOMAIN m} = AKeys(src)
           /\ \A x \in DOMAIN m : \E y \in DOMAIN src :
                  /\ src[y] = m[x]
                  /\ \A z \in DOMAIN src : z > y => src[z][1] # m[x][1]
           \* call site over logger over ancestor over context
           /\ \A x \in DOMAIN CallArgs[ai] : LastVal(src, CallArgs[ai][x][1]) = LastVal(CallArgs[ai], CallArgs[ai][x][1])

\* C02 at design level: exactly one whole Write per selected destination iff admitted
ExactlyOnce ==
    \A l \in Live(st) : \A ep \in EPs : \A r \in LogSevs : \A mc \in MsgClasses :
        LET e == [op |-> "LogA", l |-> l, k |-> ep, a |-> r, b |-> 0, mc |-> mc, args |-> <<>>]
            x == ExpectA(st, e)
            t == Target(st, e)
        IN /\ ~Emits(st, t, r) => x = <<>>
           /\ Emits(st, t, r) => /\ [j \in 1..Len(x) |-> x[j].w] = Dest(st, t, r)
                                 /\ \A j \in 1..Len(x) : x[j].nl

\* C13 at design level, for every logger, severity and fault assignment of the configuration
BoundedReaction ==
    \A l \in Live(st) : \A r \in LogSevs : \A fi \in DOMAIN FailSets :
        LET d == Deliver(st, l, r, FailSets[fi])
            p1 == SelectSeq(d, LAMBDA x : x.ph = 1)
            p2 == SelectSeq(d, LAMBDA x : x.ph = 2)
        IN /\ ~Emits(st, l, r) => d = <<>>
           \* every selected destination is attempted exactly once, failing or not
           /\ Emits(st, l, r) => [j \in 1..Len(p1) |-> p1[j].w] = Dest(st, l, r)
           \* at most one diagnostic record, only after a failure, never for a warning, never a cascade
           /\ p2 # <<>> => /\ AnyFail(p1) /\ r # Warn /\ Emits(st, l, Warn)
                           /\ [j \in 1..Len(p2) |-> p2[j].w] = Dest(st, l, Warn)
           /\ Len(d) <= Len(Dest(st, l, r)) + Len(Dest(st, l, Warn))

\* C03 at design level: a record goes to exactly one of the three lists
RouteOK ==
    \A l \in Live(st) : \A r \in Builtin \cup WLevels :
        LET d == Dest(st, l, r) IN
        /\ r = Off => d = <<>>
        /\ (r # Off /\ r \in WLevels /\ st.cfg[l].wl[r] # <<>>) => d = st.cfg[l].wl[r]
        /\ (r # Off /\ ~(r \in WLevels /\ st.cfg[l].wl[r] # <<>>)) => d = IF r \in st.errdev THEN st.cfg[l].we ELSE st.cfg[l].wn
=============================================================================
