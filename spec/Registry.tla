------------------------------ MODULE Registry ------------------------------
(* The level registry of hedzr/logg (slog/level.go) and the public level API, property C17:

     "For every built-in or registered level, the name printed for it parses back to the same
      level, and its text and JSON marshalled forms unmarshal to the same level.  RegisterLevel
      refuses a numeric value or a title that is already in use and leaves every table
      unchanged when it refuses; after a successful registration the level answers to its
      title, uses the given short tags, is gated as the level it is treated as and is routed to
      the error device if so requested, and ShortTag(n) of any level without custom tags is
      exactly n characters for n in 1..5."

   WHAT IS MODELLED
   Text is a sequence of Unicode code points (a "name"); one element = one character.  That is
   the level the statement speaks at ("n characters", "title in any case") and it lets the
   specification itself define case folding, prefixes and UTF-8 byte lengths.

   Abstract registry  s  (a record; the functional core below only uses pure operators on it):
     s.all     sequence of registered numeric values (AllLevels), built-ins first
     s.name    value -> name printed for it (String / MarshalText)
     s.keys    name  -> value: every exact string that must parse to a level (names + aliases)
     s.fold    key   -> its case-folded form (derived from s.keys; kept so that it is computed once)
     s.ctag    registered value -> [1..5 -> custom short tag, <<>> = none given for that length]
     s.treat   value -> built-in level it is gated as (factory: OK, Success -> Info, Fail -> Error)
     s.req     registered value -> was the error device requested for it (what the caller asked)
     s.errdev  set of values routed to the error device (what the registry recorded)
     s.errdevNA  the same set as the "ErrDevNoArg" deviation would record it (kept alongside so
               that one state serves the ideal reading and the deviation)

   THE ONE ACTION  Register(v, title, opts)   (RegisterLevel with RegWith* options)
     Decisions(s, v, t)  the outcomes the statement allows:
        must refuse  when v is in use or the exact title is a key;
        may  refuse or accept when the title collides only case-insensitively with a key
             (the statement is silent; what it fixes is the round trip afterwards);
        must accept  otherwise.
     Accept(s, v, t, o)   the successor tables;  a refusal leaves s unchanged.
     Step(s, v, t, o)     the set of [out, st] pairs allowed.

   THE PUBLIC FUNCTIONS, as operators over s (what a call must return)
     ParseSet, MarshalText, UnmarshalText, MarshalJSON, UnmarshalJSON, ShortTag, Gate, ErrRouted.

   WHICH OPERATOR STATES WHICH PART OF THE PROPERTY
     NameRoundTrip, TextRoundTrip, JSONRoundTrip     the three round trips, every level
     ContextFree, AnswersEverywhere                  ... wherever the caller stands (see Contexts)
     MustRefuse, MustAccept, RefusalIsNoOp           action properties of Register
     AnswersToTitle, UsesGivenTags, GatedAsTreated, RoutedIfRequested   after acceptance
     ShortTagLen                                     n characters without custom tags
     Consistent                                      table bijection / bookkeeping

   NAMED DEVIATIONS (DESIGN.md section 5).  With Deviations = {} the operators are the ideal
   reading of the statement and TLC proves every invariant over all explored histories.  Each
   name below switches one operator to what the pinned library was seen to do; TLC then must
   FAIL the matching invariant (non-vacuity witness), and the trace specification uses the same
   switch to recognise a divergence of the real code as exactly that known defect:
     "ParseFolds"     ParseLevel looks up the lower-cased input, the tables keep titles verbatim
     "JSONNoUnquote"  UnmarshalJSON parses the quoted JSON text as if it were the bare name
     "TagBytes"       ShortTag cuts/pads UTF-8 bytes, not characters
     "ErrDevNoArg"    RegWithPrintToErrorDevice() without arguments (the documented form) is ignored
     "BusyWhileReporting"  while ParseLevel is reporting an unknown name through the default logger
                      every lookup made in the meantime fails (a "do not recurse" flag tested before
                      the tables are consulted) - never seen on the pinned library, kept as the witness
                      that ContextFree constrains something

   WHERE A QUESTION IS ASKED FROM (Contexts).  The statement quantifies over every built-in or
   registered level without saying where the caller stands, so the answers of the level API are a
   function of the REGISTRY ONLY.  A caller may stand "outside" (an ordinary call), or inside the
   library's own writing: in the Write of the destination the default logger uses while ParseLevel
   reports an unknown name ("warn"; "warn-go": another goroutine asks at that moment), in the Write
   of a destination receiving an ordinary record ("rec"), in the String method of a value that is
   being formatted for a record ("val").  LookupIn(dev, c, s, x) is ParseLevel(x) asked in context
   c; with Deviations = {} it does not look at c - that IS the property (ContextFree,
   AnswersEverywhere), and the deviation above shows what would contradict it.

   Bounds / assumptions: case folding is modelled for ASCII and Latin-1 letters only (other
   characters used in titles are caseless); titles contain no characters that need a JSON
   escape; treated-as targets are the built-in levels, the special ones included (a level treated
   as Always is admitted like Always, one treated as Off like Off, one treated as OK like OK, i.e.
   like Info - Levels!Admit); debug mode is off.                        *)
EXTENDS Levels

CONSTANTS
    Values,      \* set of numeric values offered to RegisterLevel
    Titles,      \* sequence of titles offered (each a sequence of code points)
    Opts,        \* sequence of option packs [tags, treat, err, clr]
    MaxCalls,    \* explore histories of at most MaxCalls calls
    Deviations   \* set of deviation names switched on ({} = the property)

VARIABLES reg, last
vars == <<reg, last>>

AllDeviations == {"ParseFolds", "JSONNoUnquote", "TagBytes", "ErrDevNoArg", "BusyWhileReporting"}

Contexts  == {"outside", "warn", "warn-go", "rec", "val"}   \* where a question is asked from
Reporting == {"warn", "warn-go"}                           \* ... while ParseLevel reports an unknown name

ERR == -9999                       \* "the call returned an error"
Gateable == Builtin                \* treated-as targets whose meaning the statement fixes
GateLevels == (Panic..Trace) \cup {Off, Always}   \* logger levels used to observe gating

-----------------------------------------------------------------------------
(* text *)
Lower(c) == IF (c >= 65 /\ c <= 90) \/ (c >= 192 /\ c <= 222 /\ c # 215) THEN c + 32 ELSE c
Fold(x) == [i \in 1..Len(x) |-> Lower(x[i])]
U8Len(c) == IF c < 128 THEN 1 ELSE IF c < 2048 THEN 2 ELSE IF c < 65536 THEN 3 ELSE 4
Quote(x) == <<34>> \o x \o <<34>>
IsQuoted(x) == Len(x) >= 2 /\ x[1] = 34 /\ x[Len(x)] = 34
Unquote(x) == SubSeq(x, 2, Len(x) - 1)
IsChars(x, n) == Len(x) = n /\ \A i \in 1..n : x[i] >= 0      \* n real characters
Rep(c, n) == [i \in 1..n |-> c]

\* first n characters, padded with blanks ("?" for the empty name)
CharPrefix(x, n) == IF x = <<>> THEN Rep(63, n) ELSE [i \in 1..n |-> IF i <= Len(x) THEN x[i] ELSE 32]

\* first n BYTES of the UTF-8 encoding, padded with blanks; a cut character leaves stray
\* bytes, each written -1 (not a character)
RECURSIVE BytePrefixR(_, _)
BytePrefixR(x, n) ==
    IF n = 0 THEN <<>>
    ELSE IF x = <<>> THEN Rep(32, n)
    ELSE IF U8Len(Head(x)) <= n THEN <<Head(x)>> \o BytePrefixR(Tail(x), n - U8Len(Head(x)))
    ELSE Rep(-1, n)
BytePrefix(x, n) == IF x = <<>> THEN Rep(63, n) ELSE BytePrefixR(x, n)

-----------------------------------------------------------------------------
(* factory tables (level.go: levelToString, stringToLevel)                                  *)
N_panic == <<112, 97, 110, 105, 99>>                 \* "panic"
N_fatal == <<102, 97, 116, 97, 108>>                 \* "fatal"
N_error == <<101, 114, 114, 111, 114>>               \* "error"
N_warning == <<119, 97, 114, 110, 105, 110, 103>>    \* "warning"
N_info == <<105, 110, 102, 111>>                     \* "info"
N_debug == <<100, 101, 98, 117, 103>>                \* "debug"
N_trace == <<116, 114, 97, 99, 101>>                 \* "trace"
N_off == <<111, 102, 102>>                           \* "off"
N_always == <<97, 108, 119, 97, 121, 115>>           \* "always"
N_ok == <<111, 107>>                                 \* "ok"
N_success == <<115, 117, 99, 99, 101, 115, 115>>     \* "success"
N_fail == <<102, 97, 105, 108>>                      \* "fail"
N_warn == <<119, 97, 114, 110>>                      \* "warn"      alias of Warn
N_no == <<110, 111>>                                 \* "no"        alias of Off
N_disabled == <<100, 105, 115, 97, 98, 108, 101, 100>>   \* "disabled"  alias of Off
N_devel == <<100, 101, 118, 101, 108>>               \* "devel"     alias of Debug
N_dev == <<100, 101, 118>>                           \* "dev"       alias of Debug
N_develop == <<100, 101, 118, 101, 108, 111, 112>>   \* "develop"   alias of Debug

InitName == (Panic :> N_panic) @@ (Fatal :> N_fatal) @@ (Error :> N_error) @@ (Warn :> N_warning) @@
            (Info :> N_info) @@ (Debug :> N_debug) @@ (Trace :> N_trace) @@ (Off :> N_off) @@
            (Always :> N_always) @@ (OK :> N_ok) @@ (Success :> N_success) @@ (Fail :> N_fail)
InitKeys == [x \in {InitName[l] : l \in Builtin} |-> CHOOSE l \in Builtin : InitName[l] = x] @@
            (N_warn :> Warn) @@ (N_no :> Off) @@ (N_disabled :> Off) @@
            (N_devel :> Debug) @@ (N_dev :> Debug) @@ (N_develop :> Debug)

InitState == [all |-> [i \in 1..12 |-> i - 1], name |-> InitName, keys |-> InitKeys,
              fold |-> [k \in DOMAIN InitKeys |-> Fold(k)], ctag |-> <<>>,
              treat |-> TreatInit, req |-> <<>>, errdev |-> ErrDevInit, errdevNA |-> ErrDevInit]

Vals(s) == {s.all[i] : i \in DOMAIN s.all}
Registered(s) == DOMAIN s.ctag             \* values added by RegisterLevel

-----------------------------------------------------------------------------
(* options *)
\* custom tag for length n (Go: shortTags[n], index 0 unused); <<>> = none
TagOf(o, n) == IF o.tags = <<>> THEN <<>> ELSE o.tags[n + 1]

(* Was the error device requested?  o.err is the sequence of RegWithPrintToErrorDevice(b...)
   options in call order, each a list of booleans; options apply in order, the last boolean of
   a list wins, and the documented argument-less form means "yes".  Under "ErrDevNoArg" the
   argument-less form changes nothing.                                                      *)
RECURSIVE ErrReq(_, _)
ErrReq(dev, err) ==
    IF err = <<>> THEN FALSE
    ELSE LET b == err[Len(err)] IN
         IF b # <<>> THEN b[Len(b)]
         ELSE IF "ErrDevNoArg" \in dev THEN ErrReq(dev, SubSeq(err, 1, Len(err) - 1))
         ELSE TRUE

-----------------------------------------------------------------------------
(* RegisterLevel *)
InUse(s, v) == v \in Vals(s)
TitleUsed(s, t) == t \in DOMAIN s.keys
CaseClash(s, t) == LET ft == Fold(t) IN \E k \in DOMAIN s.keys : s.fold[k] = ft

Decisions(s, v, t) ==
    IF InUse(s, v) \/ TitleUsed(s, t) THEN {"refused"}
    ELSE IF CaseClash(s, t) THEN {"refused", "accepted"}
    ELSE {"accepted"}

\* which clause of the statement decides the call (for reports and coverage)
Why(s, v, t) == IF InUse(s, v) /\ TitleUsed(s, t) THEN "value+title"
                ELSE IF InUse(s, v) THEN "value"
                ELSE IF TitleUsed(s, t) THEN "title"
                ELSE IF CaseClash(s, t) THEN "case" ELSE "fresh"

Accept(s, v, t, o) ==
    [all    |-> Append(s.all, v),
     name   |-> (v :> t) @@ s.name,
     keys   |-> (t :> v) @@ s.keys,
     fold   |-> (t :> Fold(t)) @@ s.fold,
     ctag   |-> (v :> [n \in 1..5 |-> TagOf(o, n)]) @@ s.ctag,
     treat  |-> IF o.treat \in Gateable THEN (v :> o.treat) @@ s.treat ELSE s.treat,
     req    |-> (v :> ErrReq({}, o.err)) @@ s.req,
     errdev |-> IF ErrReq({}, o.err) THEN s.errdev \cup {v} ELSE s.errdev,
     \* the same bookkeeping as the "ErrDevNoArg" deviation would do it
     errdevNA |-> IF ErrReq({"ErrDevNoArg"}, o.err) THEN s.errdevNA \cup {v} ELSE s.errdevNA]

Step(s, v, t, o) ==
    {[out |-> d, st |-> IF d = "accepted" THEN Accept(s, v, t, o) ELSE s] : d \in Decisions(s, v, t)}

-----------------------------------------------------------------------------
(* the public functions *)

\* results ParseLevel(x) may return
ParseSet(dev, s, x) ==
    IF "ParseFolds" \in dev
    THEN {IF Fold(x) \in DOMAIN s.keys THEN s.keys[Fold(x)] ELSE ERR}
    ELSE IF x \in DOMAIN s.keys THEN {s.keys[x]}
    ELSE LET fx == Fold(x) IN {ERR} \cup {s.keys[k] : k \in {k2 \in DOMAIN s.keys : s.fold[k2] = fx}}

MarshalText(s, l) == s.name[l]
UnmarshalText(dev, s, x) == ParseSet(dev, s, x)
MarshalJSON(s, l) == Quote(s.name[l])
UnmarshalJSON(dev, s, x) ==
    IF "JSONNoUnquote" \in dev THEN ParseSet(dev, s, x)
    ELSE IF IsQuoted(x) THEN ParseSet(dev, s, Unquote(x)) ELSE {ERR}

\* the same calls made in context c: the context does not matter (deviation: see the header)
LookupIn(dev, c, s, x) ==
    IF "BusyWhileReporting" \in dev /\ c \in Reporting THEN {ERR} ELSE ParseSet(dev, s, x)
UnmarshalTextIn(dev, c, s, x) == LookupIn(dev, c, s, x)
UnmarshalJSONIn(dev, c, s, x) ==
    IF "JSONNoUnquote" \in dev THEN LookupIn(dev, c, s, x)
    ELSE IF IsQuoted(x) THEN LookupIn(dev, c, s, Unquote(x)) ELSE {ERR}

HasCustomTag(s, l, n) == l \in Registered(s) /\ s.ctag[l][n] # <<>>
ShortTag(dev, s, l, n) ==
    IF HasCustomTag(s, l, n) THEN s.ctag[l][n]
    ELSE IF "TagBytes" \in dev THEN BytePrefix(s.name[l], n) ELSE CharPrefix(s.name[l], n)

\* is a record of severity r admitted by a logger at level L (mechanism: Level.Enabled)
Gate(s, L, r) == EnabledMech(L, r, FALSE, s.treat)
ErrRouted(dev, s, l) == l \in (IF "ErrDevNoArg" \in dev THEN s.errdevNA ELSE s.errdev)

-----------------------------------------------------------------------------
(* the model explored by TLC *)
NoCall == [n |-> 0, v |-> 0, t |-> 0, o |-> 0, out |-> "none", why |-> "none"]

Init == reg = InitState /\ last = NoCall

Register(v, ti, oi) ==
    /\ last.n < MaxCalls
    /\ \E r \in Step(reg, v, Titles[ti], Opts[oi]) :
         /\ reg' = r.st
         /\ last' = [n |-> last.n + 1, v |-> v, t |-> ti, o |-> oi, out |-> r.out,
                      why |-> Why(reg, v, Titles[ti])]

Next == \E v \in Values, ti \in DOMAIN Titles, oi \in DOMAIN Opts : Register(v, ti, oi)

Spec == Init /\ [][Next]_vars

-----------------------------------------------------------------------------
(* the property *)
NameRoundTrip == \A l \in Vals(reg) : ParseSet(Deviations, reg, reg.name[l]) = {l}
TextRoundTrip == \A l \in Vals(reg) : UnmarshalText(Deviations, reg, MarshalText(reg, l)) = {l}
JSONRoundTrip == \A l \in Vals(reg) : UnmarshalJSON(Deviations, reg, MarshalJSON(reg, l)) = {l}

\* the three round trips of every level and the answer to every registered name are the same
\* wherever the caller stands (the registry's answers depend on the registry only)
ContextFree == \A c \in Contexts, l \in Vals(reg) :
                  /\ LookupIn(Deviations, c, reg, reg.name[l]) = {l}
                  /\ UnmarshalTextIn(Deviations, c, reg, MarshalText(reg, l)) = {l}
                  /\ UnmarshalJSONIn(Deviations, c, reg, MarshalJSON(reg, l)) = {l}
AnswersEverywhere == \A c \in Contexts, x \in DOMAIN reg.keys :
                        LookupIn({}, c, reg, x) = ParseSet({}, reg, x)

ShortTagLen == \A l \in Registered(reg), n \in 1..5 :
                  ~HasCustomTag(reg, l, n) => IsChars(ShortTag(Deviations, reg, l, n), n)
UsesGivenTags == \A l \in Registered(reg), n \in 1..5 :
                  HasCustomTag(reg, l, n) => ShortTag(Deviations, reg, l, n) = reg.ctag[l][n]

\* a level registered as "treated as t" is admitted exactly when t itself would be
GatedAsTreated == \A l \in Registered(reg) : l \in DOMAIN reg.treat =>
                    \A L \in GateLevels : Gate(reg, L, l) = Admit(L, reg.treat[l], FALSE, TreatInit)
RoutedIfRequested == \A l \in Registered(reg) : ErrRouted(Deviations, reg, l) = reg.req[l]

Consistent ==
    /\ Cardinality(Vals(reg)) = Len(reg.all)                      \* no value twice
    /\ DOMAIN reg.name = Vals(reg)
    /\ \A l \in Vals(reg) : reg.name[l] \in DOMAIN reg.keys
    /\ \A k \in DOMAIN reg.keys : reg.keys[k] \in Vals(reg)
    /\ DOMAIN reg.fold = DOMAIN reg.keys /\ \A k \in DOMAIN reg.keys : reg.fold[k] = Fold(k)
    /\ \A i \in 1..12 : reg.all[i] = i - 1                        \* built-ins stay first
    /\ Registered(reg) = Vals(reg) \ Builtin
    /\ \A l \in Builtin : reg.name[l] = InitName[l]

\* after a successful registration the level answers to its title (action property)
AnswersToTitle == [][last'.out = "accepted" =>
                        ParseSet(Deviations, reg', Titles[last'.t]) = {last'.v}]_vars
MustRefuse == [][(InUse(reg, last'.v) \/ TitleUsed(reg, Titles[last'.t])) => last'.out = "refused"]_vars
MustAccept == [][(~InUse(reg, last'.v) /\ ~CaseClash(reg, Titles[last'.t])) => last'.out = "accepted"]_vars
RefusalIsNoOp == [][last'.out = "refused" => reg' = reg]_vars
\* an accepted registration adds exactly that level and leaves every other level's answers alone
AcceptIsLocal == [][last'.out = "accepted" =>
                      /\ Vals(reg') = Vals(reg) \cup {last'.v} /\ last'.v \notin Vals(reg)
                      /\ \A l \in Vals(reg) : /\ reg'.name[l] = reg.name[l]
                                              /\ ParseSet({}, reg', reg.name[l]) = {l}]_vars

\* what the graph dump shows per state (the check counts decisions per reason: vacuity guard)
DumpAlias == [out |-> last.out, why |-> last.why]
=============================================================================
