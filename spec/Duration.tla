------------------------------ MODULE Duration ------------------------------
(* C20 - the duration text helpers of slog/internal/times:
       SmartDurationString / SmartDurationStringEx   (short formatter, compact and fractional style)
       ParseDuration                                 (time.ParseDuration + the day unit "d")

   WHAT IS MODELLED
   * A duration value.  TLC has 32-bit integers, so an int64 nanosecond count is kept as limbs
       [neg, days, secs (< 86400), ns (< 10^9)]            (operators Zero, Add, Gt, Lim = 2^63 ns)
     and a formatter *cell* as the mixed-radix tuple the compact style prints
       [neg, d, h, m, s, ms, us, ns]                        (ValOf, InRange, Cells).
   * Text is a sequence of SYMBOLS, one per byte class the parser distinguishes:
       "0".."9"  "+"  "-"  "."  "d" "h" "m" "s" "n" "u"
       "micro" (U+00B5, 2 bytes)   "greek" (U+03BC, 2 bytes)   "x" (any other byte).
   * The formatter (Chunks / Format): the text of a cell in both styles, as the list of chunks
     the implementation writes right-to-left into its fixed scratch array of BufLen bytes.
   * The parser (Feed / End / ParseSyms): the grammar  sign? (digits? ('.' digits?)? unit)+  |  sign? '0' 
     as a state machine consuming one symbol at a time, parameterised by the unit table, so the
     library's parser is  ParseSyms(_, LibUnits)  and the standard one  ParseSyms(_, StdUnits).
     Values are exact (floor(f * unit / 10^k) for the fraction) inside the arithmetic DOMAIN of
     the model: <= 9 integer digits, <= 9 fraction digits (<= 7/5/4 for m/h/d).  Outside it the
     result is "ood" (the model does not decide; the check then compares with time.ParseDuration
     concretely).  The library computes the fraction in float64; inside the domain that equals
     the exact floor (products that are integers stay integers after rounding, all others are
     at least 10^-9 away from one), and every run cross-checks the model's standard-grammar
     results against the real time.ParseDuration (a disagreement is a model defect, exit 2).

   * The process ENVIRONMENT (constant Envs: names of environments - locale variables LC_ALL /
     LC_CTYPE / LANG unset, C, POSIX, *.ISO-8859-1, *.UTF-8, an exotic TZ ...).  The statement
     speaks of "every duration value" and of nothing else: THE TEXT OF A DURATION IS A FUNCTION OF
     THE DURATION AND THE STYLE ONLY.  So the environment is a dimension of the formatter's cell
     space (machine "fmt": cell x style x env; every cell in the environments FullEnvs, the
     sub-second and extreme cells - EnvCell - in all of them) over which the text must not vary - Format has no
     environment argument, and invariant EnvFree says that what the writer produced in
     environment env is Format(cell, style).  ChunksIn(env, c, style) is what the writer writes;
     for the property (LocaleMicro = FALSE) it is Chunks(c, style).  LocaleMicro = TRUE is the
     witness: the micro sign is spelled by locale - "u" where the locale (NoUTF8) is not UTF-8 -
     while the sub-second path keeps reserving the two bytes of U+00B5, so a stale byte ("x")
     stays behind the "u"; that run must violate EnvFree and RoundTrip.

   THREE MACHINES over the single variable st (constant Machine selects Init/Next):
   * "fmt":   Init picks a cell of Cells, a style and an environment; Write moves one chunk into the buffer,
              w -= bytes.   Invariants:
                InBuffer   - the write index never leaves the array          ("never panics")
                RoundTrip  - the finished text parses (library grammar) to exactly the cell
                StdReads   - a finished text without day unit is read identically by the
                             standard grammar
                FmtShape   - the machine's output is Format(cell, style), its bytes Need(..)
                EnvFree    - ... in every environment (the text does not depend on it)
              Run with BufLen = 33 the invariants hold; with the library's real size 32 InBuffer
              fails exactly for the 33-byte texts (witness run of the check).
   * "parse": Init is the empty input; FeedBoth(c) feeds symbol c to the library parser and to the
              standard parser in lock step, up to MaxLen symbols.  Invariants:
                AcceptSameAsStd - while no day unit was used both give the same verdict and
                                  value; once it was used the standard parser rejects
                RejectIsFinal / ResultWellFormed
     The dumped graph of this machine (ALIAS ParseAlias) is the acceptance table for every
     string over Alphabet up to MaxLen; the check walks all those strings on the real parsers.
   * "hist":  HISTORIES of calls.  The helpers are functions of their argument only and a returned
              text is a VALUE: it stays what it was, whatever is called afterwards.  The state is
              the history so far (calls) and the result of its last call (text / res); the texts
              handed out and not yet dropped by the caller (Held: cell, style, text) follow from
              the history.  Calls:
                HFormat(i, style)  format cell HCells[i]; the text joins the retained ones
                                   (the same value may be formatted again: a second, equal text)
                HParse(j)          parse the j-th retained text
                HParseLit(k)       parse the unrelated string HLits[k]
                HDrop(j)           the caller lets go of the j-th retained text
              up to MaxCalls calls, so the state graph is the tree of all histories.  Invariants:
                Retained    - after every call every retained text still parses back to exactly
                              its own duration
                TextIsValue - ... and still is the text that was returned
                HistoryFree - the result of a call is the one-call-at-a-time result (Format /
                              ParseSyms of the argument), whatever happened before
              The constant Aliased = TRUE replaces the value semantics by the tempting
              implementation "hand out the tail of one shared scratch array without copying":
              a retained text then reads the current scratch.  That run must violate Retained
              (witness run of the check: the invariant is not vacuous, and it names the defect
              class).  HApply / HFmtOK / HParseRes are the functional core shared with
              DurationTrace.tla, which validates recorded histories (sequential ones and the
              per-goroutine projections of concurrent ones: the model has no shared state, so a
              concurrent execution is correct iff every goroutine's own history is).
   ASSUME DayIs24h ties the one extra unit to 24 hours.

   The same operators are used by DurationTrace.tla to validate records made from the real code. *)
EXTENDS Integers, Sequences, FiniteSets, TLC, Json

CONSTANTS BufLen,     \* size in bytes of the formatter's scratch array
          Alphabet,   \* symbols fed by the parse machine
          MaxLen,     \* longest input of the parse machine
          CellSets,   \* boundary values per component [d |-> {..}, h |-> .., m, s, ms, us, ns]
          Machine,    \* "fmt" | "parse" | "hist" ("trace" in DurationTrace)
          HCells,     \* hist machine: sequence of cells the formatter is called with
          HLits,      \* hist machine: sequence of unrelated strings (symbol sequences) that are parsed
          MaxCalls,   \* hist machine: longest history
          Aliased,    \* hist machine: FALSE = texts are values; TRUE = witness (shared scratch handed out)
          Envs,       \* names of the process environments the formatter / parser run in
          NoUTF8,     \* those of them whose locale variables do not select UTF-8
          FullEnvs,   \* those in which machine "fmt" explores EVERY cell (in the others: the EnvCell ones)
          LocaleMicro \* FALSE = the text does not depend on the environment; TRUE = witness (micro sign by locale)

VARIABLE st

----------------------------------------------------------------------------
(* symbols *)
Digit    == {"0", "1", "2", "3", "4", "5", "6", "7", "8", "9"}
DVal     == ("0" :> 0) @@ ("1" :> 1) @@ ("2" :> 2) @@ ("3" :> 3) @@ ("4" :> 4) @@ ("5" :> 5) @@
            ("6" :> 6) @@ ("7" :> 7) @@ ("8" :> 8) @@ ("9" :> 9)
DSym     == <<"0", "1", "2", "3", "4", "5", "6", "7", "8", "9">>      \* DSym[i+1] is digit i
SymBytes(c) == IF c \in {"micro", "greek"} THEN 2 ELSE 1

RECURSIVE Bytes(_)
Bytes(s) == IF s = <<>> THEN 0 ELSE SymBytes(Head(s)) + Bytes(Tail(s))

Pow10(n) == CASE n = 0 -> 1 [] n = 1 -> 10 [] n = 2 -> 100 [] n = 3 -> 1000 [] n = 4 -> 10000
              [] n = 5 -> 100000 [] n = 6 -> 1000000 [] n = 7 -> 10000000 [] n = 8 -> 100000000
              [] n = 9 -> 1000000000

----------------------------------------------------------------------------
(* values: limbs of a nanosecond count *)
Zero == [days |-> 0, secs |-> 0, ns |-> 0]
Lim  == [days |-> 106751, secs |-> 85636, ns |-> 854775808]      \* 2^63 ns
Gt(a, b) == \/ a.days > b.days
            \/ a.days = b.days /\ a.secs > b.secs
            \/ a.days = b.days /\ a.secs = b.secs /\ a.ns > b.ns
Add(a, b) == LET n == a.ns + b.ns
                 s == a.secs + b.secs + (n \div 1000000000)
             IN [days |-> a.days + b.days + (s \div 86400), secs |-> s % 86400, ns |-> n % 1000000000]

\* a parse result / an abstract duration:  ok, out-of-domain flag, sign and magnitude
Res(ok, neg, m) == [ok |-> ok, ood |-> FALSE, neg |-> neg /\ m # Zero, days |-> m.days, secs |-> m.secs, ns |-> m.ns]
Reject  == Res(FALSE, FALSE, Zero)
Unknown == [Reject EXCEPT !.ood = TRUE]

----------------------------------------------------------------------------
(* units *)
UnitDefs == { [name |-> <<"n", "s">>,     secs |-> 0,     e |-> 0],
              [name |-> <<"u", "s">>,     secs |-> 0,     e |-> 3],
              [name |-> <<"micro", "s">>, secs |-> 0,     e |-> 3],
              [name |-> <<"greek", "s">>, secs |-> 0,     e |-> 3],
              [name |-> <<"m", "s">>,     secs |-> 0,     e |-> 6],
              [name |-> <<"s">>,          secs |-> 1,     e |-> 9],
              [name |-> <<"m">>,          secs |-> 60,    e |-> 9],
              [name |-> <<"h">>,          secs |-> 3600,  e |-> 9],
              [name |-> <<"d">>,          secs |-> 86400, e |-> 9] }
Def(u)   == CHOOSE r \in UnitDefs : r.name = u
DayUnit  == <<"d">>
LibUnits == {r.name : r \in UnitDefs}
StdUnits == LibUnits \ {DayUnit}            \* "differs only by additionally understanding the day unit"

\* v whole units (v < 2^31)
IntTerm(v, r) ==
    IF r.secs > 0
    THEN LET per == 86400 \div r.secs IN [days |-> v \div per, secs |-> (v % per) * r.secs, ns |-> 0]
    ELSE LET p == Pow10(9 - r.e)
             s == v \div p
         IN [days |-> s \div 86400, secs |-> s % 86400, ns |-> (v % p) * Pow10(r.e)]

\* the fraction 0.f (k digits) of a unit: floor(f * unit / 10^k)
FracDomain(k, r) == k <= (CASE r.secs = 60 -> 7 [] r.secs = 3600 -> 5 [] r.secs = 86400 -> 4 [] OTHER -> 9)
FracTerm(f, k, r) ==
    IF r.secs > 0
    THEN LET t == f * r.secs IN [days |-> 0, secs |-> t \div Pow10(k), ns |-> (t % Pow10(k)) * Pow10(9 - k)]
    ELSE [days |-> 0, secs |-> 0, ns |-> IF k <= r.e THEN f * Pow10(r.e - k) ELSE f \div Pow10(k - r.e)]

ASSUME DayIs24h == /\ \A v \in {0, 1, 2, 7, 100, 106751, 106752, 89478485} :
                         IntTerm(v, Def(DayUnit)) = IntTerm(24 * v, Def(<<"h">>))
                   /\ FracTerm(5, 1, Def(DayUnit)) = IntTerm(12, Def(<<"h">>))
                   /\ FracTerm(25, 2, Def(DayUnit)) = IntTerm(6, Def(<<"h">>))
                   /\ FracTerm(1, 4, Def(DayUnit)) = FracTerm(24, 4, Def(<<"h">>))

----------------------------------------------------------------------------
(* the parser as a symbol-at-a-time machine.
   ph: "start" nothing read, "signed" only the sign, "int" in [0-9]*, "frac" after '.',
       "unit" in the unit letters, "rej" rejected for good, "ood" outside the model's arithmetic *)
Blank == [ph |-> "start", neg |-> FALSE, tot |-> Zero, v |-> 0, nv |-> 0, f |-> 0, k |-> 0,
          u |-> <<>>, nt |-> 0, day |-> FALSE]
Rej == [Blank EXCEPT !.ph = "rej"]
Ood == [Blank EXCEPT !.ph = "ood"]

PrefixOf(a, b) == Len(a) <= Len(b) /\ SubSeq(b, 1, Len(a)) = a

TermStart(p, c) ==
    IF c \in Digit THEN [p EXCEPT !.ph = "int", !.v = DVal[c], !.nv = 1, !.f = 0, !.k = 0, !.u = <<>>]
    ELSE IF c = "." THEN [p EXCEPT !.ph = "frac", !.v = 0, !.nv = 0, !.f = 0, !.k = 0, !.u = <<>>]
    ELSE Rej                                                     \* "the next character must be [0-9.]"

\* a unit never becomes known again once it is not a prefix of a known one, and whatever ends
\* the unit token then reports "unknown unit": reject at once
ExtendUnit(p, c, Units) ==
    LET u2 == Append(p.u, c)
    IN IF \E n \in Units : PrefixOf(u2, n) THEN [p EXCEPT !.ph = "unit", !.u = u2] ELSE Rej

\* the unit token ended: value of the term, overflow checks (v*unit, + fraction, running sum > 2^63)
FinishTerm(p, Units) ==
    IF p.u \notin Units THEN Rej
    ELSE LET r == Def(p.u) IN
         IF p.f > 0 /\ ~FracDomain(p.k, r) THEN Ood
         ELSE LET iv == IntTerm(p.v, r) IN
              IF Gt(iv, Lim) THEN Rej
              ELSE LET tv == IF p.f > 0 THEN Add(iv, FracTerm(p.f, p.k, r)) ELSE iv IN
                   IF Gt(tv, Lim) THEN Rej
                   ELSE LET sum == Add(p.tot, tv) IN
                        IF Gt(sum, Lim) THEN Rej
                        ELSE [p EXCEPT !.ph = "term", !.tot = sum, !.nt = @ + 1, !.day = @ \/ p.u = DayUnit]

Feed(p, c, Units) ==
    CASE p.ph = "rej"    -> Rej
      [] p.ph = "ood"    -> Ood
      [] p.ph = "start"  -> IF c \in {"+", "-"} THEN [p EXCEPT !.ph = "signed", !.neg = (c = "-")] ELSE TermStart(p, c)
      [] p.ph = "signed" -> TermStart(p, c)
      [] p.ph = "int"    -> IF c \in Digit THEN (IF p.nv >= 9 THEN Ood ELSE [p EXCEPT !.v = @ * 10 + DVal[c], !.nv = @ + 1])
                            ELSE IF c = "." THEN [p EXCEPT !.ph = "frac"]
                            ELSE ExtendUnit(p, c, Units)
      [] p.ph = "frac"   -> IF c \in Digit THEN (IF p.k >= 9 THEN Ood ELSE [p EXCEPT !.f = @ * 10 + DVal[c], !.k = @ + 1])
                            ELSE IF c = "." THEN Rej                        \* "1..": missing unit
                            ELSE IF p.nv = 0 /\ p.k = 0 THEN Rej            \* ".s": no digits at all
                            ELSE ExtendUnit(p, c, Units)
      [] p.ph = "unit"   -> IF c \in Digit \/ c = "."
                            THEN LET q == FinishTerm(p, Units) IN IF q.ph \in {"rej", "ood"} THEN q ELSE TermStart(q, c)
                            ELSE ExtendUnit(p, c, Units)

\* verdict if the input ends here
End(p, Units) ==
    CASE p.ph = "ood"  -> Unknown
      [] p.ph = "int"  -> IF p.nt = 0 /\ p.nv = 1 /\ p.v = 0 THEN Res(TRUE, FALSE, Zero)   \* [-+]?0
                          ELSE Reject                                                      \* missing unit
      [] p.ph = "unit" -> LET q == FinishTerm(p, Units) IN
                          IF q.ph = "ood" THEN Unknown
                          ELSE IF q.ph = "rej" THEN Reject
                          ELSE IF ~q.neg /\ q.tot = Lim THEN Reject                        \* +2^63 does not fit
                          ELSE Res(TRUE, q.neg, q.tot)
      [] OTHER         -> Reject                                                           \* "", "+", "1.", rej

RECURSIVE Run(_, _, _, _)
Run(p, s, i, Units) == IF i > Len(s) THEN p ELSE Run(Feed(p, s[i], Units), s, i + 1, Units)
ParseSyms(s, Units) == End(Run(Blank, s, 1, Units), Units)

----------------------------------------------------------------------------
(* formatter cells and the text the formatter writes *)
Comps == <<"d", "h", "m", "s", "ms", "us", "ns">>
ValOf(c) == [days |-> c.d, secs |-> c.h * 3600 + c.m * 60 + c.s, ns |-> c.ms * 1000000 + c.us * 1000 + c.ns]
CellRes(c) == Res(TRUE, c.neg, ValOf(c))
\* representable as int64: magnitude < 2^63, or = 2^63 when negative; no negative zero
InRange(c) == LET v == ValOf(c) IN /\ ~Gt(v, Lim)
                                   /\ v = Lim => c.neg
                                   /\ v = Zero => ~c.neg
Cells == {c \in [neg : BOOLEAN, d : CellSets.d, h : CellSets.h, m : CellSets.m, s : CellSets.s,
                 ms : CellSets.ms, us : CellSets.us, ns : CellSets.ns] : InRange(c)}
Styles == {"compact", "frac"}

RECURSIVE Digits(_)
Digits(n) == IF n < 10 THEN <<DSym[n + 1]>> ELSE Append(Digits(n \div 10), DSym[(n % 10) + 1])

\* ".ddd" of v / 10^prec without trailing zeros; empty when the fraction is zero
RECURSIVE FracDigits(_, _)
FracDigits(v, prec) ==
    IF v = 0 \/ prec = 0 THEN <<>>
    ELSE IF v % 10 = 0 THEN FracDigits(v \div 10, prec - 1)
    ELSE LET RECURSIVE Pad(_, _)
             Pad(x, n) == IF n = 0 THEN <<>> ELSE Append(Pad(x \div 10, n - 1), DSym[(x % 10) + 1])
         IN <<".">> \o Pad(v, prec)

Tok(n, unit) == IF n > 0 THEN <<Digits(n) \o unit>> ELSE <<>>

\* chunks in text order (the implementation writes them last to first); mSub / mTok: how the micro
\* prefix is spelled in the one-number form below a second (a chunk of its own) and in a compact token
ChunksWith(c, style, mSub, mTok) ==
    LET sub  == c.ms * 1000000 + c.us * 1000 + c.ns
        sign == IF c.neg THEN <<(<<"-">>)>> ELSE <<>>
    IN IF c.d = 0 /\ c.h = 0 /\ c.m = 0 /\ c.s = 0
       THEN \* below one second both styles print one number in the largest non-zero unit
            sign \o (IF sub = 0 THEN << <<"0">>, <<"s">> >>
                     ELSE IF c.ms > 0 THEN << Digits(c.ms) \o FracDigits(c.us * 1000 + c.ns, 6), <<"m">>, <<"s">> >>
                     ELSE IF c.us > 0 THEN << Digits(c.us) \o FracDigits(c.ns, 3), mSub, <<"s">> >>
                     ELSE << Digits(c.ns), <<"n">>, <<"s">> >>)
       ELSE IF style = "frac"
       THEN LET hh == c.d * 24 + c.h IN
            sign \o Tok(hh, <<"h">>)
                 \o (IF hh > 0 \/ c.m > 0 THEN <<Digits(c.m) \o <<"m">> >> ELSE <<>>)
                 \o << Digits(c.s), FracDigits(sub, 9), <<"s">> >>
       ELSE sign \o Tok(c.d, <<"d">>) \o Tok(c.h, <<"h">>) \o Tok(c.m, <<"m">>) \o Tok(c.s, <<"s">>)
                 \o Tok(c.ms, <<"m", "s">>) \o Tok(c.us, mTok \o <<"s">>) \o Tok(c.ns, <<"n", "s">>)

\* THE text of a cell: no environment argument
Chunks(c, style) == ChunksWith(c, style, <<"micro">>, <<"micro">>)
\* what the writer writes in environment env (witness: "u" - and, below a second, the second of the two
\* reserved bytes left as it was - where the locale is not UTF-8)
ChunksIn(env, c, style) ==
    IF LocaleMicro /\ env \in NoUTF8 THEN ChunksWith(c, style, <<"u", "x">>, <<"u">>) ELSE Chunks(c, style)

RECURSIVE Flat(_)
Flat(ch) == IF ch = <<>> THEN <<>> ELSE Head(ch) \o Flat(Tail(ch))
Format(c, style) == Flat(Chunks(c, style))
Need(c, style)   == Bytes(Format(c, style))             \* bytes the text occupies

----------------------------------------------------------------------------
(* machine "fmt": the right-to-left writer *)
\* cells explored in every environment: everything below one second (all ms/us/ns combinations) and
\* every cell whose d, h, m, s are 0 or the largest value of their sets (the extremes: longest texts)
EnvCell(c) == \A k \in {"d", "h", "m", "s"} : c[k] = 0 \/ \A x \in CellSets[k] : x <= c[k]
FmtInit == \E c \in Cells, sty \in Styles, env \in Envs :
              /\ env \in FullEnvs \/ EnvCell(c)
              /\ st = [cell |-> c, style |-> sty, env |-> env, todo |-> ChunksIn(env, c, sty), w |-> BufLen, out |-> <<>>]
Write == /\ Machine = "fmt"
         /\ st.todo # <<>>
         /\ LET ch == st.todo[Len(st.todo)]
            IN st' = [st EXCEPT !.todo = SubSeq(@, 1, Len(@) - 1), !.w = @ - Bytes(ch), !.out = ch \o @]
FmtDone == st.todo = <<>>

InBuffer  == st.w >= 0
RoundTrip == FmtDone => ParseSyms(st.out, LibUnits) = CellRes(st.cell)
StdReads  == FmtDone /\ (\A i \in 1..Len(st.out) : st.out[i] # "d") => ParseSyms(st.out, StdUnits) = CellRes(st.cell)
FmtShape  == FmtDone => st.out = Format(st.cell, st.style) /\ BufLen - st.w = Need(st.cell, st.style)
\* the text is a function of the duration and the style only: whatever the environment, the finished
\* text is THE text of the cell (and so reads back as the cell, by RoundTrip)
EnvFree   == FmtDone => st.out = Format(st.cell, st.style) /\ ParseSyms(st.out, LibUnits) = CellRes(st.cell)
ASSUME EnvConstants == NoUTF8 \subseteq Envs /\ FullEnvs \subseteq Envs /\ FullEnvs # {} /\ LocaleMicro \in BOOLEAN

(* machine "parse": library and standard parser in lock step *)
ParseInit == st = [n |-> 0, lib |-> Blank, std |-> Blank]
Sink      == [n |-> MaxLen, lib |-> Rej, std |-> Rej]
FeedBoth(c) == /\ Machine = "parse"
               /\ st.n < MaxLen
               /\ LET l == Feed(st.lib, c, LibUnits)
                      s == Feed(st.std, c, StdUnits)
                  IN st' = IF l.ph = "rej" /\ s.ph = "rej" THEN Sink ELSE [n |-> st.n + 1, lib |-> l, std |-> s]

DayUsed(p) == p.day \/ (p.ph = "unit" /\ PrefixOf(DayUnit, p.u))
AcceptSameAsStd ==
    LET rl == End(st.lib, LibUnits)
        rs == End(st.std, StdUnits)
    IN IF DayUsed(st.lib) THEN ~rs.ok /\ st.std.ph = "rej"
       ELSE rl = rs /\ st.lib = st.std
ResultWellFormed ==
    LET rl == End(st.lib, LibUnits)
    IN /\ MaxLen <= 6 => ~rl.ood                                \* short inputs stay inside the domain
       /\ ~rl.ok => rl = Reject
       /\ rl.ok => ~Gt([days |-> rl.days, secs |-> rl.secs, ns |-> rl.ns], Lim) /\ rl.secs < 86400 /\ rl.ns < 1000000000
RejectIsFinal == [][st.lib.ph = "rej" => st'.lib.ph = "rej"]_st

ParseAlias == [j |-> ToJson([n |-> st.n, lib |-> End(st.lib, LibUnits), std |-> End(st.std, StdUnits),
                             day |-> DayUsed(st.lib), dead |-> (st.lib.ph = "rej" /\ st.std.ph = "rej")])]


(* machine "hist": histories of formatter / parser calls.
   An operation is a record [o, i, style, j]:  o = "fmt" (cell HCells[i], style), "parse" (j-th
   retained text), "lit" (HLits[i]), "drop" (j-th retained text).  A retained text is
   [cell, style, text]. *)
HOp(o, i, sty, j) == [o |-> o, i |-> i, style |-> sty, j |-> j]
RemoveAt(q, j) == SubSeq(q, 1, j - 1) \o SubSeq(q, j + 1, Len(q))

\* functional core (also used by the trace monitor, with the text the real formatter returned)
HFmtOK(c, text)    == ParseSyms(text, LibUnits) = CellRes(c)            \* a correct answer of the formatter
HParseRes(text)    == ParseSyms(text, LibUnits)                         \* the answer of the parser: a function of the text
HApply(H, o, j, c, sty, text) ==                                        \* the retained texts after the call
    CASE o = "fmt"  -> Append(H, [cell |-> c, style |-> sty, text |-> text])
      [] o = "drop" -> RemoveAt(H, j)
      [] OTHER      -> H

\* witness semantics: one shared scratch array, written right-aligned; a retained text of n symbols
\* reads its last n symbols
Overlay(scr, text) == IF Len(text) >= Len(scr) THEN text ELSE SubSeq(scr, 1, Len(scr) - Len(text)) \o text
LastN(q, n)        == SubSeq(q, Len(q) - n + 1, Len(q))

\* the retained texts after the first n calls of a history (each text as the model formats it)
RECURSIVE HeldAfter(_, _)
HeldAfter(calls, n) ==
    IF n = 0 THEN <<>>
    ELSE LET op == calls[n]
             c  == IF op.o = "fmt" THEN HCells[op.i] ELSE 0
         IN HApply(HeldAfter(calls, n - 1), op.o, op.j, c, op.style, IF op.o = "fmt" THEN Format(c, op.style) ELSE <<>>)
Held(s) == HeldAfter(s.calls, Len(s.calls))
TextNow(s, j) == LET t == Held(s)[j].text IN IF Aliased THEN LastN(s.scratch, Len(t)) ELSE t

\* state: the history, the result of its last call (fmt: the text as returned, parse/lit: the value)
\* and - witness semantics only - the shared scratch
HistInit == st = [calls |-> <<>>, scratch |-> <<>>, text |-> <<>>, res |-> Reject]
HDo(op) ==
    /\ Len(st.calls) < MaxCalls
    /\ LET text == IF op.o = "fmt" THEN Format(HCells[op.i], op.style) ELSE <<>>
           scr  == IF Aliased /\ op.o = "fmt" THEN Overlay(st.scratch, text) ELSE st.scratch
       IN st' = [calls   |-> Append(st.calls, op),
                 scratch |-> scr,
                 text    |-> IF Aliased THEN LastN(scr, Len(text)) ELSE text,
                 res     |-> CASE op.o = "parse" -> HParseRes(TextNow(st, op.j))
                               [] op.o = "lit"   -> HParseRes(HLits[op.i])
                               [] OTHER          -> Reject]
NHeld == Len(Held(st))
HFormat(i, sty) == Machine = "hist" /\ HDo(HOp("fmt", i, sty, 0))
HParse(j)       == Machine = "hist" /\ j <= NHeld /\ HDo(HOp("parse", 0, "", j))
HParseLit(k)    == Machine = "hist" /\ HDo(HOp("lit", k, "", 0))
HDrop(j)        == Machine = "hist" /\ j <= NHeld /\ HDo(HOp("drop", 0, "", j))

Retained    == \A j \in 1..NHeld : HFmtOK(Held(st)[j].cell, TextNow(st, j))
TextIsValue == \A j \in 1..NHeld : TextNow(st, j) = Format(Held(st)[j].cell, Held(st)[j].style)
\* the result of a call is the one-call-at-a-time result, whatever happened before
HistoryFree == st.calls # <<>> =>
    LET n  == Len(st.calls)
        op == st.calls[n]
    IN CASE op.o = "fmt"   -> st.text = Format(HCells[op.i], op.style) /\ HFmtOK(HCells[op.i], st.text)
         [] op.o = "lit"   -> st.res = ParseSyms(HLits[op.i], LibUnits)
         [] op.o = "parse" -> st.res = CellRes(HeldAfter(st.calls, n - 1)[op.j].cell)     \* its own duration
         [] OTHER          -> TRUE
ASSUME HistConstants == Machine = "hist" => /\ \A i \in 1..Len(HCells) : HCells[i] \in Cells
                                            /\ MaxCalls \in 1..8 /\ Aliased \in BOOLEAN
HistAlias == [j |-> ToJson([n |-> Len(st.calls), held |-> NHeld])]

----------------------------------------------------------------------------
Init == CASE Machine = "fmt" -> FmtInit [] Machine = "hist" -> HistInit [] OTHER -> ParseInit
Next == \/ Write
        \/ \E c \in Alphabet : FeedBoth(c)
        \/ \E i \in 1..Len(HCells), sty \in Styles : HFormat(i, sty)
        \/ \E j \in 1..MaxCalls : HParse(j)
        \/ \E k \in 1..Len(HLits) : HParseLit(k)
        \/ \E j \in 1..MaxCalls : HDrop(j)
Spec == Init /\ [][Next]_st
=============================================================================
