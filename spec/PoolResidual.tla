--------------------------- MODULE PoolResidual ---------------------------
(* History independence (property C09): the bytes of a record are a function of that call alone.

   The only carrier of history is the pooled PrintCtx object: a record's formatting starts from
   whatever the previous user of the object left in its per-record fields.  The model keeps, per
   field, the value left behind ("residual") and transcribes, per formatting path, which fields are
   (re)initialised before use (set/setentry or the path itself) and which are read.

   Fields:  clr, bg      colours of the level tag and message; set from the level's registered
                         colours when the level has any
            rest, eol    remaining message lines / trailing-newline flag (colored path)
            prefix, grp  key prefix and grouped-mode flag while printing attributes
            src          cached source location
   Record classes (what a call looks like to these fields):
            fmt   "logfmt" | "json" | "color"
            col   "fgbg" | "fg" | "none"     does the severity have registered colours
            ml    multi-line message?
            ga    prints a group attribute?
   ResetBySet: the fields re-initialised for every record (constant: what set()/setentry() do).
   The property holds iff every field a path reads was written earlier in the same record.         *)
EXTENDS Integers, Sequences, FiniteSets, TLC

CONSTANTS ResetBySet,     \* subset of Fields re-initialised at the start of every record
          MaxHist         \* history length explored

Fields == {"clr", "bg", "rest", "eol", "prefix", "grp", "src"}
Fmts == {"logfmt", "json", "color"}
Cols == {"fgbg", "fg", "none"}
Classes == [fmt : Fmts, col : Cols, ml : BOOLEAN, ga : BOOLEAN]

VARIABLES res,     \* res[f]: abstract value left in field f ("init" in a fresh object)
          hist     \* classes formatted so far (bounded)

Fresh == [f \in Fields |-> "init"]

\* value a record of class c writes into field f (if it writes it at all)
Writes(c, f) ==
    CASE f = "clr" -> IF c.fmt = "color" /\ c.col # "none" THEN {"c:" \o c.col} ELSE {}
      [] f = "bg" -> IF c.fmt = "color" /\ c.col = "fgbg" THEN {"b:fgbg"} ELSE {}
      [] f = "rest" -> IF c.fmt = "color" THEN {IF c.ml THEN "lines" ELSE "none"} ELSE {}
      [] f = "eol" -> IF c.fmt = "color" THEN {IF c.ml THEN "eol" ELSE "noeol"} ELSE {}
      [] f = "prefix" -> {"init"}          \* restored to the empty prefix after every attribute
      [] f = "grp" -> {"init"}             \* reset to false by every plain attribute, never set on the object
      [] f = "src" -> {"this-call"}
\* fields whose incoming value influences the bytes of a record of class c
Reads(c) ==
    (IF c.fmt = "color" THEN {"clr", "bg"} ELSE {})          \* colours wrap tag, message and attributes
    \cup (IF c.fmt = "color" THEN {} ELSE {})                 \* rest/eol are written before they are read
    \cup {"prefix", "grp"}                                    \* read at the start of attribute printing

\* value field f has when the record of class c starts reading it
AtStart(r, f) == IF f \in ResetBySet THEN "init" ELSE r[f]
Seen(r, c) == [f \in Reads(c) |-> IF Writes(c, f) # {} /\ f \in {"clr", "bg"} THEN CHOOSE v \in Writes(c, f) : TRUE ELSE AtStart(r, f)]

After(r, c) == [f \in Fields |-> IF Writes(c, f) # {} THEN CHOOSE v \in Writes(c, f) : TRUE ELSE AtStart(r, f)]

Init == res = Fresh /\ hist = <<>>
Record(c) == /\ Len(hist) < MaxHist
             /\ res' = After(res, c)
             /\ hist' = Append(hist, c)
Next == \E c \in Classes : Record(c)
Spec == Init /\ [][Next]_<<res, hist>>

\* C09: whatever was formatted before, every probe sees what it would see on a fresh object
HistoryIndependent == \A p \in Classes : Seen(res, p) = Seen(Fresh, p)

\* the residual state as a view (histories leading to the same residual state are equivalent)
View == res
=============================================================================
