--------------------------- MODULE PoolResidual ---------------------------
(* History independence (property C09): the bytes of a record are a function of that call alone.

   The only carrier of history is the pooled PrintCtx object: a record's formatting starts from
   whatever the previous user of the object left in its per-record fields.  The model keeps, per
   field, the value left behind ("residual") and transcribes, per formatting path, which fields are
   (re)initialised before use (set/setentry or the path itself) and which are read.

   Fields:  clr, bg      colours of the level tag and message; set from the level's registered
                         colours when the level has any
            rest, eol    remaining message lines / trailing-newline flag (colored path)
            prefix, grp  key prefix and grouped-mode flag while printing attributes
            src          cached source location
   Record classes (what a call looks like to these fields):
            fmt   "logfmt" | "json" | "color"
            col   "fgbg" | "fg" | "none"     does the severity have registered colours
            ml    multi-line message?
            ga    prints a group attribute?
   ResetBySet: the fields re-initialised for every record (constant: what set()/setentry() do).
   The property holds iff every field a path reads was written earlier in the same record.

   "A FUNCTION of that call alone" also means: the same call has ONE result.  The one member of a
   record that is computed from process-global tables is the caller's file name (path hardening,
   property C18): the table holds $HOME -> "~" and start directory -> "." from process start, and
   in the process environment "nested" - the program runs from a directory below $HOME, the
   usual case of go run / go test - both cover the call site's file.  env is that environment
   (chosen at start, never changes); FileForms(env) the forms the file name may take for ONE call:
            CallerFile = "function"   one form whatever the environment (the innermost directory
                                      is replaced)
            CallerFile = "maporder"   the table is folded in map iteration order: in the nested
                                      environment the file comes out as ./x.go or as ~/proj/x.go,
                                      from one call to the next (what library revision ed9a368 does)
   The caller's FUNCTION name is rewritten the same way from the table of code hosting providers
   ("github.com" -> "GH"; coloured records, flag Lcallerpackagename): environment "providers" - the
   program registered a provider below a built-in one ("github.com/acme"), so two entries match the
   name of the call site's function.  The same constant describes both tables.
   FunctionOfCall: every probe has exactly one observation, in every environment.                  *)
EXTENDS Integers, Sequences, FiniteSets, TLC

CONSTANTS ResetBySet,     \* subset of Fields re-initialised at the start of every record
          MaxHist,        \* history length explored
          CallerFile      \* "function" | "maporder": how the caller's file name is hardened

Fields == {"clr", "bg", "rest", "eol", "prefix", "grp", "src"}
Fmts == {"logfmt", "json", "color"}
Cols == {"fgbg", "fg", "none"}
Classes == [fmt : Fmts, col : Cols, ml : BOOLEAN, ga : BOOLEAN]

VARIABLES res,     \* res[f]: abstract value left in field f ("init" in a fresh object)
          hist,    \* classes formatted so far (bounded)
          env      \* process environment: "flat" | "nested" (default protected directories nested above the call
                   \* site) | "providers" (overlapping hosting providers match the call site's function name)

Envs == {"flat", "nested", "providers"}
\* the forms the caller's file / function name of one and the same call may take
FileForms(e) == IF CallerFile = "maporder" /\ e \in {"nested", "providers"} THEN {"inner-short-form", "outer-short-form"} ELSE {"inner-short-form"}

Fresh == [f \in Fields |-> "init"]

\* value a record of class c writes into field f (if it writes it at all)
Writes(c, f) ==
    CASE f = "clr" -> IF c.fmt = "color" /\ c.col # "none" THEN {"c:" \o c.col} ELSE {}
      [] f = "bg" -> IF c.fmt = "color" /\ c.col = "fgbg" THEN {"b:fgbg"} ELSE {}
      [] f = "rest" -> IF c.fmt = "color" THEN {IF c.ml THEN "lines" ELSE "none"} ELSE {}
      [] f = "eol" -> IF c.fmt = "color" THEN {IF c.ml THEN "eol" ELSE "noeol"} ELSE {}
      [] f = "prefix" -> {"init"}          \* restored to the empty prefix after every attribute
      [] f = "grp" -> {"init"}             \* reset to false by every plain attribute, never set on the object
      [] f = "src" -> {"this-call"}
\* fields whose incoming value influences the bytes of a record of class c
Reads(c) ==
    (IF c.fmt = "color" THEN {"clr", "bg"} ELSE {})          \* colours wrap tag, message and attributes
    \cup (IF c.fmt = "color" THEN {} ELSE {})                 \* rest/eol are written before they are read
    \cup {"prefix", "grp"}                                    \* read at the start of attribute printing

\* value field f has when the record of class c starts reading it
AtStart(r, f) == IF f \in ResetBySet THEN "init" ELSE r[f]
Seen(r, c) == [f \in Reads(c) |-> IF Writes(c, f) # {} /\ f \in {"clr", "bg"} THEN CHOOSE v \in Writes(c, f) : TRUE ELSE AtStart(r, f)]

After(r, c) == [f \in Fields |-> IF Writes(c, f) # {} THEN CHOOSE v \in Writes(c, f) : TRUE ELSE AtStart(r, f)]

\* everything a probe of class p shows of the state it starts from and of the environment: a SET (one
\* element per result the same call may have)
Obs(r, p, e) == {[seen |-> Seen(r, p), file |-> f] : f \in FileForms(e)}

Init == res = Fresh /\ hist = <<>> /\ env \in Envs
Record(c) == /\ Len(hist) < MaxHist
             /\ res' = After(res, c)
             /\ hist' = Append(hist, c)
             /\ env' = env
Next == \E c \in Classes : Record(c)
Spec == Init /\ [][Next]_<<res, hist, env>>

\* C09: whatever was formatted before, every probe sees what it would see on a fresh object
HistoryIndependent == \A p \in Classes : Seen(res, p) = Seen(Fresh, p)

\* C09, "a function of that call alone": one observation per probe, the one of a fresh object
FunctionOfCall == \A p \in Classes : Obs(res, p, env) = Obs(Fresh, p, env) /\ Cardinality(Obs(res, p, env)) = 1

\* the residual state as a view (histories leading to the same residual state are equivalent)
View == <<res, env>>
=============================================================================
