------------------------------- MODULE Paths -------------------------------
(* C18 - path hardening of hedzr/logg/slog (Safety, SafetyFiles, the caller.file member of
   records; Add/Remove/Reset of known-path and known-path-regexp mappings; the flags
   Lprivacypath / Lprivacypathregexp).

   WHAT IS MODELLED
   A path is a byte string: a sequence over 0..255 (47 is '/').  Segments are the pieces
   between slashes (Split); both views are used - the rewriting rule is written on the byte
   string, the property invariants on the segment view, and TLC checks that they agree.
   Paths and registered directories may be ABSOLUTE or RELATIVE ("for all absolute and relative
   path strings"): "p lies under directory k" is the textual relation - the segments of k are
   the leading segments of p - so a relative directory (build/proj, github.com/acme - the file
   names of a -trimpath build) protects the relative paths that begin with it, an absolute one
   the absolute paths; neither covers a path of the other kind (nothing is resolved against
   a working directory for this relation).

   The abstract state `st` (functional core: Apply(s, e) is the successor for the public
   call e, Outputs(s, p, D) the SET of results allowed for a query of path p):
     tab   the registered prefix table: function  directory (byte string) -> short form.
           At process start it holds  $HOME -> "~"  and  cwd -> "."  (init.go).
     rx    the registered regexp mappings in registration order (a sequence of records
           [anch, lit, wild, repl] standing for  ^?<lit>([^/]+/)?  -> repl ); at start the
           built-in  /Volumes/[^/]+/ -> "~".
     wd    the CURRENT working directory of the process (byte string, absolute).  Cwd at
           start; the action Chdir(d) changes it.  The table is NOT touched by Chdir: the preset
           entry  cwd -> "."  keeps the START directory for the life of the process.
           The working directory may also be LOST (action LoseWd: the directory the process
           stands in is removed underneath it - a cleaned-up build or temp directory, a
           container volume that went away; os.Getwd then fails): wd = LOST, the value "lost".
           A later Chdir gives the process a working directory again.
     fp    flag Lprivacypath       (on by default)
     fr    flag Lprivacypathregexp (on by default, removed by init() in a testing/debug process)

   Outputs(s, p, D), the query:
     1. prefix stage (fp on): an entry k -> v applies to the path p when p lies under directory
        k - prefix match AT A SEGMENT BOUNDARY (Under) - and replaces ONLY that prefix
        (v \o Rest(p, k)).  When several registered directories cover p they are NESTED (they are
        all leading directories of p), and exactly one result satisfies the statement for every one
        of them: the INNERMOST directory is replaced by its short form - then no covering directory
        is reported, neither as the prefix nor by name behind another short form.  Rewriting an
        outer directory first would leave the inner protected directory in the clear
        ("/" -> "." and $HOME: "./root/work/a.go"; $HOME and $HOME/work -> "~work": "~/work/w.go").
        So the stage is a FUNCTION of the table and the path: "for every iteration order of the
        mapping table" the result is the same (OrderIndependent).
        $HOME stays protected whatever was removed from the table (the property names the
        home directory separately from the registered mappings); an empty $HOME protects
        nothing.
     2. regexp stage (fp on): fr on -> every registered regexp in registration order;
        fr off -> nothing: with the regexp flag off no regexp rule, registered or built in, touches
        the path (RegexpGated), so a path under no prefix mapping is then outside all mappings.
     3. if the result is still absolute it may be returned as Rel(wd, p) - relative to the
        CURRENT working directory, or it would not be an equivalent path - when that is a
        strictly shorter string ("unchanged or a shorter equivalent relative path": both are
        allowed, so this is a set).  A relative input is never touched by this step.
        While the working directory is LOST no relative form can be computed: the step does
        nothing - and steps 1 and 2 are applied all the same (the statement makes the hardening
        depend on the flag and the mappings, not on the process having a working directory).
   fp off: only step 3.

   DEVIATIONS (section 5 of DESIGN.md).  D is a set of named deviations describing what the
   pinned code does instead; the property invariants are checked with D = {} and each
   deviation must make an invariant FAIL (witness configurations):
     "NoBoundary"  match by strings.HasPrefix without looking at the segment boundary
     "ReplaceAll"  strings.ReplaceAll: every occurrence of the directory string is rewritten
     "RawTable"    the raw table is used: $HOME is exposed after Reset/Remove, and an unset
                   $HOME registers the empty string as a prefix
   AllDevs together is the behaviour of the tree the check was first built on; the trace
   specification uses it only to NAME the class of a divergence (DevClass) - a divergence that
   AllDevs does not explain either is "unexplained".
   BuiltDevs: two further deviations that describe what library revision ed9a368 does (found by
   independent auditors, not by this model, which had the as-built reading built in):
     "MapOrder"    the prefix stage is a fold over the table in MAP ITERATION ORDER, each entry
                   applied to the output of the previous one (FoldAll explores every order): with
                   nested directories the result depends on the order, and when the outer entry
                   is visited first the inner protected directory is reported in the clear
     "HardVol"     while Lprivacypathregexp is off a hard-wired copy of the factory rule
                   /Volumes/<vol>/rest -> ~/rest  is applied, whatever is (not) registered
   Two further deviations are not as-built; they exist to show (witness configurations) that
   the invariants really constrain the two dimensions "relative paths" and "working directory
   changed after start", and to name such a divergence should it ever be observed:
     "StopRel"     the scan of the table ends as soon as the current string is not absolute
                   (relative paths see only the entry that happens to be visited first)
     "StaleWd"     step 3 uses the working directory of process start instead of the current one
     "LostWdRaw"   while the working directory is lost the path is handed back as it came in
                   (the failing os.Getwd is taken as "nothing can be done" before the hardened
                   string is returned)

   WHICH OPERATOR STATES WHICH PART OF THE PROPERTY
     NoProtectedPrefix   "a path under $HOME or under a registered mapping is never reported
                          with that directory prefix" (flag on)
     ShortFormUsed       "the prefix is replaced by its short form" (and nothing else changes)
     OutsideUnchanged    "paths outside all mappings are returned unchanged or as a shorter
                          equivalent relative path" (also: flag off => nothing is rewritten);
                          equivalent = names the same file from the CURRENT working directory
     Total               "never panics": every query has a result, a byte string
                          with nested mappings it is the INNERMOST one that is replaced
     InnerDirHidden      no covering directory is reported by NAME either: the result never ends
                          with <last segment of a covering directory>/<rest of the path below it>
     OrderIndependent    "for every iteration order of the mapping table": the prefix stage has
                          exactly one result
     OrderOnlyIfNested   (about the deviation MapOrder, used for the coverage statistics) folding in
                          map order gives more than one result only where two mappings cover the path
     RegexpGated         with Lprivacypathregexp off the registered regexps have no effect
     LostWdHardened      without a working directory the result is exactly the hardened string
                         (steps 1 and 2), never the raw input of a protected path, never a relative form
     UnderAgree          byte-string and segment formulations of "lies under" coincide       *)
EXTENDS Integers, Sequences, FiniteSets, TLC

CONSTANTS
    Home,       \* $HOME at process start (byte string), <<>> when unset
    Cwd,        \* working directory at process start (byte string)
    Testing,    \* TRUE: the process looks like "go test" to the library
    MapSeq,     \* sequence of user mappings [k |-> dir, v |-> short] the exhaustive model may add
    KeySeq,     \* sequence of directories the exhaustive model may remove
    RxSeq,      \* sequence of regexp mappings the exhaustive model may add / remove
    DirSeq,     \* sequence of (existing, absolute, clean) directories the model may chdir to
    Inputs,     \* set of byte strings queried in every state
    MaxTab,     \* bound: entries in the prefix table
    MaxRx,      \* bound: length of the regexp list
    Acts,       \* enabled action families
    Devs        \* enabled deviations ({} for the property runs)

VARIABLE st

Byte   == 0..255
SLASH  == 47
ROOT   == <<47>>
TILDE  == <<126>>
DOT    == <<46>>
DOTDOT == <<46, 46>>
VOLUMES == <<47, 86, 111, 108, 117, 109, 101, 115, 47>>            \* "/Volumes/"
AllDevs == {"NoBoundary", "ReplaceAll", "RawTable"}
BuiltDevs == {"MapOrder", "HardVol"}
WitDevs == {"StopRel", "StaleWd", "LostWdRaw"}
AllActs == {"AddMap", "RemoveMap", "ResetMap", "AddRx", "RemoveRx", "ResetRx", "SetFlag", "Chdir", "LoseWd"}
LOST    == <<>>      \* the value "lost" of st.wd: the process has no working directory (no byte string is empty AND a directory)

VolRx == [anch |-> FALSE, lit |-> VOLUMES, wild |-> TRUE, repl |-> TILDE]

MinOf(S) == CHOOSE x \in S : \A y \in S : x <= y
MaxOf(S) == CHOOSE x \in S : \A y \in S : x >= y

-----------------------------------------------------------------------------
(* Byte strings *)

HasPrefix(p, k) == Len(k) <= Len(p) /\ SubSeq(p, 1, Len(k)) = k
Drop(p, n) == SubSeq(p, n + 1, Len(p))
Abs(p) == Len(p) > 0 /\ p[1] = SLASH

\* index of the first '/' at position >= from, 0 if none
RECURSIVE FirstSlash(_, _)
FirstSlash(p, from) ==
    IF from > Len(p) THEN 0 ELSE IF p[from] = SLASH THEN from ELSE FirstSlash(p, from + 1)

\* p lies under directory k: k is a prefix of p that ends at a segment boundary; k and p are
\* both absolute or both relative (and not empty)
DirStr(k) == IF k = ROOT THEN <<>> ELSE k
Under(p, k) ==
    /\ k # <<>> /\ p # <<>>
    /\ Abs(p) = Abs(k)
    /\ HasPrefix(p, DirStr(k))
    /\ (Len(p) = Len(DirStr(k)) \/ p[Len(DirStr(k)) + 1] = SLASH)
Rest(p, k) == Drop(p, Len(DirStr(k)))

\* strings.ReplaceAll (an empty `old` matches before every byte and at the end)
RECURSIVE Intersperse(_, _)
Intersperse(p, v) == IF p = <<>> THEN v ELSE v \o <<Head(p)>> \o Intersperse(Tail(p), v)
RECURSIVE RepAll(_, _, _)
RepAll(p, k, v) ==
    IF k = <<>> THEN Intersperse(p, v)
    ELSE IF Len(p) < Len(k) THEN p
    ELSE IF HasPrefix(p, k) THEN v \o RepAll(Drop(p, Len(k)), k, v)
    ELSE <<Head(p)>> \o RepAll(Tail(p), k, v)

-----------------------------------------------------------------------------
(* Segment view, path cleaning, relative paths (filepath.Clean / filepath.Rel on absolute paths) *)

RECURSIVE Split(_)
Split(p) ==
    LET j == FirstSlash(p, 1)
    IN IF j = 0 THEN <<p>> ELSE <<SubSeq(p, 1, j - 1)>> \o Split(Drop(p, j))

RECURSIVE Join(_)
Join(segs) ==
    IF segs = <<>> THEN <<>>
    ELSE IF Len(segs) = 1 THEN segs[1]
    ELSE segs[1] \o <<SLASH>> \o Join(Tail(segs))

RECURSIVE CleanSegs(_, _)
CleanSegs(segs, acc) ==
    IF segs = <<>> THEN acc
    ELSE LET h == Head(segs)
         IN CleanSegs(Tail(segs),
                      IF h = <<>> \/ h = DOT THEN acc
                      ELSE IF h = DOTDOT THEN (IF acc = <<>> THEN acc ELSE SubSeq(acc, 1, Len(acc) - 1))
                      ELSE Append(acc, h))
\* the component list of an absolute path after cleaning: "/a//b/./c/../d" -> <<a, b, d>>
CleanAbs(p) == CleanSegs(Split(p), <<>>)

CommonLen(a, b) ==
    MaxOf({n \in 0..(IF Len(a) < Len(b) THEN Len(a) ELSE Len(b)) : SubSeq(a, 1, n) = SubSeq(b, 1, n)})

CwdSegs == CleanAbs(Cwd)      \* constant: evaluated once

\* filepath.Rel(base, targ) for absolute base and targ
Rel(base, targ) ==
    LET b == IF base = Cwd THEN CwdSegs ELSE CleanAbs(base)      \* base: Cwd or the current wd
        t == CleanAbs(targ)
        c == CommonLen(b, t)
    IN IF b = t THEN DOT
       ELSE Join([x \in 1..(Len(b) - c) |-> DOTDOT] \o SubSeq(t, c + 1, Len(t)))

\* segment formulation of "lies under" (used by the invariants only)
IsPrefixSeq(a, b) == Len(a) <= Len(b) /\ SubSeq(b, 1, Len(a)) = a
DirSegs(k) == IF k = ROOT THEN << <<>> >> ELSE Split(k)
UnderSeg(p, k) == k # <<>> /\ p # <<>> /\ IsPrefixSeq(DirSegs(k), Split(p))

-----------------------------------------------------------------------------
(* State and the configuration calls *)

InitTab == (Cwd :> DOT) @@ (Home :> TILDE)      \* Go map literal: a later duplicate key wins
InitStateWith(fr0) == [tab |-> InitTab, rx |-> <<VolRx>>, wd |-> Cwd, fp |-> TRUE, fr |-> fr0]
InitState == InitStateWith(~Testing)

Without(t, k) == [x \in DOMAIN t \ {k} |-> t[x]]
SameExpr(a, b) == a.anch = b.anch /\ a.lit = b.lit /\ a.wild = b.wild
RemoveFirstRx(rs, r) ==
    LET S == {x \in 1..Len(rs) : SameExpr(rs[x], r)}
    IN IF S = {} THEN rs ELSE SubSeq(rs, 1, MinOf(S) - 1) \o SubSeq(rs, MinOf(S) + 1, Len(rs))

\* the successor of state s for the configuration call e
Apply(s, e) ==
    CASE e.op = "AddMap"    -> [s EXCEPT !.tab = (e.k :> e.v) @@ s.tab]
      [] e.op = "RemoveMap" -> [s EXCEPT !.tab = Without(s.tab, e.k)]
      [] e.op = "ResetMap"  -> [s EXCEPT !.tab = <<>>]
      [] e.op = "AddRx"     -> [s EXCEPT !.rx = Append(s.rx, e.r)]
      [] e.op = "RemoveRx"  -> [s EXCEPT !.rx = RemoveFirstRx(s.rx, e.r)]
      [] e.op = "ResetRx"   -> [s EXCEPT !.rx = <<>>]
      [] e.op = "Chdir"     -> [s EXCEPT !.wd = e.d]          \* os.Chdir: the table keeps the start directory
      [] e.op = "LoseWd"    -> [s EXCEPT !.wd = LOST]         \* the directory is removed underneath the process
      [] e.op = "SetFlag"   -> IF e.f = "path" THEN [s EXCEPT !.fp = e.on] ELSE [s EXCEPT !.fr = e.on]

-----------------------------------------------------------------------------
(* The query *)

\* the table the prefix stage works on: the documented one (home always protected, an empty
\* directory protects nothing) or, as a deviation, the raw one
EffTab(t) ==
    LET t1 == Without(t, <<>>)
    IN IF Home # <<>> /\ Home \notin DOMAIN t1 THEN t1 @@ (Home :> TILDE) ELSE t1
TabOf(s, D) == IF "RawTable" \in D THEN s.tab ELSE EffTab(s.tab)

Match(q, k, D) == IF "NoBoundary" \in D THEN HasPrefix(q, k) ELSE Under(q, k)
Subst(q, k, v, D) ==
    IF "ReplaceAll" \in D THEN RepAll(q, k, v)
    ELSE IF Under(q, k) THEN v \o Rest(q, k) ELSE v \o Drop(q, Len(k))
One(q, k, v, D) == IF Match(q, k, D) THEN Subst(q, k, v, D) ELSE q

\* every result of folding the entries S of table T over q, in every order (an entry that does
\* not match leaves q unchanged, so once no remaining entry matches q the result is q).
\* Deviation "StopRel": the scan ends after the first visited entry that leaves a relative string.
RECURSIVE FoldAll(_, _, _, _)
FoldAll(q, T, S, D) ==
    IF \A k \in S : ~Match(q, k, D) THEN {q}
    ELSE UNION {LET q2 == One(q, k, T[k], D)
                IN IF "StopRel" \in D /\ ~Abs(q2) THEN {q2} ELSE FoldAll(q2, T, S \ {k}, D) : k \in S}

\* the innermost of a set of directories that all match the same path: the longest one
Innermost(M) == {k \in M : \A j \in M : Len(DirStr(j)) <= Len(DirStr(k))}

\* the prefix stage: the innermost matching entry, applied once to the queried path - a function of
\* table and path.  Deviations "MapOrder" / "StopRel": a chained fold in every iteration order.
PrefixStage(s, p, D) ==
    LET T == TabOf(s, D)
    IN IF "MapOrder" \in D \/ "StopRel" \in D THEN FoldAll(p, T, DOMAIN T, D)
       ELSE LET M == {k \in DOMAIN T : Match(p, k, D)}
            IN IF M = {} THEN {p} ELSE {One(p, k, T[k], D) : k \in Innermost(M)}

\* regexp r = ^?<lit>([^/]+/)? : index of the last byte of its match starting at i, 0 = no match
MatchEnd(q, i, r) ==
    LET n == Len(r.lit)
    IN IF i + n - 1 > Len(q) \/ SubSeq(q, i, i + n - 1) # r.lit THEN 0
       ELSE IF ~r.wild THEN i + n - 1
       ELSE LET j == FirstSlash(q, i + n) IN IF j > i + n THEN j ELSE 0
RxMatches(q, r) == \E i \in 1..Len(q) : (~r.anch \/ i = 1) /\ MatchEnd(q, i, r) > 0
\* Regexp.ReplaceAllString from position i on (leftmost, non-overlapping)
RECURSIVE RxRep(_, _, _)
RxRep(q, i, r) ==
    IF i > Len(q) THEN <<>>
    ELSE LET e == IF ~r.anch \/ i = 1 THEN MatchEnd(q, i, r) ELSE 0
         IN IF e > 0 THEN r.repl \o RxRep(q, e + 1, r) ELSE <<q[i]>> \o RxRep(q, i + 1, r)
\* the registered regexps in registration order; a regexp is applied when the queried path matches it
RECURSIVE RxFold(_, _, _)
RxFold(file, q, rs) ==
    IF rs = <<>> THEN q
    ELSE RxFold(file, IF RxMatches(file, Head(rs)) THEN RxRep(q, 1, Head(rs)) ELSE q, Tail(rs))
\* deviation "HardVol": the hard-wired rule used while Lprivacypathregexp is off: /Volumes/<vol>/rest -> ~/rest
VolRule(q) ==
    IF HasPrefix(q, VOLUMES)
    THEN LET j == FirstSlash(q, 10) IN IF j > 0 THEN TILDE \o Drop(q, j - 1) ELSE q
    ELSE q
Stage2(s, file, q, D) == IF s.fr THEN RxFold(file, q, s.rx) ELSE IF "HardVol" \in D THEN VolRule(q) ELSE q

\* an absolute result may be given as the relative path from the CURRENT working directory when
\* that is strictly shorter
Final(s, file, q, D) ==
    IF s.wd = LOST /\ "StaleWd" \notin D THEN {q}              \* nothing to be relative to
    ELSE IF Abs(q) /\ Abs(file)
    THEN LET r == Rel(IF "StaleWd" \in D THEN Cwd ELSE s.wd, file)
         IN IF Len(r) > 0 /\ Len(r) < Len(q) THEN {q, r} ELSE {q}
    ELSE {q}

Outputs(s, p, D) ==
    IF "LostWdRaw" \in D /\ s.wd = LOST THEN {p}
    ELSE IF ~s.fp THEN Final(s, p, p, D)
    ELSE UNION {Final(s, p, Stage2(s, p, q, D), D) : q \in PrefixStage(s, p, D)}

-----------------------------------------------------------------------------
(* Exhaustive model: every history of configuration calls within the bounds.  A query does
   not change the state, so it is not an action here: the invariants below quantify over all
   Inputs in every reachable state (and the conformance step queries every input after every
   replayed transition).                                                                    *)

AddMap(i) ==
    /\ "AddMap" \in Acts
    /\ Cardinality(DOMAIN st.tab \cup {MapSeq[i].k}) <= MaxTab
    /\ st' = Apply(st, [op |-> "AddMap", k |-> MapSeq[i].k, v |-> MapSeq[i].v])
RemoveMap(j) == "RemoveMap" \in Acts /\ st' = Apply(st, [op |-> "RemoveMap", k |-> KeySeq[j]])
ResetMap     == "ResetMap" \in Acts /\ st' = Apply(st, [op |-> "ResetMap"])
AddRx(i) ==
    /\ "AddRx" \in Acts
    /\ Len(st.rx) < MaxRx
    /\ st' = Apply(st, [op |-> "AddRx", r |-> RxSeq[i]])
RemoveRx(i)  == "RemoveRx" \in Acts /\ st' = Apply(st, [op |-> "RemoveRx", r |-> RxSeq[i]])
ResetRx      == "ResetRx" \in Acts /\ st' = Apply(st, [op |-> "ResetRx"])
SetFlag(f, b) == "SetFlag" \in Acts /\ st' = Apply(st, [op |-> "SetFlag", f |-> f, on |-> b])
Chdir(i)     == "Chdir" \in Acts /\ st' = Apply(st, [op |-> "Chdir", d |-> DirSeq[i]])
LoseWd       == "LoseWd" \in Acts /\ st.wd # LOST /\ st' = Apply(st, [op |-> "LoseWd"])

Init == st = InitState
DumpAlias == [n |-> Cardinality(DOMAIN st.tab)]      \* keeps the dumped graph small: only edges are used
Next ==
    \/ \E i \in 1..Len(MapSeq) : AddMap(i)
    \/ \E j \in 1..Len(KeySeq) : RemoveMap(j)
    \/ ResetMap
    \/ \E i \in 1..Len(RxSeq) : AddRx(i)
    \/ \E i \in 1..Len(RxSeq) : RemoveRx(i)
    \/ ResetRx
    \/ \E f \in {"path", "regexp"}, b \in BOOLEAN : SetFlag(f, b)
    \/ \E i \in 1..Len(DirSeq) : Chdir(i)
    \/ LoseWd
Spec == Init /\ [][Next]_st

-----------------------------------------------------------------------------
(* The property *)

\* directories the property protects in state s: every registered one and $HOME
Protected(s) == (DOMAIN s.tab \cup {Home}) \ {<<>>}
Short(s, k) == EffTab(s.tab)[k]
Covering(s, p) == {k \in Protected(s) : UnderSeg(p, k)}

TypeOK ==
    /\ st.fp \in BOOLEAN /\ st.fr \in BOOLEAN
    /\ \A k \in DOMAIN st.tab : k \in Seq(Byte) /\ st.tab[k] \in Seq(Byte)
    /\ Len(st.rx) <= MaxRx
    /\ st.wd \in Seq(Byte) /\ (Abs(st.wd) \/ st.wd = LOST)

(* Each part of the property as a predicate of a state s and a deviation set D; the invariants
   proper are the instances for the current state and the configured Devs (= {}).            *)
TotalAt(s, D) == \A p \in Inputs : Outputs(s, p, D) # {} /\ \A o \in Outputs(s, p, D) : o \in Seq(Byte)

NoProtectedPrefixAt(s, D) ==
    s.fp => \A p \in Inputs : \A k \in Covering(s, p) : \A o \in Outputs(s, p, D) : ~UnderSeg(o, k)

\* the prefix stage replaces exactly the covering directory - the innermost one when several are
\* nested - by its short form: the remaining segments are the input's remaining segments
InnerCov(K) == {k \in K : \A j \in K : Len(DirSegs(j)) <= Len(DirSegs(k))}
RestSegs(p, k) == SubSeq(Split(p), Len(DirSegs(k)) + 1, Len(Split(p)))
ShortFormUsedAt(s, D) ==
    s.fp => \A p \in Inputs :
                LET K == Covering(s, p)
                IN IF K = {} THEN PrefixStage(s, p, D) = {p}
                   ELSE \A q \in PrefixStage(s, p, D) :
                          \E k \in InnerCov(K) : q = Join(<<Short(s, k)>> \o RestSegs(p, k))

\* no covering directory is reported by name behind something else: no result ends with the last
\* segment of a covering directory followed by the rest of the path below that directory
\* (the root directory has no name)
EndsWith(a, b) == Len(b) <= Len(a) /\ SubSeq(a, Len(a) - Len(b) + 1, Len(a)) = b
InnerDirHiddenAt(s, D) ==
    s.fp => \A p \in Inputs : \A k \in Covering(s, p) \ {ROOT} : \A o \in Outputs(s, p, D) :
                ~EndsWith(Split(o), <<DirSegs(k)[Len(DirSegs(k))]>> \o RestSegs(p, k))

\* no mapping of any kind applies to p in state s
Outside(s, p) ==
    \/ ~s.fp
    \/ /\ Covering(s, p) = {}
       /\ (s.fr => \A x \in 1..Len(s.rx) : ~RxMatches(p, s.rx[x]))      \* flag off: no regexp rule is in force
\* o is a strictly shorter relative path that names the same file as the absolute path p for a
\* process whose working directory is s.wd NOW
ShorterEquiv(s, o, p) ==
    /\ s.wd # LOST
    /\ Abs(p) /\ ~Abs(o) /\ Len(o) > 0 /\ Len(o) < Len(p)
    /\ CleanAbs(s.wd \o <<SLASH>> \o o) = CleanAbs(p)
OutsideUnchangedAt(s, D) ==
    \A p \in Inputs : Outside(s, p) => \A o \in Outputs(s, p, D) : o = p \/ ShorterEquiv(s, o, p)

\* "for every iteration order of the mapping table": one result
OrderIndependentAt(s, D) == \A p \in Inputs : Cardinality(PrefixStage(s, p, D)) = 1
\* the fold in map order (deviation MapOrder) has several results only where mappings are nested
OrderOnlyIfNestedAt(s, D) ==
    \A p \in Inputs : Cardinality(PrefixStage(s, p, D \cup {"MapOrder"})) > 1 => Cardinality(Covering(s, p)) > 1

RegexpGatedAt(s, D) ==
    ~s.fr => \A p \in Inputs : Outputs(s, p, D) = Outputs([s EXCEPT !.rx = <<>>], p, D)

\* the working directory is lost: exactly the hardened string, whatever it is
LostWdHardenedAt(s, D) ==
    s.wd = LOST => \A p \in Inputs :
        Outputs(s, p, D) = IF s.fp THEN {Stage2(s, p, q, D) : q \in PrefixStage(s, p, D \ {"LostWdRaw"})} ELSE {p}

Total             == TotalAt(st, Devs)
NoProtectedPrefix == NoProtectedPrefixAt(st, Devs)
ShortFormUsed     == ShortFormUsedAt(st, Devs)
OutsideUnchanged  == OutsideUnchangedAt(st, Devs)
InnerDirHidden    == InnerDirHiddenAt(st, Devs)
OrderIndependent  == OrderIndependentAt(st, Devs)
OrderOnlyIfNested == OrderOnlyIfNestedAt(st, Devs)
RegexpGated       == RegexpGatedAt(st, Devs)
LostWdHardened    == LostWdHardenedAt(st, Devs)

(* Witnesses (ASSUMEd by the MC module of the main scenario): each deviation of the pinned code
   makes a part of the property FALSE already in the start state / after a Reset - so the
   invariants are not vacuous and the deviations really contradict the property.             *)
WitnessNoBoundary == ~OutsideUnchangedAt(InitState, {"NoBoundary"})
WitnessReplaceAll == ~ShortFormUsedAt(InitState, {"ReplaceAll"})
WitnessRawTable   == ~NoProtectedPrefixAt(Apply(InitState, [op |-> "ResetMap"]), {"RawTable"})
WitnessIdeal      == /\ OutsideUnchangedAt(InitState, {}) /\ ShortFormUsedAt(InitState, {})
                     /\ NoProtectedPrefixAt(Apply(InitState, [op |-> "ResetMap"]), {})
\* the two dimensions "relative paths" and "working directory changed" are constrained: a scan that
\* stops at a relative string lets a registered relative directory through (after adding it), a
\* relative form computed against the start directory is not an equivalent path (after a chdir)
RelMaps == {i \in 1..Len(MapSeq) : ~Abs(MapSeq[i].k)}
AfterAdd(i)   == Apply(InitState, [op |-> "AddMap", k |-> MapSeq[i].k, v |-> MapSeq[i].v])
AfterChdir(i) == Apply(InitState, [op |-> "Chdir", d |-> DirSeq[i]])
WitnessStopRel == /\ \E i \in RelMaps : ~NoProtectedPrefixAt(AfterAdd(i), {"StopRel"})
                  /\ \A i \in RelMaps : NoProtectedPrefixAt(AfterAdd(i), {}) /\ ShortFormUsedAt(AfterAdd(i), {})
WitnessStaleWd == /\ \E i \in 1..Len(DirSeq) : ~OutsideUnchangedAt(AfterChdir(i), {"StaleWd"})
                  /\ \A i \in 1..Len(DirSeq) : OutsideUnchangedAt(AfterChdir(i), {})

\* nested directories: folding the table in map order lets the inner directory through in some order
\* (not replaced by its short form, its name in the clear); the property reading gives one result, the
\* innermost short form - in the start state (cwd = / above $HOME) or after adding a mapping below another
NestStates == {InitState} \cup {AfterAdd(i) : i \in 1..Len(MapSeq)}
WitnessMapOrder == \E s \in NestStates :
                      /\ ~ShortFormUsedAt(s, {"MapOrder"}) /\ ~InnerDirHiddenAt(s, {"MapOrder"}) /\ ~OrderIndependentAt(s, {"MapOrder"})
                      /\ ShortFormUsedAt(s, {}) /\ InnerDirHiddenAt(s, {}) /\ OrderIndependentAt(s, {}) /\ NoProtectedPrefixAt(s, {})
\* regexp flag off and no regexp registered: the hard-wired /Volumes rule rewrites a path that is
\* outside all mappings into another path; the property reading leaves it alone
NoRxOff == Apply(Apply(InitState, [op |-> "ResetRx"]), [op |-> "SetFlag", f |-> "regexp", on |-> FALSE])
WitnessHardVol == /\ ~OutsideUnchangedAt(NoRxOff, {"HardVol"}) /\ OutsideUnchangedAt(NoRxOff, {})
                  /\ RegexpGatedAt(NoRxOff, {}) /\ RegexpGatedAt(NoRxOff, {"HardVol"})

\* the dimension "the working directory may be lost" is constrained: handing the input back as it came
\* in lets the home directory / a registered directory through; the property reading does not, and it
\* still replaces the prefix by the short form
AfterLose == Apply(InitState, [op |-> "LoseWd"])
WitnessLostWd == /\ ~NoProtectedPrefixAt(AfterLose, {"LostWdRaw"}) /\ ~LostWdHardenedAt(AfterLose, {"LostWdRaw"})
                 /\ NoProtectedPrefixAt(AfterLose, {}) /\ ShortFormUsedAt(AfterLose, {})
                 /\ LostWdHardenedAt(AfterLose, {}) /\ OutsideUnchangedAt(AfterLose, {})

\* the two formulations of "lies under" agree on everything the model can compare
AllDirs == {MapSeq[i].k : i \in 1..Len(MapSeq)} \cup {KeySeq[j] : j \in 1..Len(KeySeq)} \cup ({Home, Cwd} \ {<<>>})
UnderAgree == \A p \in Inputs, k \in AllDirs : Under(p, k) <=> UnderSeg(p, k)

(* Vacuity guards on the constants of a configuration (evaluated by TLC as ASSUME in the MC
   module): the universe must contain a covered path, a path that shares only the STRING
   prefix with a directory, a path with an inner occurrence of its directory, a nested pair
   of directories, an outside absolute path with a shorter relative form, a regexp match.   *)
HasCovered      == \E p \in Inputs, k \in AllDirs : Under(p, k) /\ p # k
HasStringPrefix == \E p \in Inputs, k \in AllDirs : k # ROOT /\ k # <<>> /\ HasPrefix(p, k) /\ ~Under(p, k)
HasInner        == \E p \in Inputs, k \in AllDirs : Under(p, k) /\ k # ROOT /\ RepAll(Rest(p, k), k, <<>>) # Rest(p, k)
HasNested       == \E p \in Inputs, k1, k2 \in AllDirs : k1 # k2 /\ Under(p, k1) /\ Under(p, k2)
HasShorterRel   == \E p \in Inputs : Abs(p) /\ (\A k \in AllDirs : ~Under(p, k)) /\ Len(Rel(Cwd, p)) < Len(p)
HasRxMatch      == \E p \in Inputs : RxMatches(p, VolRx) /\ VolRule(p) # p
(* ... a relative path under a relative directory, the absolute twin of such a path (not covered),
   a relative path that shares only the string prefix with a relative directory, a relative path
   outside everything; a directory to change to from which an outside path has another set of
   allowed results than from the start directory.                                             *)
RelDirs         == {k \in AllDirs : k # <<>> /\ ~Abs(k)}
HasRelCovered   == \E p \in Inputs, k \in RelDirs : Under(p, k) /\ p # k
HasRelTwin      == \E p \in Inputs, k \in RelDirs : Abs(p) /\ Under(Tail(p), k) /\ \A k2 \in AllDirs : ~Under(p, k2)
HasRelStringPrefix == \E p \in Inputs, k \in RelDirs : HasPrefix(p, k) /\ ~Under(p, k)
HasRelOutside   == \E p \in Inputs : p # <<>> /\ ~Abs(p) /\ \A k \in AllDirs : ~Under(p, k)
HasWdSensitive  == \E p \in Inputs, i \in 1..Len(DirSeq) :
                      /\ Abs(p) /\ \A k \in AllDirs : ~Under(p, k)
                      /\ Final(AfterChdir(i), p, p, {}) # Final(InitState, p, p, {})
=============================================================================
