------------------------------ MODULE Timestamp ------------------------------
(* C16 - "Timestamps show the record's instant in the configured zone and layout".

   WHAT IS MODELLED
   The timestamp of a record is a function of three things: the logger's zone mode, the logger's
   time layout, and the process-wide flag set.  This module has two parts that share the same
   operators:

   (1) The decision table (pure operators, no state):
         Zone(utc, flags)        in which zone the instant is shown        ("UTC" / "Own")
         LayoutSet(lay, flags)   the layouts the statement allows           (set of layout ids)
         Expected(utc, lay, flags, fmt)   the outcome of one cell
       The cell space is  3 zone modes x (no layout + Customs) x 16 flag sets x 3 formats.  For
       the two flag combinations the documented table does not list (no flag; microseconds
       only) the statement fixes no layout: LayoutSet is "any exported layout constant" and the
       check accepts a text that one of them explains.
       LayoutInfo says, per layout id, which parts of the instant a text in that layout carries
       (the "layout's precision"): the worker compares exactly those parts after parsing back.
       The layout strings themselves live in the worker (harness/fam_timestamp.go, tsLayouts):
       TLC has no use for them.
       TableOK / CellOK / ZoneIndep / LayoutIndep are the properties of the table; TLC
       evaluates them over the whole table (ASSUME in the generated MC module) and again in
       every state of the machine below.  `Table` is exported as JSON and every cell is
       replayed on the library with sampled instants.

   (2) The configuration machine (variable st): how a logger's zone mode and layout come
       about through the public calls, and the process-wide flags through theirs.
         st.n        number of loggers, 1..n (1 is a detached root logger)
         st.utc[l]   0 never chosen, 1 local chosen, 2 UTC chosen
         st.lay[l]   "" no layout set, else a layout id
         st.flags    subset of {"date","time","micro","local"}
       Events e = [op, l, a, f]:
         SetUTC / WithUTC     l.SetUTCMode(BoolLists[a]...)  / l.WithUTCMode(...)  (child)
         SetTF  / WithTF      l.SetTimeFormat(LayLists[a]...) / l.WithTimeFormat(...) (child)
         New                  l.New(OptLists[a]...)  options WithUTCMode / WithTimeFormat in order
         AddFlag / RemoveFlag slog.AddFlags(f) / slog.RemoveFlags(f)
         SetFlags             slog.SetFlags(FlagSets[a] + the non-timestamp flags)
         ResetFlags           slog.ResetFlags(): the factory flags (time, microseconds, local time)
         SaveMod              restore := slog.SaveFlagsAndMod(FlagSets[a], FlagSets[b]) (b = 0: nothing
                              removed): remembers the flags, adds, then removes
         Restore              calls the a-th restore function obtained so far (any of them, any
                              number of times, in any order): the flags are what they were when
                              that SaveMod was called
       Guard(s, e) / Step(s, e) / Ret(s, e, s2) are the functional core used by Next (exhaustive
       exploration, state graph dumped for replay) and by TimestampTrace (validation of what
       the library did).  The last call wins; a With call creates a child and leaves every
       existing logger alone; a layout, once set, cannot be unset.
       Where the statement is silent the step is a set: whether a fresh child starts from its
       parent's zone mode / layout or from "nothing chosen" (Inherit), and what
       SetTimeFormat(x, "") leaves (x or the default layout).

   WHICH OPERATOR STATES WHICH PART OF THE PROPERTY
     "expressed in UTC when the logger is in UTC mode (or when neither a mode was chosen nor
      the local-time flag is set) and in the instant's own zone otherwise"        Zone
     "formatted with the logger's time layout if one was set, else with the layout selected
      by the date/time/microseconds flags"                                        LayoutSet, DocLayout
     "to the layout's precision"                                                  LayoutInfo
     "in every output format"                                                     Formats, FormatIndep
     configuration by call sequences                                              Step, Isolation, LayoutSticky *)
EXTENDS Naturals, Sequences, FiniteSets, TLC

CONSTANTS
    MaxLoggers,   \* bound on loggers in the exhaustive model
    Customs,      \* layout ids usable as a logger-level layout
    BoolLists,    \* sequence of boolean argument lists for the zone-mode calls
    LayLists,     \* sequence of layout argument lists ("" = empty string argument)
    OptLists,     \* sequence of option lists for New: each a sequence of [k |-> "UTC"/"TF", a |-> index]
    FlagSets,     \* sequence of flag sets for SetFlags
    XBool, XLay, XOpt, XFlagSet,  \* the argument indexes explored exhaustively
    XFlags,       \* the flags toggled by AddFlag / RemoveFlag in the exhaustive model
    Inherit,      \* subset of {FALSE, TRUE}: may a fresh child start from its parent's settings
    MaxSaved      \* bound on SaveMod scopes in the exhaustive model

VARIABLE st

-----------------------------------------------------------------------------
(* (1) The decision table *)

Formats == {"json", "logfmt", "color"}
TimeFlags == {"date", "time", "micro"}          \* Ldate, Ltime, Lmicroseconds
AllFlags == TimeFlags \cup {"local"}            \* + LlocalTime

\* what a text in the layout carries.  date: "ymd" / "md" / "none"; time: "hms" / "hm" / "none";
\* frac: digits of the sub-second part (0, 6 or 9); zone: is the offset (hours, minutes) printed
LayoutInfo == [
    DateOnly        |-> [date |-> "ymd",  time |-> "none", frac |-> 0, zone |-> FALSE],  \* 2006-01-02
    TimeNoNano      |-> [date |-> "none", time |-> "hms",  frac |-> 0, zone |-> TRUE],
    TimeNano        |-> [date |-> "none", time |-> "hms",  frac |-> 6, zone |-> TRUE],
    DateTime        |-> [date |-> "ymd",  time |-> "hms",  frac |-> 0, zone |-> TRUE],
    RFC3339Nano     |-> [date |-> "ymd",  time |-> "hms",  frac |-> 6, zone |-> TRUE],
    RFC3339NanoOrig |-> [date |-> "ymd",  time |-> "hms",  frac |-> 9, zone |-> TRUE],  \* = time.RFC3339Nano
    \* layouts only used as logger-level layouts
    RFC1123Z        |-> [date |-> "ymd",  time |-> "hms",  frac |-> 0, zone |-> TRUE],
    Kitchen         |-> [date |-> "none", time |-> "hm",   frac |-> 0, zone |-> FALSE],
    StampMicro      |-> [date |-> "md",   time |-> "hms",  frac |-> 6, zone |-> FALSE],
    SpaceNano       |-> [date |-> "ymd",  time |-> "hms",  frac |-> 9, zone |-> TRUE],
    \* prints the abbreviation of the zone the instant is expressed in (no offset to parse back)
    RFC1123         |-> [date |-> "ymd",  time |-> "hms",  frac |-> 0, zone |-> FALSE],
    \* layouts whose literal text (a tab, a double quote, backslashes) needs escaping inside a JSON / logfmt
    \* string: 2006-01-02<TAB>15:04:05.000000Z07:00, 15h04'05", 2006\01\02 15:04:05
    TabMicro        |-> [date |-> "ymd",  time |-> "hms",  frac |-> 6, zone |-> TRUE],
    QuoteHMS        |-> [date |-> "none", time |-> "hms",  frac |-> 0, zone |-> FALSE],
    BackslashDate   |-> [date |-> "ymd",  time |-> "hms",  frac |-> 0, zone |-> FALSE]]

LayoutIds == DOMAIN LayoutInfo
Exported == {"TimeNoNano", "TimeNano", "DateTime", "RFC3339Nano", "RFC3339NanoOrig"}
Std == "RFC3339NanoOrig"       \* what SetTimeFormat() / SetTimeFormat("") select

\* the instant is shown in UTC or in its own zone
Zone(utc, flags) == IF utc = 2 \/ (utc = 0 /\ "local" \notin flags) THEN "UTC" ELSE "Own"

\* the documented flag table
Listed(df) == df \notin {{}, {"micro"}}
DocLayout(df) ==
    CASE df = {"date"} -> "DateOnly"
      [] df = {"time"} -> "TimeNoNano"
      [] df = {"time", "micro"} -> "TimeNano"
      [] df = {"date", "time"} -> "DateTime"
      [] df = {"date", "micro"} -> "RFC3339Nano"
      [] df = {"date", "time", "micro"} -> "RFC3339Nano"

LayoutSet(lay, flags) ==
    IF lay # "" THEN {lay}
    ELSE LET df == flags \cap TimeFlags
         IN IF Listed(df) THEN {DocLayout(df)} ELSE Exported

Expected(utc, lay, flags, fmt) ==
    [zone |-> Zone(utc, flags), layouts |-> LayoutSet(lay, flags),
     frame |-> IF fmt = "color" THEN "bar" ELSE "quoted"]

Cells == [utc : 0..2, lay : {""} \cup Customs, flags : SUBSET AllFlags, fmt : Formats]
Exp(c) == Expected(c.utc, c.lay, c.flags, c.fmt)

\* the table, for export
Table == {[cell |-> c, exp |-> Exp(c)] : c \in Cells}

\* properties of one cell
CellOK(c) ==
    LET x == Exp(c)
        df == c.flags \cap TimeFlags
    IN /\ x.zone \in {"UTC", "Own"}
       /\ c.utc = 2 => x.zone = "UTC"                                   \* UTC mode always wins
       /\ c.utc = 1 => x.zone = "Own"                                   \* local mode always wins
       /\ c.utc = 0 => (x.zone = "Own" <=> "local" \in c.flags)         \* else the flag decides
       /\ x.layouts # {} /\ x.layouts \subseteq LayoutIds
       /\ c.lay # "" => x.layouts = {c.lay}                             \* a logger layout always wins
       /\ (c.lay = "" /\ Listed(df)) => Cardinality(x.layouts) = 1     \* a listed combination fixes the layout
       /\ (c.lay = "" /\ ~Listed(df)) => x.layouts = Exported
       \* a listed combination shows at least what the flags ask for, and sub-seconds only on request
       /\ (c.lay = "" /\ Listed(df)) =>
             \A y \in x.layouts :
                 /\ "date" \in df => LayoutInfo[y].date = "ymd"
                 /\ "time" \in df => LayoutInfo[y].time = "hms" /\ LayoutInfo[y].zone
                 /\ LayoutInfo[y].frac = (IF "micro" \in df THEN 6 ELSE 0)
                 /\ LayoutInfo[y].time # "none" => LayoutInfo[y].zone

\* the zone does not depend on the layout or the date/time flags, the layout not on the zone
\* mode or the local flag, and neither on the output format
ZoneIndep ==
    \A u \in 0..2 : \A f1, f2 \in SUBSET AllFlags :
        (("local" \in f1) <=> ("local" \in f2)) => Zone(u, f1) = Zone(u, f2)
LayoutIndep ==
    \A y \in {""} \cup Customs : \A f1, f2 \in SUBSET AllFlags :
        (f1 \cap TimeFlags = f2 \cap TimeFlags) => LayoutSet(y, f1) = LayoutSet(y, f2)
FormatIndep ==
    \A u \in 0..2 : \A y \in {""} \cup Customs : \A f \in SUBSET AllFlags : \A m1, m2 \in Formats :
        /\ Expected(u, y, f, m1).zone = Expected(u, y, f, m2).zone
        /\ Expected(u, y, f, m1).layouts = Expected(u, y, f, m2).layouts

TableOK ==
    /\ \A c \in Cells : CellOK(c)
    /\ ZoneIndep /\ LayoutIndep /\ FormatIndep
    /\ Customs \subseteq LayoutIds /\ Exported \subseteq LayoutIds /\ Std \in LayoutIds

-----------------------------------------------------------------------------
(* (2) The configuration machine *)

FactoryFlags == {"time", "micro", "local"}      \* LstdFlags
InitState == [n |-> 1, utc |-> <<0>>, lay |-> <<"">>, flags |-> FactoryFlags, saved |-> <<>>]

Live(s) == 1..s.n

\* SetUTCMode(): UTC; SetUTCMode(b1, ..., bk): the last argument decides
UtcAfter(bl) == IF bl = <<>> THEN 2 ELSE IF bl[Len(bl)] THEN 2 ELSE 1

\* SetTimeFormat(): the default layout; SetTimeFormat(x1, ..., xk): the last non-empty argument,
\* the default layout if there is none; a trailing "" after a layout: either (not documented)
LayAfter(ll) ==
    LET ne == SelectSeq(ll, LAMBDA x : x # "")
    IN IF ne = <<>> THEN {Std}
       ELSE IF ll[Len(ll)] # "" THEN {ne[Len(ne)]}
       ELSE {ne[Len(ne)], Std}

\* configurations <<utc, lay>> a fresh child of p may start from
ChildStarts(s, p) ==
    {<<0, "">>} \cup (IF TRUE \in Inherit THEN {<<s.utc[p], "">>, <<0, s.lay[p]>>, <<s.utc[p], s.lay[p]>>} ELSE {})
ChildStartsNoInherit == {<<0, "">>}

ApplyOpt(c, o) ==     \* c = <<utc, lay>>
    IF o.k = "UTC" THEN {<<UtcAfter(BoolLists[o.a]), c[2]>>}
    ELSE {<<c[1], y>> : y \in LayAfter(LayLists[o.a])}

RECURSIVE ApplyOpts(_, _)
ApplyOpts(c, os) ==
    IF os = <<>> THEN {c} ELSE UNION {ApplyOpts(c2, Tail(os)) : c2 \in ApplyOpt(c, os[1])}

AddChild(s, c) == [s EXCEPT !.n = s.n + 1, !.utc = Append(s.utc, c[1]), !.lay = Append(s.lay, c[2])]

LoggerOps == {"SetUTC", "WithUTC", "SetTF", "WithTF", "New"}
FlagOps == {"AddFlag", "RemoveFlag", "SetFlags", "ResetFlags", "SaveMod", "Restore"}

Guard(s, e) ==
    CASE e.op \in {"SetUTC", "WithUTC"} -> e.l \in Live(s) /\ e.a \in DOMAIN BoolLists
      [] e.op \in {"SetTF", "WithTF"} -> e.l \in Live(s) /\ e.a \in DOMAIN LayLists
      [] e.op = "New" -> e.l \in Live(s) /\ e.a \in DOMAIN OptLists
      [] e.op \in {"AddFlag", "RemoveFlag"} -> e.f \in AllFlags
      [] e.op = "SetFlags" -> e.a \in DOMAIN FlagSets
      [] e.op = "ResetFlags" -> TRUE
      [] e.op = "SaveMod" -> e.a \in DOMAIN FlagSets /\ (e.b = 0 \/ e.b \in DOMAIN FlagSets)
      [] e.op = "Restore" -> e.a \in DOMAIN s.saved
      [] OTHER -> FALSE

\* successors when children start from the starts `cs(s, p)`
StepWith(s, e, starts) ==
    CASE e.op = "SetUTC" -> {[s EXCEPT !.utc[e.l] = UtcAfter(BoolLists[e.a])]}
      [] e.op = "SetTF" -> {[s EXCEPT !.lay[e.l] = y] : y \in LayAfter(LayLists[e.a])}
      [] e.op = "WithUTC" -> {AddChild(s, <<UtcAfter(BoolLists[e.a]), c[2]>>) : c \in starts}
      [] e.op = "WithTF" -> {AddChild(s, <<c[1], y>>) : c \in starts, y \in LayAfter(LayLists[e.a])}
      [] e.op = "New" -> UNION {{AddChild(s, c2) : c2 \in ApplyOpts(c, OptLists[e.a])} : c \in starts}
      [] e.op = "AddFlag" -> {[s EXCEPT !.flags = s.flags \cup {e.f}]}
      [] e.op = "RemoveFlag" -> {[s EXCEPT !.flags = s.flags \ {e.f}]}
      [] e.op = "SetFlags" -> {[s EXCEPT !.flags = FlagSets[e.a]]}
      [] e.op = "ResetFlags" -> {[s EXCEPT !.flags = FactoryFlags]}
      [] e.op = "SaveMod" -> {[s EXCEPT !.saved = Append(s.saved, s.flags),
                                        !.flags = (s.flags \cup FlagSets[e.a]) \ (IF e.b = 0 THEN {} ELSE FlagSets[e.b])]}
      [] e.op = "Restore" -> {[s EXCEPT !.flags = s.saved[e.a]]}

Step(s, e) == StepWith(s, e, IF e.op \in LoggerOps THEN ChildStarts(s, e.l) ELSE {})
StepNoInherit(s, e) == StepWith(s, e, ChildStartsNoInherit)

\* the logger a call returns (0: none): the receiver for Set*, the fresh child for With* / New
Ret(s, e, s2) ==
    CASE e.op \in {"SetUTC", "SetTF"} -> e.l
      [] e.op \in {"WithUTC", "WithTF", "New"} -> s2.n
      [] OTHER -> 0

\* what the records of logger l must look like in state s, per format
ExpectedOf(s, l, fmt) == Expected(s.utc[l], s.lay[l], s.flags, fmt)

-----------------------------------------------------------------------------
(* Exhaustive specification: one named action per public call (edge labels of the dump) *)

Do(op, l, a, f) ==
    LET e == [op |-> op, l |-> l, a |-> a, f |-> f]
    IN Guard(st, e) /\ st' \in Step(st, e)

SetUTC(l, a) == a \in XBool /\ Do("SetUTC", l, a, "")
WithUTC(l, a) == a \in XBool /\ st.n < MaxLoggers /\ Do("WithUTC", l, a, "")
SetTF(l, a) == a \in XLay /\ Do("SetTF", l, a, "")
WithTF(l, a) == a \in XLay /\ st.n < MaxLoggers /\ Do("WithTF", l, a, "")
New(l, a) == a \in XOpt /\ st.n < MaxLoggers /\ Do("New", l, a, "")
AddFlag(f) == f \in XFlags /\ Do("AddFlag", 0, 0, f)
RemoveFlag(f) == f \in XFlags /\ Do("RemoveFlag", 0, 0, f)
SetFlags(a) == a \in XFlagSet /\ Do("SetFlags", 0, a, "")
ResetFlags == XFlagSet # {} /\ Do("ResetFlags", 0, 0, "")
SaveMod(a, b) ==
    /\ a \in XFlagSet /\ b \in XFlagSet \cup {0} /\ Len(st.saved) < MaxSaved
    /\ LET e == [op |-> "SaveMod", l |-> 0, a |-> a, f |-> "", b |-> b]
       IN Guard(st, e) /\ st' \in Step(st, e)
Restore(a) == a \in 1..MaxSaved /\ Do("Restore", 0, a, "")

Next ==
    \/ \E l \in 1..MaxLoggers, a \in DOMAIN BoolLists : SetUTC(l, a)
    \/ \E l \in 1..MaxLoggers, a \in DOMAIN BoolLists : WithUTC(l, a)
    \/ \E l \in 1..MaxLoggers, a \in DOMAIN LayLists : SetTF(l, a)
    \/ \E l \in 1..MaxLoggers, a \in DOMAIN LayLists : WithTF(l, a)
    \/ \E l \in 1..MaxLoggers, a \in DOMAIN OptLists : New(l, a)
    \/ \E f \in AllFlags : AddFlag(f)
    \/ \E f \in AllFlags : RemoveFlag(f)
    \/ \E a \in DOMAIN FlagSets : SetFlags(a)
    \/ ResetFlags
    \/ \E a \in DOMAIN FlagSets, b \in 0..Len(FlagSets) : SaveMod(a, b)
    \/ \E a \in 1..MaxSaved : Restore(a)

Init == st = InitState
Spec == Init /\ [][Next]_st

DumpAlias == [n |-> st.n]

-----------------------------------------------------------------------------
(* Properties of the machine *)

TypeOK ==
    /\ st.n \in 1..MaxLoggers
    /\ Len(st.utc) = st.n /\ Len(st.lay) = st.n
    /\ \A l \in Live(st) : st.utc[l] \in 0..2 /\ st.lay[l] \in {""} \cup Customs
    /\ st.flags \subseteq AllFlags
    /\ Len(st.saved) <= MaxSaved /\ \A k \in DOMAIN st.saved : st.saved[k] \subseteq AllFlags

\* the cell of every live logger, in every format, satisfies the table properties
CellsOKIn(s) ==
    \A l \in Live(s) : \A fmt \in Formats :
        CellOK([utc |-> s.utc[l], lay |-> s.lay[l], flags |-> s.flags, fmt |-> fmt])
CellsOK == CellsOKIn(st)

\* the statement itself, read off the state: UTC exactly when UTC mode was chosen or nothing was
\* chosen and the local flag is clear; the logger's layout if it has one
StatementOKIn(s) ==
    \A l \in Live(s) : \A fmt \in Formats :
        LET x == ExpectedOf(s, l, fmt) IN
        /\ (x.zone = "UTC") <=> (s.utc[l] = 2 \/ (s.utc[l] = 0 /\ "local" \notin s.flags))
        /\ s.lay[l] # "" => x.layouts = {s.lay[l]}
        /\ s.lay[l] = "" => x.layouts \subseteq Exported \cup {"DateOnly"}
StatementOK == StatementOKIn(st)

\* a call on one logger changes at most that logger's settings and never the flags; a With call or
\* New changes no existing logger at all; a flag call changes no logger
Isolation ==
    [][/\ st'.n >= st.n
       /\ \A l, m \in Live(st) :
             (l # m /\ <<st'.utc[l], st'.lay[l]>> # <<st.utc[l], st.lay[l]>>) =>
                 <<st'.utc[m], st'.lay[m]>> = <<st.utc[m], st.lay[m]>>
       /\ st'.n > st.n => \A l \in Live(st) : <<st'.utc[l], st'.lay[l]>> = <<st.utc[l], st.lay[l]>>
       /\ st'.n > st.n => st'.flags = st.flags
       /\ st'.flags # st.flags => (st'.n = st.n /\ st'.utc = st.utc /\ st'.lay = st.lay)]_st

\* a restore function gives back exactly the flags of the moment it was made, whatever happened since
RestoreExact ==
    [][\A k \in DOMAIN st.saved : k \in DOMAIN st'.saved /\ st'.saved[k] = st.saved[k]]_st

\* there is no call that takes a layout away again, and none that returns a logger to "no mode chosen"
LayoutSticky ==
    [][\A l \in Live(st) : /\ st.lay[l] # "" => st'.lay[l] # ""
                           /\ st.utc[l] # 0 => st'.utc[l] # 0]_st

\* reachability witnesses (must be VIOLATED - used to show that the invariants above are not vacuous)
NeverUTCModeWithLocalFlag == ~(\E l \in Live(st) : st.utc[l] = 2 /\ "local" \in st.flags)
NeverCustomWithDateFlags == ~(\E l \in Live(st) : st.lay[l] # "" /\ {"date", "time"} \subseteq st.flags)
NeverUnlisted == ~(\E l \in Live(st) : st.lay[l] = "" /\ ~Listed(st.flags \cap TimeFlags))
NeverChildDiffers == ~(\E l, m \in Live(st) : l # m /\ st.utc[l] = 1 /\ st.utc[m] = 2 /\ st.lay[l] # st.lay[m])
=============================================================================
