SPECIFICATION Spec
CONSTANTS
  MaxLoggers = 3
  Names <- cNames
  OptLists <- cOptLists
  BoolLists <- cBoolLists
  Layouts <- cLayouts
  SetterArgs <- cSetterArgs
  InitLevel = 5
  InitTreat <- cInitTreat
  InitErrDev <- cInitErrDev
  WLevels <- cWLevels
  Acts = {"Set", "With", "New"}
INVARIANTS OneFormat TreeOK GateAgrees RouteOK
PROPERTIES Isolation TreeMonotone DbgSticky
ALIAS DumpAlias
