-------------------------------- MODULE Term --------------------------------
(* C12 - Panic and Fatal: the record is written first, then the documented termination.

   What is modelled.  One *call* of a native entry point of hedzr/logg that can carry a
   severity, in one process, under one configuration - a CELL:

     ep       entry point name: the verbs ("Panic" .. "Fail", "Println"), their Context forms
              ("PanicContext" ..), the parametric "LogAttrs"/"Logit", and as negative cases only
              "Infof"/"Warnf"/"Errorf" and "Log" (log/slog's four standard levels)
     recv     how it is reached: "root" (method of a detached logger), "child" (method of a
              child logger), "pkgimp"/"pkgentry" (package-level function; the default logger is
              the value slog.New returns / an *Entry)
     r        severity of the record (built-in 0..11, or a registered custom level)
     L        level of the receiving logger
     ni, ia   the global flags LnoInterrupt / Linterruptalways
     testing  process mode: TRUE = started as a go-test binary, FALSE = production
     fmt      output format of the logger ("logfmt", "json", "color")
     base     all the OTHER global flags ("std" factory set, "empty", "all")
     inp      shape of message and arguments ("plain", "kv", "attr") - an input class

   The property statement is written twice:

   (1) declaratively (section STATEMENT): Admitted, Terminates, Outcome, Expected and the
       predicates WriteThenTerminateP / OnlyWhenStatedP / FinalMatchesStatementP over a final
       observation <<cell, fin, written>>.  This is the oracle: the table exported to the Go
       worker (Table) and the trace validation (TermTrace.tla) use only these operators.

   (2) operationally (section MECHANISM): the documented mechanism as a tiny state machine per
       cell - gate (Level.Enabled), print the record, then the tail of Entry.logContext with
       its nested flag tests - over the variables

         cell     the cell being executed (chosen in Init, never changes)
         pc       "call" -> "print" -> "tail" -> "done"
         written  number of complete records handed to the destination so far
         fin      outcome so far: [out |-> "none"|"ret"|"panic"|"exit", status, pv]
                  (status = exit status, pv = "msg" when the panic value is the message)

       Actions: DoGate, DoPrint, DoTail.  A terminated call has no successor (the process is
       gone / the stack is unwound).

   TLC explores every cell (all initial states) and checks that the mechanism implements the
   statement over the whole table:
       WriteThenTerminate     a terminated call has written exactly one record before
       OnlyWhenStated         termination only for Panic/Fatal, admitted, ~ni, (~testing \/ ia)
       FinalMatchesStatement  every finished call ended exactly as Expected(cell) says
       NotAdmittedSilent      a call that is not admitted writes nothing
       TermOrder (action)     the terminating step is a different, later step than the write
       NothingAfterEnd (action) no step is taken from a finished/terminated call
   `Mut` selects deliberately wrong variants of the mechanism; the check runs them to show that
   each invariant can fail (non-vacuity).  Mut = "none" is the documented mechanism.          *)
EXTENDS Levels, Json, SequencesExt

CONSTANTS
    LoggerLevels,    \* logger levels explored (subset of 0..MaxLevel)
    Dims,            \* <<fmt, base, inp>> triples explored for Panic/Fatal severities: the full product
                     \* of {"logfmt","json","color"} x {"std","empty","all"} x {"plain","kv","attr"}, or
                     \* a pairwise-covering subset of it
    NegDims,         \* <<fmt, base, inp>> triples explored for the other severities (negative cases)
    Customs,         \* registered custom levels: [level -> level it is treated as]
    ExportFile,      \* "" or the file the table is exported to
    Mut              \* "none" or the name of a deliberately wrong mechanism (witness runs)

VARIABLES cell, pc, written, fin
vars == <<cell, pc, written, fin>>

ExitStatus == 253              \* os.Exit(-3)

-----------------------------------------------------------------------------
(* CELL SPACE *)

VerbSev == ("Panic" :> Panic) @@ ("Fatal" :> Fatal) @@ ("Error" :> Error) @@ ("Warn" :> Warn) @@
           ("Info" :> Info) @@ ("Debug" :> Debug) @@ ("Trace" :> Trace) @@ ("Print" :> Always) @@
           ("Println" :> Always) @@ ("OK" :> OK) @@ ("Success" :> Success) @@ ("Fail" :> Fail)
Verbs == DOMAIN VerbSev
FmtSev == ("Infof" :> Info) @@ ("Warnf" :> Warn) @@ ("Errorf" :> Error)
ParamEPs == {"LogAttrs", "Logit"}
StdSevs == {Debug, Info, Warn, Error}      \* Entry.Log: only the four standard log/slog levels (rest is C15)

MethodRecvs == {"root", "child"}
PkgRecvs == {"pkgimp", "pkgentry"}
Severities == Builtin \cup DOMAIN Customs
Treat == TreatInit @@ Customs              \* treated-as table of the process

\* which severities each entry point can carry, reached through which kind of receiver
CtxVerbs == {v \o "Context" : v \in Verbs}
AllEPs == Verbs \cup CtxVerbs \cup ParamEPs \cup DOMAIN FmtSev \cup {"Log"}
Carries(ep, rc, r) ==
    \/ ep \in Verbs /\ r = VerbSev[ep] /\ rc \in MethodRecvs \cup PkgRecvs
    \/ \E v \in Verbs : ep = v \o "Context" /\ r = VerbSev[v] /\ rc \in MethodRecvs \cup PkgRecvs
    \/ ep \in ParamEPs /\ rc \in MethodRecvs /\ r \in Severities
    \/ ep \in DOMAIN FmtSev /\ rc \in MethodRecvs /\ r = FmtSev[ep]
    \/ ep = "Log" /\ rc \in MethodRecvs /\ r \in StdSevs
Carriers == {t \in AllEPs \X (MethodRecvs \cup PkgRecvs) \X Severities : Carries(t[1], t[2], t[3])}

\* Panic/Fatal severities are crossed with the <<format, base flags, input class>> triples of Dims;
\* the other severities (negative cases) with those of NegDims.  (Cells is one set comprehension: TLC's \cup / UNION of large sets is quadratic.)
Mk(t, l, n, a, tm, q) ==
    [ep |-> t[1], recv |-> t[2], r |-> t[3], L |-> l, ni |-> n, ia |-> a, testing |-> tm,
     fmt |-> q[1], base |-> q[2], inp |-> q[3]]
CarrierDims == ({t \in Carriers : Terminating(t[3])} \X Dims) \cup ({t \in Carriers : ~Terminating(t[3])} \X NegDims)
Cells ==
    {Mk(tq[1], l, n, a, tm, tq[2]) : tq \in CarrierDims, l \in LoggerLevels,
                                     n \in BOOLEAN, a \in BOOLEAN, tm \in BOOLEAN}

\* membership in Cells without building the set
IsCell(c) ==
    /\ DOMAIN c = {"ep", "recv", "r", "L", "ni", "ia", "testing", "fmt", "base", "inp"}
    /\ Carries(c.ep, c.recv, c.r)
    /\ c.L \in LoggerLevels /\ c.ni \in BOOLEAN /\ c.ia \in BOOLEAN /\ c.testing \in BOOLEAN
    /\ <<c.fmt, c.base, c.inp>> \in (IF Terminating(c.r) THEN Dims ELSE NegDims)

ASSUME \A c \in Cells : IsCell(c)

-----------------------------------------------------------------------------
(* STATEMENT (the oracle) *)

\* "admitted": the level gate of property C01, debug mode off
Admitted(c) == Admit(c.L, c.r, FALSE, Treat)

\* "An admitted Panic/Fatal call ... terminates.  Neither terminates when the call is not
\*  admitted, when the no-interrupt flag is set, or under go test unless the interrupt-always
\*  flag is set, and no other severity ever panics or exits."
Terminates(c) == /\ Terminating(c.r)
                 /\ Admitted(c)
                 /\ ~c.ni
                 /\ (~c.testing \/ c.ia)

Outcome(c) == IF ~Terminates(c) THEN "ret" ELSE IF c.r = Panic THEN "panic" ELSE "exit"

\* "writes its complete record": every admitted Panic/Fatal call, terminating or not
MustWrite(c) == Terminating(c.r) /\ Admitted(c)

NoFin == [out |-> "none", status |-> 0, pv |-> ""]
Ret == [out |-> "ret", status |-> 0, pv |-> ""]
PanicWith(v) == [out |-> "panic", status |-> 0, pv |-> v]
ExitWith(s) == [out |-> "exit", status |-> s, pv |-> ""]

\* panic value = the message; exit status 253
ExpectedFin(c) == CASE Outcome(c) = "panic" -> PanicWith("msg")
                    [] Outcome(c) = "exit" -> ExitWith(ExitStatus)
                    [] OTHER -> Ret

Expected(c) == [out |-> Outcome(c), status |-> ExpectedFin(c).status, pv |-> ExpectedFin(c).pv,
                rec |-> IF MustWrite(c) THEN "complete" ELSE "any"]

(* The property as predicates over a final observation: c the cell, f how the call ended
   ([out, status, pv]), w the number of complete records written before it ended.            *)
WriteThenTerminateP(c, f, w) == f.out \in {"panic", "exit"} => w = 1
OnlyWhenStatedP(c, f, w) == f.out \in {"panic", "exit"} => Terminates(c)
FinalMatchesStatementP(c, f, w) ==
    /\ f.out = Outcome(c)
    /\ f.out = "exit" => f.status = ExitStatus
    /\ f.out = "panic" => f.pv = "msg"
    /\ MustWrite(c) => w = 1

Failed(c, f, w) ==
    (IF WriteThenTerminateP(c, f, w) THEN {} ELSE {"WriteThenTerminate"}) \cup
    (IF OnlyWhenStatedP(c, f, w) THEN {} ELSE {"OnlyWhenStated"}) \cup
    (IF FinalMatchesStatementP(c, f, w) THEN {} ELSE {"FinalMatchesStatement"})

-----------------------------------------------------------------------------
(* MECHANISM (what the documentation / code structure says happens, step by step) *)

\* every entry point asks Level.Enabled before it logs (log1, *Context, LogAttrs, Logit, logctxctx)
Gate(c) == IF Mut = "noGate" /\ c.ep = "FatalContext" THEN TRUE
           ELSE EnabledMech(c.L, c.r, FALSE, Treat)

\* the tail of Entry.logContext, after the record was printed:
\*   if !inTesting || IsAnyBitsSet(Linterruptalways) {
\*       if IsAllBitsSet(LnoInterrupt) { return }
\*       if lvl == PanicLevel { panic(msg) }
\*       if lvl == FatalLevel { os.Exit(-3) } }
NoInterrupt(c) == IF Mut = "anyBits" THEN c.ni \/ c.ia ELSE c.ni
TailMech(c) ==
    IF ~c.testing \/ c.ia
    THEN IF NoInterrupt(c) THEN Ret
         ELSE IF c.r = Panic THEN PanicWith(IF Mut = "panicValue" /\ c.inp # "plain" THEN "other" ELSE "msg")
         ELSE IF c.r = Fatal THEN ExitWith(IF Mut = "status" THEN 3 ELSE ExitStatus)
         ELSE IF Mut = "errTerm" /\ c.r = Error /\ c.ia THEN ExitWith(ExitStatus)
         ELSE Ret
    ELSE Ret

\* order of the two steps after the gate ("exitFirst": the wrong order, for Fatal only)
Order(c) == IF Mut = "exitFirst" /\ c.r = Fatal THEN <<"tail", "print">> ELSE <<"print", "tail">>
After(c, p) == IF Order(c)[1] = p THEN Order(c)[2] ELSE "end"

\* step p produced the tentative result f (Ret = carry on)
Finish(p, f) ==
    IF f.out # "ret" THEN pc' = "done" /\ fin' = f
    ELSE IF After(cell, p) = "end" THEN pc' = "done" /\ fin' = Ret
    ELSE pc' = After(cell, p) /\ fin' = fin

Init == /\ cell \in Cells
        /\ pc = "call"
        /\ written = 0
        /\ fin = NoFin

DoGate == /\ pc = "call"
          /\ UNCHANGED <<cell, written>>
          /\ IF Gate(cell) THEN pc' = Order(cell)[1] /\ fin' = fin
             ELSE pc' = "done" /\ fin' = Ret

DoPrint == /\ pc = "print"
           /\ written' = written + 1
           /\ cell' = cell
           /\ Finish("print", Ret)

DoTail == /\ pc = "tail"
          /\ UNCHANGED <<cell, written>>
          /\ Finish("tail", TailMech(cell))

Next == DoGate \/ DoPrint \/ DoTail

Spec == Init /\ [][Next]_vars

-----------------------------------------------------------------------------
(* PROPERTIES checked by TLC over all cells *)

TypeOK == /\ IsCell(cell)
          /\ pc \in {"call", "print", "tail", "done"}
          /\ written \in 0..1
          /\ fin.out \in {"none", "ret", "panic", "exit"}
          /\ (pc = "done") = (fin.out # "none")

WriteThenTerminate == WriteThenTerminateP(cell, fin, written)
OnlyWhenStated == OnlyWhenStatedP(cell, fin, written)
FinalMatchesStatement == pc = "done" => FinalMatchesStatementP(cell, fin, written)
NotAdmittedSilent == (pc = "done" /\ ~Admitted(cell)) => written = 0

\* the terminating step is not the writing step, and the record is already out when it happens
TermOrder == [][fin'.out \in {"panic", "exit"} => (written' = written /\ written = 1)]_vars
\* a finished call (returned, panicked, exited) takes no further step
NothingAfterEnd == [][fin.out = "none"]_vars

-----------------------------------------------------------------------------
(* TABLE: the cells with the expected outcome, exported for replay on the library; and the
   sizes of the outcome classes (the check refuses to run on a table where one is empty).    *)

Table == LET cs == SetToSeq(Cells)
         IN [k \in 1..Len(cs) |-> cs[k] @@ [exp |-> Expected(cs[k])]]

Count(P(_)) == Cardinality({c \in Cells : P(c)})
Stats ==
    [cells |-> Cardinality(Cells),
     panic |-> Count(LAMBDA c : Outcome(c) = "panic"),
     exit |-> Count(LAMBDA c : Outcome(c) = "exit"),
     notAdmitted |-> Count(LAMBDA c : Terminating(c.r) /\ ~Admitted(c)),
     heldByNoInterrupt |-> Count(LAMBDA c : MustWrite(c) /\ c.ni /\ (~c.testing \/ c.ia)),
     heldByTesting |-> Count(LAMBDA c : MustWrite(c) /\ ~c.ni /\ c.testing /\ ~c.ia),
     otherSeverity |-> Count(LAMBDA c : ~Terminating(c.r)),
     otherSeverityAdmittedUnheld |-> Count(LAMBDA c : ~Terminating(c.r) /\ Admitted(c) /\ ~c.ni /\ (~c.testing \/ c.ia)),
     customAdmittedUnheld |-> Count(LAMBDA c : c.r \in DOMAIN Customs /\ Admitted(c) /\ ~c.ni /\ (~c.testing \/ c.ia))]

ASSUME PrintT("@@stats " \o ToJson(Stats))
ASSUME ExportFile = "" \/ JsonSerialize(ExportFile, Table)
=============================================================================
