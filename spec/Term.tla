-------------------------------- MODULE Term --------------------------------
(* C12 - Panic and Fatal: the record is written first, then the documented termination.

   What is modelled.  One *call* of a native entry point of hedzr/logg that can carry a
   severity, in one process, under one configuration - a CELL:

     ep       entry point name: the verbs ("Panic" .. "Fail", "Println"), their Context forms
              ("PanicContext" ..), the parametric "LogAttrs"/"Logit", and as negative cases only
              "Infof"/"Warnf"/"Errorf" and "Log" (log/slog's four standard levels)
     recv     how it is reached: "root" (method of a detached logger), "child" (method of a
              child logger), "pkgimp"/"pkgentry" (package-level function; the default logger is
              the value slog.New returns / an *Entry)
     r        severity of the record (built-in 0..11, or a registered custom level)
     L        level of the receiving logger
     ni, ia   the global flags LnoInterrupt / Linterruptalways
     start    how the process was STARTED - the two signs the library looks at in os.Args when
              package slog is initialised (hedzr/is InTestingT): the executable is named *.test
              (NameSign) and some argument begins with "-test." (ArgSign).  "gotest" has both,
              "prod" none, "nameOnly" an executable named *.test WITHOUT any -test.* argument (a
              program deployed as svc.test, a test binary started by hand), "argOnly" an ordinary
              executable name WITH a -test.* argument (-test.endpoint=...)
     testing  process mode: TRUE = under go test, FALSE = production.  The statement says "under
              go test": the go command runs a binary named *.test and always hands it -test.*
              arguments, so testing = BOTH signs (GoTest); either sign alone is a production
              process.  That is also how the unchanged library decides (InTestingT: name sign
              AND argument sign; what os.Args becomes later does not matter)
     fmt      output format of the logger ("logfmt", "json", "color")
     base     all the OTHER global flags ("std" factory set, "empty", "all")
     inp      shape of message and arguments ("plain", "kv", "attr") - an input class
     dst      WHERE the record goes - a destination class (DstCfg): recording writers ("rec"),
              the package default writers ("dflt"), io.Discard for the normal and/or the error
              device ("discN", "discE", "discBoth"), destination lists emptied again ("emptied":
              every writer that was added is removed), per-level writers for Panic/Fatal
              ("lvlrec" recording, "lvldisc" io.Discard, "lvlemptied" added and removed again),
              a list with io.Discard next to a recording writer ("mixed")
     size     0 = the short message of the input class, otherwise the exact length of the
              message in bytes (65535, 65536, 65537, ~100 KiB, ~300 KiB)
     from     WHERE the call is issued from (Sites): "top" = by the program, no other record in
              the making; otherwise NESTED in the production of another ("outer") record on the
              same goroutine: "writeSame" / "writeOther" = from inside the Write of a destination
              that is handed the outer record, the outer record being one of the SAME logger
              (severity Always, so it is produced at every level but Off - at Off the site cannot
              be reached and the cell does not exist) / of ANOTHER logger; "string",
              "marshalText", "logValue" = from the String / MarshalText (MarshalJSON in JSON
              format) / LogValue method of a value of the outer record while it is being
              formatted (another logger; LogValue through the log/slog handler, the only place
              where the library resolves LogValuers).  The cell's coordinates describe the
              NESTED call; its outcome is observed at the nested call itself (markers around
              it, a recover around it) and from outside the process (exit status, what was
              written).  Of the outer call only this is the property's business: it is a call of
              another severity (Always / Info), so it never panics or exits (OuterReturnsP)

   Termination does not depend on dst, size or from, and of start only through testing: the
   statement's outcome is a function of severity, logger level, the two flags and the process
   mode only (TerminatesK / OutcomeK take nothing else), and DestinationsDoNotMatter checks the
   same of the mechanism.  An observation can also be "hang": the call neither returned nor
   panicked nor ended the process within the time limit (the process idles or spins) - never
   what the statement says (Ends).  The clause
   "writes its complete record first" can be OBSERVED only where a recording writer is among
   the destinations of the severity (Recording); for observations it is evaluated there and
   skipped elsewhere (an io.Discard shows nothing), for the mechanism it is checked everywhere
   (`written` counts complete records handed to the destination list, whatever it contains).
   "Complete" and "the message as panic value" mean the whole message whatever its size.

   The property statement is written twice:

   (1) declaratively (section STATEMENT): Admitted, Terminates, Outcome, Expected and the
       predicates WriteThenTerminateP / OnlyWhenStatedP / FinalMatchesStatementP over a final
       observation <<cell, fin, written>>.  This is the oracle: the table exported to the Go
       worker (Table) and the trace validation (TermTrace.tla) use only these operators.

   (2) operationally (section MECHANISM): the documented mechanism as a tiny state machine per
       cell - gate (Level.Enabled), print the record, then the tail of Entry.logContext with
       its nested flag tests - over the variables

         cell     the cell being executed (chosen in Init, never changes)
         pc       "call" -> "print" -> "tail" -> "done"
         written  number of complete records handed to the destination so far
         fin      outcome so far: [out |-> "none"|"ret"|"panic"|"exit"|"hang", status, pv]
                  (status = exit status, pv = "msg" when the panic value is the message;
                  "hang" = stuck for ever, produced by a wrong mechanism only)

       Actions: DoGate, DoPrint, DoTail.  A terminated call has no successor (the process is
       gone / the stack is unwound).

   TLC explores every cell (all initial states) and checks that the mechanism implements the
   statement over the whole table:
       WriteThenTerminate     a terminated call has written exactly one record before
       OnlyWhenStated         termination only for Panic/Fatal, admitted, ~ni, (~testing \/ ia)
       FinalMatchesStatement  every finished call ended exactly as Expected(cell) says
       NotAdmittedSilent      a call that is not admitted writes nothing
       Ends                   no call gets stuck
       DestinationsDoNotMatter  the way the call ends is the same for every destination class,
                              every message size, every call site and every way of starting the
                              process with the same mode (twin cells, same severity/level/flags/mode)
       TermOrder (action)     the terminating step is a different, later step than the write
       NothingAfterEnd (action) no step is taken from a finished/terminated call
   `Mut` selects deliberately wrong variants of the mechanism; the check runs them to show that
   each invariant can fail (non-vacuity); two of them make the outcome depend on the destination
   class ("discardGate") / the message size ("truncate"), one on the call site ("waitInFlight":
   a nested Fatal waits for the outer record to finish - for ever) and one on a single start-up
   sign ("eitherSign").  Mut = "none" is the documented mechanism.                              *)
EXTENDS Levels, Json, SequencesExt

CONSTANTS
    LoggerLevels,    \* logger levels explored (subset of 0..MaxLevel)
    Dims,            \* <<fmt, base, inp, dst, size, from>> tuples explored for Panic/Fatal severities: the product
                     \* of {"logfmt","json","color"} x {"std","empty","all"} x {"plain","kv","attr",..} with
                     \* the default <<"rec", 0, "top">>, or a pairwise-covering subset of it, plus tuples that
                     \* vary the destination class, the message size and the call site
    NegDims,         \* tuples explored for the other severities (negative cases)
    WideLevels,      \* logger levels crossed with the tuples whose dst/size/from is not the default
                     \* (<<"rec", 0, "top">>); subset of LoggerLevels
    HalfDims,        \* the tuples of Dims that are crossed with all four ways of starting the process (Starts);
                     \* the others with the two unambiguous ones ("prod", "gotest")
    NegHalfDims,     \* the same for the tuples of NegDims (the other severities)
    Customs,         \* registered custom levels: [level -> level it is treated as]
    ExportFile,      \* "" or the file the table is exported to
    Mut              \* "none" or the name of a deliberately wrong mechanism (witness runs)

VARIABLES cell, pc, written, fin
vars == <<cell, pc, written, fin>>

ExitStatus == 253              \* os.Exit(-3)

-----------------------------------------------------------------------------
(* CELL SPACE *)

VerbSev == ("Panic" :> Panic) @@ ("Fatal" :> Fatal) @@ ("Error" :> Error) @@ ("Warn" :> Warn) @@
           ("Info" :> Info) @@ ("Debug" :> Debug) @@ ("Trace" :> Trace) @@ ("Print" :> Always) @@
           ("Println" :> Always) @@ ("OK" :> OK) @@ ("Success" :> Success) @@ ("Fail" :> Fail)
Verbs == DOMAIN VerbSev
FmtSev == ("Infof" :> Info) @@ ("Warnf" :> Warn) @@ ("Errorf" :> Error)
ParamEPs == {"LogAttrs", "Logit"}
StdSevs == {Debug, Info, Warn, Error}      \* Entry.Log: only the four standard log/slog levels (rest is C15)

MethodRecvs == {"root", "child"}
PkgRecvs == {"pkgimp", "pkgentry"}
Severities == Builtin \cup DOMAIN Customs
Treat == TreatInit @@ Customs              \* treated-as table of the process

\* which severities each entry point can carry, reached through which kind of receiver
CtxVerbs == {v \o "Context" : v \in Verbs}
AllEPs == Verbs \cup CtxVerbs \cup ParamEPs \cup DOMAIN FmtSev \cup {"Log"}
Carries(ep, rc, r) ==
    \/ ep \in Verbs /\ r = VerbSev[ep] /\ rc \in MethodRecvs \cup PkgRecvs
    \/ \E v \in Verbs : ep = v \o "Context" /\ r = VerbSev[v] /\ rc \in MethodRecvs \cup PkgRecvs
    \/ ep \in ParamEPs /\ rc \in MethodRecvs /\ r \in Severities
    \/ ep \in DOMAIN FmtSev /\ rc \in MethodRecvs /\ r = FmtSev[ep]
    \/ ep = "Log" /\ rc \in MethodRecvs /\ r \in StdSevs
Carriers == {t \in AllEPs \X (MethodRecvs \cup PkgRecvs) \X Severities : Carries(t[1], t[2], t[3])}

(* Destination classes: what the logger's writer set looks like when the call is made, as the
   lists of writer kinds ("rec" a recording writer, "discard" io.Discard) of the normal device,
   the error device and the per-level list installed for Panic and for Fatal.  The worker
   builds each class with the public API (SetWriter / SetErrorWriter / Add..Writer /
   Remove..Writer / AddLevelWriter / RemoveLevelWriter); "dflt" is a logger without writers of
   its own (it uses the package default writers, which record), "emptied" and "lvlemptied" get
   their writers added and removed again.                                                     *)
DstCfg ==
    ("rec"        :> [normal |-> <<"rec">>,            error |-> <<"rec">>,            level |-> <<>>]) @@
    ("dflt"       :> [normal |-> <<"rec">>,            error |-> <<"rec">>,            level |-> <<>>]) @@
    ("discN"      :> [normal |-> <<"discard">>,        error |-> <<"rec">>,            level |-> <<>>]) @@
    ("discE"      :> [normal |-> <<"rec">>,            error |-> <<"discard">>,        level |-> <<>>]) @@
    ("discBoth"   :> [normal |-> <<"discard">>,        error |-> <<"discard">>,        level |-> <<>>]) @@
    ("emptied"    :> [normal |-> <<>>,                 error |-> <<>>,                 level |-> <<>>]) @@
    ("lvlrec"     :> [normal |-> <<"discard">>,        error |-> <<"discard">>,        level |-> <<"rec">>]) @@
    ("lvldisc"    :> [normal |-> <<"rec">>,            error |-> <<"rec">>,            level |-> <<"discard">>]) @@
    ("lvlemptied" :> [normal |-> <<"rec">>,            error |-> <<"rec">>,            level |-> <<>>]) @@
    ("mixed"      :> [normal |-> <<"discard", "rec">>, error |-> <<"discard", "rec">>, level |-> <<>>])
DstClasses == DOMAIN DstCfg
MsgSizes == {0, 65535, 65536, 65537, 102400, 307200}
DefaultDst == "rec"

(* Call sites: where the cell's call is issued from (see `from` above).                        *)
Sites == {"top", "writeSame", "writeOther", "string", "marshalText", "logValue"}
WriteSites == {"writeSame", "writeOther"}
ValueSites == {"string", "marshalText", "logValue"}
Nested(c) == c.from # "top"
\* the site is reached only if the outer record is produced: on the same logger it has severity
\* Always (admitted at every level but Off); values are formatted only while the flag set has
\* Lattrs (not in the "empty" flag set); the harness wraps the recording writer of the default
\* destination class
SiteReachable(site, l) == site = "writeSame" => l # Off
SiteDimsOK(q) == q[6] # "top" => (q[4] = DefaultDst /\ q[2] # "empty")

(* Ways of starting the process: the two signs of "this is a go test binary" in os.Args.      *)
Starts == {"prod", "gotest", "nameOnly", "argOnly"}
FullStarts == {"prod", "gotest"}                   \* no sign at all / both signs
NameSign(st) == st \in {"gotest", "nameOnly"}       \* the executable is named *.test
ArgSign(st) == st \in {"gotest", "argOnly"}         \* some argument begins with "-test."
\* "under go test" (statement): both signs.  The go command builds pkg.test and runs it with
\* -test.* arguments (-test.paniconexit0, -test.timeout=.. at least); a production program that
\* happens to be called svc.test, or to take an option -test.endpoint, is not under go test.
GoTest(st) == NameSign(st) /\ ArgSign(st)

Wide(q) == q[4] # DefaultDst \/ q[5] # 0 \/ q[6] # "top"   \* the tuple varies destination, size or call site

\* the writers a record of severity r is handed to: a non-empty per-level list wins, otherwise
\* the error device for the severities of property C03's error class, otherwise the normal device
Dest(c) == LET g == DstCfg[c.dst]
           IN IF Terminating(c.r) /\ g.level # <<>> THEN g.level
              ELSE IF ErrClass(c.r, ErrDevInit) THEN g.error ELSE g.normal
Has(seq, x) == \E k \in 1..Len(seq) : seq[k] = x
Recording(c) == Has(Dest(c), "rec")           \* the record can be observed
AllDiscarded(c) == ~Has(Dest(c), "rec")       \* io.Discard only, or no writer at all

\* Panic/Fatal severities are crossed with the <<format, base flags, input class, destination class,
\* message size, call site>> tuples of Dims; the other severities (negative cases) with those of NegDims; tuples that
\* vary destination, size or site with the logger levels of WideLevels, the default ones with LoggerLevels;
\* the tuples of HalfDims (other severities: NegHalfDims) with all four ways of starting the process, the others
\* with "prod" and "gotest".
\* The cells are numbered (CellSeq) rather than collected in a set of records: TLC sorts a set of
\* n elements with O(n^2) moves unless they arrive in order, which is minutes for a million cells.
Mk(t, l, n, a, st, q) ==
    [ep |-> t[1], recv |-> t[2], r |-> t[3], L |-> l, ni |-> n, ia |-> a, testing |-> GoTest(st), start |-> st,
     fmt |-> q[1], base |-> q[2], inp |-> q[3], dst |-> q[4], size |-> q[5], from |-> q[6]]
CarrierDims == ({t \in Carriers : Terminating(t[3])} \X Dims) \cup ({t \in Carriers : ~Terminating(t[3])} \X NegDims)
LevelsOf(q) == IF Wide(q) THEN WideLevels ELSE LoggerLevels
StartsOf(q, r) == IF q \in (IF Terminating(r) THEN HalfDims ELSE NegHalfDims) THEN Starts ELSE FullStarts
CarrierDimLevels == {x \in CarrierDims \X LoggerLevels : x[2] \in LevelsOf(x[1][2]) /\ SiteReachable(x[1][2][6], x[2])}
CarrierDimLevelStarts == {y \in CarrierDimLevels \X Starts : y[2] \in StartsOf(y[1][1][2], y[1][1][1][3])}
CDL == SetToSeq(CarrierDimLevelStarts)
NCells == 4 * Len(CDL)
CellIds == 1..NCells
CellAt(k) == LET y == CDL[((k - 1) \div 4) + 1]
                 x == y[1]
                 b == (k - 1) % 4
             IN Mk(x[1][1], x[2], (b \div 2) % 2 = 1, b % 2 = 1, y[2], x[1][2])
CellSeq == [k \in CellIds |-> CellAt(k)]         \* the table: every cell once

\* "c is a cell of the table" without searching it
DimOf(c) == <<c.fmt, c.base, c.inp, c.dst, c.size, c.from>>
IsCell(c) ==
    /\ DOMAIN c = {"ep", "recv", "r", "L", "ni", "ia", "testing", "start", "fmt", "base", "inp", "dst", "size", "from"}
    /\ Carries(c.ep, c.recv, c.r)
    /\ c.ni \in BOOLEAN /\ c.ia \in BOOLEAN
    /\ DimOf(c) \in (IF Terminating(c.r) THEN Dims ELSE NegDims)
    /\ c.L \in LevelsOf(DimOf(c)) /\ SiteReachable(c.from, c.L)
    /\ c.start \in StartsOf(DimOf(c), c.r) /\ c.testing = GoTest(c.start)

ASSUME WideLevels \subseteq LoggerLevels
ASSUME \A q \in Dims \cup NegDims : q[4] \in DstClasses /\ q[5] \in MsgSizes /\ q[6] \in Sites /\ SiteDimsOK(q)
ASSUME HalfDims \subseteq Dims /\ NegHalfDims \subseteq NegDims
ASSUME \A k \in CellIds : IsCell(CellSeq[k])

-----------------------------------------------------------------------------
(* STATEMENT (the oracle) *)

\* "admitted": the level gate of property C01, debug mode off
Admitted(c) == Admit(c.L, c.r, FALSE, Treat)

\* "An admitted Panic/Fatal call ... terminates.  Neither terminates when the call is not
\*  admitted, when the no-interrupt flag is set, or under go test unless the interrupt-always
\*  flag is set, and no other severity ever panics or exits."
\*  - as a function of severity, logger level, the two flags and the process mode, and of nothing
\*  else: where the record goes, how long the message is and where the call is issued from do not
\*  occur; "under go test" (testing) is GoTest of the way the process was started: both signs
TerminatesK(r, L, ni, ia, testing) == /\ Terminating(r)
                                      /\ Admit(L, r, FALSE, Treat)
                                      /\ ~ni
                                      /\ (~testing \/ ia)
OutcomeK(r, L, ni, ia, testing) ==
    IF ~TerminatesK(r, L, ni, ia, testing) THEN "ret" ELSE IF r = Panic THEN "panic" ELSE "exit"

Key(c) == <<c.r, c.L, c.ni, c.ia, c.testing>>
Terminates(c) == TerminatesK(c.r, c.L, c.ni, c.ia, c.testing)
Outcome(c) == OutcomeK(c.r, c.L, c.ni, c.ia, c.testing)

\* "writes its complete record": every admitted Panic/Fatal call, terminating or not
MustWrite(c) == Terminating(c.r) /\ Admitted(c)

NoFin == [out |-> "none", status |-> 0, pv |-> ""]
Ret == [out |-> "ret", status |-> 0, pv |-> ""]
PanicWith(v) == [out |-> "panic", status |-> 0, pv |-> v]
ExitWith(s) == [out |-> "exit", status |-> s, pv |-> ""]
Hang == [out |-> "hang", status |-> 0, pv |-> ""]     \* never an expected outcome

\* panic value = the message; exit status 253
ExpectedFin(c) == CASE Outcome(c) = "panic" -> PanicWith("msg")
                    [] Outcome(c) = "exit" -> ExitWith(ExitStatus)
                    [] OTHER -> Ret

Expected(c) == [out |-> Outcome(c), status |-> ExpectedFin(c).status, pv |-> ExpectedFin(c).pv,
                rec |-> IF ~MustWrite(c) THEN "any" ELSE IF Recording(c) THEN "complete" ELSE "unobservable"]

(* The property as predicates over a final observation: c the cell, f how the call ended
   ([out, status, pv]; pv = "msg" iff the panic value is a string equal to the WHOLE message), w
   the number of complete records written before it ended (complete = the whole message ..).
   `everywhere` = TRUE: w counts what was handed to the destination list (the mechanism machine);
   FALSE: w counts what recording writers received (an observation of the library), and the
   "written first" clause is evaluated only where the cell has a recording destination.       *)
Seen(c, everywhere) == everywhere \/ Recording(c)
WriteThenTerminateP(c, f, w, everywhere) == (f.out \in {"panic", "exit"} /\ Seen(c, everywhere)) => w = 1
OnlyWhenStatedP(c, f, w) == f.out \in {"panic", "exit"} => Terminates(c)
\* "then panics / then exits the process", "neither terminates" (= the call returns): the call ENDS
EndsP(c, f, w) == f.out # "hang"
FinalMatchesStatementP(c, f, w, everywhere) ==
    /\ f.out = Outcome(c)
    /\ f.out = "exit" => f.status = ExitStatus
    /\ f.out = "panic" => f.pv = "msg"
    /\ (MustWrite(c) /\ Seen(c, everywhere)) => w = 1

\* "no other severity ever panics or exits", applied to the OUTER call of a nested cell: it is a call of
\* severity Always (same logger) or Info (another logger); oo is how it ended ("none": not observed - the cell
\* is not nested, or the nested call ended the process)
OuterSeverity(site) == IF site = "writeSame" THEN Always ELSE Info
OuterReturnsP(c, oo) == (Nested(c) /\ ~Terminating(OuterSeverity(c.from))) => oo \in {"none", "ret"}

\* an observation of the library (everywhere = FALSE)
Failed(c, f, w) ==
    (IF WriteThenTerminateP(c, f, w, FALSE) THEN {} ELSE {"WriteThenTerminate"}) \cup
    (IF OnlyWhenStatedP(c, f, w) THEN {} ELSE {"OnlyWhenStated"}) \cup
    (IF EndsP(c, f, w) THEN {} ELSE {"Ends"}) \cup
    (IF FinalMatchesStatementP(c, f, w, FALSE) THEN {} ELSE {"FinalMatchesStatement"})

-----------------------------------------------------------------------------
(* MECHANISM (what the documentation / code structure says happens, step by step) *)

\* every entry point asks Level.Enabled before it logs (log1, *Context, LogAttrs, Logit, logctxctx)
\* ("discardGate": a wrong gate that also skips the call when nothing would keep the record)
Gate(c) == IF Mut = "noGate" /\ c.ep = "FatalContext" THEN TRUE
           ELSE IF Mut = "discardGate" /\ AllDiscarded(c) THEN FALSE
           ELSE EnabledMech(c.L, c.r, FALSE, Treat)

\* the record is formatted from the message and handed to the destination list: complete records
\* handed over ("truncate": a wrong mechanism that clamps a long message and goes on with the clamped one)
Clamped(c) == Mut = "truncate" /\ c.size > 65536
PrintMech(c) == IF Clamped(c) THEN 0 ELSE 1

\* the tail of Entry.logContext, after the record was printed:
\*   if !inTesting || IsAnyBitsSet(Linterruptalways) {
\*       if IsAllBitsSet(LnoInterrupt) { return }
\*       if lvl == PanicLevel { panic(msg) }
\*       if lvl == FatalLevel { os.Exit(-3) } }
\* inTesting: a package variable, is.InTesting() evaluated once when package slog is initialised, which is
\*   InTestingT(os.Args): (HasSuffix(args[0], ".test") || Contains(args[0], "/T/___Test")) && some argument
\*   HasPrefix "-test."      (the second name form is what an IDE on macOS calls its test binaries)
\* ("eitherSign": a wrong detection that is content with one of the two signs)
\* ("waitInFlight": a wrong Fatal arm that waits until no record is in the making any more before it
\*  exits - issued from inside the production of another record on the same goroutine it waits for ever)
NoInterrupt(c) == IF Mut = "anyBits" THEN c.ni \/ c.ia ELSE c.ni
InTestingMech(c) == IF Mut = "eitherSign" THEN NameSign(c.start) \/ ArgSign(c.start)
                    ELSE NameSign(c.start) /\ ArgSign(c.start)
TailMech(c) ==
    IF ~InTestingMech(c) \/ c.ia
    THEN IF NoInterrupt(c) THEN Ret
         ELSE IF c.r = Panic THEN PanicWith(IF (Mut = "panicValue" /\ c.inp # "plain") \/ Clamped(c) THEN "other" ELSE "msg")
         ELSE IF c.r = Fatal /\ Mut = "waitInFlight" /\ Nested(c) THEN Hang
         ELSE IF c.r = Fatal THEN ExitWith(IF Mut = "status" THEN 3 ELSE ExitStatus)
         ELSE IF Mut = "errTerm" /\ c.r = Error /\ c.ia THEN ExitWith(ExitStatus)
         ELSE Ret
    ELSE Ret

\* order of the two steps after the gate ("exitFirst": the wrong order, for Fatal only)
Order(c) == IF Mut = "exitFirst" /\ c.r = Fatal THEN <<"tail", "print">> ELSE <<"print", "tail">>
After(c, p) == IF Order(c)[1] = p THEN Order(c)[2] ELSE "end"

\* step p produced the tentative result f (Ret = carry on)
Finish(p, f) ==
    IF f.out # "ret" THEN pc' = "done" /\ fin' = f
    ELSE IF After(cell, p) = "end" THEN pc' = "done" /\ fin' = Ret
    ELSE pc' = After(cell, p) /\ fin' = fin

Init == /\ \E k \in CellIds : cell = CellSeq[k]
        /\ pc = "call"
        /\ written = 0
        /\ fin = NoFin

DoGate == /\ pc = "call"
          /\ UNCHANGED <<cell, written>>
          /\ IF Gate(cell) THEN pc' = Order(cell)[1] /\ fin' = fin
             ELSE pc' = "done" /\ fin' = Ret

DoPrint == /\ pc = "print"
           /\ written' = written + PrintMech(cell)
           /\ cell' = cell
           /\ Finish("print", Ret)

DoTail == /\ pc = "tail"
          /\ UNCHANGED <<cell, written>>
          /\ Finish("tail", TailMech(cell))

Next == DoGate \/ DoPrint \/ DoTail

\* how the mechanism ends the call of cell c, as a function (documented order; used for twin cells)
MechFin(c) == IF ~Gate(c) THEN Ret ELSE TailMech(c)

Spec == Init /\ [][Next]_vars

-----------------------------------------------------------------------------
(* PROPERTIES checked by TLC over all cells *)

TypeOK == /\ IsCell(cell)
          /\ pc \in {"call", "print", "tail", "done"}
          /\ written \in 0..1
          /\ fin.out \in {"none", "ret", "panic", "exit", "hang"}
          /\ (pc = "done") = (fin.out # "none")

WriteThenTerminate == WriteThenTerminateP(cell, fin, written, TRUE)
OnlyWhenStated == OnlyWhenStatedP(cell, fin, written)
FinalMatchesStatement == pc = "done" => FinalMatchesStatementP(cell, fin, written, TRUE)
NotAdmittedSilent == (pc = "done" /\ ~Admitted(cell)) => written = 0
Ends == EndsP(cell, fin, written)

\* Termination does not depend on where the record goes, on how long the message is, on where the
\* call is issued from, or on HOW the process came to be in its mode: the call of every twin cell
\* (same entry point, severity, level, flags, mode; any destination class, any message size, any call
\* site, any way of starting the process that gives the same mode) ends the way this one did.
\* (twins: every destination class with the short message, every size with recording writers, every
\*  site with both; for Panic/Fatal severities also every <<destination class, size, site>> triple that
\*  occurs in the table; each with every way of starting the process of the same mode)
Twin(c, dz, st) == [c EXCEPT !.dst = dz[1], !.size = dz[2], !.from = dz[3], !.start = st]
TwinAxes == {<<d, 0, "top">> : d \in DstClasses} \cup {<<DefaultDst, z, "top">> : z \in MsgSizes} \cup
            {<<DefaultDst, 0, f>> : f \in Sites}
TwinPairs == TwinAxes \cup {<<q[4], q[5], q[6]>> : q \in Dims}
SameMode(st) == {s \in Starts : GoTest(s) = GoTest(st)}
DestinationsDoNotMatter ==
    pc = "done" => \A dz \in (IF Terminating(cell.r) THEN TwinPairs ELSE TwinAxes) :
                      \A st \in SameMode(cell.start) : MechFin(Twin(cell, dz, st)) = fin
\* ... and the statement's outcome is a function of Key (severity, level, flags, mode) over the table
\* (collected in two halves: TLC refuses to build a set from more than a million elements at once)
KeyFins(ids) == {<<Key(CellSeq[k]), ExpectedFin(CellSeq[k])>> : k \in ids}
AllKeyFins == KeyFins(1..(NCells \div 2)) \cup KeyFins(((NCells \div 2) + 1)..NCells)
ASSUME Cardinality(AllKeyFins) = Cardinality({p[1] : p \in AllKeyFins})

\* the terminating step is not the writing step, and the record is already out when it happens
TermOrder == [][fin'.out \in {"panic", "exit"} => (written' = written /\ written = 1)]_vars
\* a finished call (returned, panicked, exited) takes no further step
NothingAfterEnd == [][fin.out = "none"]_vars

-----------------------------------------------------------------------------
(* TABLE: the cells with the expected outcome, exported for replay on the library; and the
   sizes of the outcome classes (the check refuses to run on a table where one is empty).    *)

\* (Table and Stats take the index set as argument: TLC evaluates every argument-less constant
\*  definition at start-up, in every run; only the run that exports the table needs them)
Table(ids) == [k \in ids |-> CellSeq[k] @@ [exp |-> Expected(CellSeq[k])]]

Stats(ids) ==
    LET Count(P(_)) == Cardinality({k \in ids : P(CellSeq[k])}) IN
    [cells |-> Cardinality(ids),
     panic |-> Count(LAMBDA c : Outcome(c) = "panic"),
     exit |-> Count(LAMBDA c : Outcome(c) = "exit"),
     notAdmitted |-> Count(LAMBDA c : Terminating(c.r) /\ ~Admitted(c)),
     heldByNoInterrupt |-> Count(LAMBDA c : MustWrite(c) /\ c.ni /\ (~c.testing \/ c.ia)),
     heldByTesting |-> Count(LAMBDA c : MustWrite(c) /\ ~c.ni /\ c.testing /\ ~c.ia),
     otherSeverity |-> Count(LAMBDA c : ~Terminating(c.r)),
     otherSeverityAdmittedUnheld |-> Count(LAMBDA c : ~Terminating(c.r) /\ Admitted(c) /\ ~c.ni /\ (~c.testing \/ c.ia)),
     customAdmittedUnheld |-> Count(LAMBDA c : c.r \in DOMAIN Customs /\ Admitted(c) /\ ~c.ni /\ (~c.testing \/ c.ia)),
     terminatesUnobservable |-> Count(LAMBDA c : Terminates(c) /\ ~Recording(c)),
     terminatesOtherDestination |-> Count(LAMBDA c : Terminates(c) /\ Recording(c) /\ c.dst # DefaultDst),
     nestedTerminates |-> Count(LAMBDA c : Terminates(c) /\ Nested(c)),
     nestedHeld |-> Count(LAMBDA c : MustWrite(c) /\ ~Terminates(c) /\ Nested(c)),
     nestedSitesWithExit |-> Cardinality({CellSeq[k].from : k \in {j \in ids : Outcome(CellSeq[j]) = "exit" /\ Nested(CellSeq[j])}}),
     halfSignTerminates |-> Count(LAMBDA c : Terminates(c) /\ c.start \notin FullStarts),
     halfSignNeedsBoth |-> Count(LAMBDA c : MustWrite(c) /\ ~c.ni /\ ~c.ia /\ c.start \notin FullStarts),
     panicLongMessage |-> Count(LAMBDA c : Outcome(c) = "panic" /\ c.size > 65536),
     exitLongMessage |-> Count(LAMBDA c : Outcome(c) = "exit" /\ c.size > 65536)]

ASSUME ExportFile = "" \/ (PrintT("@@stats " \o ToJson(Stats(CellIds))) /\ JsonSerialize(ExportFile, Table(CellIds)))
=============================================================================
