------------------------------- MODULE Levels -------------------------------
(* Severity levels of hedzr/logg and the admission rule (property C01), shared by every
   other module.  Levels are integers exactly as in the library (level.go):
   the smaller the number the more severe; Off/Always/OK/Success/Fail are special.          *)
EXTENDS Integers, FiniteSets, Sequences, TLC

Panic == 0  Fatal == 1  Error == 2  Warn == 3  Info == 4  Debug == 5  Trace == 6
Off == 7    Always == 8 OK == 9     Success == 10 Fail == 11
MaxLevel == 12

Builtin == 0..11

\* factory tables (level.go: mLevelIsEnabledAs, mLevelUseErrorDevice)
TreatInit == (OK :> Info) @@ (Success :> Info) @@ (Fail :> Error)
ErrDevInit == {Panic, Fatal, Error, Warn, Fail}

AsBuiltin(r, treat) == IF r \in DOMAIN treat THEN treat[r] ELSE r

(* "a registered custom level counting as the built-in level it is treated as": the table is followed to
   its end (a level may be treated as a level registered before it, OK / Success / Fail are themselves
   entries of the factory table); the step bound makes a cyclic table harmless.                          *)
RECURSIVE CountsAsN(_, _, _)
CountsAsN(r, treat, n) ==
    IF n = 0 \/ r \notin DOMAIN treat \/ treat[r] = r THEN r ELSE CountsAsN(treat[r], treat, n - 1)
CountsAs(r, treat) == CountsAsN(r, treat, Cardinality(DOMAIN treat) + 1)

(* The statement of C01, declaratively: L is the logger's level, r the record's severity,
   dbg the process-wide debug mode, treat the treated-as table.  Every clause speaks about the level
   the severity counts as: a level treated as Always is always admitted, one treated as Off never,
   one treated as Debug is admitted while debug mode is on.                                      *)
Admit(L, r, dbg, treat) ==
    LET e == CountsAs(r, treat)
    IN /\ L # Off
       /\ e # Off
       /\ \/ L = Always
          \/ e = Always
          \/ (dbg /\ e = Debug)
          \/ e <= L

(* Level.Enabled transcribed line by line (the mechanism; since the repair of 2026-10-03 the table
   is consulted first and followed to its end).                                                 *)
EnabledMech(L, r, dbg, treat) ==
    LET t == CountsAs(r, treat)
    IN IF L = Off \/ t = Off THEN FALSE
       ELSE IF L = Always \/ t = Always THEN TRUE
       ELSE IF dbg /\ t = Debug THEN TRUE
       ELSE L >= t

(* the mechanism before that repair (one look-up, after the Off / Always / Debug tests): kept as the
   named deviation the C01 witness run must reject                                              *)
EnabledMechOneStep(L, r, dbg, treat) ==
    IF L = Off \/ r = Off THEN FALSE
    ELSE IF L = Always \/ r = Always THEN TRUE
    ELSE IF dbg /\ r = Debug THEN TRUE
    ELSE L >= AsBuiltin(r, treat)

ErrClass(r, errdev) == r \in errdev

\* termination class of a severity (C12)
Terminating(r) == r \in {Panic, Fatal}
=============================================================================
