------------------------------- MODULE Levels -------------------------------
(* Severity levels of hedzr/logg and the admission rule (property C01), shared by every
   other module.  Levels are integers exactly as in the library (level.go):
   the smaller the number the more severe; Off/Always/OK/Success/Fail are special.          *)
EXTENDS Integers, FiniteSets, Sequences, TLC

Panic == 0  Fatal == 1  Error == 2  Warn == 3  Info == 4  Debug == 5  Trace == 6
Off == 7    Always == 8 OK == 9     Success == 10 Fail == 11
MaxLevel == 12

Builtin == 0..11

\* factory tables (level.go: mLevelIsEnabledAs, mLevelUseErrorDevice)
TreatInit == (OK :> Info) @@ (Success :> Info) @@ (Fail :> Error)
ErrDevInit == {Panic, Fatal, Error, Warn, Fail}

AsBuiltin(r, treat) == IF r \in DOMAIN treat THEN treat[r] ELSE r

(* The statement of C01, declaratively: L is the logger's level, r the record's severity,
   dbg the process-wide debug mode, treat the treated-as table.                              *)
Admit(L, r, dbg, treat) ==
    /\ L # Off
    /\ r # Off
    /\ \/ L = Always
       \/ r = Always
       \/ (dbg /\ r = Debug)
       \/ AsBuiltin(r, treat) <= L

(* Level.Enabled transcribed line by line (the mechanism).                                   *)
EnabledMech(L, r, dbg, treat) ==
    IF L = Off \/ r = Off THEN FALSE
    ELSE IF L = Always \/ r = Always THEN TRUE
    ELSE IF dbg /\ r = Debug THEN TRUE
    ELSE L >= AsBuiltin(r, treat)

ErrClass(r, errdev) == r \in errdev

\* termination class of a severity (C12)
Terminating(r) == r \in {Panic, Fatal}
=============================================================================
