--------------------------- MODULE LoggCoreTrace ---------------------------
(* Trace validation for LoggCore: a log of public calls recorded from the real library
   (one JSON object per line, with the call's arguments and the observations the harness made
   after the call returned) is checked against the LoggCore model.

   The checker is a monitor: it consumes one line per step.  A line is accepted when the model
   allows the call from the current abstract state (Guard) and some successor allowed by Step
   explains everything observed (ObsMatch).  A rejected line is recorded in `bad` together with
   what the model expected, the rest of that behaviour is skipped, and checking resumes at the
   next "Reset" line, so one divergence does not hide the others.                               *)
EXTENDS LoggCore, Json

CONSTANT TraceFile

VARIABLES i, failed, bad

TLog == ndJsonDeserialize(TraceFile)

Has(r, f) == f \in DOMAIN r

\* writer events of one probe, e.g. <<[w |-> 3, k |-> "w"]>>: only the sequence of writers written to
Written(evs) == [x \in 1..Len(SelectSeq(evs, LAMBDA v : v.k = "w")) |-> SelectSeq(evs, LAMBDA v : v.k = "w")[x].w]

Count(seq, x) == Cardinality({j \in DOMAIN seq : seq[j] = x})
SameBag(a, b) == \A x \in ToSet(a) \cup ToSet(b) : Count(a, x) = Count(b, x)

\* C03: a destination that asks to be told the severity is told it immediately before each of its
\* Writes: its own events are (SetLevel(r), Write)*; other destinations are never told
OfWriter(evs, x) == SelectSeq(evs, LAMBDA v : v.w = x)
NotifyOK(evs, r) ==
    /\ \A x \in WantsLevel :
          LET p == OfWriter(evs, x) IN
          /\ Len(p) % 2 = 0
          /\ \A j \in 1..Len(p) : IF j % 2 = 1 THEN p[j].k = "s" /\ p[j].r = r ELSE p[j].k = "w"
    /\ \A j \in 1..Len(evs) : evs[j].k = "s" => evs[j].w \in WantsLevel

HasClosed(s, d) == \E j \in DOMAIN d : d[j] \in s.closed
\* a probe record is written through (no gating); the diagnostic after a failed attempt is an ordinary Warn record
ProbeWritten(s, l, r) ==
    LET d == Dest(s, l, r)
    IN Open(s, d) \o (IF HasClosed(s, d) /\ r # Warn /\ Emits(s, l, Warn) THEN Open(s, Dest(s, l, Warn)) ELSE <<>>)

TsOK(s, l, fits) == \E j \in DOMAIN fits : fits[j][2] = TsZone(s, l) /\ fits[j][1] \in TsLayouts(s, l)
\* the records of a nested pair: each goes to its own logger's destinations, whole, in that logger's shape, with
\* that logger's timestamp - whatever the other one is doing at the moment
NestOK(s, l, recs) ==
    /\ SameBag([x \in DOMAIN recs |-> recs[x].w], Open(s, Dest(s, l, Info)))
    /\ \A x \in DOMAIN recs : recs[x].whole /\ recs[x].shape = Fmt(s.cfg[l]) /\ TsOK(s, l, recs[x].fits)

ObsLoggerOK(s, l, o) ==
    /\ Has(o, "json") => o.json = s.cfg[l].json
    /\ Has(o, "color") => o.color = s.cfg[l].color
    /\ Has(o, "level") => o.level = s.cfg[l].level
    /\ Has(o, "skip") => o.skip = s.cfg[l].skip
    /\ Has(o, "name") => o.name = s.name[l]
    /\ Has(o, "parent") => o.parent = s.parent[l]
    /\ Has(o, "root") => o.root = RootOf(s, l)
    /\ Has(o, "shape") => o.shape = Fmt(s.cfg[l])
    \* ... and so does a record of every probed severity, whatever the registry says about it
    /\ Has(o, "shapes") => \A x \in 1..Len(o.shapes) : o.shapes[x] = Fmt(s.cfg[l])
    \* timestamp of a probe record (if one was written): some layout the model allows, in the zone
    \* the model selects, explains the printed text (o.ts.fits = <<layout, zone>> pairs that do)
    /\ Has(o, "ts") => (o.ts.got => \E j \in DOMAIN o.ts.fits :
                            o.ts.fits[j][2] = TsZone(s, l) /\ o.ts.fits[j][1] \in TsLayouts(s, l))
    \* what a probe record shows: own attributes, preceded by the ancestors' while the inherit flag is on
    /\ Has(o, "attrs") => o.attrs = Leaves(Chain(s, l), <<>>)
    /\ Has(o, "each") => o.each = EachOf(s, l)
    \* children made in bulk are visited too, every one of them once, at their depth
    /\ Has(o, "eachbulk") => {<<o.eachbulk[x][1], o.eachbulk[x][2]>> : x \in DOMAIN o.eachbulk} = EachBulk(s, l)
    \* DumpSubloggers prints the same subtree: the bag of indentation depths agrees with Each
    /\ (Has(o, "dump") /\ ~HasBulk(s, l)) => SameBag(o.dump, DumpDepths(s, l))
    \* GetWriterBy(r) is the destination list of severity r; GetWriter() the one of the logger's own level
    /\ Has(o, "getw") => \A x \in 1..Len(o.getw) : SameBag(Written(o.getw[x].evs), Open(s, Dest(s, l, o.getw[x].r)))
    /\ Has(o, "getw0") => SameBag(Written(o.getw0), Open(s, Dest(s, l, s.cfg[l].level)))
    /\ Has(o, "sub") => \A x \in 1..Len(o.sub) :
            LET c == SubCands(s, l, o.sub[x].name)
            IN IF c = {} THEN o.sub[x].got = 0 ELSE o.sub[x].got \in c
    \* every selected destination receives the record once per occurrence in the list, nothing else
    \* receives anything (the order of Write calls across destinations is not part of the property)
    \* (a closed file among them fails its attempt: the one diagnostic record follows, as for any failure)
    /\ Has(o, "dest") => \A x \in 1..Len(o.dest) : /\ SameBag(Written(o.dest[x].evs), ProbeWritten(s, l, o.dest[x].r))
                                                         /\ (HasClosed(s, Dest(s, l, o.dest[x].r)) \/ NotifyOK(o.dest[x].evs, o.dest[x].r))
    \* C01: per severity, every entry point decides as the admission rule says
    /\ Has(o, "gate") => \A x \in 1..Len(o.gate) :
            IF Emits(s, l, o.gate[x].r) THEN o.gate[x].no = <<>> ELSE o.gate[x].yes = <<>>
    /\ Has(o, "verbose") => o.verbose = FALSE

ObsMatch(s, e, s2) ==
    /\ Has(e, "ret") => e.ret = Ret(s, e, s2)
    /\ Has(e, "dbg") => e.dbg = s2.dbg
    /\ (e.op = "Register" /\ Has(e, "ok")) => e.ok = RegOK(s, e)
    /\ (e.op = "LogNest" /\ Has(e, "nest")) => NestOK(s2, e.l, e.nest.outer) /\ NestOK(s2, e.a, e.nest.inner)
    \* Close() of a destination list: every LogWriter among the members is closed once per occurrence
    /\ (e.op = "CloseW" /\ Has(e, "closed")) => SameBag(e.closed, Closers(Dest(s, e.l, e.a)))
    /\ Has(e, "deflvl") => e.deflvl = s2.deflvl
    /\ Has(e, "n") => e.n = s2.n
    \* C13: the attempts observed during the call, as a bag of [w, ph, fail]
    /\ (e.op = "LogF" /\ Has(e, "evs")) => SameBag(e.evs, Visible(s2, Deliver(s2, e.l, e.a, FailSets[e.b])))
    \* C02: one whole Write per destination iff admitted, whatever the arguments
    /\ (e.op = "LogA" /\ Has(e, "evs")) => SameBag(e.evs, Visible(s2, ExpectA(s2, e)))
    \* C07: the attributes printed for the record, flattened in printed order
    /\ (e.op = "LogM" /\ Has(e, "leaves")) => e.leaves = ExpectM(s2, e)
    /\ Has(e, "attrsR") => e.attrsR = s2.attrsR
    \* the global flags as GetFlags / IsAnyBitsSet / IsAllBitsSet show them
    /\ Has(e, "flags") => ToSet(e.flags) = s2.flags
    /\ Has(e, "bits") => \A x \in 1..Len(e.bits) :
            /\ e.bits[x].any = (s2.flags \cap FlagSets[e.bits[x].fs] # {})
            /\ e.bits[x].all = (FlagSets[e.bits[x].fs] \subseteq s2.flags)
    /\ Has(e, "outcome") => e.outcome = "ret"
    /\ Has(e, "obs") => /\ Len(e.obs) = s2.n
                        /\ \A l \in 1..s2.n : ObsLoggerOK(s2, l, e.obs[l])

\* what the model expected, for the report
Expect(s, e) ==
    IF ~Guard(s, e) THEN "call not allowed by the model in this state"
    ELSE LET s2 == CHOOSE x \in Step(s, e) : TRUE
         IN ToJson([ret |-> Ret(s, e, s2), deliver |-> (IF e.op = "LogF" THEN Deliver(s2, e.l, e.a, FailSets[e.b]) ELSE IF e.op = "LogA" THEN ExpectA(s2, e) ELSE <<>>),
                    leaves |-> (IF e.op = "LogM" THEN ExpectM(s2, e) ELSE <<>>), flags |-> SetToSeq(s2.flags), dbg |-> s2.dbg, deflvl |-> s2.deflvl, n |-> s2.n,
                    cfg |-> [l \in 1..s2.n |-> [json |-> s2.cfg[l].json, color |-> s2.cfg[l].color,
                                               level |-> s2.cfg[l].level, skip |-> s2.cfg[l].skip,
                                               name |-> s2.name[l], parent |-> s2.parent[l],
                                               attrs |-> s2.cfg[l].attrs,
                                               wn |-> s2.cfg[l].wn, we |-> s2.cfg[l].we,
                                               wl |-> SetToSeq({<<v, s2.cfg[l].wl[v]>> : v \in WLevels})]]])

(* Where the documentation is silent Step yields several successors, and an observation may not
   tell them apart at once; the monitor therefore tracks the SET of model states that explain
   everything observed so far (cands) - st is one representative, used by the invariants.       *)
VARIABLE cands

TInit == st = InitState /\ cands = {InitState} /\ i = 1 /\ failed = FALSE /\ bad = {}

TNext ==
    /\ i <= Len(TLog)
    /\ i' = i + 1
    /\ LET e == TLog[i] IN
       IF e.op = "Reset" THEN st' = InitState /\ cands' = {InitState} /\ failed' = FALSE /\ bad' = bad
       ELSE IF failed THEN UNCHANGED <<st, cands, failed, bad>>
       ELSE LET ok == UNION {IF Guard(s, e) THEN {s2 \in Step(s, e) : ObsMatch(s, e, s2)} ELSE {} : s \in cands}
            IN IF ok # {}
               THEN cands' = ok /\ st' = (CHOOSE s2 \in ok : TRUE) /\ UNCHANGED <<failed, bad>>
               ELSE /\ UNCHANGED <<st, cands>> /\ failed' = TRUE
                    /\ bad' = bad \cup {[line |-> i, expected |-> Expect(st, e)]}

TSpec == TInit /\ [][TNext]_<<st, cands, i, failed, bad>>

\* evaluated in every state; prints the verdict once the whole log is consumed
Done == i <= Len(TLog) \/ PrintT("@@bad " \o ToJson(SetToSeq(bad))) \/ TRUE

\* the model's own invariants are evaluated on every state the implementation visits
TOneFormat == \A s \in cands : \A l \in Live(s) : ~(s.cfg[l].json /\ s.cfg[l].color)
TTreeOK == TreeOK
=============================================================================
