--------------------------- MODULE DurationTrace ---------------------------
(* Trace validation for C20: records made from the real duration helpers (one JSON object per
   line, written by the overlay-injected test harness/overlay/c20_times_test.go.txt) are judged
   with the operators of Duration.tla.  The checker is a monitor: one line per step, every
   rejected line is collected in `bad` with a signature `key` and what the model expected.

   "fmt" line   cell (mixed-radix tuple), style, oor (harness: not an int64), panic,
                syms (the returned text as symbols), back (library parser on that text, limbs)
       accepted iff  oor = ~InRange(cell), and for cells in range: no panic, the text denotes the
       cell under the library grammar of the model (ParseSyms .. LibUnits), and the library's own
       parser returned the cell.                      -> "formatter total and invertible"
   "parse" line syms (input as symbols), lib / std (results of the package parser and of
                time.ParseDuration as limbs), panic
       accepted iff  lib = ParseSyms(syms, LibUnits).  A line whose std differs from
       ParseSyms(syms, StdUnits) is a defect of the *model* (key "spec:std"), lines outside the
       model's arithmetic are listed in `ood` and judged by the concrete comparison only.
                                                      -> "same accept/reject and value as the standard parser, plus day unit"
   At the end the monitor also reports which cells of the model's cell space (Cells x Styles)
   were not present in the log (coverage of the specification's enumeration).                  *)
EXTENDS Duration, SequencesExt

CONSTANT TraceFile

VARIABLES i, bad, ood

TLog == ndJsonDeserialize(TraceFile)

HasDay(s) == \E j \in 1..Len(s) : s[j] = "d"
DayTag(s) == IF HasDay(s) THEN "day" ELSE "noday"

FmtKey(e) ==
    LET c == e.cell
        exp == CellRes(c)
    IN IF e.oor # ~InRange(c) THEN "spec:range"
       ELSE IF e.oor THEN ""
       ELSE IF e.panic THEN "fmt:" \o e.style \o ":panic:need" \o ToString(Need(c, e.style))
       ELSE IF ParseSyms(e.syms, LibUnits) # exp THEN "fmt:" \o e.style \o ":text"
       ELSE IF e.back # exp THEN "fmt:" \o e.style \o ":roundtrip"
       ELSE ""

ParseKey(e) ==
    LET el == ParseSyms(e.syms, LibUnits)
        es == ParseSyms(e.syms, StdUnits)
    IN IF el.ood \/ es.ood THEN "ood"
       ELSE IF e.std # es THEN "spec:std"
       ELSE IF e.panic THEN "parse:panic:" \o DayTag(e.syms)
       ELSE IF e.lib.ok /\ ~el.ok THEN "parse:accept:" \o DayTag(e.syms)
       ELSE IF ~e.lib.ok /\ el.ok THEN "parse:reject:" \o DayTag(e.syms)
       ELSE IF e.lib # el THEN "parse:value:" \o DayTag(e.syms)
       ELSE ""

Key(e) == IF e.op = "fmt" THEN FmtKey(e) ELSE IF e.op = "parse" THEN ParseKey(e) ELSE ""
Expect(e) == IF e.op = "fmt" THEN ToJson([value |-> CellRes(e.cell), text |-> Format(e.cell, e.style),
                                          need |-> Need(e.cell, e.style)])
             ELSE ToJson([lib |-> ParseSyms(e.syms, LibUnits), std |-> ParseSyms(e.syms, StdUnits)])

TInit == st = "trace" /\ i = 1 /\ bad = {} /\ ood = {}

TNext ==
    /\ i <= Len(TLog)
    /\ i' = i + 1
    /\ UNCHANGED st
    /\ LET e == TLog[i]
           k == Key(e)
       IN IF k = "" THEN UNCHANGED <<bad, ood>>
          ELSE IF k = "ood" THEN ood' = ood \cup {i} /\ UNCHANGED bad
          ELSE bad' = bad \cup {[line |-> i, key |-> k, expected |-> Expect(e)]} /\ UNCHANGED ood

TSpec == TInit /\ [][TNext]_<<st, i, bad, ood>>

\* cells of the specification's cell space that the log does not contain
SeenCells == {<<TLog[j].cell, TLog[j].style>> : j \in {x \in 1..Len(TLog) : TLog[x].op = "fmt"}}
Missing   == Cardinality((Cells \X Styles) \ SeenCells)

\* evaluated in every state; prints the verdict once the whole log is consumed
Done == i <= Len(TLog) \/ /\ PrintT("@@bad " \o ToJson(SetToSeq(bad)))
                          /\ PrintT("@@ood " \o ToJson(SetToSeq(ood)))
                          /\ PrintT("@@cover " \o ToJson([cells |-> Cardinality(Cells \X Styles), missing |-> Missing]))
=============================================================================
