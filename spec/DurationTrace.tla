--------------------------- MODULE DurationTrace ---------------------------
(* Trace validation for C20: records made from the real duration helpers (one JSON object per
   line, written by the overlay-injected test harness/overlay/c20_times_test.go.txt) are judged
   with the operators of Duration.tla.  The checker is a monitor: one line per step, every
   rejected line is collected in `bad` with a signature `key` and what the model expected.

   "fmt" line   cell (mixed-radix tuple), style, env (name of the process environment the call was
                made in, one of Envs), oor (harness: not an int64), panic,
                syms (the returned text as symbols), back (library parser on that text, limbs)
       accepted iff  oor = ~InRange(cell), and for cells in range: no panic, the text denotes the
       cell under the library grammar of the model (ParseSyms .. LibUnits), and the library's own
       parser returned the cell - in EVERY environment alike: the judgement does not look at env
       (the text is a function of the duration and the style only; Duration!EnvFree).
                                                      -> "formatter total and invertible"
   "parse" line env, syms (input as symbols), lib / std (results of the package parser and of
                time.ParseDuration as limbs), panic
       accepted iff  lib = ParseSyms(syms, LibUnits).  A line whose std differs from
       ParseSyms(syms, StdUnits) is a defect of the *model* (key "spec:std"), lines outside the
       model's arithmetic are listed in `ood` and judged by the concrete comparison only.
                                                      -> "same accept/reject and value as the standard parser, plus day unit"
   "hist" line  one call of a HISTORY (machine "hist" of Duration.tla): h (history id), k (1.. index of
                the call in its history), call [o, cell, style, oor, j, syms], ret [panic, syms, res]
                (fmt: the returned text, parse/lit: the parser's value) and held: what the caller
                observes on EVERY text it still retains right after the call (syms: the text now,
                back: the library parser on it now).
       The monitor keeps the retained texts of the current history in hh (the texts as they were
       returned; k = 1 starts a new history).  Accepted iff the call itself is right (fmt as
       above; parse of a retained text = HParseRes of the text that was returned; lit =
       ParseSyms of the string) and every retained text still is the text that was returned and
       still parses back to its duration.  Keys: "hist:<style>:changed:after-<call>",
       "hist:<style>:roundtrip:after-<call>", "hist:<style>:parse-retained".
                                                      -> "a returned text is a value"
   At the end the monitor also reports which cells of the model's cell space (Cells x Styles)
   were not present in the log (coverage of the specification's enumeration).                  *)
EXTENDS Duration, SequencesExt

CONSTANT TraceFile

VARIABLES i, bad, ood, hh

TLog == ndJsonDeserialize(TraceFile)

HasDay(s) == \E j \in 1..Len(s) : s[j] = "d"
DayTag(s) == IF HasDay(s) THEN "day" ELSE "noday"

FmtKey(e) ==
    LET c == e.cell
        exp == CellRes(c)
    IN IF e.env \notin Envs THEN "spec:env"
       ELSE IF e.oor # ~InRange(c) THEN "spec:range"
       ELSE IF e.oor THEN ""
       ELSE IF e.panic THEN "fmt:" \o e.style \o ":panic:need" \o ToString(Need(c, e.style))
       ELSE IF ParseSyms(e.syms, LibUnits) # exp THEN "fmt:" \o e.style \o ":text"
       ELSE IF e.back # exp THEN "fmt:" \o e.style \o ":roundtrip"
       ELSE ""

ParseKey(e) ==
    LET el == ParseSyms(e.syms, LibUnits)
        es == ParseSyms(e.syms, StdUnits)
    IN IF e.env \notin Envs THEN "spec:env"
       ELSE IF el.ood \/ es.ood THEN "ood"
       ELSE IF e.std # es THEN "spec:std"
       ELSE IF e.panic THEN "parse:panic:" \o DayTag(e.syms)
       ELSE IF e.lib.ok /\ ~el.ok THEN "parse:accept:" \o DayTag(e.syms)
       ELSE IF ~e.lib.ok /\ el.ok THEN "parse:reject:" \o DayTag(e.syms)
       ELSE IF e.lib # el THEN "parse:value:" \o DayTag(e.syms)
       ELSE ""

\* ---- histories
LibKey(syms, res, panic, el) ==
    IF panic THEN "parse:panic:" \o DayTag(syms)
    ELSE IF res.ok /\ ~el.ok THEN "parse:accept:" \o DayTag(syms)
    ELSE IF ~res.ok /\ el.ok THEN "parse:reject:" \o DayTag(syms)
    ELSE IF res # el THEN "parse:value:" \o DayTag(syms)
    ELSE ""

HBefore(e) == IF e.k = 1 THEN <<>> ELSE hh          \* retained texts before the call of line e

HCallKey(H, e) ==
    LET c == e.call IN
    CASE c.o = "fmt" ->
            IF c.oor # ~InRange(c.cell) THEN "spec:range"
            ELSE IF c.oor THEN ""
            ELSE IF e.ret.panic THEN "fmt:" \o c.style \o ":panic:need" \o ToString(Need(c.cell, c.style))
            ELSE IF ~HFmtOK(c.cell, e.ret.syms) THEN "fmt:" \o c.style \o ":text"
            ELSE ""
      [] c.o = "parse" ->
            IF c.j \notin 1..Len(H) THEN "spec:hist"
            ELSE LET exp == HParseRes(H[c.j].text) IN
                 IF exp.ood THEN ""
                 ELSE IF e.ret.panic \/ e.ret.res # exp THEN "hist:" \o H[c.j].style \o ":parse-retained"
                 ELSE ""
      [] c.o = "lit" ->
            LET el == HParseRes(c.syms) IN IF el.ood THEN "spec:hist" ELSE LibKey(c.syms, e.ret.res, e.ret.panic, el)
      [] c.o = "drop" -> IF c.j \notin 1..Len(H) THEN "spec:hist" ELSE ""
      [] OTHER -> "spec:hist"

HAfter(H, e) ==
    LET c == e.call IN
    IF c.o = "fmt" /\ (c.oor \/ e.ret.panic) THEN H
    ELSE IF c.o \in {"parse", "drop"} /\ c.j \notin 1..Len(H) THEN H
    ELSE HApply(H, c.o, c.j, c.cell, c.style, e.ret.syms)

\* what the caller sees on its retained texts right after the call
HSnapKey(H, H2, e) ==
    IF Len(e.held) # Len(H2) THEN "spec:hist"
    ELSE LET wrong == {j \in 1..Len(H2) : e.held[j].syms # H2[j].text \/ e.held[j].back # HParseRes(H2[j].text)} IN
         IF wrong = {} THEN ""
         ELSE LET j == CHOOSE x \in wrong : \A y \in wrong : x <= y IN
              IF e.held[j].syms # H2[j].text THEN "hist:" \o H2[j].style \o ":changed:after-" \o e.call.o
              ELSE IF Len(H2) > Len(H) /\ j = Len(H2) THEN "fmt:" \o H2[j].style \o ":roundtrip"
              ELSE "hist:" \o H2[j].style \o ":roundtrip:after-" \o e.call.o

HistKey(e) == LET H  == HBefore(e)
                  k1 == HCallKey(H, e)
              IN IF k1 # "" THEN k1 ELSE HSnapKey(H, HAfter(H, e), e)
HistExpect(e) == LET H2 == HAfter(HBefore(e), e) IN
    ToJson([retained |-> [j \in 1..Len(H2) |-> [text |-> H2[j].text, value |-> CellRes(H2[j].cell)]],
            call |-> IF e.call.o = "fmt" /\ ~e.call.oor THEN ToJson([value |-> CellRes(e.call.cell), text |-> Format(e.call.cell, e.call.style)])
                     ELSE IF e.call.o = "lit" THEN ToJson(HParseRes(e.call.syms))
                     ELSE IF e.call.o = "parse" /\ e.call.j \in 1..Len(HBefore(e)) THEN ToJson(HParseRes(HBefore(e)[e.call.j].text))
                     ELSE ""])

Key(e) == IF e.op = "fmt" THEN FmtKey(e) ELSE IF e.op = "parse" THEN ParseKey(e) ELSE IF e.op = "hist" THEN HistKey(e) ELSE ""
Expect(e) == IF e.op = "hist" THEN HistExpect(e) ELSE
             IF e.op = "fmt" THEN ToJson([value |-> CellRes(e.cell), text |-> Format(e.cell, e.style),
                                          need |-> Need(e.cell, e.style)])
             ELSE ToJson([lib |-> ParseSyms(e.syms, LibUnits), std |-> ParseSyms(e.syms, StdUnits)])

TInit == st = "trace" /\ i = 1 /\ bad = {} /\ ood = {} /\ hh = <<>>

TNext ==
    /\ i <= Len(TLog)
    /\ i' = i + 1
    /\ UNCHANGED st
    /\ hh' = IF TLog[i].op = "hist" THEN HAfter(HBefore(TLog[i]), TLog[i]) ELSE hh
    /\ LET e == TLog[i]
           k == Key(e)
       IN IF k = "" THEN UNCHANGED <<bad, ood>>
          ELSE IF k = "ood" THEN ood' = ood \cup {i} /\ UNCHANGED bad
          ELSE bad' = bad \cup {[line |-> i, key |-> k, expected |-> Expect(e)]} /\ UNCHANGED ood

TSpec == TInit /\ [][TNext]_<<st, i, bad, ood, hh>>

\* cells of the specification's cell space that the log does not contain
SeenCells == {<<TLog[j].cell, TLog[j].style>> : j \in {x \in 1..Len(TLog) : TLog[x].op = "fmt"}}
Missing   == Cardinality((Cells \X Styles) \ SeenCells)

\* evaluated in every state; prints the verdict once the whole log is consumed
Done == i <= Len(TLog) \/ /\ PrintT("@@bad " \o ToJson(SetToSeq(bad)))
                          /\ PrintT("@@ood " \o ToJson(SetToSeq(ood)))
                          /\ PrintT("@@cover " \o ToJson([cells |-> Cardinality(Cells \X Styles), missing |-> Missing,
                                                           envs |-> {TLog[j].env : j \in {x \in 1..Len(TLog) : TLog[x].op \in {"fmt", "parse"}}}]))
=============================================================================
