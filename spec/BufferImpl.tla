----------------------------- MODULE BufferImpl -----------------------------
(* C19, second layer: the storage algorithm of bytes.Buffer (which slog/pc.go copies: buf, off,
   lastRead, capacity; tryGrowByReslice / grow with its reset-when-empty, small-buffer, slide and
   reallocate branches; MinRead loop of ReadFrom) transcribed with small scaled constants, run in
   lock-step with the abstract model of Buffer.tla.

   WHY.  Buffer.tla deliberately has no capacity: it claims that sliding and reallocation are
   invisible through the listed calls, except for Grow (decided from Available()), and that of
   the consumed bytes only a short suffix (`prev`, normal form Mk) can ever be observed.  Here TLC
   checks that claim against the algorithm itself, for every history of capacities within the
   bound, instead of leaving it to an argument:

     Agree   every call returns the same results / error / panic class in both models
             (history variable ok, set by every step)
     Rel     the abstraction relation is an invariant: data = buf[off:], lr = lastRead, and
             whenever prev is observable (lr # 0 or data empty) it equals the suffix of buf[:off]
             of the length the normal form keeps (in particular prev = <<>>  <=>  off = 0)
     CapOK   len(buf) <= cap, 0 <= off <= len(buf)
     HRel    the ownership contract of Buffer.tla (`held`) against the storage: what the caller
             keeps is here (`ch`) either a private copy (ReadBytes / ReadString: append to a nil
             slice, string conversion) or, for Bytes() and Next(), a REGION [lo, hi) of buf itself
             (b.buf[b.off:], b.buf[off:off+n]); a store through it is a store into buf.  Invariant:
             the same number and kinds of kept slices on both sides, and every one of them reads
             the same bytes - i.e. inside the window the abstract model grants (until the next
             modifying call) an alias really shows, and changes, exactly what the model says, with
             every capacity history; Rel keeps holding under the caller's stores.

   Variables: c = [buf, off, lr, cap, isnil] the concrete buffer (buf includes the consumed
   prefix buf[:off]; cap is cap(buf); isnil: buf == nil, which selects the small-buffer branch),
   st / held the abstract state of Buffer.tla driven by the same calls, ch the caller's slices as
   the storage algorithm sees them, ok the agreement flag.
   Rounding of allocations to size classes is modelled by the nondeterministic `round`.

   Collaborators: a writer that calls methods of the buffer from inside its Write (IWriteToRe: the
   scripts of Nests run on the storage through the same transcribed methods, then WriteTo goes on
   with the nBytes it remembered and the off it finds) must agree with OpWriteToRe of Buffer.tla,
   lastRead and the bytes in front of the read point included (Rel).  The re-entering READER is not
   refined here - this layer does not model the contents of spare capacity; that part of Buffer.tla
   is validated against bytes.Buffer itself by trace validation.                                 *)
EXTENDS Buffer

CONSTANTS SmallBuf,     \* smallBufferSize (64) scaled down
          MinReadC,     \* MinRead (512) scaled down
          MaxCap,       \* bound on the capacity explored
          GrowCounts    \* arguments of Grow

VARIABLES c, ok, ch

Zeros(k) == [x \in 1..k |-> 0]
CLen(b) == Len(b.buf) - b.off
CData(b) == SubSeq(b.buf, b.off + 1, Len(b.buf))
CAvail(b) == b.cap - Len(b.buf)
CReset(b) == [b EXCEPT !.buf = <<>>, !.off = 0, !.lr = 0]

\* tryGrowByReslice
CanReslice(b, n) == n <= b.cap - Len(b.buf)

\* grow(n): [b |-> buffer with len(buf) = i + n, i |-> index where the n bytes go]
CGrow(b0, n, round) ==
    LET m == CLen(b0)
        b == IF m = 0 /\ b0.off # 0 THEN CReset(b0) ELSE b0
    IN IF CanReslice(b, n) THEN [b |-> [b EXCEPT !.buf = b.buf \o Zeros(n)], i |-> Len(b.buf)]
       ELSE IF b.isnil /\ n <= SmallBuf
            THEN [b |-> [b EXCEPT !.buf = Zeros(n), !.cap = SmallBuf, !.isnil = FALSE], i |-> 0]
       ELSE IF n <= (b.cap \div 2) - m
            THEN [b |-> [b EXCEPT !.buf = CData(b) \o Zeros(n), !.off = 0], i |-> m]              \* slide
       ELSE LET need == m + b.off + n                   \* growSlice(buf[off:], off+n)
                dbl == 2 * (b.cap - b.off)
            IN [b |-> [b EXCEPT !.buf = CData(b) \o Zeros(n), !.off = 0, !.isnil = FALSE,
                                !.cap = (IF need < dbl THEN dbl ELSE need) + round], i |-> m]

CR(b, n, m, bs, err, pan) == [c |-> b, n |-> n, m |-> m, b |-> bs, err |-> err, pan |-> pan]
COk(b) == CR(b, 0, 0, <<>>, Nil, NoPanic)

\* the write calls try the reslice first (without grow's reset-when-empty)
CAppend(b, p, room, round) ==
    LET b1 == [b EXCEPT !.lr = 0]
        g == IF CanReslice(b1, room) THEN [b |-> [b1 EXCEPT !.buf = b1.buf \o Zeros(room)], i |-> Len(b1.buf)]
             ELSE CGrow(b1, room, round)
    IN [g.b EXCEPT !.buf = SubSeq(g.b.buf, 1, g.i) \o p]

CWrite(b, p, round) == CR(CAppend(b, p, Len(p), round), Len(p), 0, <<>>, Nil, NoPanic)
CWriteByte(b, x, round) == COk(CAppend(b, <<x>>, 1, round))
CWriteRune(b, r, round) ==
    IF r >= 0 /\ r < 128 THEN CR(CAppend(b, <<r>>, 1, round), 1, 0, <<>>, Nil, NoPanic)
    ELSE CR(CAppend(b, Encode(r), 4, round), Len(Encode(r)), 0, <<>>, Nil, NoPanic)     \* room for UTFMax

CRead(b0, k) ==
    LET b == [b0 EXCEPT !.lr = 0]
    IN IF CLen(b) <= 0 THEN CR(CReset(b), 0, 0, <<>>, IF k = 0 THEN Nil ELSE EOF, NoPanic)
       ELSE LET n == MinI(k, CLen(b))
            IN CR([b EXCEPT !.off = b.off + n, !.lr = IF n > 0 THEN -1 ELSE 0], n, 0, Take(CData(b), n), Nil, NoPanic)

CNext(b0, k) ==
    LET b == [b0 EXCEPT !.lr = 0]
    IN IF k < 0 THEN CR(b, 0, 0, <<>>, Nil, PanRuntime)
       ELSE LET n == MinI(k, CLen(b))
            IN CR([b EXCEPT !.off = b.off + n, !.lr = IF n > 0 THEN -1 ELSE 0], n, 0, Take(CData(b), n), Nil, NoPanic)

CReadByte(b) ==
    IF CLen(b) <= 0 THEN CR(CReset(b), 0, 0, <<>>, EOF, NoPanic)
    ELSE CR([b EXCEPT !.off = b.off + 1, !.lr = -1], b.buf[b.off + 1], 0, <<>>, Nil, NoPanic)

CReadRune(b) ==
    IF CLen(b) <= 0 THEN CR(CReset(b), 0, 0, <<>>, EOF, NoPanic)
    ELSE LET x == b.buf[b.off + 1]
         IN IF x < 128 THEN CR([b EXCEPT !.off = b.off + 1, !.lr = 1], x, 1, <<>>, Nil, NoPanic)
            ELSE LET d == Decode(CData(b))
                 IN CR([b EXCEPT !.off = b.off + d.size, !.lr = d.size], d.r, d.size, <<>>, Nil, NoPanic)

CUnreadRune(b) ==
    IF b.lr <= 0 THEN CR(b, 0, 0, <<>>, ErrUnreadRune, NoPanic)
    ELSE COk([b EXCEPT !.off = IF b.off >= b.lr THEN b.off - b.lr ELSE b.off, !.lr = 0])

CUnreadByte(b) ==
    IF b.lr = 0 THEN CR(b, 0, 0, <<>>, ErrUnreadByte, NoPanic)
    ELSE COk([b EXCEPT !.off = IF b.off > 0 THEN b.off - 1 ELSE b.off, !.lr = 0])

CReadSlice(b, d) ==
    LET i == IndexByte(CData(b), d)
        n == IF i > 0 THEN i ELSE CLen(b)
    IN CR([b EXCEPT !.off = b.off + n, !.lr = -1], n, 0, Take(CData(b), n), IF i > 0 THEN Nil ELSE EOF, NoPanic)

CTruncate(b, k) ==
    IF k = 0 THEN COk(CReset(b))
    ELSE IF k < 0 \/ k > CLen(b) THEN CR([b EXCEPT !.lr = 0], 0, 0, <<>>, Nil, PanTruncate)
    ELSE COk([b EXCEPT !.lr = 0, !.buf = SubSeq(b.buf, 1, b.off + k)])

CGrowCall(b, k, round) ==
    IF k < 0 THEN CR(b, 0, 0, <<>>, Nil, PanGrow)
    ELSE LET g == CGrow(b, k, round) IN COk([g.b EXCEPT !.buf = SubSeq(g.b.buf, 1, g.i)])

\* ReadFrom: the reader hands out the payload in pieces of at most MinReadC bytes, then ends
RECURSIVE CReadLoop(_, _, _)
CReadLoop(b, rest, round) ==
    LET g == CGrow(b, MinReadC, round)
        b1 == [g.b EXCEPT !.buf = SubSeq(g.b.buf, 1, g.i)]
        k == MinI(Len(rest), MinReadC)
    IN IF rest = <<>> THEN b1
       ELSE CReadLoop([b1 EXCEPT !.buf = b1.buf \o Take(rest, k)], Drop(rest, k), round)
CReadFrom(b, p, fin, round) ==
    CR(CReadLoop([b EXCEPT !.lr = 0], p, round), Len(p), 0, <<>>,
       IF fin = "err" THEN "injected" ELSE Nil, IF fin = "neg" THEN PanNegRead ELSE NoPanic)

CWriteTo(b0, wn, werr) ==
    LET b == [b0 EXCEPT !.lr = 0]
        nb == CLen(b)
    IN IF nb <= 0 THEN CR(CReset(b), 0, 0, <<>>, Nil, NoPanic)
       ELSE IF wn > nb THEN CR(b, 0, 0, <<>>, Nil, PanWriteTo)
       ELSE LET b1 == [b EXCEPT !.off = b.off + wn]
            IN IF werr # Nil THEN CR(b1, wn, 0, <<>>, werr, NoPanic)
               ELSE IF wn # nb THEN CR(b1, wn, 0, <<>>, ErrShortWrite, NoPanic)
               ELSE CR(CReset(b1), wn, 0, <<>>, Nil, NoPanic)

\* ---- a writer that calls back (Buffer.tla, COLLABORATORS): the nested calls run on the storage, then
\* WriteTo continues with what it remembered (nBytes) and what it finds (off)
CDoEv(b, e, round) ==
    CASE e.op \in {"Write", "WriteString"} -> CWrite(b, e.b, round)
      [] e.op = "WriteByte" -> CWriteByte(b, e.n, round)
      [] e.op = "WriteRune" -> CWriteRune(b, e.n, round)
      [] e.op = "Read" -> CRead(b, e.n)
      [] e.op = "Next" -> CNext(b, e.n)
      [] e.op = "ReadByte" -> CReadByte(b)
      [] e.op = "ReadRune" -> CReadRune(b)
      [] e.op = "UnreadByte" -> CUnreadByte(b)
      [] e.op = "UnreadRune" -> CUnreadRune(b)
      [] e.op \in {"ReadBytes", "ReadString"} -> CReadSlice(b, e.n)
      [] e.op = "Truncate" -> CTruncate(b, e.n)
      [] e.op = "Reset" -> COk(CReset(b))
      [] e.op = "Grow" -> CGrowCall(b, e.n, round)
      [] e.op = "Len" -> CR(b, CLen(b), 0, <<>>, Nil, NoPanic)
      [] e.op \in {"Bytes", "String"} -> CR(b, 0, 0, CData(b), Nil, NoPanic)
RECURSIVE CNestRun(_, _, _)
CNestRun(b, nest, round) == IF nest = <<>> THEN b ELSE CNestRun(CDoEv(b, Head(nest), round).c, Tail(nest), round)
\* the same script with the capacity input of every call (Available() before it) read off the storage
RECURSIVE WithAvail(_, _, _)
WithAvail(b, nest, round) ==
    IF nest = <<>> THEN <<>>
    ELSE <<[Head(nest) EXCEPT !.avail = CAvail(b)]>> \o WithAvail(CDoEv(b, Head(nest), round).c, Tail(nest), round)
CWriteToRe(b0, nest, wn, werr, round) ==
    LET b == [b0 EXCEPT !.lr = 0]
        nb == CLen(b)
    IN IF nb <= 0 THEN CR(CReset(b), 0, 0, <<>>, Nil, NoPanic)
       ELSE LET b1 == CNestRun(b, nest, round)
                b2 == [b1 EXCEPT !.off = b1.off + wn]
            IN IF wn > nb THEN CR(b1, 0, 0, <<>>, Nil, PanWriteTo)
               ELSE IF werr # Nil THEN CR(b2, wn, 0, <<>>, werr, NoPanic)
               ELSE IF wn # nb THEN CR(b2, wn, 0, <<>>, ErrShortWrite, NoPanic)
               ELSE CR(CReset(b2), wn, 0, <<>>, Nil, NoPanic)

-----------------------------------------------------------------------------
(* lock-step product: the same call on the algorithm and on the abstract model *)

\* the caller's kept slices on the storage side: [tag, reg, val, lo, hi]
CopyOf(tag, v) == [tag |-> tag, reg |-> FALSE, val |-> v, lo |-> 0, hi |-> 0]
Region(tag, lo, hi) == [tag |-> tag, reg |-> TRUE, val |-> <<>>, lo |-> lo, hi |-> hi]
CVal(b, h) == IF h.reg THEN SubSeq(b.buf, h.lo + 1, h.hi) ELSE h.val
\* the call op took the buffer from b0 to co.c and returned co.b
CH(op, b0, co, arg) ==
    LET H1 == IF Modifies(op) THEN SelectSeq(ch, IsOwned) ELSE ch
        v == IF op \in {"Write", "WriteString"} THEN arg ELSE co.b
        h == CASE HandTag(op) = "bytes" -> Region("bytes", b0.off, Len(b0.buf))         \* b.buf[b.off:]
               [] HandTag(op) = "next" -> Region("next", b0.off, co.c.off)              \* b.buf[off : off+n]
               [] OTHER -> CopyOf(HandTag(op), v)
    IN IF op \in Retain /\ HandTag(op) # "none" /\ co.pan = NoPanic /\ v # <<>> THEN Push(H1, h, Hold) ELSE H1

SameResult(co, ao) ==
    /\ co.pan = ao.pan
    /\ co.pan = NoPanic => (co.err = ao.err /\ co.n = ao.n /\ co.m = ao.m /\ co.b = ao.b)
    /\ CData(co.c) = ao.st.data                                  \* Len / Bytes / String

Both(op, arg, co, ao) == /\ c' = co.c /\ st' = ao.st /\ ok' = SameResult(co, ao)
                         /\ held' = HC(op, ao, arg) /\ ch' = CH(op, c, co, arg)
FitsC(b) == CLen(c) + Len(b) <= MaxLen

IWrite(k, rd) == FitsC(Payloads[k]) /\ Both("Write", Payloads[k], CWrite(c, Payloads[k], rd), OpWrite(st, Payloads[k]))
IWriteByte(x, rd) == FitsC(<<x>>) /\ Both("WriteByte", <<>>, CWriteByte(c, x, rd), OpWriteByte(st, x))
IWriteRune(r, rd) == FitsC(Encode(r)) /\ Both("WriteRune", <<>>, CWriteRune(c, r, rd), OpWriteRune(st, r))
IRead(k) == k >= 0 /\ Both("Read", <<>>, CRead(c, k), OpRead(st, k))
INext(k) == Both("Next", <<>>, CNext(c, k), OpNext(st, k))
IReadByte == Both("ReadByte", <<>>, CReadByte(c), OpReadByte(st))
IReadRune == Both("ReadRune", <<>>, CReadRune(c), OpReadRune(st))
IUnreadByte == Both("UnreadByte", <<>>, CUnreadByte(c), OpUnreadByte(st))
IUnreadRune == Both("UnreadRune", <<>>, CUnreadRune(c), OpUnreadRune(st))
IReadBytes(d) == Both("ReadBytes", <<>>, CReadSlice(c, d), OpReadSlice(st, d))
ITruncate(k) == Both("Truncate", <<>>, CTruncate(c, k), OpTruncate(st, k))
IReset == Both("Reset", <<>>, COk(CReset(c)), OpReset(st))
IGrow(k, rd) == Both("Grow", <<>>, CGrowCall(c, k, rd), OpGrow(st, k, CAvail(c)))       \* avail: what Available() shows
IReadFrom(k, fin, rd) == FitsC(Payloads[k]) /\ Both("ReadFrom", <<>>, CReadFrom(c, Payloads[k], fin, rd), OpReadFrom(st, Payloads[k], fin))
IWriteTo(m, fin) == LET wn == WriterCount(st, m, fin)
                        we == IF fin = "err" THEN "injected" ELSE Nil
                    IN Both("WriteTo", <<>>, CWriteTo(c, wn, we), OpWriteTo(st, wn, we))
IWriteToRe(j, m, fin, rd) ==
    LET wn == WriterCount(st, m, fin)
        we == IF fin = "err" THEN "injected" ELSE Nil
        ao == OpWriteToRe(st, WithAvail([c EXCEPT !.lr = 0], Nests[j], rd), wn, we)
    IN /\ CLen(c) > 0 /\ ~ao.und /\ Len(ao.o.st.data) + Len(ao.o.st.prev) <= MaxLen
       /\ Both("WriteTo", <<>>, CWriteToRe(c, Nests[j], wn, we, rd), ao.o)
\* Bytes(): b.buf[b.off:] - nothing moves
IBytes == Both("Bytes", <<>>, CR(c, 0, 0, CData(c), Nil, NoPanic), OpContents(st))
\* the caller stores v at position j of its k-th slice: into its private copy, or into buf
IPoke(k, at, v) ==
    /\ k \in DOMAIN held /\ k \in DOMAIN ch /\ CanPoke(held, k, PokeIdx(k, at))
    /\ LET j == PokeIdx(k, at) IN
       /\ st' = PokeSt(st, held[k], j, v) /\ held' = PokeHeld(held, k, j, v)
       /\ IF ch[k].reg THEN c' = [c EXCEPT !.buf[ch[k].lo + j] = v] /\ ch' = ch
          ELSE c' = c /\ ch' = [ch EXCEPT ![k].val[j] = v]
    /\ ok' = ok

\* constructors: zero value / NewBuffer(nil) (isnil), NewBuffer(b) with some spare capacity
IInit ==
    /\ \E b \in Inits, spare \in 0..2, nl \in BOOLEAN :
         /\ nl => (b = <<>> /\ spare = 0)
         /\ c = [buf |-> b, off |-> 0, lr |-> 0, cap |-> Len(b) + spare, isnil |-> nl]
         /\ st = New(b)
    /\ ok = TRUE /\ held = <<>> /\ ch = <<>>

INext_ ==
    \/ \E k \in 1..Len(Payloads), rd \in 0..1 : IWrite(k, rd)
    \/ \E x \in ByteArgs, rd \in 0..1 : IWriteByte(x, rd)
    \/ \E r \in Runes, rd \in 0..1 : IWriteRune(r, rd)
    \/ \E k \in Counts : IRead(k)
    \/ \E k \in Counts : INext(k)
    \/ IReadByte \/ IReadRune \/ IUnreadByte \/ IUnreadRune \/ IReset
    \/ \E d \in ByteArgs : IReadBytes(d)
    \/ \E k \in Counts : ITruncate(k)
    \/ \E k \in GrowCounts, rd \in 0..1 : IGrow(k, rd)
    \/ \E k \in 1..Len(Payloads), fin \in {"eof", "err", "neg"}, rd \in 0..1 : IReadFrom(k, fin, rd)
    \/ \E fin \in {"ok", "over"} : IWriteTo(0, fin)
    \/ \E m \in 0..MaxLen, fin \in {"short", "err"} : IWriteTo(m, fin)
    \/ \E j \in 1..Len(Nests), rd \in 0..1 : IWriteToRe(j, 0, "ok", rd)
    \/ \E j \in 1..Len(Nests), m \in 0..1, fin \in ReFins, rd \in 0..1 : IWriteToRe(j, m, fin, rd)
    \/ IBytes
    \/ \E k \in 1..Hold, at \in {"first", "last"}, v \in PokeVals : IPoke(k, at, v)

ISpec == IInit /\ [][INext_]_<<c, st, ok, held, ch>>

\* VIEW: as in Buffer.tla the bytes of a private copy have no influence on any later step
ImplView == <<c, st, ok, HeldView, [k \in DOMAIN ch |-> [ch[k] EXCEPT !.val = <<>>]]>>

CapBound == c.cap <= MaxCap            \* CONSTRAINT

-----------------------------------------------------------------------------
Agree == ok

KeepLen(l) == IF l > 0 THEN l ELSE 1
Rel ==
    /\ st.data = CData(c)
    /\ st.lr = c.lr
    /\ (st.lr # 0 \/ st.data = <<>>) => st.prev = LastK(Take(c.buf, c.off), KeepLen(st.lr))

HRel == /\ Len(ch) = Len(held)
        /\ \A k \in DOMAIN ch : /\ ch[k].tag = held[k].tag /\ ch[k].reg = IsAlias(held[k])
                                 /\ ch[k].reg => (ch[k].lo >= 0 /\ ch[k].hi <= Len(c.buf))
                                 /\ CVal(c, ch[k]) = held[k].val

CapOK == /\ Len(c.buf) <= c.cap /\ c.off >= 0 /\ c.off <= Len(c.buf)
         /\ c.isnil => (c.cap = 0 /\ c.buf = <<>>)
=============================================================================
