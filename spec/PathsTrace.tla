----------------------------- MODULE PathsTrace -----------------------------
(* Trace validation for Paths (C18): a log recorded from the real library - one JSON object
   per line - is checked against the Paths model.  The checker is a monitor that consumes one
   line per step:

     {"op":"Init"|"Reset","home":B,"cwd":B,"fp":bool,"fr":bool}
         start of a behaviour (Init: the genuine process start; Reset: the worker brought the
         tables back to the start contents through the public API).  The privacy-path flag
         must be on ("it is by default"); the regexp flag is taken as observed.
     {"op":"AddMap","k":B,"v":B} {"op":"RemoveMap","k":B} {"op":"ResetMap"}
     {"op":"AddRx","r":R} {"op":"RemoveRx","r":R} {"op":"ResetRx"}
     {"op":"SetFlag","f":"path"|"regexp","on":bool}
         configuration calls; the model state follows Apply.
     {"op":"Chdir","d":B,"wd":B}
         the process called os.Chdir(d); wd is what os.Getwd() reported afterwards (it must be
         d - otherwise the scenario's directory is not what the check believes, class
         "environment").  The model's current working directory follows; its table does not.
     {"op":"LoseWd","wd":B,"lost":bool}
         the process changed into a fresh directory of its scratch space and removed it; lost =
         os.Getwd() fails now (it must - otherwise the platform does not lose a working directory
         this way, class "environment"), wd = what it returned.  The model's wd becomes LOST.
     {"op":"Q","via":V,"ins":[B..] or "ix":[index into InputSeq..],"outs":[[B..]..],"lens":[n..],"panic":S?}
         a query of the paths `ins` through V (Safety, SafetyFiles, caller-json, caller-logfmt,
         caller-color), repeated many times: outs[x] are the DISTINCT results seen for
         ins[x] (Go randomises the iteration order of the table), lens the distinct lengths
         of the returned list.  Every result must be in Outputs(st, ins[x], {}) - one hardened
         string (plus its shorter relative form where there is one), whatever the order.

   (B = byte string as array of ints, R = [anch, lit, wild, repl].)

   A result outside the allowed set is counted in `bad` (with a few examples) under its
   class: "nested-mappings-order" / "hardwired-volumes-rule" when the deviations MapOrder /
   HardVol (what revision ed9a368 does) explain it, the name of the known deviation class if the
   older as-built semantics (AllDevs, or a part of it, with or without MapOrder and HardVol)
   explains it, "unexplained" otherwise; the orchestrator turns the classes into
   finding keys.  A result that the as-built deviations do not explain is tried against the
   deviations of the newer dimensions ("StaleWd": relative form computed against the start
   directory, "StopRel": relative strings end the scan of the table, "LostWdRaw": the input handed
   back as it came in while the working directory is lost) before it is called unexplained.  Queries do not change the state, so checking simply continues.             *)
EXTENDS Paths, Json, SequencesExt

CONSTANTS TraceFile,   \* ndjson file recorded by the worker
          InputSeq     \* the scenario's input paths (query lines may refer to them by index)

VARIABLES i, bad, stats

TLog == ndJsonDeserialize(TraceFile)

Has(r, f) == f \in DOMAIN r

\* The class of inputs for which the as-built behaviour is known to differ from the model
\* (first matching line wins).
DevClass(s, p) ==
    IF <<>> \in DOMAIN s.tab THEN "empty-prefix"
    ELSE IF ROOT \in DOMAIN s.tab /\ Abs(p) THEN "root-prefix"
    ELSE IF Home # <<>> /\ Home \notin DOMAIN s.tab /\ Under(p, Home) THEN "home-exposed"
    ELSE IF \E k \in DOMAIN s.tab : HasPrefix(p, k) /\ ~Under(p, k) THEN "prefix-without-boundary"
    ELSE "inner-occurrence-rewritten"

\* class of a result o that is NOT in the allowed set: explained by the as-built semantics (or by
\* a part of it - a tree in which only some of the deviations were repaired) or not at all
ClassBad(s, p, o) ==
    IF s.wd = LOST /\ (o \in Outputs(s, p, {"LostWdRaw"}) \/ o \in Outputs(s, p, {"LostWdRaw"} \cup BuiltDevs))
    THEN "unhardened-without-working-directory"
    ELSE IF o \in Outputs(s, p, {"MapOrder"}) THEN "nested-mappings-order"
    ELSE IF o \in Outputs(s, p, {"HardVol"}) THEN "hardwired-volumes-rule"
    ELSE IF o \in Outputs(s, p, BuiltDevs) THEN "nested-mappings-order"
    ELSE IF \E D \in SUBSET AllDevs : o \in Outputs(s, p, D) \/ o \in Outputs(s, p, D \cup BuiltDevs)
    THEN DevClass(s, p)
    ELSE IF s.wd # Cwd /\ (o \in Outputs(s, p, {"StaleWd"}) \/ o \in Outputs(s, p, {"StaleWd"} \cup BuiltDevs))
    THEN "stale-working-directory"
    ELSE IF ~Abs(p) /\ (o \in Outputs(s, p, {"StopRel"}) \/ o \in Outputs(s, p, {"StopRel", "HardVol"}))
    THEN "relative-path-not-hardened"
    ELSE "unexplained"

Classes == {"panic", "length", "environment", "privacy-flag-off-by-default", "unexplained", "empty-prefix",
            "root-prefix", "home-exposed", "prefix-without-boundary", "inner-occurrence-rewritten",
            "stale-working-directory", "relative-path-not-hardened", "unhardened-without-working-directory",
            "nested-mappings-order", "hardwired-volumes-rule"}
MaxEx == 8      \* examples kept per class (the count is exact)

\* the queried paths of a line: given literally or as indexes into InputSeq
InsOf(e) == IF Has(e, "ix") THEN [x \in 1..Len(e.ix) |-> InputSeq[e.ix[x]]] ELSE e.ins

(* Judgement of one query line, accumulated over the queried paths x = 1..m (one evaluation of
   Outputs per path): bad = the rejected results (got: sequence of byte strings, expected: set
   of byte strings); iteration-order statistics: alts = number of queried paths that nested
   mappings cover - a fold in map order (deviation MapOrder) would have more than one result there -
   seen = for how many of them the implementation showed an allowed result.                   *)
RECURSIVE Judge(_, _, _, _, _)
Judge(s, e, ins, line, x) ==
    IF x = 0 THEN [bad |-> {}, alts |-> 0, seen |-> 0]
    ELSE LET r == Judge(s, e, ins, line, x - 1)
             p == ins[x]
             A == Outputs(s, p, {})
             multi == s.fp /\ Cardinality(PrefixStage(s, p, {"MapOrder"})) > 1
             O == {e.outs[x][y] : y \in 1..Len(e.outs[x])}
         IN [bad  |-> r.bad \cup {[line |-> line, idx |-> x, cls |-> ClassBad(s, p, o), got |-> <<o>>, expected |-> A] : o \in O \ A},
             alts |-> r.alts + (IF multi THEN 1 ELSE 0),
             seen |-> r.seen + (IF multi /\ O \cap A # {} THEN 1 ELSE 0)]

LengthBad(e, n, line) ==
    IF Len(e.outs) # n \/ \E x \in 1..Len(e.lens) : e.lens[x] # n
    THEN {[line |-> line, idx |-> 0, cls |-> "length", got |-> <<e.lens>>, expected |-> {<<n>>}]} ELSE {}

AddBad(b, recs) ==
    IF recs = {} THEN b
    ELSE [c \in Classes |->
            LET R == {r \in recs : r.cls = c}
                all == b[c].ex \o SetToSeq(R)
            IN [n |-> b[c].n + Cardinality(R),
                ex |-> IF Len(all) <= MaxEx THEN all ELSE SubSeq(all, 1, MaxEx)]]

TInit == st = InitState /\ i = 1 /\ bad = [c \in Classes |-> [n |-> 0, ex |-> <<>>]] /\ stats = [alts |-> 0, seen |-> 0, queries |-> 0]

TNext ==
    /\ i <= Len(TLog)
    /\ i' = i + 1
    /\ LET e == TLog[i] IN
       IF e.op \in {"Init", "Reset"}
       THEN /\ st' = InitStateWith(e.fr)
            /\ stats' = stats
            /\ bad' = AddBad(bad,
                 (IF e.home # Home \/ e.cwd # Cwd
                  THEN {[line |-> i, idx |-> 0, cls |-> "environment", got |-> <<e.home, e.cwd>>, expected |-> {Home, Cwd}]} ELSE {})
                 \cup (IF ~e.fp THEN {[line |-> i, idx |-> 0, cls |-> "privacy-flag-off-by-default", got |-> <<>>, expected |-> {}]} ELSE {}))
       ELSE IF e.op = "Q"
       THEN /\ st' = st
            /\ IF Has(e, "panic")
               THEN /\ bad' = AddBad(bad, {[line |-> i, idx |-> 0, cls |-> "panic", got |-> <<>>, expected |-> {}]})
                    /\ stats' = stats
               ELSE LET ins == InsOf(e)
                        n == Len(ins)
                        m == IF Len(e.outs) < n THEN Len(e.outs) ELSE n
                        J == Judge(st, e, ins, i, m)
                    IN /\ bad' = AddBad(bad, LengthBad(e, n, i) \cup J.bad)
                       /\ stats' = [alts |-> stats.alts + J.alts, seen |-> stats.seen + J.seen, queries |-> stats.queries + m]
       ELSE IF e.op = "Chdir"
       THEN /\ st' = Apply(st, e)
            /\ stats' = stats
            /\ bad' = AddBad(bad, IF e.wd # e.d \/ ~Abs(e.d)
                                  THEN {[line |-> i, idx |-> 0, cls |-> "environment", got |-> <<e.d, e.wd>>, expected |-> {e.d}]} ELSE {})
       ELSE IF e.op = "LoseWd"
       THEN /\ st' = Apply(st, e)
            /\ stats' = stats
            /\ bad' = AddBad(bad, IF ~e.lost
                                  THEN {[line |-> i, idx |-> 0, cls |-> "environment", got |-> <<e.wd>>, expected |-> {LOST}]} ELSE {})
       ELSE st' = Apply(st, e) /\ UNCHANGED <<bad, stats>>

TSpec == TInit /\ [][TNext]_<<st, i, bad, stats>>

\* evaluated in every state; prints the verdict once the whole log is consumed
Done == i <= Len(TLog) \/ (PrintT("@@bad " \o ToJson(bad)) /\ PrintT("@@stats " \o ToJson(stats)))

\* the model's own invariants on every state the implementation visited, for the queried paths
TTypeOK == TypeOK
=============================================================================
