------------------------------- MODULE Adapter -------------------------------
(* Property C15: the log/slog handler (NewSlogHandler), the std-log bridge (NewLogLogger) and
   every place of hedzr/logg that accepts a log/slog level (Handler.Enabled, Handler.Handle,
   Entry.Log) preserve content, severity and gating.

   WHAT IS MODELLED
     * an underlying logger (level, output format, destination) made for one behaviour;
     * NewSlogHandler(logger, options): mutates the logger (level if options.Level is set, format
       from NoColor/JSON) and the process-wide caller flag (NoSource) - "as what it is";
     * the tree of handlers derived from it with WithAttrs / WithGroup;
     * the probes Enabled(level), Handle(record) (through a real log/slog.Logger or with a
       hand-made record carrying its own time) and Entry.Log(level);
     * RECORD TIMES (catalogue RecTimes): the time a hand-made record carries is any time.Time - the
       zero value, the Unix epoch, the last nanosecond of year 9999, instants expressed in several
       zones - and what is emitted is that INSTANT (see RECORD TIMES below);
     * NESTED records (event Nested): while a record is being handled, one of its attribute values
       (a LogValuer, a Stringer, an error) logs another record through the same handler, a handler
       of the same family or another handler on the same logger (see NESTED RECORDS below);
     * the std-log bridge: NewLogLogger(logger, severity), Print(msg) / Writer().Write(bytes);
     * the PROCESS-WIDE LEVEL REGISTRY: RegisterLevel(custom value, title, RegWithTreatedAsLevel,
       RegWithPrintToErrorDevice, RegWithShortTags) may happen at any moment of a process's life -
       before the handler/bridge is made, between two records - and cannot be undone.

   STYLE: functional core.  `st` is the whole abstract state; each public call is a pure
   operator over it.  The same operators are used by the exhaustive specification (Next), by
   the invariants and by the trace specification AdapterTrace (which validates recordings of
   the real library).

   STATE (fields of st)
     phase   "init" | "handler" | "bridge"
     lg      the underlying logger: [level, fmt]   (fmt \in {"json","logfmt","color"})
     oi      the options NewSlogHandler was called with (index into Opts; 0 = not yet)
     caller  the process-wide "print caller" flag (set by NewSlogHandler from NoSource)
     dbg     the process-wide debug mode (switched on by giving any logger the level Debug;
             part of the gating rule of property C01, see Levels!Admit)
     hs      the handlers made so far (1 = the one NewSlogHandler returned); each entry is
               s      MECHANISM state, computed step by step:
                        lg    [level, fmt, dest]  configuration the handler logs with
                        pre   groups opened by WithGroup (outermost first); preo their ordinals
                        added attributes given by WithAttrs, already qualified (leaf records)
                        n     number of derivation steps behind the handler
               hist   GHOST: the derivation steps from the root handler, used only to state
                      the property declaratively
               parent id of the handler it was derived from (0 for the root)
     br      the bridge: [sev] severity given to NewLogLogger (a built-in or a registered level)
     reg     GHOST: what was registered in this process, custom value -> [treat, err] as the caller
             asked (treat = NoTreat when RegWithTreatedAsLevel was not given)
     treat, errdev, rev   MECHANISM tables of the process: treated-as table, the set of levels
             routed to the error device, and the table log/slog level -> severity the handler
             consults for the four standard levels.  A new process starts with the factory tables;
             nothing but RegisterStep writes them, and the property says which entries it may write.

   ATTRIBUTE TREES AND EQUAL KEYS.  What one handler record carries is ONE tree, in LOGICAL ORDER:
   the derivation steps in the order they were made - a WithAttrs step contributes its attributes at
   the nesting level current at that moment, a WithGroup step opens a group that contains everything
   that follows - and then the record's own attributes, innermost.  The statement says "all its
   attributes" and "add what was given"; it says nothing about two attributes with the same key in
   the same group.  The underlying logger does (SetAttrs/WithAttrs doc: "If duplicated attr found,
   the parent's will be overwritten"; LoggCore!Merge: each distinct key once, the LAST occurrence
   winning, the same inside every group; call-site attributes come after the logger's).  Hence:
     * among several attributes (leaves or groups) with the same key in the same group instance the
       LAST one in logical order is a MUST: it has to be in the output with its kind and value;
     * an earlier one is DISPLACED: the statement ("all") and the native rule ("once") disagree, so
       both outcomes are accepted - printed as well, or dropped;
     * everything below a displaced group is displaced with it.
   Consequences (invariants RecordWins, AddsGiven): a record attribute is never displaced by an
   attribute of the handler (the record comes last at its level), a later WithAttrs displaces an
   earlier one, the last of two equal keys inside one list displaces the first.

   ATTRIBUTE TREES AND LOGVALUERS.  A shape (RecTrees[i], DerivTrees[i]) is a list of NODES
       [key, lv, g, k, v, kids]
   g = FALSE: a leaf of value kind k and value id v;  g = TRUE: a group with the members kids.
   lv (0..MaxLv) says how the caller HANDS THE VALUE OVER: 0 = as it is (slog.Int, slog.Group, ...),
   n > 0 = as a log/slog LogValuer whose LogValue() has to be asked n times before the value (the
   leaf value, or the group with its members) appears - n = 1 a plain LogValuer, n = 2, 3 a LogValuer
   that resolves to another LogValuer.  EVERY node may be a LogValuer: a leaf at top level, a member
   of a literal group, a group, a member of a group a LogValuer resolved to (User -> Group(id,
   Any("home", Address)), Address a LogValuer again), a member of a literal group inside such a group,
   at any depth, in a record, in a WithAttrs list, under WithGroup.  "LogValuers resolved" (statement)
   = the record shows the tree with every lv set to 0 (Plain): what log/slog's own handlers print,
   which resolve every attribute value they meet, members of groups included - Value.Resolve() alone
   resolves the value it is called on and NOT the members of a group it yields.
     Leaves(tree)   DECLARATIVE: the leaves [p, k, v, o, w] of the tree, walking through LogValuers as
                    if they were not there; w only remembers them (w[d] = lv of the ancestor at depth d)
                    and is used for nothing but naming a failure (VClass) and for ValuerClasses
     ValuersTransparent   lemma: apart from w, Leaves(t) = Leaves(Plain(t))
     Conv(tree)     MECHANISM: what the adapter's conversion yields, node by node; equals Leaves(tree)
                    unless a deviation is enabled                     -> RecordComplete, AddsGiven
     ValuerClasses, NeedValuerClasses, ValuerCover   the positions (leaf/group, chain or not, at top /
                    in literal groups / directly in a LogValuer's group / deeper in it) at which the
                    shapes an exhaustive configuration probes (HandleCells) and derives with
                    (DerivOffered) have LogValuers; the configuration lists the ones it needs
   OUT OF SCOPE: a LogValuer whose LogValue() panics, or that resolves to LogValuers without end
   (log/slog gives up after 100 rounds and substitutes an error value): the statement says "resolved",
   and such a value has no resolved form to compare with.

   RECORD TIMES.  "The record's own time" (statement): a record handed to Handler.Handle carries a
   time.Time and the underlying logger prints that INSTANT - whatever it is.  A catalogue entry is
       [d, s, n, off, kind]
   the civil date and time AS THE CALLER EXPRESSED THEM - d days since 0001-01-01 (0 = that day, -1 =
   the day before), s seconds of that day, n nanoseconds - in a zone off seconds east of UTC; kind
   only names the entry ("zero" = the zero time.Time, "zero-zone" = the same instant expressed in
   another zone - still IsZero() -, "near-zero", "epoch", "pre-epoch", "y9999", "zone" = one instant
   given twice, in two zones, "ordinary").
     Instant(tm)    DECLARATIVE: the instant, normalised [d, s, n] in UTC; the zone is presentation.
                    The zero time is an instant like any other: day 0, second 0 - NOT "no time" and
                    not "now" (log/slog's own handlers leave the time out of such a record; the
                    underlying logger has no record without a time, and the statement says "the
                    record's own time").  Time id 0 = the record was made by log/slog.Logger, which
                    stamps it during the call ("now").
     EmitTime(t)    MECHANISM: the time id the handler passes on                    -> OwnTimeKept
     TimeCover      the exhaustive configuration names the kinds its Handle probes must contain

   NESTED RECORDS.  Event Nested(h, h2, cell): a record is logged through handler h whose FIRST
   attribute is a CARRIER - a value that, when the handler (or the underlying logger's formatter) asks
   it for its content, logs an inner record of its own through handler h2 and then yields its content:
       "valuer"        a LogValuer; LogValue() logs, then yields a plain value
       "valuer-group"  a LogValuer; LogValue() logs, then yields a group with one member
       "stringer"      a value of kind Any with a String() method that logs, then yields its text
       "error"         an error whose Error() logs, then yields its text
   h2 is the same handler, its parent/ancestor, a sibling, a descendant, any other handler of the
   family (all derived from the one NewSlogHandler call), or 0 = ANOTHER handler made for the same
   logger by a second NewSlogHandler(logger, same options) - which changes nothing (SecondAdapterSame).
   EXPECTED (NestedPair): the call returns; BOTH records are emitted, each once per time it was
   logged - the outer once, the inner once per time the carrier was asked (observed) and admitted -
   each with ITS OWN content: own message, own time, own severity, own attributes (the outer's contain
   the carrier's content, the inner's do not), the attributes given to its OWN handler, under its own
   handler's groups; same destination and format (one logger).  The order of the two is not fixed.
   A call that DOES NOT RETURN is no behaviour of the model (NestedReturns): the harness's watchdog
   records it ("hang") and the trace specification rejects the line.            -> NestedOwnContent

   FLATTENED FORM: a shape's leaves [p, k, v, o, w] - p the path of keys
   (groups outermost first, the leaf's key last), k the value kind, v the value id, o the path of
   ORDINALS: o[d] is the position of the leaf's ancestor at depth d (the leaf itself for the last
   d) in the list it was given in; two leaves lie in the same group INSTANCE at depth d iff their
   p and o agree on the first d elements (two groups with the same key in one list are different
   instances).  In a qualified leaf the ordinal of a top-level element of derivation step i is
   i*K + position, a WithGroup step i has ordinal i*K, the record is step n+1: integer order =
   logical order.  A qualified leaf [p, k, v, o, w, q] also remembers how many leading path elements
   come from WithGroup (q): the statement does not say whether those appear as nesting or not, so
   both are accepted.

   OPERATORS THAT STATE THE PROPERTY
     MapLevel            the allowed severities per log/slog level (namesakes; non-terminating
                         unless the explicit Fatal/Panic constants)         -> StdNamesake, NoTerminating
     RegisterStep, StdIndependent, RegistryLocal, RegistrationLocal (action property)
                         a standard-level record's severity, gating and destination do not depend
                         on any registration; a registration writes the entries of its own value only
     EnabledSet          Handler.Enabled = the logger's gating (Levels!Admit) -> EnabledAgrees
     Canon, GivenBy,
     OpenGroups          one record: message, record time, all attributes, given attributes
                                                                            -> AddsGiven, RecordComplete
     Displaced, Must     equal keys (see above)                             -> RecordWins
     KeepsConfig         derived handlers keep destination, format and level
     BridgeEmitSet,
     BridgeMsg           bridge admission and message minus one trailing newline
                                                                            -> BridgeGate, BridgeMsgInv
   DEVIATIONS (what the pinned library does instead; enabled only through `Deviations`, used
   for witness runs - each must make an invariant fail - and to name known findings precisely)
     "DerivedFresh"          WithAttrs/WithGroup return a handler over a fresh detached logger
     "BridgeInverted"        the bridge emits iff severity >= logger level (numerically)
     "EntryLogUnknownFatal"  Entry.Log maps every unlisted log/slog level to Fatal
   WITNESS-ONLY DEVIATIONS (never seen in the pinned library; each must break its invariant, which
   shows that the explored cell space contains the collisions / registrations that matter)
     "AttrsBehindRecord"     the handler's attributes are ordered behind the record's   (RecordWins)
     "RegRemapsStd"          RegisterLevel(c, treated as X) also makes X's log/slog namesake map to c
                                                                    (StdIndependent, RegistrationLocal)
     "RegErrDevOfTreated"    RegWithPrintToErrorDevice also routes the treated-as level (RegistryLocal)
     "ResolveTopOnly"        once a LogValuer has been resolved, LogValuers among the members of the
                             group it resolved to (at any depth) are passed on as raw Go values -
                             "Resolve never yields a LogValuer"        (RecordComplete, AddsGiven)
     "ResolveOnce"           LogValue() is asked once: a LogValuer that resolves to a LogValuer is
                             passed on as a raw Go value                (RecordComplete, AddsGiven)
     "ZeroTimeNow"           a record whose time is the zero time.Time is stamped with the time of the
                             call ("a record that brings no time of its own")           (OwnTimeKept)
     "HandleSerialised"      Handle holds a lock shared by the whole handler family for all of its
                             body: a nested record through that family never returns  (NestedReturns)
     "NestedSharesRecord"    the inner record is built in the outer's scratch: it comes out with the
                             outer's time and the outer handler's attributes       (NestedOwnContent) *)
EXTENDS Levels, SequencesExt, FiniteSetsExt

CONSTANTS
    Roots,           \* sequence of set-ups [L, oi]: level the logger has before, index into Opts
    Opts,            \* sequence of HandlerOptions: [nocolor, nosource, json, level] (level 0 = unset)
    SlogLevels,      \* log/slog level values probed
    RecTrees,        \* sequence of record attribute shapes (lists of nodes [key, lv, g, k, v, kids])
    DerivTrees,      \* sequence of attribute shapes given to WithAttrs
    RecLeaves, DerivLeaves, \* the same shapes flattened (checked: ASSUME LeavesGiven)
    DerivOffered,    \* indices of DerivTrees the exhaustive model gives to WithAttrs
    NeedValuerClasses, \* LogValuer positions the explored shapes must contain (see ValuerCover)
    GroupNames,      \* set of names given to WithGroup
    MaxHandlers,     \* bound on handlers per behaviour in the exhaustive model
    DeriveFromAny,   \* TRUE: derive from any handler (tree); FALSE: only from the newest (chain)
    ProbeAll,        \* TRUE: probe every handler in every state; FALSE: only the newest one
    HandleCells,     \* sequence of probes [v, sh, via, t, mi]: slog level, record shape, "logger"/"rec", time id, message id
    RecTimes,        \* sequence of record times [d, s, n, off, kind] (time id = index; 0 = "now", see RECORD TIMES)
    NeedTimeKinds,   \* kinds of record times the Handle probes of the configuration must contain (see TimeCover)
    NestCells,       \* sequence of nested probes [v, sh, via, t, mi, car, k, cv, q]: the outer record as in HandleCells
                     \* plus the carrier (car, kind k and value id cv of what it yields) and the inner record q = [v, sh, via, t, mi]
    HMsgs,           \* sequence of record messages (byte sequences)
    BridgeCfgs,      \* sequence of bridge set-ups [L, sev, f]: logger level, bridge severity, format
    BMsgs,           \* sequence of std-log messages (byte sequences)
    PkgLevel,        \* package default level = level of a fresh detached logger (deviation only)
    RegCells,        \* sequence of registrations offered: [val, treat, err] (treat = NoTreat: none)
    MaxRegs,         \* bound on registrations per process in the exhaustive model
    Deviations       \* enabled deviations (see above); {} = the property's own model

VARIABLE st

NL == 10
K == 1000                       \* ordinal stride of one derivation step
NoTreat == MaxLevel             \* "RegWithTreatedAsLevel not given"

-----------------------------------------------------------------------------
(* log/slog levels *)

Std == {-4, 0, 4, 8}
Explicit == {16, 17}            \* slog.LevelFatal, slog.LevelPanic of the library
Namesake(v) == CASE v = -4 -> Debug [] v = 0 -> Info [] v = 4 -> Warn [] v = 8 -> Error

SlogOf(r) == CASE r = Debug -> -4 [] r = Info -> 0 [] r = Warn -> 4 [] r = Error -> 8

-----------------------------------------------------------------------------
(* the process-wide level registry *)

RevInit == [v \in Std |-> Namesake(v)]

Customs(s) == DOMAIN s.reg
LevelsOf(s) == Builtin \cup Customs(s)
TerminatingIn(s, r) == Terminating(AsBuiltin(r, s.treat))

CanRegister(s, c) == c.val \notin LevelsOf(s) /\ Cardinality(Customs(s)) < MaxRegs

\* RegisterLevel(c.val, title, options): writes the entries of c.val and nothing else
RegisterStep(s, c) ==
    [s EXCEPT !.reg = (c.val :> [treat |-> c.treat, err |-> c.err]) @@ @,
              !.treat = IF c.treat # NoTreat THEN (c.val :> c.treat) @@ @ ELSE @,
              !.errdev = @ \cup (IF c.err THEN {c.val} ELSE {})
                           \cup (IF c.err /\ c.treat # NoTreat /\ "RegErrDevOfTreated" \in Deviations THEN {c.treat} ELSE {}),
              !.rev = IF "RegRemapsStd" \in Deviations /\ c.treat \in {Debug, Info, Warn, Error}
                      THEN [@ EXCEPT ![SlogOf(c.treat)] = c.val] ELSE @]

\* the severities a log/slog level may be mapped to (declarative): the four standard levels have
\* their namesakes WHATEVER has been registered; elsewhere the statement only excludes
\* terminating severities
NonStdSevs(s, v) == IF v \in Explicit THEN LevelsOf(s) ELSE {r \in LevelsOf(s) : ~TerminatingIn(s, r)}
MapLevel(s, v) == IF v \in Std THEN {Namesake(v)} ELSE NonStdSevs(s, v)

\* the mechanism: the handler looks the standard levels up in the process's table
HandleSevs(s, v) == IF v \in Std THEN {s.rev[v]} ELSE NonStdSevs(s, v)

\* what Entry.Log does in the pinned library (level.go: logsloglevel2Level)
CodeEntryLogLevel(v) ==
    CASE v = -4 -> Debug [] v = 0 -> Info [] v = 4 -> Warn [] v = 8 -> Error
      [] v = -16 -> Trace [] v = -8 -> Trace [] v = 2 -> Info [] v = 3 -> Info
      [] v = 16 -> Fatal [] v = 17 -> Panic [] OTHER -> Fatal

EntryLogSevs(s, v) ==
    MapLevel(s, v) \cup (IF "EntryLogUnknownFatal" \in Deviations THEN {CodeEntryLogLevel(v)} ELSE {})

\* the logger's gating rule (property C01); s.dbg = the process-wide debug mode, which the library
\* switches on - for good - whenever some logger is given the level Debug; s.treat = the
\* process's treated-as table
Gate(s, L, r) == Admit(L, r, s.dbg, s.treat)

-----------------------------------------------------------------------------
(* attribute trees and LogValuers *)

MaxLv == 3
MaxDepth == 4

RECURSIVE WellFormed(_, _)
WellFormed(nodes, depth) ==
    \A i \in 1..Len(nodes) :
        LET n == nodes[i]
        IN /\ n.lv \in 0..MaxLv
           /\ IF n.g THEN Len(n.kids) > 0 /\ depth < MaxDepth /\ WellFormed(n.kids, depth + 1)
              ELSE n.kids = <<>>

\* "LogValuers resolved": the tree once every LogValuer, at every depth, has been asked for its value
RECURSIVE Plain(_)
Plain(nodes) == [i \in 1..Len(nodes) |-> [nodes[i] EXCEPT !.lv = 0, !.kids = Plain(@)]]

\* leaves of nodes[i..], below path p / ordinals o / hand-over counts w.  `raw` = the hand-over counts
\* at which the mechanism stops resolving: raw[1] for a node outside, raw[2] for a node inside a
\* group some LogValuer resolved to (MaxLv + 1 = never stops); a node it stops at is passed on as the
\* Go value it is: one leaf of kind "raw", whatever it would have resolved to
RECURSIVE Flat(_, _, _, _, _, _, _)
Flat(nodes, i, p, o, w, below, raw) ==
    IF i > Len(nodes) THEN <<>>
    ELSE LET n == nodes[i]
             p2 == Append(p, n.key)  o2 == Append(o, i)  w2 == Append(w, n.lv)
             here == IF n.lv >= raw[IF below THEN 2 ELSE 1] THEN <<[p |-> p2, k |-> "raw", v |-> 0, o |-> o2, w |-> w2]>>
                     ELSE IF n.g THEN Flat(n.kids, 1, p2, o2, w2, below \/ n.lv > 0, raw)
                     ELSE <<[p |-> p2, k |-> n.k, v |-> n.v, o |-> o2, w |-> w2]>>
         IN here \o Flat(nodes, i + 1, p, o, w, below, raw)

\* DECLARATIVE: every LogValuer resolved, wherever it is
Leaves(tree) == Flat(tree, 1, <<>>, <<>>, <<>>, FALSE, <<MaxLv + 1, MaxLv + 1>>)

\* MECHANISM: the adapter's conversion of one list of log/slog attributes
Conv(tree) ==
    LET once == IF "ResolveOnce" \in Deviations THEN 2 ELSE MaxLv + 1
        inner == IF "ResolveTopOnly" \in Deviations THEN 1 ELSE once
    IN Flat(tree, 1, <<>>, <<>>, <<>>, FALSE, <<once, inner>>)

\* The flattened shapes are handed in as constants (RecLeaves, DerivLeaves - TLC evaluates a constant
\* once, but a definition that goes through a RECURSIVE operator at every use) and checked here, once,
\* to be what Leaves says and - unless a LogValuer deviation is enabled - what the mechanism yields.
ValuerDeviations == Deviations \cap {"ResolveTopOnly", "ResolveOnce"}
RecShapes == RecLeaves
DerivShapes == DerivLeaves
RecConv == IF ValuerDeviations = {} THEN RecLeaves ELSE [i \in DOMAIN RecTrees |-> Conv(RecTrees[i])]
DerivConv == IF ValuerDeviations = {} THEN DerivLeaves ELSE [i \in DOMAIN DerivTrees |-> Conv(DerivTrees[i])]

ASSUME LeavesGiven == /\ DOMAIN RecLeaves = DOMAIN RecTrees /\ DOMAIN DerivLeaves = DOMAIN DerivTrees
                      /\ \A i \in DOMAIN RecTrees : RecLeaves[i] = Leaves(RecTrees[i])
                      /\ \A i \in DOMAIN DerivTrees : DerivLeaves[i] = Leaves(DerivTrees[i])
ASSUME ConvGiven == ValuerDeviations = {} =>
                        /\ \A i \in DOMAIN RecTrees : RecLeaves[i] = Conv(RecTrees[i])
                        /\ \A i \in DOMAIN DerivTrees : DerivLeaves[i] = Conv(DerivTrees[i])

Bare(leaves) == [i \in 1..Len(leaves) |-> [p |-> leaves[i].p, k |-> leaves[i].k, v |-> leaves[i].v, o |-> leaves[i].o]]

\* the expected leaves are those of the fully resolved tree
ValuersTransparent(tree) == Bare(Leaves(tree)) = Bare(Leaves(Plain(tree)))

\* where the LogValuers of a list sit: <leaf|group>[-chain]@<top|lit|val|val-lit>
\*   top = an element of the list itself, lit = a member of literal groups only, val = a member of a
\*   group a LogValuer resolved to, val-lit = a member of a literal group somewhere inside such a group
RECURSIVE ValuerClasses(_, _)
ValuerClasses(nodes, anc) ==
    UNION {LET n == nodes[i]
               ctx == IF anc = <<>> THEN "top"
                      ELSE IF \A j \in 1..Len(anc) : anc[j] = 0 THEN "lit"
                      ELSE IF Last(anc) > 0 THEN "val" ELSE "val-lit"
               own == IF n.lv = 0 THEN {}
                      ELSE {(IF n.g THEN "group" ELSE "leaf") \o (IF n.lv >= 2 THEN "-chain" ELSE "") \o "@" \o ctx}
           IN own \cup (IF n.g THEN ValuerClasses(n.kids, Append(anc, n.lv)) ELSE {}) : i \in 1..Len(nodes)}

ClassesOf(trees, idx) == UNION {ValuerClasses(trees[i], <<>>) : i \in idx}

\* the class of one leaf by the LogValuers on its path (names a failure, nothing else)
VClass(L) ==
    LET pos == {d \in 1..Len(L.w) : L.w[d] > 0}
    IN IF pos = {} THEN "plain"
       ELSE IF Cardinality(pos) >= 2 THEN "valuer-in-valuer"
       ELSE IF \E d \in pos : L.w[d] >= 2 THEN "valuer-chain"
       ELSE IF Len(L.w) \in pos THEN "valuer" ELSE "group-valuer"

ASSUME TreesWellFormed == /\ \A i \in DOMAIN RecTrees : WellFormed(RecTrees[i], 1) /\ ValuersTransparent(RecTrees[i])
                          /\ \A i \in DOMAIN DerivTrees : WellFormed(DerivTrees[i], 1) /\ ValuersTransparent(DerivTrees[i])
\* not vacuous: LogValuers sit at every position the configuration asks for, in the records probed
\* and in the lists given to WithAttrs
ASSUME ValuerCover == /\ NeedValuerClasses \subseteq ClassesOf(RecTrees, {HandleCells[c].sh : c \in DOMAIN HandleCells})
                      /\ NeedValuerClasses \subseteq ClassesOf(DerivTrees, DerivOffered)

-----------------------------------------------------------------------------
(* record times *)

DaySecs == 86400
TimeIds == 0..Len(RecTimes)                     \* 0 = stamped by log/slog.Logger during the call

\* DECLARATIVE: the instant a catalogue time denotes, normalised to UTC
Instant(tm) == LET x == tm.s - tm.off IN [d |-> tm.d + (x \div DaySecs), s |-> x % DaySecs, n |-> tm.n]
ZeroInstant == [d |-> 0, s |-> 0, n |-> 0]
IsZeroTime(tm) == Instant(tm) = ZeroInstant     \* time.Time.IsZero(): the instant, in whatever zone
TimeKind(t) == IF t = 0 THEN "now" ELSE RecTimes[t].kind

\* MECHANISM: the time (id) the handler hands to the underlying logger
EmitTime(t) == IF t # 0 /\ "ZeroTimeNow" \in Deviations /\ IsZeroTime(RecTimes[t]) THEN 0 ELSE t

ASSUME TimesWellFormed ==
    /\ (0 - 1) \div DaySecs = 0 - 1 /\ (0 - 1) % DaySecs = DaySecs - 1       \* floor division, as Instant needs it
    /\ \A t \in DOMAIN RecTimes :
           LET tm == RecTimes[t]
           IN /\ tm.s \in 0..(DaySecs - 1) /\ tm.n \in 0..999999999 /\ tm.off \in (1 - DaySecs)..(DaySecs - 1)
              /\ Instant(tm).s \in 0..(DaySecs - 1)
              /\ Instant(tm).d \in 0..3652058                                    \* 0001-01-01 .. 9999-12-31, in UTC
              /\ (tm.kind \in {"zero", "zero-zone"}) = IsZeroTime(tm)
              /\ tm.kind = "zero" => tm.off = 0
              /\ tm.kind = "zero-zone" => tm.off # 0
              /\ tm.kind = "epoch" => Instant(tm) = [d |-> 719162, s |-> 0, n |-> 0]
              /\ tm.kind = "y9999" => Instant(tm).d = 3652058
              \* "zone": the same instant is in the catalogue a second time, expressed in another zone
              /\ tm.kind = "zone" => \E u \in DOMAIN RecTimes : RecTimes[u].off # tm.off /\ Instant(RecTimes[u]) = Instant(tm)
\* not vacuous: the records probed carry the kinds of time the configuration asks for
ASSUME TimeCover == NeedTimeKinds \subseteq {TimeKind(HandleCells[c].t) : c \in DOMAIN HandleCells}

-----------------------------------------------------------------------------
(* the underlying logger and the handlers *)

FmtOf(o) == IF o.json THEN "json" ELSE IF o.nocolor THEN "logfmt" ELSE "color"

\* NewSlogHandler(logger at level L, options o): the logger afterwards
AdaptedLogger(L, o) == [level |-> IF o.level # Panic THEN o.level ELSE L, fmt |-> FmtOf(o)]

RootHandler(lgr) == [lg |-> [level |-> lgr.level, fmt |-> lgr.fmt, dest |-> "cfg"], pre |-> <<>>, preo |-> <<>>, added |-> <<>>, n |-> 0]

\* the handler the pinned library returns from WithAttrs/WithGroup: a fresh detached logger in
\* its factory configuration writing to the package's default destination, nothing remembered
FreshHandler == [lg |-> [level |-> PkgLevel, fmt |-> "color", dest |-> "default"], pre |-> <<>>, preo |-> <<>>, added |-> <<>>, n |-> 0]

\* the leaves of one list given at derivation step `step` under the open groups pre (ordinals preo)
Qualify(pre, preo, step, leaves) ==
    [i \in 1..Len(leaves) |-> [p |-> pre \o leaves[i].p, o |-> preo \o <<step * K + leaves[i].o[1]>> \o Tail(leaves[i].o),
                               k |-> leaves[i].k, v |-> leaves[i].v, w |-> leaves[i].w, q |-> Len(pre)]]

WithAttrsI(h, as) == [h EXCEPT !.n = @ + 1, !.added = @ \o Qualify(h.pre, h.preo, h.n + 1, as)]
WithGroupI(h, g) == [h EXCEPT !.n = @ + 1, !.pre = Append(@, g), !.preo = Append(@, (h.n + 1) * K)]

\* allowed successors of a derivation (the second disjunct only when the deviation is enabled)
DeriveSet(ideal) == {ideal} \cup (IF "DerivedFresh" \in Deviations THEN {FreshHandler} ELSE {})

-----------------------------------------------------------------------------
(* what a handler does with a record *)

\* Handler.Enabled(v): fixed for the four standard levels, unconstrained otherwise
EnabledSet(s, h, v) == IF v \in Std THEN {Gate(s, h.lg.level, Namesake(v))} ELSE BOOLEAN

\* the one record Handle emits, once the severity sev \in MapLevel(v) is fixed (mechanism: the
\* record's attributes as the conversion yields them):
\* t = time id of the record (0 = "taken by log/slog.Logger during the call"), m = message bytes
\* the record's own attributes come last at their level (step n + 1)
RecStep(h) == IF "AttrsBehindRecord" \in Deviations THEN 0 ELSE h.n + 1
\* ... with the record's attributes given as leaves
CanonL(h, sev, leaves, t, m) ==
    [dest |-> h.lg.dest, fmt |-> h.lg.fmt, sev |-> sev, msg |-> m, t |-> EmitTime(t),
     given |-> h.added, rec |-> Qualify(h.pre, h.preo, RecStep(h), leaves)]
Canon(h, sev, sh, t, m) == CanonL(h, sev, RecConv[sh], t, m)

\* destination class of a record: the logger routes by severity (error device or not)
WriterOf(s, dest, sev) ==
    IF dest = "cfg" THEN (IF ErrClass(sev, s.errdev) THEN 2 ELSE 1)
    ELSE (IF ErrClass(sev, s.errdev) THEN -2 ELSE -1)

-----------------------------------------------------------------------------
(* nested records: a record whose first attribute - the carrier - logs another record through handler
   h2 while the outer record is being handled (c = a nest cell or a recorded Nested call) *)

Carriers == {"valuer", "valuer-group", "stringer", "error"}
CarrierKey(car) == IF car = "valuer-group" THEN "zzq" ELSE "nq"
CarrierMember == "id"

\* what the carrier contributes to the outer record's tree: it is the first attribute of the list
CarrierLeaves(c) ==
    IF c.car = "valuer-group"
    THEN <<[p |-> <<CarrierKey(c.car), CarrierMember>>, k |-> c.k, v |-> c.cv, o |-> <<1, 1>>, w |-> <<1, 0>>]>>
    ELSE <<[p |-> <<CarrierKey(c.car)>>, k |-> c.k, v |-> c.cv, o |-> <<1>>, w |-> <<IF c.car = "valuer" THEN 1 ELSE 0>>]>>
ShiftOne(leaves) == [i \in 1..Len(leaves) |-> [leaves[i] EXCEPT !.o = <<@[1] + 1>> \o Tail(@)]]
NestLeaves(c) == CarrierLeaves(c) \o ShiftOne(RecConv[c.sh])

CarrierOK(c) == /\ c.car \in Carriers
                /\ c.car = "stringer" => c.k = "any"
                /\ c.car = "error" => c.k = "err"
                /\ c.car \in {"valuer", "valuer-group"} => c.k \notin {"any", "err", "raw"}

\* the handler the inner record goes through: h2 = 0 is the handler a second NewSlogHandler(logger,
\* same options) returns - nothing added, no group, the logger as it is
TargetOf(s, h2) == IF h2 = 0 THEN RootHandler(s.lg) ELSE s.hs[h2].s

\* how h2 is related to h (names a failure and the coverage, nothing else)
RECURSIVE IsAnc(_, _, _)
IsAnc(s, a, b) == b # 0 /\ (s.hs[b].parent = a \/ IsAnc(s, a, s.hs[b].parent))
Rel(s, h, h2) ==
    IF h2 = 0 THEN "other" ELSE IF h2 = h THEN "same"
    ELSE IF IsAnc(s, h2, h) THEN "ancestor" ELSE IF IsAnc(s, h, h2) THEN "descendant"
    ELSE IF s.hs[h].parent = s.hs[h2].parent THEN "sibling" ELSE "cousin"

\* MECHANISM: does the nested call come back?  (every handler of s.hs stems from the one NewSlogHandler)
NestedHangs(s, h, h2) == "HandleSerialised" \in Deviations /\ h2 # 0

\* the expected pair of records once the severities are fixed
NestedPair(s, h, h2, c, sevO, sevI) ==
    LET outer == CanonL(s.hs[h].s, sevO, NestLeaves(c), c.t, HMsgs[c.mi])
        inner == Canon(TargetOf(s, h2), sevI, c.q.sh, c.q.t, HMsgs[c.q.mi])
    IN [outer |-> outer,
        inner |-> IF "NestedSharesRecord" \in Deviations THEN [inner EXCEPT !.t = outer.t, !.given = outer.given] ELSE inner]

-----------------------------------------------------------------------------
(* equal keys: which leaves of a set S of qualified leaves must be in the output *)

\* M lies in the same group instance as L at depth d and has L's key there
SameSlot(L, M, d) ==
    /\ d <= Len(L.p) /\ d <= Len(M.p)
    /\ SubSeq(M.p, 1, d) = SubSeq(L.p, 1, d)
    /\ SubSeq(M.o, 1, d - 1) = SubSeq(L.o, 1, d - 1)

\* L, or a group around it, is followed in logical order by an attribute with the same key
Displaced(L, S) == \E M \in S : \E d \in 1..Len(L.p) : SameSlot(L, M, d) /\ M.o[d] > L.o[d]

\* L, or a group around it, shares its key with some other attribute (before or after it)
Contested(L, S) == \E M \in S : \E d \in 1..Len(L.p) : SameSlot(L, M, d) /\ M.o[d] # L.o[d]

Must(S) == {L \in S : ~Displaced(L, S)}

AllLeaves(c) == ToSet(c.given) \cup ToSet(c.rec)

-----------------------------------------------------------------------------
(* declarative side: what the history of derivations promises *)

RECURSIVE OpenGroups(_)
OpenGroups(hist) ==
    IF hist = <<>> THEN <<>>
    ELSE LET r == OpenGroups(Front(hist)) l == Last(hist)
         IN IF l.op = "group" THEN Append(r, l.g) ELSE r

\* ordinals of the groups opened by a history: step index * K
OpenOrds(hist) ==
    LET idx == SetToSortSeq({x \in 1..Len(hist) : hist[x].op = "group"}, <)
    IN [j \in 1..Len(idx) |-> idx[j] * K]

\* every attribute given by a WithAttrs step, under the groups opened before that step, at the
\* place of that step in the logical order
GivenBy(hist) ==
    UNION {{[p |-> OpenGroups(SubSeq(hist, 1, i - 1)) \o DerivShapes[hist[i].a][j].p,
             o |-> OpenOrds(SubSeq(hist, 1, i - 1)) \o <<i * K + DerivShapes[hist[i].a][j].o[1]>> \o Tail(DerivShapes[hist[i].a][j].o),
             k |-> DerivShapes[hist[i].a][j].k, v |-> DerivShapes[hist[i].a][j].v, w |-> DerivShapes[hist[i].a][j].w,
             q |-> Len(OpenGroups(SubSeq(hist, 1, i - 1)))] : j \in 1..Len(DerivShapes[hist[i].a])}
           : i \in {x \in 1..Len(hist) : hist[x].op = "attrs"}}

-----------------------------------------------------------------------------
(* the std-log bridge *)

\* log.Logger (no prefix, no flags) hands the message to its writer with exactly one '\n' appended
\* unless it already ends in one
StdLogBytes(m) == IF m = <<>> \/ Last(m) # NL THEN Append(m, NL) ELSE m

\* the record's message: the written bytes minus ONE trailing newline
BridgeMsg(b) == IF b # <<>> /\ Last(b) = NL THEN Front(b) ELSE b

BridgeEmitSet(s, L, sev) ==
    {Gate(s, L, sev)} \cup (IF "BridgeInverted" \in Deviations THEN {sev >= L} ELSE {})

FirstLine(m) ==
    LET nls == {i \in 1..Len(m) : m[i] = NL}
    IN IF nls = {} THEN m ELSE SubSeq(m, 1, Min(nls) - 1)

Blank(m) == \A i \in 1..Len(m) : m[i] = NL

-----------------------------------------------------------------------------
(* exhaustive specification *)

NoBridge == [sev |-> 0]

\* a new process
InitState == [phase |-> "init", lg |-> [level |-> PkgLevel, fmt |-> "color"], oi |-> 0, caller |-> FALSE, dbg |-> FALSE,
              hs |-> <<>>, br |-> NoBridge, reg |-> <<>>, treat |-> TreatInit, errdev |-> ErrDevInit, rev |-> RevInit]

\* a new behaviour in the SAME process: loggers, handlers, flags are made anew, the registry stays
ResetState(s) == [InitState EXCEPT !.reg = s.reg, !.treat = s.treat, !.errdev = s.errdev, !.rev = s.rev]

Entry(s, hist, parent) == [s |-> s, hist |-> hist, parent |-> parent]

NewHandlerStep(s, L, oi) ==
    LET lgr == AdaptedLogger(L, Opts[oi])
    IN [s EXCEPT !.phase = "handler", !.lg = lgr, !.oi = oi, !.caller = ~Opts[oi].nosource,
                 !.dbg = s.dbg \/ L = Debug \/ Opts[oi].level = Debug,
                 !.hs = <<Entry(RootHandler(lgr), <<>>, 0)>>]

AttrStep(a) == [op |-> "attrs", a |-> a, g |-> ""]
GroupStep(g) == [op |-> "group", a |-> 0, g |-> g]

DeriveSteps(s, h, step) ==
    LET ideal == IF step.op = "attrs" THEN WithAttrsI(s.hs[h].s, DerivConv[step.a])
                 ELSE WithGroupI(s.hs[h].s, step.g)
    IN {[s EXCEPT !.hs = Append(@, Entry(n, Append(s.hs[h].hist, step), h))] : n \in DeriveSet(ideal)}

CanDerive(s, h) ==
    /\ s.phase = "handler" /\ h \in 1..Len(s.hs) /\ Len(s.hs) < MaxHandlers
    /\ (DeriveFromAny \/ h = Len(s.hs))

NewHandler(ri) == st.phase = "init" /\ st' = NewHandlerStep(st, Roots[ri].L, Roots[ri].oi)
WithAttrs(h, a) == CanDerive(st, h) /\ st' \in DeriveSteps(st, h, AttrStep(a))
WithGroup(h, g) == CanDerive(st, h) /\ st' \in DeriveSteps(st, h, GroupStep(g))
\* probes: they never change the state; the edges exist so that every probe is replayed from
\* every state of the graph
Probed(s, h) == s.phase = "handler" /\ h \in 1..Len(s.hs) /\ (ProbeAll \/ h = Len(s.hs))
Enabled(h, v) == Probed(st, h) /\ UNCHANGED st
Handle(h, ci) == Probed(st, h) /\ UNCHANGED st
\* a nested pair of records: outer through h, inner - logged by the outer's carrier - through h2
Nested(h, h2, ni) == Probed(st, h) /\ h2 \in 0..Len(st.hs) /\ ~NestedHangs(st, h, h2) /\ UNCHANGED st
\* Entry.Log concerns the adapted logger only: probed once, right after NewSlogHandler
EntryLog(v) == st.phase = "handler" /\ Len(st.hs) = 1 /\ UNCHANGED st
NewBridgeStep(s, L, sev, f) == [s EXCEPT !.phase = "bridge", !.lg = [level |-> L, fmt |-> f], !.br = [sev |-> sev],
                                          !.dbg = s.dbg \/ L = Debug]
NewBridge(bi) == st.phase = "init" /\ BridgeCfgs[bi].sev \in LevelsOf(st)
                 /\ st' = NewBridgeStep(st, BridgeCfgs[bi].L, BridgeCfgs[bi].sev, BridgeCfgs[bi].f)
BridgeWrite(mi) == st.phase = "bridge" /\ UNCHANGED st
BridgePrint(mi) == st.phase = "bridge" /\ UNCHANGED st
\* RegisterLevel: at any moment - before the handler/bridge exists, or between two probes
Register(ci) == CanRegister(st, RegCells[ci]) /\ st' = RegisterStep(st, RegCells[ci])

Next ==
    \/ \E ri \in DOMAIN Roots : NewHandler(ri)
    \/ \E h \in 1..MaxHandlers, a \in DerivOffered : WithAttrs(h, a)
    \/ \E h \in 1..MaxHandlers, g \in GroupNames : WithGroup(h, g)
    \/ \E h \in 1..MaxHandlers, v \in SlogLevels : Enabled(h, v)
    \/ \E h \in 1..MaxHandlers, ci \in DOMAIN HandleCells : Handle(h, ci)
    \/ \E h \in 1..MaxHandlers, h2 \in 0..MaxHandlers, ni \in DOMAIN NestCells : Nested(h, h2, ni)
    \/ \E v \in SlogLevels : EntryLog(v)
    \/ \E bi \in DOMAIN BridgeCfgs : NewBridge(bi)
    \/ \E mi \in DOMAIN BMsgs : BridgeWrite(mi)
    \/ \E mi \in DOMAIN BMsgs : BridgePrint(mi)
    \/ \E ci \in DOMAIN RegCells : Register(ci)

Init == st = InitState
Spec == Init /\ [][Next]_st

DumpAlias == [n |-> Len(st.hs), r |-> Cardinality(DOMAIN st.reg)]

-----------------------------------------------------------------------------
(* Invariants: the property, evaluated in every reachable state for ALL probe arguments *)

Handlers == 1..Len(st.hs)
RootCfg == [level |-> st.lg.level, fmt |-> st.lg.fmt, dest |-> "cfg"]

TypeOK ==
    /\ st.phase \in {"init", "handler", "bridge"}
    /\ st.lg.fmt \in {"json", "logfmt", "color"}
    /\ st.oi \in 0..Len(Opts) /\ (st.oi # 0 <=> st.phase = "handler")
    /\ Len(st.hs) <= MaxHandlers
    /\ st.phase = "handler" <=> Len(st.hs) >= 1
    /\ \A h \in Handlers : st.hs[h].parent \in 0..(h - 1) /\ (st.hs[h].parent = 0 <=> h = 1)
    /\ Cardinality(DOMAIN st.reg) <= MaxRegs /\ DOMAIN st.reg \cap Builtin = {}
    /\ DOMAIN st.rev = Std
    /\ st.br.sev \in LevelsOf(st)

\* "handlers derived with WithAttrs/WithGroup keep the destination, format and level"
KeepsConfig == \A h \in Handlers : st.hs[h].s.lg = RootCfg

\* "... and add what was given": the step-by-step mechanism state carries exactly the attributes
\* the derivation history promises, each under the groups open when it was given
AddsGiven == \A h \in Handlers : /\ ToSet(st.hs[h].s.added) = GivenBy(st.hs[h].hist)
                                  /\ st.hs[h].s.pre = OpenGroups(st.hs[h].hist)
                                  /\ st.hs[h].s.preo = OpenOrds(st.hs[h].hist)
                                  /\ st.hs[h].s.n = Len(st.hs[h].hist)

\* "emitted once ... with the same message, the record's own time, all its attributes"
RecordComplete ==
    \A h \in Handlers :
        LET hs == st.hs[h].s
            og == OpenGroups(st.hs[h].hist)
            gb == GivenBy(st.hs[h].hist)
        IN \* all attributes of the record, under the open groups, kinds and values untouched
           /\ \A sh \in DOMAIN RecShapes :
                  LET r == Canon(hs, Info, sh, 1, HMsgs[1])
                  IN /\ Len(r.rec) = Len(RecShapes[sh])
                     /\ \A x \in 1..Len(r.rec) :
                            /\ r.rec[x].p = og \o RecShapes[sh][x].p
                            /\ r.rec[x].k = RecShapes[sh][x].k /\ r.rec[x].v = RecShapes[sh][x].v   \* LogValuers resolved
                            /\ Tail(SubSeq(r.rec[x].o, Len(og) + 1, Len(r.rec[x].o))) = Tail(RecShapes[sh][x].o)
                     /\ ToSet(r.given) = gb
           \* message, time, severity as given; destination and format of the set-up
           /\ \A v \in SlogLevels, t \in {0, 1}, mi \in DOMAIN HMsgs : \A sev \in MapLevel(st, v) :
                  LET r == Canon(hs, sev, 1, t, HMsgs[mi])
                  IN r.msg = HMsgs[mi] /\ r.t = t /\ r.sev = sev /\ r.dest = "cfg" /\ r.fmt = st.lg.fmt

\* equal keys: an attribute of the record is never displaced by an attribute of the handler -
\* whatever displaces it is an attribute of the same record (the later of two equal keys)
RecordWins ==
    \A h \in Handlers, sh \in DOMAIN RecShapes :
        LET c == Canon(st.hs[h].s, Info, sh, 1, HMsgs[1])
        IN \A L \in ToSet(c.rec) : Displaced(L, AllLeaves(c)) => Displaced(L, ToSet(c.rec))

\* "the record's own time": whatever time.Time the record carries - the zero value included - is the
\* time handed to the underlying logger; only log/slog.Logger's own records (id 0) carry "now"
OwnTimeKept ==
    \A h \in Handlers, t \in TimeIds : Canon(st.hs[h].s, Info, 1, t, HMsgs[1]).t = t

\* the cells of the nested probes make sense: known carriers, inner and outer told apart by their messages
ASSUME NestCellsOK == \A ni \in DOMAIN NestCells :
                   LET c == NestCells[ni]
                   IN /\ CarrierOK(c) /\ c.t \in TimeIds /\ c.q.t \in TimeIds
                      /\ c.sh \in DOMAIN RecTrees /\ c.q.sh \in DOMAIN RecTrees
                      /\ FirstLine(HMsgs[c.mi]) # FirstLine(HMsgs[c.q.mi])

\* a nested record - through the same handler, any handler of the family, another handler on the
\* logger - always comes back
NestedReturns == \A h \in Handlers, h2 \in 0..Len(st.hs) : ~NestedHangs(st, h, h2)

\* "... emitted once each with their own content": message, time, severity and attributes of each of the
\* two records are its own, the attributes given by WithAttrs and the groups those of its OWN handler,
\* the carrier's content is in the outer record and only there; one logger: same destination and format
NestedOwnContent ==
    \A h \in Handlers, h2 \in 0..Len(st.hs), ni \in DOMAIN NestCells :
        LET c == NestCells[ni]
            pr == NestedPair(st, h, h2, c, Warn, Info)
            og == OpenGroups(st.hs[h].hist)
            og2 == IF h2 = 0 THEN <<>> ELSE OpenGroups(st.hs[h2].hist)
        IN /\ pr.outer.msg = HMsgs[c.mi] /\ pr.inner.msg = HMsgs[c.q.mi]
           /\ pr.outer.t = c.t /\ pr.inner.t = c.q.t
           /\ pr.outer.sev = Warn /\ pr.inner.sev = Info
           /\ ToSet(pr.outer.given) = GivenBy(st.hs[h].hist)
           /\ ToSet(pr.inner.given) = (IF h2 = 0 THEN {} ELSE GivenBy(st.hs[h2].hist))
           /\ Len(pr.outer.rec) = Len(RecShapes[c.sh]) + 1 /\ Len(pr.inner.rec) = Len(RecShapes[c.q.sh])
           /\ pr.outer.rec[1].p = og \o CarrierLeaves(c)[1].p /\ pr.outer.rec[1].k = c.k /\ pr.outer.rec[1].v = c.cv
           /\ \A x \in 1..Len(RecShapes[c.sh]) : /\ pr.outer.rec[x + 1].p = og \o RecShapes[c.sh][x].p
                                                   /\ pr.outer.rec[x + 1].k = RecShapes[c.sh][x].k /\ pr.outer.rec[x + 1].v = RecShapes[c.sh][x].v
           /\ \A x \in 1..Len(pr.inner.rec) : /\ pr.inner.rec[x].p = og2 \o RecShapes[c.q.sh][x].p
                                                /\ pr.inner.rec[x].k = RecShapes[c.q.sh][x].k /\ pr.inner.rec[x].v = RecShapes[c.q.sh][x].v
           /\ pr.outer.dest = "cfg" /\ pr.inner.dest = "cfg" /\ pr.outer.fmt = st.lg.fmt /\ pr.inner.fmt = st.lg.fmt

\* the handler a second NewSlogHandler(logger, same options) returns is "another handler on the same
\* logger": making it changes nothing - level, format, caller flag, debug mode stay as they are
SecondAdapterSame ==
    st.phase = "handler" =>
        LET s2 == NewHandlerStep(st, st.lg.level, st.oi)
        IN s2.lg = st.lg /\ s2.caller = st.caller /\ s2.dbg = st.dbg /\ s2.oi = st.oi

\* "the namesake severity for Debug/Info/Warn/Error" - in every state, i.e. whatever was registered
StdNamesake ==
    /\ MapLevel(st, -4) = {Debug} /\ MapLevel(st, 0) = {Info} /\ MapLevel(st, 4) = {Warn} /\ MapLevel(st, 8) = {Error}
    /\ \A v \in Std : EntryLogSevs(st, v) = {Namesake(v)}

\* a standard-level record does not depend on the registry: the mechanism's table still holds the
\* namesakes, and their gating and destination are those of a process that never registered anything
StdIndependent ==
    \A v \in Std :
        /\ HandleSevs(st, v) = {Namesake(v)}
        /\ WriterOf(st, "cfg", Namesake(v)) = WriterOf(InitState, "cfg", Namesake(v))
        /\ \A L \in Panic..Always : Gate(st, L, Namesake(v)) = Admit(L, Namesake(v), st.dbg, TreatInit)

\* custom registrations only affect their own value: the built-in levels keep their factory
\* entries, every registered level has exactly what its registration asked for
RegistryLocal ==
    /\ \A r \in Builtin : AsBuiltin(r, st.treat) = AsBuiltin(r, TreatInit) /\ (r \in st.errdev <=> r \in ErrDevInit)
    /\ \A c \in DOMAIN st.reg :
           /\ AsBuiltin(c, st.treat) = (IF st.reg[c].treat = NoTreat THEN c ELSE st.reg[c].treat)
           /\ (c \in st.errdev <=> st.reg[c].err)
    /\ DOMAIN st.treat \subseteq LevelsOf(st) /\ st.errdev \subseteq LevelsOf(st)

\* the same as an action property: a step that registers a level changes nothing else - not the
\* standard levels' mapping, not the entries of any level that existed before, not the handlers
RegistrationLocal ==
    [][st'.reg # st.reg =>
          /\ \A v \in Std : HandleSevs(st', v) = HandleSevs(st, v)
          /\ \A r \in LevelsOf(st) : /\ AsBuiltin(r, st'.treat) = AsBuiltin(r, st.treat)
                                     /\ (r \in st'.errdev <=> r \in st.errdev)
          /\ st'.phase = st.phase /\ st'.lg = st.lg /\ st'.hs = st.hs /\ st'.br = st.br
          /\ st'.dbg = st.dbg /\ st'.caller = st.caller]_st

\* "for which the handler's Enabled answers exactly as the underlying logger's gating does"
EnabledAgrees == \A h \in Handlers, v \in Std : EnabledSet(st, st.hs[h].s, v) = {Gate(st, st.lg.level, Namesake(v))}

\* "no level other than the explicit Fatal/Panic constants maps to a terminating severity"
NoTerminating ==
    st.phase = "handler" => \A v \in SlogLevels \ Explicit : \A r \in MapLevel(st, v) \cup EntryLogSevs(st, v) : ~TerminatingIn(st, r)

\* "as one record at the bridge's severity exactly when the logger admits that severity"
BridgeGate == st.phase = "bridge" => BridgeEmitSet(st, st.lg.level, st.br.sev) = {Gate(st, st.lg.level, st.br.sev)}

\* "each message, minus its trailing newline": from the std-log user's point of view
BridgeMsgInv ==
    st.phase = "bridge" => \A mi \in DOMAIN BMsgs :
        LET m == BMsgs[mi] b == StdLogBytes(m) r == BridgeMsg(b)
        IN /\ Append(r, NL) = b                                  \* exactly one newline removed
           /\ r = (IF m # <<>> /\ Last(m) = NL THEN Front(m) ELSE m)
           /\ BridgeMsg(m) \in {m, Front(m)}                     \* direct Write: at most one removed
           /\ Len(m) - Len(BridgeMsg(m)) \in {0, 1}
=============================================================================
