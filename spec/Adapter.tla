------------------------------- MODULE Adapter -------------------------------
(* Property C15: the log/slog handler (NewSlogHandler), the std-log bridge (NewLogLogger) and
   every place of hedzr/logg that accepts a log/slog level (Handler.Enabled, Handler.Handle,
   Entry.Log) preserve content, severity and gating.

   WHAT IS MODELLED
     * an underlying logger (level, output format, destination) made for one behaviour;
     * NewSlogHandler(logger, options): mutates the logger (level if options.Level is set, format
       from NoColor/JSON) and the process-wide caller flag (NoSource) - "as what it is";
     * the tree of handlers derived from it with WithAttrs / WithGroup;
     * the probes Enabled(level), Handle(record) (through a real log/slog.Logger or with a
       hand-made record carrying its own time) and Entry.Log(level);
     * the std-log bridge: NewLogLogger(logger, severity), Print(msg) / Writer().Write(bytes).

   STYLE: functional core.  `st` is the whole abstract state; each public call is a pure
   operator over it.  The same operators are used by the exhaustive specification (Next), by
   the invariants and by the trace specification AdapterTrace (which validates recordings of
   the real library).

   STATE (fields of st)
     phase   "init" | "handler" | "bridge"
     lg      the underlying logger: [level, fmt]   (fmt \in {"json","logfmt","color"})
     caller  the process-wide "print caller" flag (set by NewSlogHandler from NoSource)
     dbg     the process-wide debug mode (switched on by giving any logger the level Debug;
             part of the gating rule of property C01, see Levels!Admit)
     hs      the handlers made so far (1 = the one NewSlogHandler returned); each entry is
               s      MECHANISM state, computed step by step:
                        lg    [level, fmt, dest]  configuration the handler logs with
                        pre   groups opened by WithGroup (outermost first)
                        added attributes given by WithAttrs, already qualified (leaf records)
               hist   GHOST: the derivation steps from the root handler, used only to state
                      the property declaratively
               parent id of the handler it was derived from (0 for the root)
     br      the bridge: [sev] severity given to NewLogLogger

   ATTRIBUTES are kept flattened: a shape is a sequence of leaves [p, k, v] - p the path of keys
   (groups outermost first, the leaf's key last), k the value kind, v the value id.  A LogValuer
   is a leaf/group whose concrete value the harness wraps; "resolved" means the expected leaves
   are the resolved ones, so the specification does not distinguish them.  A qualified leaf
   [p, k, v, q] also remembers how many leading path elements come from WithGroup (q): the
   statement does not say whether those appear as nesting or not, so both are accepted.

   OPERATORS THAT STATE THE PROPERTY
     MapLevel            the allowed severities per log/slog level (namesakes; non-terminating
                         unless the explicit Fatal/Panic constants)         -> StdNamesake, NoTerminating
     EnabledSet          Handler.Enabled = the logger's gating (Levels!Admit) -> EnabledAgrees
     Canon, GivenBy,
     OpenGroups          one record: message, record time, all attributes, given attributes
                                                                            -> AddsGiven, RecordComplete
     KeepsConfig         derived handlers keep destination, format and level
     BridgeEmitSet,
     BridgeMsg           bridge admission and message minus one trailing newline
                                                                            -> BridgeGate, BridgeMsgInv
   DEVIATIONS (what the pinned library does instead; enabled only through `Deviations`, used
   for witness runs - each must make an invariant fail - and to name known findings precisely)
     "DerivedFresh"          WithAttrs/WithGroup return a handler over a fresh detached logger
     "BridgeInverted"        the bridge emits iff severity >= logger level (numerically)
     "EntryLogUnknownFatal"  Entry.Log maps every unlisted log/slog level to Fatal            *)
EXTENDS Levels, SequencesExt, FiniteSetsExt

CONSTANTS
    Roots,           \* sequence of set-ups [L, oi]: level the logger has before, index into Opts
    Opts,            \* sequence of HandlerOptions: [nocolor, nosource, json, level] (level 0 = unset)
    SlogLevels,      \* log/slog level values probed
    RecShapes,       \* sequence of record attribute shapes (sequences of leaves [p, k, v])
    DerivShapes,     \* sequence of attribute shapes given to WithAttrs
    GroupNames,      \* set of names given to WithGroup
    MaxHandlers,     \* bound on handlers per behaviour in the exhaustive model
    DeriveFromAny,   \* TRUE: derive from any handler (tree); FALSE: only from the newest (chain)
    ProbeAll,        \* TRUE: probe every handler in every state; FALSE: only the newest one
    HandleCells,     \* sequence of probes [v, sh, via, t, mi]: slog level, record shape, "logger"/"rec", time id, message id
    HMsgs,           \* sequence of record messages (byte sequences)
    BridgeCfgs,      \* sequence of bridge set-ups [L, sev, f]: logger level, bridge severity, format
    BMsgs,           \* sequence of std-log messages (byte sequences)
    PkgLevel,        \* package default level = level of a fresh detached logger (deviation only)
    Deviations       \* enabled deviations (see above); {} = the property's own model

VARIABLE st

NL == 10

-----------------------------------------------------------------------------
(* log/slog levels *)

Std == {-4, 0, 4, 8}
Explicit == {16, 17}            \* slog.LevelFatal, slog.LevelPanic of the library
Namesake(v) == CASE v = -4 -> Debug [] v = 0 -> Info [] v = 4 -> Warn [] v = 8 -> Error

NonTerminating == {r \in Builtin : ~Terminating(r)}

\* the severities a log/slog level may be mapped to
MapLevel(v) ==
    IF v \in Std THEN {Namesake(v)}
    ELSE IF v \in Explicit THEN Builtin
    ELSE NonTerminating

\* what Entry.Log does in the pinned library (level.go: logsloglevel2Level)
CodeEntryLogLevel(v) ==
    CASE v = -4 -> Debug [] v = 0 -> Info [] v = 4 -> Warn [] v = 8 -> Error
      [] v = -16 -> Trace [] v = -8 -> Trace [] v = 2 -> Info [] v = 3 -> Info
      [] v = 16 -> Fatal [] v = 17 -> Panic [] OTHER -> Fatal

EntryLogSevs(v) ==
    MapLevel(v) \cup (IF "EntryLogUnknownFatal" \in Deviations THEN {CodeEntryLogLevel(v)} ELSE {})

\* the logger's gating rule (property C01); dbg = the process-wide debug mode, which the library
\* switches on - for good - whenever some logger is given the level Debug
Gate(dbg, L, r) == Admit(L, r, dbg, TreatInit)

-----------------------------------------------------------------------------
(* the underlying logger and the handlers *)

FmtOf(o) == IF o.json THEN "json" ELSE IF o.nocolor THEN "logfmt" ELSE "color"

\* NewSlogHandler(logger at level L, options o): the logger afterwards
AdaptedLogger(L, o) == [level |-> IF o.level # Panic THEN o.level ELSE L, fmt |-> FmtOf(o)]

RootHandler(lgr) == [lg |-> [level |-> lgr.level, fmt |-> lgr.fmt, dest |-> "cfg"], pre |-> <<>>, added |-> <<>>]

\* the handler the pinned library returns from WithAttrs/WithGroup: a fresh detached logger in
\* its factory configuration writing to the package's default destination, nothing remembered
FreshHandler == [lg |-> [level |-> PkgLevel, fmt |-> "color", dest |-> "default"], pre |-> <<>>, added |-> <<>>]

Qualify(pre, leaves) ==
    [i \in 1..Len(leaves) |-> [p |-> pre \o leaves[i].p, k |-> leaves[i].k, v |-> leaves[i].v, q |-> Len(pre)]]

WithAttrsI(h, as) == [h EXCEPT !.added = @ \o Qualify(h.pre, as)]
WithGroupI(h, g) == [h EXCEPT !.pre = Append(@, g)]

\* allowed successors of a derivation (the second disjunct only when the deviation is enabled)
DeriveSet(ideal) == {ideal} \cup (IF "DerivedFresh" \in Deviations THEN {FreshHandler} ELSE {})

-----------------------------------------------------------------------------
(* what a handler does with a record *)

\* Handler.Enabled(v): fixed for the four standard levels, unconstrained otherwise
EnabledSet(h, v, dbg) == IF v \in Std THEN {Gate(dbg, h.lg.level, Namesake(v))} ELSE BOOLEAN

\* the one record Handle emits, once the severity sev \in MapLevel(v) is fixed:
\* t = time id of the record (0 = "taken by log/slog.Logger during the call"), m = message bytes
Canon(h, sev, sh, t, m) ==
    [dest |-> h.lg.dest, fmt |-> h.lg.fmt, sev |-> sev, msg |-> m, t |-> t,
     given |-> h.added, rec |-> Qualify(h.pre, RecShapes[sh])]

\* destination class of a record: the logger routes by severity (error device or not)
WriterOf(dest, sev) ==
    IF dest = "cfg" THEN (IF ErrClass(sev, ErrDevInit) THEN 2 ELSE 1)
    ELSE (IF ErrClass(sev, ErrDevInit) THEN -2 ELSE -1)

-----------------------------------------------------------------------------
(* declarative side: what the history of derivations promises *)

RECURSIVE OpenGroups(_)
OpenGroups(hist) ==
    IF hist = <<>> THEN <<>>
    ELSE LET r == OpenGroups(Front(hist)) l == Last(hist)
         IN IF l.op = "group" THEN Append(r, l.g) ELSE r

\* every attribute given by a WithAttrs step, under the groups opened before that step
GivenBy(hist) ==
    UNION {{[p |-> OpenGroups(SubSeq(hist, 1, i - 1)) \o DerivShapes[hist[i].a][j].p,
             k |-> DerivShapes[hist[i].a][j].k, v |-> DerivShapes[hist[i].a][j].v,
             q |-> Len(OpenGroups(SubSeq(hist, 1, i - 1)))] : j \in 1..Len(DerivShapes[hist[i].a])}
           : i \in {x \in 1..Len(hist) : hist[x].op = "attrs"}}

-----------------------------------------------------------------------------
(* the std-log bridge *)

\* log.Logger (no prefix, no flags) hands the message to its writer with exactly one '\n' appended
\* unless it already ends in one
StdLogBytes(m) == IF m = <<>> \/ Last(m) # NL THEN Append(m, NL) ELSE m

\* the record's message: the written bytes minus ONE trailing newline
BridgeMsg(b) == IF b # <<>> /\ Last(b) = NL THEN Front(b) ELSE b

BridgeEmitSet(dbg, L, sev) ==
    {Gate(dbg, L, sev)} \cup (IF "BridgeInverted" \in Deviations THEN {sev >= L} ELSE {})

FirstLine(m) ==
    LET nls == {i \in 1..Len(m) : m[i] = NL}
    IN IF nls = {} THEN m ELSE SubSeq(m, 1, Min(nls) - 1)

Blank(m) == \A i \in 1..Len(m) : m[i] = NL

-----------------------------------------------------------------------------
(* exhaustive specification *)

NoBridge == [sev |-> 0]

InitState == [phase |-> "init", lg |-> [level |-> PkgLevel, fmt |-> "color"], caller |-> FALSE, dbg |-> FALSE,
              hs |-> <<>>, br |-> NoBridge]

Entry(s, hist, parent) == [s |-> s, hist |-> hist, parent |-> parent]

NewHandlerStep(s, L, oi) ==
    LET lgr == AdaptedLogger(L, Opts[oi])
    IN [s EXCEPT !.phase = "handler", !.lg = lgr, !.caller = ~Opts[oi].nosource,
                 !.dbg = s.dbg \/ L = Debug \/ Opts[oi].level = Debug,
                 !.hs = <<Entry(RootHandler(lgr), <<>>, 0)>>]

AttrStep(a) == [op |-> "attrs", a |-> a, g |-> ""]
GroupStep(g) == [op |-> "group", a |-> 0, g |-> g]

DeriveSteps(s, h, step) ==
    LET ideal == IF step.op = "attrs" THEN WithAttrsI(s.hs[h].s, DerivShapes[step.a])
                 ELSE WithGroupI(s.hs[h].s, step.g)
    IN {[s EXCEPT !.hs = Append(@, Entry(n, Append(s.hs[h].hist, step), h))] : n \in DeriveSet(ideal)}

CanDerive(s, h) ==
    /\ s.phase = "handler" /\ h \in 1..Len(s.hs) /\ Len(s.hs) < MaxHandlers
    /\ (DeriveFromAny \/ h = Len(s.hs))

NewHandler(ri) == st.phase = "init" /\ st' = NewHandlerStep(st, Roots[ri].L, Roots[ri].oi)
WithAttrs(h, a) == CanDerive(st, h) /\ st' \in DeriveSteps(st, h, AttrStep(a))
WithGroup(h, g) == CanDerive(st, h) /\ st' \in DeriveSteps(st, h, GroupStep(g))
\* probes: they never change the state; the edges exist so that every probe is replayed from
\* every state of the graph
Probed(s, h) == s.phase = "handler" /\ h \in 1..Len(s.hs) /\ (ProbeAll \/ h = Len(s.hs))
Enabled(h, v) == Probed(st, h) /\ UNCHANGED st
Handle(h, ci) == Probed(st, h) /\ UNCHANGED st
\* Entry.Log concerns the adapted logger only: probed once, right after NewSlogHandler
EntryLog(v) == st.phase = "handler" /\ Len(st.hs) = 1 /\ UNCHANGED st
NewBridgeStep(s, L, sev, f) == [s EXCEPT !.phase = "bridge", !.lg = [level |-> L, fmt |-> f], !.br = [sev |-> sev],
                                          !.dbg = s.dbg \/ L = Debug]
NewBridge(bi) == st.phase = "init" /\ st' = NewBridgeStep(st, BridgeCfgs[bi].L, BridgeCfgs[bi].sev, BridgeCfgs[bi].f)
BridgeWrite(mi) == st.phase = "bridge" /\ UNCHANGED st
BridgePrint(mi) == st.phase = "bridge" /\ UNCHANGED st

Next ==
    \/ \E ri \in DOMAIN Roots : NewHandler(ri)
    \/ \E h \in 1..MaxHandlers, a \in DOMAIN DerivShapes : WithAttrs(h, a)
    \/ \E h \in 1..MaxHandlers, g \in GroupNames : WithGroup(h, g)
    \/ \E h \in 1..MaxHandlers, v \in SlogLevels : Enabled(h, v)
    \/ \E h \in 1..MaxHandlers, ci \in DOMAIN HandleCells : Handle(h, ci)
    \/ \E v \in SlogLevels : EntryLog(v)
    \/ \E bi \in DOMAIN BridgeCfgs : NewBridge(bi)
    \/ \E mi \in DOMAIN BMsgs : BridgeWrite(mi)
    \/ \E mi \in DOMAIN BMsgs : BridgePrint(mi)

Init == st = InitState
Spec == Init /\ [][Next]_st

DumpAlias == [n |-> Len(st.hs)]

-----------------------------------------------------------------------------
(* Invariants: the property, evaluated in every reachable state for ALL probe arguments *)

Handlers == 1..Len(st.hs)
RootCfg == [level |-> st.lg.level, fmt |-> st.lg.fmt, dest |-> "cfg"]

TypeOK ==
    /\ st.phase \in {"init", "handler", "bridge"}
    /\ st.lg.fmt \in {"json", "logfmt", "color"}
    /\ Len(st.hs) <= MaxHandlers
    /\ st.phase = "handler" <=> Len(st.hs) >= 1
    /\ \A h \in Handlers : st.hs[h].parent \in 0..(h - 1) /\ (st.hs[h].parent = 0 <=> h = 1)

\* "handlers derived with WithAttrs/WithGroup keep the destination, format and level"
KeepsConfig == \A h \in Handlers : st.hs[h].s.lg = RootCfg

\* "... and add what was given": the step-by-step mechanism state carries exactly the attributes
\* the derivation history promises, each under the groups open when it was given
AddsGiven == \A h \in Handlers : ToSet(st.hs[h].s.added) = GivenBy(st.hs[h].hist)
                                  /\ st.hs[h].s.pre = OpenGroups(st.hs[h].hist)

\* "emitted once ... with the same message, the record's own time, all its attributes"
RecordComplete ==
    \A h \in Handlers :
        LET hs == st.hs[h].s
            og == OpenGroups(st.hs[h].hist)
            gb == GivenBy(st.hs[h].hist)
        IN \* all attributes of the record, under the open groups, kinds and values untouched
           /\ \A sh \in DOMAIN RecShapes :
                  LET r == Canon(hs, Info, sh, 1, HMsgs[1])
                  IN /\ Len(r.rec) = Len(RecShapes[sh])
                     /\ \A x \in 1..Len(r.rec) :
                            /\ r.rec[x].p = og \o RecShapes[sh][x].p
                            /\ r.rec[x].k = RecShapes[sh][x].k /\ r.rec[x].v = RecShapes[sh][x].v
                     /\ ToSet(r.given) = gb
           \* message, time, severity as given; destination and format of the set-up
           /\ \A v \in SlogLevels, t \in {0, 1}, mi \in DOMAIN HMsgs : \A sev \in MapLevel(v) :
                  LET r == Canon(hs, sev, 1, t, HMsgs[mi])
                  IN r.msg = HMsgs[mi] /\ r.t = t /\ r.sev = sev /\ r.dest = "cfg" /\ r.fmt = st.lg.fmt

\* "the namesake severity for Debug/Info/Warn/Error"
StdNamesake ==
    st.phase = "handler" =>
        /\ MapLevel(-4) = {Debug} /\ MapLevel(0) = {Info} /\ MapLevel(4) = {Warn} /\ MapLevel(8) = {Error}
        /\ \A v \in Std : EntryLogSevs(v) = {Namesake(v)}

\* "for which the handler's Enabled answers exactly as the underlying logger's gating does"
EnabledAgrees == \A h \in Handlers, v \in Std : EnabledSet(st.hs[h].s, v, st.dbg) = {Gate(st.dbg, st.lg.level, Namesake(v))}

\* "no level other than the explicit Fatal/Panic constants maps to a terminating severity"
NoTerminating ==
    st.phase = "handler" => \A v \in SlogLevels \ Explicit : \A r \in MapLevel(v) \cup EntryLogSevs(v) : ~Terminating(r)

\* "as one record at the bridge's severity exactly when the logger admits that severity"
BridgeGate == st.phase = "bridge" => BridgeEmitSet(st.dbg, st.lg.level, st.br.sev) = {Gate(st.dbg, st.lg.level, st.br.sev)}

\* "each message, minus its trailing newline": from the std-log user's point of view
BridgeMsgInv ==
    st.phase = "bridge" => \A mi \in DOMAIN BMsgs :
        LET m == BMsgs[mi] b == StdLogBytes(m) r == BridgeMsg(b)
        IN /\ Append(r, NL) = b                                  \* exactly one newline removed
           /\ r = (IF m # <<>> /\ Last(m) = NL THEN Front(m) ELSE m)
           /\ BridgeMsg(m) \in {m, Front(m)}                     \* direct Write: at most one removed
           /\ Len(m) - Len(BridgeMsg(m)) \in {0, 1}
=============================================================================
