----------------------------- MODULE CallerHist -----------------------------
(* C14, history component - skip counts are decided over HISTORIES of logger configuration.

   Caller.tla decides the attribution of one record of one freshly configured logger (a table).
   This module is the machine around it: several loggers live at the same time, are derived from
   one another and are given skip counts in any order; the property demands that a record issued
   through a logger is attributed to "the frame skip[l] levels above the call statement", where
   skip[l] is the count that was last GIVEN TO THAT LOGGER - whatever happened to its parent, its
   children, its siblings or the default logger in between.

   LOGGERS are numbered in the order in which the program obtained them (1 = a detached root
   installed with SetDefault, 2 = a second detached root; every WithSkip / New / With... call
   yields the next number).  The number is the user's HANDLE; two handles may denote the same
   object only in the one case the library documents ("using same name will pick the exact
   child", New): WithSkip(l, n) may return the child an earlier WithSkip(l, n) WITH THE SAME n on
   the same parent returned - the statement is silent on that, so both outcomes are accepted
   (fresh child / that child again, which then carries n again).  Any other sharing between
   handles is not excused: the model keeps them apart and the observation decides.

   VARIABLES
     hs   the configuration:  n      number of handles
                              obj    handle -> first handle of the same object (itself if fresh)
                              skip   handle -> the skip count the property assigns to it
                              par    handle -> handle it was derived from (0: root)
                              ws     handle -> n of the WithSkip call that made it (-1: otherwise)
                              def    handle installed as the default logger
     ev   the last event (overwritten; not part of the VIEW)

   EVENTS (one named action each, so that TLC labels the edges of the dumped graph)
     WithSkip(l, n)    child of l carrying exactly n; every other logger keeps its count
     PkgWithSkip(n)    slog.WithSkip(n) = WithSkip(default logger, n)
     SetSkip(l, n)     l carries n; nobody else changes
     PkgSetSkip(n)     slog.SetSkip(n) = SetSkip(default logger, n)
     Derive(l, how)    l.New(name) / l.With...(..): a child that was never given a count - its
                       records are attributed to the issuing statement (sentence 1 of C14; the
                       library agrees: newentry never copies extraFrames), whatever l carries
     SetDefault(l)     installs l as the default logger (package-level calls act on it from now on)
     Touch(l, what)    any other configuration call on l (level, format, attributes, front ends)
     Emit(l, f, d)     a record through l, entry-point family f, d wrappers around the issuing
                       statement; ev.frame is the frame the library model (Caller!AttrD) reports

   PROPERTY (C14 over histories), checked by TLC on every transition (action properties)
     EmitAtSkip        Emit(l, ..) is attributed to user frame skip[l]
     WithIsolates      a With/New call changes no logger's count except the one it returns, and
                       that one carries exactly n (0 for New/With...)
     SetIsLocal        SetSkip changes the receiver only (and the handles of the same object)
     NeutralOps        SetDefault / Touch / Emit change no count
     PkgOnDefault      the package-level forms act on the default logger
   and the state invariants HTypeOK, AliasesAgree.

   The machine below follows the library's documented choice (CodeAlias: the same-n child is
   picked again); With(h, l, n, a) is the step for ANY reported identity a, which the trace
   specification CallerHistTrace uses to follow what the real library returned.

   NAMED DEVIATION (witness only, HDevs): "SkipChildByParentOnly" - the WithSkip child is looked
   up by its parent alone, so WithSkip(l, 2) after WithSkip(l, 1) re-uses and overwrites the
   first child; WithIsolates must fail with it (non-vacuity).                                   *)
EXTENDS Integers, Sequences, FiniteSets, TLC, Json

CONSTANTS MaxDepthInl, MaxDepthNo, AllOthers, Devs,   \* parameters of Caller (the stack model)
          HMaxLoggers,    \* bound on handles in one history
          HSkips,         \* skip counts that are given
          HHows,          \* ways of deriving a plain child ("New", "With", ...)
          HTouches,       \* other configuration calls
          HFams,          \* entry-point families used by Emit
          HMaxDepth,      \* deepest wrapper chain of Emit
          HDevs           \* enabled deviations of this machine (witness runs)

VARIABLES hs, ev

hvars == <<hs, ev>>

(* the stack model of one record; its own enumeration variables are not used here *)
C == INSTANCE Caller WITH cell <- 0, phase <- "hist", LineSites <- {}

HIds == 1..HMaxLoggers
PkgFams == {"pkgverb", "pkgctx"}
HEPs == C!EPs                   \* (a constant of THIS module: TLC evaluates it once)

-----------------------------------------------------------------------------
(* Configuration *)

H0 == [n |-> 2, obj |-> <<1, 2>>, skip |-> <<0, 0>>, par |-> <<0, 0>>, ws |-> <<-1, -1>>, def |-> 1]

Live(h) == 1..h.n

ParObj(h, x) == IF h.par[x] = 0 THEN 0 ELSE h.obj[h.par[x]]

(* handles an earlier WithSkip(l, n) with the same n returned *)
WsHit(h, l, n) == {x \in Live(h) : ParObj(h, x) = h.obj[l] /\ h.ws[x] = n}
(* ... and under the deviation: any WithSkip child of l *)
WsHitDev(h, l, n) == {x \in Live(h) : ParObj(h, x) = h.obj[l] /\ h.ws[x] >= 0}

SetMin(S) == CHOOSE x \in S : \A y \in S : x <= y

(* every handle of l's object carries n afterwards *)
Give(h, l, n) == [h EXCEPT !.skip = [x \in DOMAIN h.skip |-> IF h.obj[x] = h.obj[l] THEN n ELSE h.skip[x]]]

Push(h, o, s, p, w) == [h EXCEPT !.n = h.n + 1, !.obj = Append(h.obj, IF o = 0 THEN h.n + 1 ELSE o),
                                 !.skip = Append(h.skip, s), !.par = Append(h.par, p), !.ws = Append(h.ws, w)]

(* WithSkip(l, n) returned an object that handle a already denotes (a = 0: a fresh object).
   Excused sharing: a denotes a child that WithSkip(l, n) returned before. *)
Excused(h, l, n, a) == a \in Live(h) /\ \E x \in WsHit(h, l, n) : h.obj[x] = h.obj[a]
With(h, l, n, a) == IF Excused(h, l, n, a)
                    THEN Give(Push(h, h.obj[a], n, l, n), h.n + 1, n)
                    ELSE Push(h, 0, n, l, n)

(* the choice the library documents *)
CodeAlias(h, l, n) == IF WsHit(h, l, n) = {} THEN 0 ELSE SetMin(WsHit(h, l, n))

(* the named deviation: the child is re-used whatever n it was made with *)
WithDev(h, l, n) == IF WsHitDev(h, l, n) = {} THEN Push(h, 0, n, l, n)
                    ELSE LET a == SetMin(WsHitDev(h, l, n)) IN Give(Push(h, h.obj[a], n, l, n), h.n + 1, n)

Plain(h, l) == Push(h, 0, 0, l, -1)              \* New / With...: never given a count

-----------------------------------------------------------------------------
(* Emission: the frame the library model reports for a record through l *)

(* (the history worker reaches the two front-end families through methods of the front end's own logger;
   which one does not matter - Caller!RouteIndependent - so one stands for all) *)
HistEP(f) == CASE f = "bridge" -> "stdlog.Print" [] f = "adapter" -> "logslog.Info" [] OTHER -> ""
AttrH(h, l, f, d) == C!AttrD([fam |-> f, ep |-> HistEP(f), route |-> "direct", depth |-> d, via |-> "Set", skip |-> h.skip[l],
                              other |-> h.skip[l]], {})

EmitGuard(h, l, f, d) == /\ l \in Live(h) /\ f \in HFams
                         /\ f \in PkgFams => h.obj[l] = h.obj[h.def]     \* package-level functions: default logger
                         /\ d \in h.skip[l]..HMaxDepth                   \* the attributed frame is in the chain

-----------------------------------------------------------------------------
(* Events *)

NoEv == [op |-> "Init", l |-> 0, n |-> 0, how |-> "", fam |-> "", d |-> 0, frame |-> C!NoFrame]
EvOf(op, l, n, how) == [NoEv EXCEPT !.op = op, !.l = l, !.n = n, !.how = how]

(* (each event is written out under its own name: TLC labels the edges of the dumped graph with
   the innermost named action whose arguments are constants) *)
WithStep(h, l, n) == IF "SkipChildByParentOnly" \in HDevs THEN WithDev(h, l, n)
                     ELSE With(h, l, n, CodeAlias(h, l, n))

WithSkip(l, n) == /\ l \in Live(hs) /\ hs.n < HMaxLoggers
                  /\ hs' = WithStep(hs, l, n)
                  /\ ev' = EvOf("WithSkip", l, n, "")
PkgWithSkip(n) == /\ hs.n < HMaxLoggers
                  /\ hs' = WithStep(hs, hs.def, n)
                  /\ ev' = EvOf("PkgWithSkip", hs.def, n, "")
SetSkip(l, n) == /\ l \in Live(hs)
                 /\ hs' = Give(hs, l, n)
                 /\ ev' = EvOf("SetSkip", l, n, "")
PkgSetSkip(n) == /\ hs' = Give(hs, hs.def, n)
                 /\ ev' = EvOf("PkgSetSkip", hs.def, n, "")
Derive(l, w) == /\ l \in Live(hs) /\ hs.n < HMaxLoggers
                /\ hs' = Plain(hs, l)
                /\ ev' = EvOf("Derive", l, 0, w)
SetDefault(l) == /\ l \in Live(hs)
                 /\ hs' = [hs EXCEPT !.def = l]
                 /\ ev' = EvOf("SetDefault", l, 0, "")
Touch(l, t) == /\ l \in Live(hs)
               /\ UNCHANGED hs
               /\ ev' = EvOf("Touch", l, 0, t)
Emit(l, f, d) == /\ EmitGuard(hs, l, f, d)
                 /\ UNCHANGED hs
                 /\ ev' = [NoEv EXCEPT !.op = "Emit", !.l = l, !.fam = f, !.d = d, !.frame = AttrH(hs, l, f, d)]

HInit == hs = H0 /\ ev = NoEv

HNext == \/ \E l \in HIds, n \in HSkips : WithSkip(l, n)
         \/ \E n \in HSkips : PkgWithSkip(n)
         \/ \E l \in HIds, n \in HSkips : SetSkip(l, n)
         \/ \E n \in HSkips : PkgSetSkip(n)
         \/ \E l \in HIds, w \in HHows : Derive(l, w)
         \/ \E l \in HIds : SetDefault(l)
         \/ \E l \in HIds, t \in HTouches : Touch(l, t)
         \/ \E l \in HIds, f \in HFams, d \in 0..HMaxDepth : Emit(l, f, d)

HSpec == HInit /\ [][HNext]_hvars

HView == hs                       \* ev is an observation, it must not multiply states
HDumpAlias == [n |-> hs.n]        \* node labels of the dumped graph (only the edges are used)

-----------------------------------------------------------------------------
(* The property *)

HStateOK(h) ==
    /\ h.n \in 2..HMaxLoggers /\ h.def \in Live(h)
    /\ Len(h.obj) = h.n /\ Len(h.skip) = h.n /\ Len(h.par) = h.n /\ Len(h.ws) = h.n
    /\ \A x \in Live(h) : /\ h.obj[x] \in 1..x /\ h.obj[h.obj[x]] = h.obj[x]
                          /\ h.skip[x] \in HSkips \cup {0}
                          /\ h.par[x] \in 0..(x - 1)
                          /\ h.ws[x] \in HSkips \cup {-1}
                          /\ (h.ws[x] >= 0 => h.par[x] # 0)
HTypeOK == HStateOK(hs)

(* handles of one object cannot be told apart by their attribution *)
AliasesAgree == \A a, b \in Live(hs) : hs.obj[a] = hs.obj[b] => hs.skip[a] = hs.skip[b]

(* only the documented sharing exists: an alias is a WithSkip child of the same parent and n *)
OnlyExcusedSharing == \A a \in Live(hs) : hs.obj[a] # a =>
    /\ hs.ws[a] >= 0 /\ hs.ws[hs.obj[a]] = hs.ws[a] /\ ParObj(hs, a) = ParObj(hs, hs.obj[a])

IsWith == ev'.op \in {"WithSkip", "PkgWithSkip", "Derive"}
IsSet == ev'.op \in {"SetSkip", "PkgSetSkip"}

WithIsolates == [][IsWith =>
    /\ hs'.n = hs.n + 1
    /\ hs'.skip[hs'.n] = ev'.n                                     \* the returned logger carries exactly n
    /\ \A x \in Live(hs) : hs'.obj[x] # hs'.obj[hs'.n] => hs'.skip[x] = hs.skip[x]
    /\ \A x \in Live(hs) : hs'.obj[x] = hs'.obj[hs'.n] =>          \* returned again: only the excused case
            ev'.op # "Derive" /\ hs.ws[x] = ev'.n /\ ParObj(hs, x) = hs.obj[ev'.l]]_hvars

SetIsLocal == [][IsSet =>
    /\ hs'.n = hs.n /\ hs'.skip[ev'.l] = ev'.n
    /\ \A x \in Live(hs) : hs.obj[x] # hs.obj[ev'.l] => hs'.skip[x] = hs.skip[x]]_hvars

NeutralOps == [][ev'.op \in {"SetDefault", "Touch", "Emit"} => hs'.skip = hs.skip /\ hs'.n = hs.n]_hvars

PkgOnDefault == [][ev'.op \in {"PkgWithSkip", "PkgSetSkip"} => ev'.l = hs.def /\ hs'.def = hs.def]_hvars

EmitAtSkip == [][ev'.op = "Emit" => ev'.frame = C!UserFrame(hs.skip[ev'.l])]_hvars
=============================================================================
