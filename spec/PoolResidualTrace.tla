------------------------ MODULE PoolResidualTrace ------------------------
(* Trace validation for C09: every line is one experiment on the real library - a history of
   record classes, then a probe; `same` says whether the probe's bytes equal the bytes the same
   probe produces on a fresh pool.  The model replays the history through After() and predicts
   whether the probe can see anything of it.  `env` is the process environment the worker found
   itself in ("flat" | "nested": $HOME and the start directory nested above the probes' call site);
   the reference bytes come from another process in the SAME environment, so where the model says
   the call has one observation (FileForms) the bytes must agree there too.                       *)
EXTENDS PoolResidual, Json, SequencesExt

CONSTANT TraceFile
VARIABLES i, bad, reusedCount

TLog == ndJsonDeserialize(TraceFile)

\* worker record id -> class:  id = fmt*1000 + sev*100 + shape
FmtOf(id) == CASE (id \div 1000) % 3 = 0 -> "logfmt" [] (id \div 1000) % 3 = 1 -> "json" [] OTHER -> "color"
ColOf(id) == LET sv == (id \div 100) % 10 IN
             CASE sv = 4 -> "fg" [] sv = 5 -> "fgbg" [] sv = 6 -> "none" [] OTHER -> "fgbg"
ClassOf(id) == [fmt |-> FmtOf(id), col |-> ColOf(id), ml |-> (id % 100 = 1), ga |-> (id % 100 \in {2, 6, 13})]

RECURSIVE Replay(_, _)
Replay(r, h) == IF h = <<>> THEN r ELSE Replay(After(r, ClassOf(Head(h))), Tail(h))

TInit == res = Fresh /\ hist = <<>> /\ env = "flat" /\ i = 1 /\ bad = {} /\ reusedCount = 0
TNext ==
    /\ i <= Len(TLog)
    /\ i' = i + 1
    /\ LET e == TLog[i]
           r == Replay(Fresh, e.history)
           ev == IF "env" \in DOMAIN e THEN e.env ELSE "flat"
           indep == /\ Obs(r, ClassOf(e.probe), ev) = Obs(Fresh, ClassOf(e.probe), ev)
                    /\ Cardinality(Obs(r, ClassOf(e.probe), ev)) = 1
       IN /\ res' = r /\ hist' = <<>> /\ env' = ev
          /\ reusedCount' = reusedCount + (IF e.reused THEN 1 ELSE 0)
          \* the model (for the tree's ResetBySet) says the probe cannot see the history: bytes must agree
          /\ bad' = IF indep /\ ~e.same THEN bad \cup {[line |-> i, b |-> e.b, env |-> ev]} ELSE bad
TSpec == TInit /\ [][TNext]_<<res, hist, env, i, bad, reusedCount>>
Done == i <= Len(TLog) \/ PrintT("@@bad " \o ToJson([bad |-> SetToSeq(bad), reused |-> reusedCount])) \/ TRUE
=============================================================================
